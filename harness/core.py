"""Core of the verification harness.

One check run = (1) build the Lean obligations of the property and audit their axioms,
(2) regenerate extracted kernels from /repo where the property has any, (3) replay the
corpus, (4) run the correspondence campaign (real pysparkling in-process vs the Lean model
through the line-protocol driver), (5) on any break: search / shrink / write a replay,
(6) match known findings, write evidence, exit 0 / 1 (2 = harness error).
"""
import hashlib
import json
import os
import random
import re
import signal
import subprocess
import sys
import time
import traceback

VERIF = os.path.dirname(os.path.dirname(os.path.abspath(__file__)))
LEAN = os.path.join(VERIF, 'lean')
REPO = os.environ.get('VERIF_REPO', '/repo')
ALLOWED_AXIOMS = {'propext', 'Classical.choice', 'Quot.sound'}
FORBIDDEN = re.compile(r'\bsorry\b|\badmit\b|^axiom\s|\bnative_decide\b|\bbv_decide\b|'
                       r'implemented_by|\bunsafe\s|maxHeartbeats\s+0\b', re.M)

TRUSTED_COMMON = [
    "Lean 4.33.0 kernel; axioms allowed: propext, Classical.choice, Quot.sound (audited by #print axioms on every obligation)",
    "hand-written Lean models (PysparklingVerif/Model/*): modelled, not verified; tied to /repo by the correspondence campaign of this run",
    "harness: generators, canonicalisation, comparison, JSON line protocol (harness/*.py, lean/Driver/*)",
    "CPython evaluation order / generator laziness, stdlib (json, pickle, codecs, fnmatch, os.walk, random) as runtime facts",
]


class HarnessError(Exception):
    pass


class CaseTimeout(BaseException):     # not an Exception: neither the library's retry loop nor a comparison may swallow it
    pass


def stable_hash(*parts):
    h = hashlib.sha256(repr(parts).encode()).digest()
    return int.from_bytes(h[:8], 'big')


def case_rng(seed, prop, index):
    """Every random choice of case `index` derives from (seed, property, index)."""
    return random.Random(stable_hash(seed, prop, index))


def canon(obj):
    return json.dumps(obj, sort_keys=True, separators=(',', ':'), default=repr)


# --------------------------------------------------------------------------------------
# Lean side
# --------------------------------------------------------------------------------------

def sh(cmd, cwd=None, timeout=3600, env=None):
    p = subprocess.run(cmd, cwd=cwd, stdout=subprocess.PIPE, stderr=subprocess.STDOUT,
                       text=True, timeout=timeout, env=env)
    return p.returncode, p.stdout


def strip_lean_comments(src):
    out = []
    i, depth, n = 0, 0, len(src)
    while i < n:
        if src.startswith('/-', i):
            depth += 1
            i += 2
        elif depth and src.startswith('-/', i):
            depth -= 1
            i += 2
        elif depth:
            if src[i] == '\n':
                out.append('\n')
            i += 1
        elif src.startswith('--', i):
            while i < n and src[i] != '\n':
                i += 1
        else:
            out.append(src[i])
            i += 1
    return ''.join(out)


def obligations_of(prop_id):
    """`-- OBLIGATION: name` markers of Properties/<id>.lean (fully qualified names)."""
    path = os.path.join(LEAN, 'PysparklingVerif', 'Properties', prop_id + '.lean')
    names = []
    if not os.path.exists(path):
        return names
    for line in open(path, encoding='utf-8'):
        m = re.match(r'\s*--\s*OBLIGATION:\s*(\S+)', line)
        if m:
            names.append(m.group(1))
    return names


def obligations_of_module(module):
    """`-- OBLIGATION:` markers of an arbitrary project module (used for Extracted/Equiv*.lean)."""
    path = os.path.join(LEAN, *module.split('.')) + '.lean'
    names = []
    if os.path.exists(path):
        for line in open(path, encoding='utf-8'):
            m = re.match(r'\s*--\s*OBLIGATION:\s*(\S+)', line)
            if m:
                names.append(m.group(1))
    return names


def import_closure(roots):
    """Project-local modules reachable from the given module names (textual `import` scan)."""
    seen, todo = set(), list(roots)
    while todo:
        m = todo.pop()
        if m in seen:
            continue
        path = os.path.join(LEAN, *m.split('.')) + '.lean'
        if not os.path.exists(path):
            continue
        seen.add(m)
        for line in open(path, encoding='utf-8'):
            mm = re.match(r'\s*import\s+((?:PysparklingVerif|Driver)\.[\w.]+)', line)
            if mm:
                todo.append(mm.group(1))
    return sorted(seen)


def forbidden_scan(modules):
    hits = []
    for m in import_closure(modules):
        p = os.path.join(LEAN, *m.split('.')) + '.lean'
        code = strip_lean_comments(open(p, encoding='utf-8').read())
        for mt in FORBIDDEN.finditer(code):
            line = code.count('\n', 0, mt.start()) + 1
            hits.append('%s:%d:%s' % (os.path.relpath(p, LEAN), line, mt.group(0).strip()))
    return hits


class LeanResult:
    def __init__(self):
        self.obligations = []      # names
        self.discharged = []       # names that compiled and passed the axiom audit
        self.failed = {}           # name -> reason
        self.build_ok = True
        self.build_log = ''
        self.cmds = []
        self.axioms = {}           # name -> list
        self.driver_ok = True


def lean_build_and_audit(prop_id, extra_targets=(), leanchecker=False):
    res = LeanResult()
    res.obligations = obligations_of(prop_id)
    for t in extra_targets:
        if t.startswith('PysparklingVerif.'):
            res.obligations = res.obligations + obligations_of_module(t)
    target = 'PysparklingVerif.Properties.' + prop_id
    cmd = ['lake', 'build', target, 'driver'] + list(extra_targets)
    res.cmds.append('cd lean && ' + ' '.join(cmd))
    rc, out = sh(cmd, cwd=LEAN)
    res.build_log = out
    if rc != 0:
        res.build_ok = False
        # is the driver still fine?  (needed for the failing-input search)
        rc2, _ = sh(['lake', 'build', 'driver'], cwd=LEAN)
        res.driver_ok = rc2 == 0
        for n in res.obligations:
            res.failed[n] = 'build failed'
        return res
    hits = forbidden_scan([target, 'Driver.Main'] + [t for t in extra_targets if t.startswith('PysparklingVerif.')])
    if hits:
        res.build_ok = False
        for n in res.obligations:
            res.failed[n] = 'forbidden construct: ' + '; '.join(hits[:5])
        return res
    audit_dir = os.path.join(LEAN, '.lake', 'audit')
    os.makedirs(audit_dir, exist_ok=True)
    audit = os.path.join(audit_dir, 'Audit_%s.lean' % prop_id)
    with open(audit, 'w') as f:
        f.write('import %s\n' % target)
        for t in extra_targets:
            if t.startswith('PysparklingVerif.'):
                f.write('import %s\n' % t)
        for n in res.obligations:
            f.write('#print axioms %s\n' % n)
    res.cmds.append('cd lean && lake env lean .lake/audit/Audit_%s.lean   # #print axioms of every obligation' % prop_id)
    rc, out = sh(['lake', 'env', 'lean', audit], cwd=LEAN)
    cur = None
    text = out.replace('\n  ', ' ').replace('\n ', ' ')
    for line in text.splitlines():
        m = re.match(r"'([^']+)' depends on axioms: \[(.*)\]", line)
        if m:
            res.axioms[m.group(1)] = [a.strip() for a in m.group(2).split(',') if a.strip()]
            continue
        m = re.match(r"'([^']+)' does not depend on any axioms", line)
        if m:
            res.axioms[m.group(1)] = []
    for n in res.obligations:
        if n not in res.axioms:
            res.failed[n] = 'not found by #print axioms: ' + out[-300:]
        elif not set(res.axioms[n]) <= ALLOWED_AXIOMS:
            res.failed[n] = 'axioms: ' + ','.join(res.axioms[n])
        else:
            res.discharged.append(n)
    if leanchecker and not res.failed:
        mods = [target] + [t for t in extra_targets if t.startswith('PysparklingVerif.')]
        cmd = ['lake', 'env', 'leanchecker'] + mods
        res.cmds.append('cd lean && ' + ' '.join(cmd))
        rc, out = sh(cmd, cwd=LEAN, timeout=3600)
        if rc != 0 and 'object file' in out and 'does not exist' in out:
            # a compiled module vanished between the build and the re-check: a broken run, not a finding
            raise HarnessError('leanchecker could not read a module that was just built: ' + out[-400:])
        if rc != 0:
            for n in res.obligations:
                res.failed[n] = 'leanchecker: ' + out[-300:]
            res.discharged = []
    return res


class Driver:
    """Persistent model driver (native executable; falls back to the interpreter)."""

    def __init__(self):
        exe = os.path.join(LEAN, '.lake', 'build', 'bin', 'driver')
        if os.path.exists(exe) and not os.environ.get('VERIF_DRIVER_INTERP'):
            cmd = [exe]
        else:
            cmd = ['lake', 'env', 'lean', '--run', 'Driver/Main.lean']
        self.cmd = cmd
        self.p = subprocess.Popen(cmd, cwd=LEAN, stdin=subprocess.PIPE, stdout=subprocess.PIPE,
                                  text=True, bufsize=1)
        self.calls = 0

    def ask(self, req):
        self.calls += 1
        line = json.dumps(req, separators=(',', ':'))
        try:
            self.p.stdin.write(line + '\n')
            self.p.stdin.flush()
            out = self.p.stdout.readline()
        except BrokenPipeError:
            out = ''
        if not out:
            raise HarnessError('model driver died on request ' + line[:300])
        try:
            resp = json.loads(out)
        except RecursionError:
            # CPython's C-level recursion limit (independent of sys.setrecursionlimit since 3.12): the answer nests
            # deeper than the json module can decode (a fold that nests its accumulator once per partition)
            raise TooDeep()
        if isinstance(resp, dict) and resp.get('error') is not None:
            raise HarnessError('driver refused %s: %s' % (line[:300], out.strip()[:300]))
        return resp

    def ask_many(self, reqs):
        return [self.ask(r) for r in reqs]

    def close(self):
        try:
            self.p.stdin.close()
            self.p.wait(timeout=5)
        except Exception:  # pylint: disable=broad-except
            self.p.kill()


# --------------------------------------------------------------------------------------
# Property base class
# --------------------------------------------------------------------------------------

class TooDeep(Exception):
    pass


class Mismatch:
    def __init__(self, what, impl=None, model=None, signature=None, relation='equal'):
        self.what = what
        self.impl = impl
        self.model = model
        self.signature = signature
        self.relation = relation


class Prop:
    id = None
    title = ''
    trusted = ()                # property-specific trusted-base lines
    assumptions = ()
    rule = ''
    quick_cases = 300
    thorough_cases = 5000
    quick_budget_s = 75
    thorough_budget_s = 900
    case_timeout_s = 30

    # -- to override ------------------------------------------------------------------
    def setup(self, ctx):
        """Called once before the campaign (ctx.driver is available)."""

    def teardown(self, ctx):
        pass

    def fixed_cases(self, tier):
        """Deterministic cases (small-domain sweeps, boundary values) run before random ones."""
        return []

    def gen(self, rng, tier):
        """One random case (JSON-able dict) drawn from rng."""
        raise NotImplementedError

    def run_case(self, case, ctx):
        """Run impl + model, return None if they agree on the property's observable,
        else a Mismatch. May record ctx.note(key) for the input-distribution histogram."""
        raise NotImplementedError

    def nontrivial(self, case):
        return True

    def shrink(self, case):
        """Yield strictly smaller variants of case."""
        return []

    def sample_view(self, case):
        """How a case is written into the evidence samples (long item lists are abbreviated)."""
        if isinstance(case, dict) and isinstance(case.get('items'), list) and len(case['items']) > 8:
            return dict(case, items=case['items'][:8], items_total=len(case['items']))
        return case

    extracted = False           # True: harness/extract.py regenerates Extracted/Gen<id>.lean from the current source

    def extract(self, ctx):
        """Regenerate extracted kernels; return dict describing the tie (or None)."""
        if not self.extracted:
            return None
        import extract
        try:
            path, text = extract.generate(self.id, REPO)
        except extract.NotTranslatable as e:
            return {'status': 'lost', 'reason': 'source fragment no longer translatable: %s' % e}
        return {'status': 'ok', 'generated': os.path.relpath(path, VERIF), 'sha1': hashlib.sha1(text.encode()).hexdigest(),
                'equivalence_module': 'PysparklingVerif.Extracted.Equiv' + self.id,
                'obligations': obligations_of_module('PysparklingVerif.Extracted.Equiv' + self.id)}

    @property
    def extra_targets(self):
        return ('PysparklingVerif.Extracted.Equiv' + self.id,) if self.extracted else ()


class Ctx:
    def __init__(self, prop, tier, seed):
        self.prop = prop
        self.tier = tier
        self.seed = seed
        self.driver = None
        self.hist = {}
        self.scratch = None
        self.known_sigs = {}
        self.known_hit = {}

    def is_known(self, signature):
        """For batch cases: a listed known finding is counted and the batch goes on."""
        if signature in self.known_sigs:
            self.known_hit[signature] = self.known_hit.get(signature, 0) + 1
            return True
        return False

    def note(self, key, n=1):
        self.hist[key] = self.hist.get(key, 0) + n


def _alarm(signum, frame):
    raise CaseTimeout()


def guarded_run(prop, case, ctx):
    """run_case under a wall-clock guard; a hang of the implementation is an observable."""
    # a hang of the implementation is an observable - but a stall of the machine is not: the guard counts the CPU time this
    # process burns (an endless loop trips it after `case_timeout_s` seconds of work); the wall clock only catches a case
    # that waits for ever, and is ten times as patient
    signal.signal(signal.SIGPROF, _alarm)
    signal.signal(signal.SIGALRM, _alarm)
    signal.setitimer(signal.ITIMER_PROF, prop.case_timeout_s)
    signal.alarm(10 * prop.case_timeout_s)
    try:
        return prop.run_case(case, ctx)
    except TooDeep:
        ctx.note('skipped:value-nesting-beyond-json-decoder')
        return None
    except CaseTimeout:
        return Mismatch('case did not finish within %ds of CPU time (or ten times that on the wall clock)' % prop.case_timeout_s,
                        impl='Timeout', model=None, signature='timeout')
    except (HarnessError, KeyboardInterrupt):
        raise
    except Exception as e:  # pylint: disable=broad-except
        # the comparison code itself tripped over what the implementation returned (a value of an unexpected kind, an
        # infinity where a number was due, ...): that is a disagreement to report, not a reason to give up the whole run
        ctx.note('uninterpretable:' + type(e).__name__)
        return Mismatch('the check could not interpret what the implementation returned: %r' % (e,),
                        impl=traceback.format_exc()[-1500:], model=None, signature='uninterpretable:' + type(e).__name__,
                        relation='model-only')
    finally:
        signal.setitimer(signal.ITIMER_PROF, 0)
        signal.alarm(0)


def shrink_case(prop, case, ctx, mm, budget_s=20):
    t0 = time.time()
    sig = mm.signature
    improved = True
    while improved and time.time() - t0 < budget_s:
        improved = False
        try:
            cands = list(prop.shrink(case))
        except Exception:  # pylint: disable=broad-except
            break
        for c in cands:
            if time.time() - t0 > budget_s:
                break
            try:
                m2 = guarded_run(prop, c, ctx)
            except HarnessError:
                continue
            except Exception:  # pylint: disable=broad-except
                continue
            if m2 is not None and m2.signature == sig:
                case, mm = c, m2
                improved = True
                break
    return case, mm


def load_known():
    p = os.path.join(VERIF, 'known_findings.json')
    if not os.path.exists(p):
        return {'findings': [], 'fixed': []}
    return json.load(open(p))


def write_replay(prop, seed, n, case, mm, theorem=None, note=None):
    d = os.path.join(VERIF, 'replays')
    os.makedirs(d, exist_ok=True)
    # runs against a scratch copy of the repository (seeded / harmless change experiments) keep their replays apart, so
    # that they never overwrite what a run against /repo itself reported
    foreign = os.path.realpath(REPO) != os.path.realpath('/repo')
    name = '%s-%s-%d.json' % (prop.id, seed, n)
    path = os.path.join(d, ('scratch-%d-' % os.getpid() if foreign else '') + name)
    with open(path, 'w') as f:
        json.dump({'property': prop.id, 'seed': seed, 'case': case, 'repo': REPO,
                   'what': mm.what if mm else None,
                   'impl': mm.impl if mm else None, 'model': mm.model if mm else None,
                   'relation': mm.relation if mm else None,
                   'signature': mm.signature if mm else None,
                   'theorem': theorem, 'note': note}, f, indent=1, default=repr, sort_keys=True)
    return path


def run_check(prop, tier='quick', seed=0, replay=None):
    t0 = time.time()
    ctx = Ctx(prop, tier, seed)
    known = load_known()
    known_sigs = {f['signature']: f for f in known.get('findings', []) if f['property'] == prop.id}
    violations = []          # (path, tail)
    ctx.known_sigs = known_sigs
    known_hit = ctx.known_hit
    import tempfile
    scratch_root = os.environ.get('VERIF_SCRATCH', '/var/tmp')
    ctx.scratch = tempfile.mkdtemp(prefix='pysparkling-verif-%s-' % prop.id, dir=scratch_root)

    # ---- replay mode -----------------------------------------------------------------
    if replay:
        rc, out = sh(['lake', 'build', 'driver'], cwd=LEAN)
        if rc != 0:
            print(out[-2000:])
            raise HarnessError('driver does not build')
        ctx.driver = Driver()
        try:
            prop.setup(ctx)
            r = json.load(open(replay))
            case = r['case']
            if case is None:
                print('replay has no concrete case (theorem %s)' % r.get('theorem'))
                return 1
            mm = guarded_run(prop, case, ctx)
            if mm is None:
                print('replay: case now agrees')
                return 0
            print('replay: %s\n  impl : %s\n  model: %s' % (mm.what, canon(mm.impl)[:2000], canon(mm.model)[:2000]))
            if mm.signature in known_sigs:
                print('KNOWN-FINDING: property=%s %s' % (prop.id, known_sigs[mm.signature]['description']))
                return 0
            print('VIOLATION property=%s replay=%s%s' % (prop.id, replay, ' no-failing-input-found' if mm.relation == 'model-only' else ''))
            return 1
        finally:
            prop.teardown(ctx)
            ctx.driver.close()
            _rm(ctx.scratch)

    # ---- 1. Lean build + audit ---------------------------------------------------------
    ext = None
    foreign = os.path.realpath(REPO) != os.path.realpath('/repo')
    # the generated kernels live in the one Lean project: runs (possibly against different working trees) take turns
    # for regenerate + build + audit; a run against a scratch copy puts the kernels of /repo back before it lets go
    import fcntl
    os.makedirs(os.path.join(LEAN, '.lake'), exist_ok=True)
    lock = open(os.path.join(LEAN, '.lake', 'verif-build.lock'), 'w')
    fcntl.flock(lock, fcntl.LOCK_EX)
    try:
        try:
            ext = prop.extract(ctx)
        except Exception as e:  # pylint: disable=broad-except
            ext = {'status': 'lost', 'reason': 'extractor raised %r' % (e,)}
        extra = list(prop.extra_targets) if (ext and ext.get('status') == 'ok') else []
        lean = lean_build_and_audit(prop.id, extra_targets=extra, leanchecker=(tier == 'thorough'))
        if not lean.build_ok and extra:
            # the extracted kernels may be what broke: retry without them
            lean2 = lean_build_and_audit(prop.id, leanchecker=False)
            if lean2.build_ok:
                ext = dict(ext or {}, status='lost',
                           reason='extracted kernel lemmas no longer check: ' + _first_error(lean.build_log))
                lean2.cmds = lean.cmds + lean2.cmds
                lean = lean2
        if foreign and prop.extracted:
            try:
                import extract
                extract.generate(prop.id, '/repo')
            except Exception:  # pylint: disable=broad-except
                pass
    finally:
        fcntl.flock(lock, fcntl.LOCK_UN)
        lock.close()
    if not lean.driver_ok:
        print(lean.build_log[-3000:])
        raise HarnessError('model driver does not build')
    proof_broken = bool(lean.failed)
    tie_lost = bool(ext and ext.get('status') == 'lost')
    escalate = proof_broken or tie_lost
    # a broken obligation or a lost tie makes the run search harder for a failing input: a thorough run stays thorough; a
    # quick run keeps the quick tier's fixed cases but draws six times the random cases within three times the budget
    eff_tier = 'thorough' if tier == 'thorough' else ('escalated' if escalate else tier)

    # ---- 2. campaign ---------------------------------------------------------------------
    ctx.driver = Driver()
    evaluations = 0
    nontrivial = set()
    samples = []
    n_viol = 0
    try:
        prop.setup(ctx)
        gen_tier = 'thorough' if eff_tier == 'thorough' else 'quick'
        ctx.tier = gen_tier
        budget = prop.thorough_budget_s if eff_tier == 'thorough' else prop.quick_budget_s
        # thorough: the per-property case count times VERIF_THOROUGH_SCALE, still cut by the time budget
        ncases = (prop.thorough_cases * int(os.environ.get('VERIF_THOROUGH_SCALE', '6'))) if eff_tier == 'thorough' \
            else prop.quick_cases
        if eff_tier == 'escalated':
            budget, ncases = 3 * budget, 6 * ncases
        budget = float(os.environ.get('VERIF_BUDGET_S', budget))
        ncases = int(os.environ.get('VERIF_CASES', ncases))

        def stream():
            cdir = os.path.join(VERIF, 'corpus', prop.id)
            if os.path.isdir(cdir) and not os.environ.get('VERIF_NO_CORPUS'):
                for fn in sorted(os.listdir(cdir)):
                    if fn.endswith('.json'):
                        yield 'corpus', json.load(open(os.path.join(cdir, fn)))['case']
            for c in prop.fixed_cases(gen_tier):
                yield 'fixed', c
            i = 0
            while i < ncases:
                yield 'random', prop.gen(case_rng(seed, prop.id, i), gen_tier)
                i += 1

        t_camp = time.time()
        exhausted_fixed = True
        for kind, case in stream():
            if time.time() - t_camp > budget and kind == 'random':
                break
            if time.time() - t_camp > 3 * budget:
                exhausted_fixed = False
                break
            evaluations += 1
            ctx.note('stream:' + kind)
            mm = guarded_run(prop, case, ctx)
            if prop.nontrivial(case):
                nontrivial.add(hashlib.sha1(canon(case).encode()).hexdigest())
            if len(samples) < 3 or (evaluations % 97 == 0 and len(samples) < 8):
                samples.append(prop.sample_view(case))
            if mm is None:
                continue
            if mm.signature in known_sigs:
                known_hit[mm.signature] = known_hit.get(mm.signature, 0) + 1
                continue
            case2, mm2 = shrink_case(prop, case, ctx, mm)
            if mm2.signature in known_sigs:      # shrinking must not drift into a listed finding
                case2, mm2 = case, mm
            n_viol += 1
            path = write_replay(prop, seed, n_viol, case2, mm2)
            # a disagreement that only breaks the model/code tie (the property's own observable still holds on this
            # input) is reported as a correspondence that no longer checks, not as a counterexample
            violations.append((path, ' no-failing-input-found' if mm2.relation == 'model-only' else ''))
            print('  mismatch: %s\n    case : %s\n    impl : %s\n    model: %s' % (
                mm2.what, canon(case2)[:1500], canon(mm2.impl)[:800], canon(mm2.model)[:800]))
            if n_viol >= 3:
                break
        ctx.note('fixed_cases_completed' if exhausted_fixed else 'fixed_cases_cut_by_budget')
    finally:
        try:
            prop.teardown(ctx)
        finally:
            ctx.driver.close()
            _rm(ctx.scratch)

    # ---- 3. broken proof without a failing input ---------------------------------------------
    if proof_broken and not violations:
        names = sorted(lean.failed)
        path = write_replay(prop, seed, 0, None, None, theorem=names,
                            note='obligations no longer check: %s\n%s' % (
                                json.dumps(lean.failed)[:2000], _first_error(lean.build_log)))
        violations.append((path, ' no-failing-input-found'))

    for sig, n in sorted(known_hit.items()):
        print('KNOWN-FINDING: property=%s %s (%d cases this run)' % (prop.id, known_sigs[sig]['description'], n))

    # ---- 4. evidence -------------------------------------------------------------------------
    # the extraction tie is a second, independent tie: when it is lost (source no longer translatable, or the
    # generated text no longer provably equal to the model) the theorem + correspondence route is still complete,
    # so it is recorded in `extraction_tie` and not counted as an undischarged obligation of this run
    ext_ok = bool(ext and ext.get('status') == 'ok')
    n_obl = len(lean.obligations) + 1 + (1 if ext_ok else 0)
    n_dis = len(lean.discharged) + (0 if n_viol else 1) \
        + (1 if ext_ok else 0)
    ev = {
        'property_id': prop.id, 'tier': tier, 'seed': seed, 'level': 'proof',
        'coverage': {
            'obligations': n_obl,
            'discharged': n_dis,
            'obligation_names': lean.obligations + ['correspondence(model,impl) on this run'] +
            (['extraction: kernels regenerated from the current source = hand model (Extracted/Equiv*.lean)'] if ext_ok else []),
            'failed_obligations': lean.failed,
            'axioms_used': sorted({a for n in lean.discharged for a in lean.axioms.get(n, [])}),
            'checker_cmd': ' ; '.join(lean.cmds),
            'trusted_base': TRUSTED_COMMON + list(prop.trusted),
            'evaluations': evaluations,
            'distinct_nontrivial': len(nontrivial),
            'traces_validated_against_impl': evaluations,
            'rule': prop.rule,
            'samples': samples[:8],
            'input_distribution': dict(sorted(ctx.hist.items())),
            'model_driver_calls': ctx.driver.calls,
            'extraction_tie': ext,
            'known_findings_hit': known_hit,
            'effective_tier': eff_tier,
        },
        'assumptions': list(prop.assumptions),
        'wall_s': round(time.time() - t0, 2),
        'violations': len(violations),
    }
    foreign = os.path.realpath(REPO) != os.path.realpath('/repo')
    if foreign:
        # a run against a scratch copy (seeded-change experiments): its record must never replace the evidence of
        # /repo itself, and the extracted kernels are put back to what /repo says
        ev['repo'] = REPO
        ev_path = os.path.join(VERIF, 'replays', 'evidence-%s-scratch-repo.json' % prop.id)
        if prop.extracted:
            try:
                import extract
                extract.generate(prop.id, '/repo')
            except Exception:  # pylint: disable=broad-except
                pass
    else:
        ev_path = os.path.join(VERIF, 'evidence', prop.id + '.json')
    os.makedirs(os.path.dirname(ev_path), exist_ok=True)
    with open(ev_path, 'w') as f:
        json.dump(ev, f, indent=1, default=repr)
        f.write('\n')
    print('%s tier=%s seed=%s obligations=%d discharged=%d cases=%d nontrivial=%d wall=%.1fs extraction=%s' % (
        prop.id, tier, seed, n_obl, n_dis, evaluations, len(nontrivial), time.time() - t0,
        (ext or {}).get('status')))
    for path, tail in violations:
        print('VIOLATION property=%s replay=%s%s' % (prop.id, path, tail))
    return 1 if violations else 0


def _first_error(log):
    lines = [l for l in log.splitlines() if 'error' in l]
    return '\n'.join(lines[:6])[:1500]


def _rm(path):
    import shutil
    if path and os.path.isdir(path):
        shutil.rmtree(path, ignore_errors=True)
