"""Shared helpers for the DataFrame properties (C12–C15): typed tables, SV wire format,
type-directed expression generation (Python Column + JSON AST for the Lean model)."""
from fractions import Fraction

TYPES = ['int', 'dbl', 'str', 'bool']


def sv(v):
    if v is None or isinstance(v, bool):
        return v
    if isinstance(v, int):
        return {'i': v}
    if isinstance(v, float):
        f = Fraction(v)
        return {'d': [f.numerator, f.denominator]}
    if isinstance(v, str):
        return {'s': v}
    raise TypeError(type(v))


def sv_back(j):
    if j is None or isinstance(j, bool):
        return j
    if 'i' in j:
        return j['i']
    if 'd' in j:
        return j['d'][0] / j['d'][1]
    return j['s']


def gen_val(rng, t, null_p=.2):
    if rng.random() < null_p:
        return None
    if t == 'int':
        return rng.choice([-3, -1, 0, 1, 1, 2, 3, 5])
    if t == 'dbl':
        return rng.choice([-2.5, -1.0, 0.0, 0.5, 1.0, 1.5, 2.0, 3.25])
    if t == 'str':
        return rng.choice(['', 'a', 'b', 'ab', 'B', 'é'])
    return rng.random() < .5


def gen_table(rng, ncols=None, nrows=None):
    ncols = ncols or rng.randint(1, 4)
    names = ['c%d' % i for i in range(ncols)]
    types = [rng.choice(TYPES) for _ in names]
    if rng.random() < .5 and 'int' not in types:
        types[0] = 'int'
    nrows = rng.choice([0, 1, 2, 3, 4, 5, 6]) if nrows is None else nrows
    rows = [[gen_val(rng, t) for t in types] for _ in range(nrows)]
    return names, types, rows


def spark_schema(names, types):
    from pysparkling.sql import types as T
    m = {'int': T.LongType, 'dbl': T.DoubleType, 'str': T.StringType, 'bool': T.BooleanType}
    return T.StructType([T.StructField(n, m[t](), True) for n, t in zip(names, types)])


DIVISORS = [0, 1, 2, 4, -2, 0.5, 0.25, None]


def gen_expr(rng, types, want, depth):
    """type-directed expression AST (JSON, column references by index) of static type `want`"""
    cols_of = [i for i, t in enumerate(types) if t == want]
    numeric = want in ('int', 'dbl')

    def leaf():
        if cols_of and rng.random() < .88:
            return {'op': 'col', 'i': rng.choice(cols_of)}
        return {'op': 'lit', 'v': sv(gen_val(rng, want, null_p=.1))}
    if depth <= 0:
        return leaf()
    r = rng.random()
    if r < .2:
        return leaf()
    if r < .3:
        return {'op': 'coalesce', 'a': gen_expr(rng, types, want, depth - 1), 'b': gen_expr(rng, types, want, depth - 1)}
    if r < .42:
        c = gen_expr(rng, types, 'bool', depth - 1)
        t = gen_expr(rng, types, want, depth - 1)
        e = gen_expr(rng, types, want, depth - 1) if rng.random() < .6 else {'op': 'lit', 'v': None}
        if rng.random() < .3:       # a literal branch value (handed to when() / otherwise() as a bare Python value)
            v = gen_val(rng, want, null_p=0)
            if rng.random() < .5:
                t = {'op': 'lit', 'v': sv(v)}
            else:
                e = {'op': 'lit', 'v': sv(v)}
        return {'op': 'case', 'c': c, 't': t, 'e': e}
    if numeric:
        op = rng.choice(['add', 'sub', 'mul', 'neg', 'mod'] + (['div'] if want == 'dbl' else []))
        if op == 'neg':
            return {'op': 'neg', 'e': gen_expr(rng, types, want, depth - 1)}
        if op == 'mod':
            # the remainder: int % int is an int, anything else a double; half of the divisors are literals (zero among them)
            if want == 'int':
                ta = tb = 'int'
            else:
                ta, tb = rng.choice([('dbl', 'dbl'), ('int', 'dbl'), ('dbl', 'int')])
            if rng.random() < .5:
                d = rng.choice([v for v in DIVISORS if v is None or (isinstance(v, int) if tb == 'int' else True)])
                if tb == 'dbl' and isinstance(d, int):
                    d = float(d)
                b = {'op': 'lit', 'v': sv(d)}
            else:
                b = gen_expr(rng, types, tb, depth - 1)
            return {'op': 'mod', 'a': gen_expr(rng, types, ta, depth - 1), 'b': b}
        if op == 'div':
            return {'op': 'div', 'a': gen_expr(rng, types, rng.choice(['int', 'dbl']), depth - 1),
                    'b': {'op': 'lit', 'v': sv(rng.choice(DIVISORS))}}
        if want == 'int':
            ta = tb = 'int'
        else:
            ta, tb = rng.choice([('dbl', 'dbl'), ('int', 'dbl'), ('dbl', 'int')])
        return {'op': op, 'a': gen_expr(rng, types, ta, depth - 1), 'b': gen_expr(rng, types, tb, depth - 1)}
    if want == 'str':
        return leaf()
    op = rng.choice(['cmp', 'cmp', 'cmp', 'and', 'or', 'not', 'isNull', 'isNotNull', 'between'])
    if op in ('and', 'or'):
        return {'op': op, 'a': gen_expr(rng, types, 'bool', depth - 1), 'b': gen_expr(rng, types, 'bool', depth - 1)}
    if op == 'not':
        return {'op': 'not', 'e': gen_expr(rng, types, 'bool', depth - 1)}
    if op in ('isNull', 'isNotNull'):
        return {'op': op, 'e': gen_expr(rng, types, rng.choice(TYPES), depth - 1)}
    kind = rng.choice(['num', 'num', 'str', 'bool'])
    if op == 'between':
        ts = [rng.choice(['int', 'dbl']) for _ in range(3)] if kind != 'str' else ['str'] * 3
        e, lo, hi = [gen_expr(rng, types, t, depth - 1) for t in ts]
        return {'op': 'between', 'e': e, 'lo': lo, 'hi': hi}
    c = rng.choice(['eq', 'ne', 'lt', 'le', 'gt', 'ge'])
    if kind == 'num':
        ta, tb = rng.choice(['int', 'dbl']), rng.choice(['int', 'dbl'])
    else:
        ta = tb = kind
    return {'op': c, 'a': gen_expr(rng, types, ta, depth - 1), 'b': gen_expr(rng, types, tb, depth - 1)}


def to_column(ast, names, cache=None):
    """build the pysparkling Column for an expression AST. With `cache` (a dict), the SAME Column object is used for every
    reference to a column name across the whole chain - as a program that keeps `v = col("v")` around does - so that a
    reference must be resolved against the frame it is evaluated on, not the one it was first used with"""
    from pysparkling.sql import functions as F
    op = ast['op']
    sub = lambda k: to_column(ast[k], names, cache)  # noqa: E731
    if op == 'col':
        name = names[ast['i']]
        if cache is None:
            return F.col(name)
        if name not in cache:
            cache[name] = F.col(name)
        return cache[name]
    if op == 'lit':
        return F.lit(sv_back(ast['v']))
    if op == 'neg':
        return -sub('e')
    if op == 'not':
        return ~sub('e')
    if op == 'isNull':
        return sub('e').isNull()
    if op == 'isNotNull':
        return sub('e').isNotNull()
    if op == 'between':
        return sub('e').between(sub('lo'), sub('hi'))
    if op == 'coalesce':
        return F.coalesce(sub('a'), sub('b'))
    if op == 'case':
        def val(k):
            # "value: a literal value, or a Column expression": a literal branch is handed over as the bare Python value
            # (int, float, bool, str) half of the time, as lit(value) otherwise
            node = ast[k]
            if node['op'] == 'lit' and node['v'] is not None and len(repr(ast)) % 2 == 0:
                return sv_back(node['v'])
            return sub(k)
        w = F.when(sub('c'), val('t'))
        if ast['e'] == {'op': 'lit', 'v': None}:
            return w
        return w.otherwise(val('e'))
    a, b = sub('a'), sub('b')
    return {'add': lambda: a + b, 'sub': lambda: a - b, 'mul': lambda: a * b, 'div': lambda: a / b, 'mod': lambda: a % b,
            'eq': lambda: a == b, 'ne': lambda: a != b, 'lt': lambda: a < b, 'le': lambda: a <= b,
            'gt': lambda: a > b, 'ge': lambda: a >= b, 'and': lambda: a & b, 'or': lambda: a | b}[op]()


def is_constant(ast):
    """no column reference anywhere"""
    if isinstance(ast, dict):
        if ast.get('op') == 'col':
            return False
        return all(is_constant(v) for v in ast.values())
    if isinstance(ast, list):
        return all(is_constant(v) for v in ast)
    return True
