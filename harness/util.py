"""Helpers shared by property modules."""
import collections

from core import canon


def build_layout(sc, layout):
    """an RDD whose partitions are exactly `layout` (built through the public API only)"""
    cur = len(layout)
    if cur == 0:
        return sc.parallelize([], 1)
    if cur == 1:
        return sc.parallelize(list(layout[0]), 1)
    return sc.parallelize(list(range(cur)), cur).flatMap(lambda i: layout[i])


def random_layout(rng, items, max_parts=4):
    """split `items` (kept in order) into 1..max_parts partitions, empty ones allowed"""
    n = rng.randint(1, max_parts)
    cuts = sorted(rng.randint(0, len(items)) for _ in range(n - 1))
    out, prev = [], 0
    for c in cuts + [len(items)]:
        out.append(items[prev:c])
        prev = c
    return out


def multiset(xs):
    return sorted(canon(x) for x in xs)


def exc(e):
    return {'exc': type(e).__name__}
