"""Shared pieces of the extractors."""
import ast
import os


class NotTranslatable(Exception):
    pass


def parse(repo, rel):
    with open(os.path.join(repo, rel)) as f:
        return ast.parse(f.read())


def find_class(tree, name):
    for n in ast.walk(tree):
        if isinstance(n, ast.ClassDef) and n.name == name:
            return n
    raise NotTranslatable('class %s not found' % name)


def find_def(node, name):
    for n in ast.walk(node):
        if isinstance(n, ast.FunctionDef) and n.name == name:
            return n
    raise NotTranslatable('def %s not found' % name)
