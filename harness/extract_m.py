"""Statement-level translator for small state machines (lists, counters, loops, early exits, exceptions).

`TrM` turns a Python function body into a Lean term of type `Option ρ` (`none` = an exception escaped or a loop ran
out of the fuel the generator gave it), over a record of `self.<field>` values and local names.  Loops and
self-recursion become `iterOpt` (Extracted/Prelude.lean).  Everything the translator does not recognise raises
NotTranslatable: the extraction tie is then reported as lost, never silently approximated.

Supported: assignments (names, `self.f`, augmented, `a, b = X[0]`), `X.append(e)`, `X.pop(0)` / `del X[0]`,
`D[k] = v`, `del D[k]`, `if/elif/else`, `while`, `break`, `return`, `raise`, one `try: return <attempt> except
Exception as e:` form (the attempt is a parameter), calls declared as noise (logging, sleeping), calls and attribute
reads declared as externals by the generator.  Expressions: naturals with `+ - * %`, comparisons, short-circuit
`and/or/not`, `len(X)`, truthiness of lists, `k in D` / `k not in D`, `x is None` / `is not None`, tuples.
"""
import ast
import re

from extract_base import NotTranslatable, find_class, find_def, parse

FALL, RETURN, BREAK, RAISE = 'fall', 'return', 'break', 'raise'


class TrM:
    def __init__(self, fields, selfname='self', noise=None, ext_expr=None, ext_stmt=None, kinds=None, num='Nat', dead=(),
                 methods=None, state_type=None):
        self.state_type = state_type        # Lean type of the record of fields (needed where a loop abstracts over it)
        self.num = num                      # type of number literals ('Nat' | 'Int')
        self.dead = set(dead)               # attributes of self whose stores are dead (checked elsewhere) and are dropped
        self.methods = dict(methods or {})  # source text of a call -> (lean function, receiver: 'self' or an attribute, [arg source])
        self.fields = dict(fields)          # python attribute -> lean field name
        self.selfname = selfname
        self.noise = noise or (lambda src: False)          # source text of a call -> ignorable?
        self.ext_expr = ext_expr or (lambda node, tr, env: None)
        self.ext_stmt = ext_stmt or (lambda node, tr, env: None)   # -> {attr: lean} state updates
        self.kinds = dict(kinds or {})      # python attribute / local -> 'list' | 'assoc' | 'nat' | 'bool' | 'opt'
        self.cnt = 0

    # ---- helpers ------------------------------------------------------------------------------
    def fresh(self, base):
        self.cnt += 1
        return '%s_%d' % (base.strip('_'), self.cnt)

    def record(self, env):
        return '{ ' + ', '.join('%s := %s' % (ln, env['@self'][a]) for a, ln in self.fields.items()) + ' }'

    def is_self_attr(self, e):
        return isinstance(e, ast.Attribute) and isinstance(e.value, ast.Name) and e.value.id == self.selfname and e.attr in self.fields

    def kind(self, e, env):
        if self.is_self_attr(e):
            return self.kinds.get(e.attr)
        if isinstance(e, ast.Name):
            return env['@kind'].get(e.id)
        return None

    # ---- expressions --------------------------------------------------------------------------
    def expr(self, e, env):
        x = self.ext_expr(e, self, env)
        if x is not None:
            return x
        if isinstance(e, ast.Constant):
            if e.value is None:
                return 'none'
            if isinstance(e.value, bool):
                return 'true' if e.value else 'false'
            if isinstance(e.value, int) and (e.value >= 0 or self.num == 'Int'):
                return '(%d : %s)' % (e.value, self.num)
            raise NotTranslatable('constant %r' % (e.value,))
        if isinstance(e, ast.Name):
            if e.id in env:
                return env[e.id]
            raise NotTranslatable('free name ' + e.id)
        if self.is_self_attr(e):
            return env['@self'][e.attr]
        if isinstance(e, ast.Tuple):
            return '(' + ', '.join(self.expr(x, env) for x in e.elts) + ')'
        if isinstance(e, ast.BinOp):
            ops = {ast.Add: '+', ast.Sub: '-', ast.Mult: '*', ast.Mod: '%'}
            if type(e.op) in ops:
                return '(%s %s %s)' % (self.expr(e.left, env), ops[type(e.op)], self.expr(e.right, env))
            raise NotTranslatable('operator ' + type(e.op).__name__)
        if isinstance(e, ast.Call) and isinstance(e.func, ast.Name) and e.func.id == 'len' and len(e.args) == 1:
            return '(%s).length' % self.expr(e.args[0], env)
        raise NotTranslatable('expression ' + ast.unparse(e)[:80])

    def cond(self, e, env):
        """a Python condition as a decidable Lean proposition"""
        if isinstance(e, ast.UnaryOp) and isinstance(e.op, ast.Not):
            return '(¬ %s)' % self.cond(e.operand, env)
        if isinstance(e, ast.BoolOp):
            j = ' ∧ ' if isinstance(e.op, ast.And) else ' ∨ '
            return '(' + j.join(self.cond(v, env) for v in e.values) + ')'
        if isinstance(e, ast.Compare):
            ops = {ast.Lt: '<', ast.LtE: '≤', ast.Gt: '>', ast.GtE: '≥', ast.Eq: '=', ast.NotEq: '≠'}
            parts, left = [], e.left
            for op, right in zip(e.ops, e.comparators):
                if isinstance(op, (ast.In, ast.NotIn)) and self.kind(right, env) == 'assoc':
                    t = '(Assoc.has %s %s = true)' % (self.expr(right, env), self.expr(left, env))
                    parts.append(t if isinstance(op, ast.In) else '(¬ %s)' % t)
                elif isinstance(op, (ast.Is, ast.IsNot)) and isinstance(right, ast.Constant) and right.value is None:
                    t = '(%s = none)' % self.expr(left, env)
                    parts.append(t if isinstance(op, ast.Is) else '(¬ %s)' % t)
                elif type(op) in ops:
                    parts.append('%s %s %s' % (self.expr(left, env), ops[type(op)], self.expr(right, env)))
                else:
                    raise NotTranslatable('comparison ' + type(op).__name__)
                left = right
            return '(' + ' ∧ '.join(parts) + ')'
        k = self.kind(e, env)
        if k == 'list' or k == 'assoc':
            return '(%s ≠ [])' % self.expr(e, env)
        if k == 'bool':
            return '(%s = true)' % self.expr(e, env)
        if k == 'nat':
            return '(%s ≠ 0)' % self.expr(e, env)
        raise NotTranslatable('truth value of ' + ast.unparse(e)[:60])

    def oval(self, e, env):
        """an expression that may raise KeyError, as `Option τ`"""
        if isinstance(e, ast.Subscript) and isinstance(e.slice, ast.Constant) and isinstance(e.slice.value, str) \
                and isinstance(e.value, ast.Subscript) and self.kind(e.value.value, env) == 'assoc':
            return '(match Assoc.get? %s %s with | none => none /- KeyError -/ | some e => some e.%s)' % (
                self.expr(e.value.value, env), self.expr(e.value.slice, env), e.slice.value)
        return '(some %s)' % self.expr(e, env)

    def obool(self, e, env):
        """a condition that may raise, as `Option Bool`, with Python's evaluation order and short-circuiting"""
        if isinstance(e, ast.BoolOp):
            cur = self.obool(e.values[-1], env)
            for v in reversed(e.values[:-1]):
                if isinstance(e.op, ast.And):
                    cur = '(match %s with | none => none | some false => some false | some true => %s)' % (self.obool(v, env), cur)
                else:
                    cur = '(match %s with | none => none | some true => some true | some false => %s)' % (self.obool(v, env), cur)
            return cur
        if isinstance(e, ast.UnaryOp) and isinstance(e.op, ast.Not):
            return '(Option.map (fun b => !b) %s)' % self.obool(e.operand, env)
        if isinstance(e, ast.Compare) and len(e.ops) == 1 and isinstance(e.ops[0], (ast.Is, ast.IsNot)) \
                and isinstance(e.comparators[0], ast.Constant) and e.comparators[0].value is None:
            t = '(Option.map Option.isNone %s)' % self.oval(e.left, env)
            return t if isinstance(e.ops[0], ast.Is) else '(Option.map (fun b => !b) %s)' % t
        return '(some (decide %s))' % self.cond(e, env)

    # ---- statements ---------------------------------------------------------------------------
    def set_target(self, tgt, lean, env, kind=None):
        """-> (binding text, env2)"""
        env2 = dict(env)
        if self.is_self_attr(tgt):
            nm = self.fresh(self.fields[tgt.attr])
            env2['@self'] = dict(env['@self'])
            env2['@self'][tgt.attr] = nm
            return 'let %s := %s\n' % (nm, lean), env2
        if isinstance(tgt, ast.Name):
            nm = self.fresh(tgt.id)
            env2[tgt.id] = nm
            env2['@kind'] = dict(env['@kind'])
            if kind:
                env2['@kind'][tgt.id] = kind
            return 'let %s := %s\n' % (nm, lean), env2
        raise NotTranslatable('assignment target ' + ast.unparse(tgt)[:60])

    def method_call(self, call, env):
        """-> (lean call text, receiver) for a declared method call, else None"""
        if not isinstance(call, ast.Call):
            return None
        m = self.methods.get(ast.unparse(call))
        if m is None and isinstance(call.func, (ast.Attribute, ast.Name)):
            m = self.methods.get(ast.unparse(call.func) + '(...)')
            if m is not None:
                m = (m[0], m[1], [ast.unparse(a) for a in call.args] + list(m[2])) + tuple(m[3:])
        if m is None:
            return None
        fn, recv, args = m[:3]
        recv_lean = self.record(env) if recv == 'self' else env['@self'][recv]
        rendered = [self.expr(ast.parse(a, mode='eval').body, env) for a in args]
        return '%s %s' % (fn, ' '.join([recv_lean] + rendered)), recv

    def bind_call(self, call, env, ind, cont):
        """`match f recv args with | none => none | some (r, recv') => cont(r, env')`"""
        text, recv = self.method_call(call, env)
        m = self.methods.get(ast.unparse(call)) or self.methods.get(ast.unparse(call.func) + '(...)')
        self.last_ret_kind = m[3] if len(m) > 3 else None
        pad = ' ' * ind
        r, nr = self.fresh('r'), self.fresh('st')
        env2 = dict(env)
        env2['@self'] = dict(env['@self'])
        if recv == 'self':
            env2['@self'] = {a: '%s.%s' % (nr, ln) for a, ln in self.fields.items()}
        else:
            env2['@self'][recv] = nr
        return 'match %s with\n%s| none => none\n%s| some (%s, %s) =>\n%s  ' % (text, pad, pad, r, nr, pad) + cont(r, env2)

    def is_noise(self, s):
        if isinstance(s, ast.Expr) and isinstance(s.value, ast.Constant):
            return True
        if isinstance(s, ast.Expr) and isinstance(s.value, ast.Call) and self.noise(ast.unparse(s.value)):
            return True
        if isinstance(s, ast.If) and all(self.is_noise(x) for x in s.body + s.orelse):
            self.cond_pure(s.test)
            return True
        return False

    @staticmethod
    def cond_pure(e):
        for n in ast.walk(e):
            if isinstance(n, ast.Call):
                raise NotTranslatable('call in the test of an ignorable branch')

    def block(self, stmts, env, k, ind):
        """k(kind, env, value_ast) renders how the block ends"""
        if not stmts:
            return k(FALL, env, None)
        s, rest = stmts[0], stmts[1:]
        pad = ' ' * ind
        if self.is_noise(s):
            return self.block(rest, env, k, ind)
        if isinstance(s, ast.Return):
            return k(RETURN, env, s.value)
        if isinstance(s, ast.Break):
            return k(BREAK, env, None)
        if isinstance(s, ast.Raise):
            return k(RAISE, env, s.exc)
        upd = self.ext_stmt(s, self, env)
        if upd is not None:
            text, env2 = '', env
            for attr, lean in upd.items():
                t, env2 = self.set_target(ast.Attribute(value=ast.Name(id=self.selfname, ctx=ast.Load()), attr=attr, ctx=ast.Store()),
                                          lean, env2)
                text += t + pad
            return text + self.block(rest, env2, k, ind)
        if isinstance(s, ast.Assign) and len(s.targets) == 1 and isinstance(s.targets[0], ast.Attribute) \
                and ast.unparse(s.targets[0]) in self.dead:
            for n in ast.walk(s.value):
                if isinstance(n, ast.Call):
                    raise NotTranslatable('call in a dropped store')
            return self.block(rest, env, k, ind)
        if isinstance(s, ast.Expr) and self.method_call(s.value, env):
            return self.bind_call(s.value, env, ind, lambda r, e2: self.block(rest, e2, k, ind + 2))
        if isinstance(s, ast.Assign) and len(s.targets) == 1 and isinstance(s.targets[0], ast.Name) and self.method_call(s.value, env):
            def after(r, e2, s=s):
                e3 = dict(e2)
                e3[s.targets[0].id] = r
                e3['@kind'] = dict(e2['@kind'])
                e3['@kind'][s.targets[0].id] = self.last_ret_kind
                return self.block(rest, e3, k, ind + 2)
            return self.bind_call(s.value, env, ind, after)
        if isinstance(s, ast.If):
            t, neg = s.test, False
            if isinstance(t, ast.UnaryOp) and isinstance(t.op, ast.Not):
                t, neg = t.operand, True
            if self.method_call(t, env):
                def branch(r, e2, s=s, neg=neg):
                    a = self.block(list(s.body) + rest, e2, k, ind + 4)
                    b = self.block(list(s.orelse) + rest, e2, k, ind + 4)
                    if neg:
                        a, b = b, a
                    p2 = ' ' * (ind + 2)
                    return 'if %s = true then\n%s  %s\n%selse\n%s  %s' % (r, p2, a, p2, p2, b)
                return self.bind_call(t, env, ind, branch)
        if isinstance(s, (ast.Assign, ast.AugAssign)):
            tgt = s.targets[0] if isinstance(s, ast.Assign) else s.target
            if isinstance(s, ast.Assign) and len(s.targets) != 1:
                raise NotTranslatable('chained assignment')
            val = ast.BinOp(left=tgt, op=s.op, right=s.value) if isinstance(s, ast.AugAssign) else s.value
            # a, b = X[0]
            if isinstance(val, ast.Subscript) and isinstance(val.slice, ast.Constant) and val.slice.value == 0 \
                    and self.kind(val.value, env) == 'list':
                if isinstance(tgt, ast.Tuple) and all(isinstance(t, ast.Name) for t in tgt.elts):
                    names = [self.fresh(t.id) for t in tgt.elts]
                    env2 = dict(env)
                    for t, nm in zip(tgt.elts, names):
                        env2[t.id] = nm
                    pat = '(' + ', '.join(names) + ')'
                elif isinstance(tgt, ast.Name):
                    nm = self.fresh(tgt.id)
                    env2 = dict(env)
                    env2[tgt.id] = nm
                    pat = nm
                else:
                    raise NotTranslatable('target of X[0]')
                return ('match %s with\n%s| [] => none   -- IndexError\n%s| %s :: _ =>\n%s  ' %
                        (self.expr(val.value, env), pad, pad, pat, pad)) + self.block(rest, env2, k, ind + 2)
            # D[k] = v
            if isinstance(tgt, ast.Subscript) and self.kind(tgt.value, env) == 'assoc':
                lean = '(Assoc.put %s %s %s)' % (self.expr(tgt.value, env), self.expr(tgt.slice, env), self.expr(val, env))
                t, env2 = self.set_target(tgt.value, lean, env)
                return t + pad + self.block(rest, env2, k, ind)
            if isinstance(tgt, ast.Tuple) and isinstance(val, ast.Tuple) and len(tgt.elts) == len(val.elts):
                seq = [ast.Assign(targets=[t], value=v) for t, v in zip(tgt.elts, val.elts)]
                return self.block(seq + rest, env, k, ind)
            t, env2 = self.set_target(tgt, self.expr(val, env), env, kind=self.kind(val, env))
            divisors = [self.expr(n.right, env) for n in ast.walk(val) if isinstance(n, ast.BinOp) and isinstance(n.op, (ast.Mod, ast.FloorDiv))]
            if divisors:
                # Python raises ZeroDivisionError where Lean's `%` is total
                guard = ' ∨ '.join('%s = 0' % d for d in divisors)
                return 'if %s then none   -- ZeroDivisionError\n%selse\n%s  ' % (guard, pad, pad) + t + pad + '  ' + \
                    self.block(rest, env2, k, ind + 2)
            return t + pad + self.block(rest, env2, k, ind)
        if isinstance(s, ast.Expr) and isinstance(s.value, ast.Call) and isinstance(s.value.func, ast.Attribute):
            call, obj = s.value, s.value.func.value
            if call.func.attr == 'append' and len(call.args) == 1 and self.kind(obj, env) == 'list':
                t, env2 = self.set_target(obj, '(%s ++ [%s])' % (self.expr(obj, env), self.expr(call.args[0], env)), env, 'list')
                return t + pad + self.block(rest, env2, k, ind)
            if call.func.attr == 'pop' and len(call.args) == 1 and isinstance(call.args[0], ast.Constant) and call.args[0].value == 0 \
                    and self.kind(obj, env) == 'list':
                return self.pop_front(obj, rest, env, k, ind)
        if isinstance(s, ast.Delete) and len(s.targets) == 1 and isinstance(s.targets[0], ast.Subscript):
            sub = s.targets[0]
            if self.kind(sub.value, env) == 'list' and isinstance(sub.slice, ast.Constant) and sub.slice.value == 0:
                return self.pop_front(sub.value, rest, env, k, ind)
            if self.kind(sub.value, env) == 'assoc':
                d, key = self.expr(sub.value, env), self.expr(sub.slice, env)
                t, env2 = self.set_target(sub.value, '(Assoc.erase %s %s)' % (d, key), env, 'assoc')
                return ('if Assoc.has %s %s = true then\n%s  ' % (d, key, pad) + t + pad + '  ' + self.block(rest, env2, k, ind + 2) +
                        '\n%selse none   -- KeyError' % pad)
        if isinstance(s, ast.If):
            c = self.cond(s.test, env)
            a = self.block(list(s.body) + rest, env, k, ind + 2)
            b = self.block(list(s.orelse) + rest, env, k, ind + 2)
            return 'if %s then\n%s  %s\n%selse\n%s  %s' % (c, pad, a, pad, pad, b)
        if isinstance(s, ast.While) and not s.orelse:
            return self.while_(s, rest, env, k, ind)
        if isinstance(s, ast.Try):
            return self.try_(s, rest, env, k, ind)
        raise NotTranslatable('statement ' + ast.unparse(s)[:80])

    def pop_front(self, obj, rest, env, k, ind):
        pad = ' ' * ind
        nm = self.fresh('rest')
        t, env2 = self.set_target(obj, nm, env, 'list')
        return ('match %s with\n%s| [] => none   -- IndexError\n%s| _ :: %s =>\n%s  ' % (self.expr(obj, env), pad, pad, nm, pad)) + \
            t + pad + '  ' + self.block(rest, env2, k, ind + 2)

    def fuel_for(self, loop, env):
        """fuel of a while loop: one more than the total length of the lists its test mentions"""
        lists = [n for n in ast.walk(loop.test) if self.kind(n, env) in ('list', 'assoc')]
        if not lists:
            raise NotTranslatable('cannot bound the loop `while %s`' % ast.unparse(loop.test))
        return '(' + ' + '.join('(%s).length' % self.expr(n, env) for n in lists) + ' + 1)'

    def while_(self, s, rest, env, k, ind):
        pad = ' ' * ind
        assigned = {n.id for st in s.body for n in ast.walk(st) if isinstance(n, ast.Name) and isinstance(n.ctx, ast.Store)}
        used_after = {n.id for st in rest for n in ast.walk(st) if isinstance(n, ast.Name)}
        if assigned & used_after:
            raise NotTranslatable('loop-local names used after the loop: %s' % sorted(assigned & used_after))
        sv = self.fresh('s')
        inner = dict(env)
        inner['@self'] = {a: '%s.%s' % (sv, ln) for a, ln in self.fields.items()}

        def kb(kind, e2, value):
            if kind == FALL:
                return 'some (.inr %s)' % self.record(e2)
            if kind == BREAK:
                return 'some (.inl %s)' % self.record(e2)
            raise NotTranslatable('%s inside a loop' % kind)
        body = 'if %s then\n%s      %s\n%s    else some (.inl %s)' % (
            self.cond(s.test, inner), pad, self.block(list(s.body), inner, kb, ind + 6), pad, sv)
        out = self.fresh('s')
        env2 = dict(env)
        env2['@self'] = {a: '%s.%s' % (out, ln) for a, ln in self.fields.items()}
        if not self.state_type:
            raise NotTranslatable('loop without a declared state type')
        return ('match iterOpt (ρ := %s) (fun (%s : %s) =>\n%s    %s) %s %s with\n%s| none => none\n%s| some %s =>\n%s  ' %
                (self.state_type, sv, self.state_type, pad, body, self.fuel_for(s, env), self.record(env), pad, pad, out, pad)) + self.block(rest, env2, k, ind + 2)

    def try_(self, s, rest, env, k, ind):
        raise NotTranslatable('try statement')

    # ---- whole definitions --------------------------------------------------------------------
    def start_env(self, params, svar='self'):
        env = {'@self': {a: '%s.%s' % (svar, ln) for a, ln in self.fields.items()}, '@kind': {}}
        for p in params:
            env[p] = p
        return env


# ---- C11: WindowedDStream._step -------------------------------------------------------------------

def gen_c11(repo):
    tree = parse(repo, 'pysparkling/streaming/dstream.py')
    fn = find_def(find_class(tree, 'WindowedDStream'), '_step')
    fields = {'_current_time': 'current_time', '_window': 'window', '_window_duration': 'window_duration',
              '_slide_duration': 'slide_duration', '_slide_counter': 'slide_counter', '_current_rdd': 'current_rdd'}
    kinds = {'_window': 'list', '_current_time': 'nat', '_window_duration': 'nat', '_slide_duration': 'nat', '_slide_counter': 'nat'}

    def ext_expr(node, tr, env):
        src = ast.unparse(node)
        if src == 'self._prev._current_rdd':
            return 'b'                                          # what the parent stream holds after its own step
        if src == 'EmptyRDD(self._context._context)':
            return 'Emit.empty'
        if src == 'self._context._context.union(self._window)':
            return '(Emit.union %s)' % env['@self']['_window']
        return None
    t = TrM(fields, noise=lambda src: src == 'self._prev._step(time_)', ext_expr=ext_expr, kinds=kinds, state_type='Win β')
    env = t.start_env(['time_', 'b'])
    env['@kind']['time_'] = 'nat'

    def k(kind, e2, value):
        if kind == FALL or (kind == RETURN and value is None):
            return 'some %s' % t.record(e2)
        raise NotTranslatable('%s in WindowedDStream._step' % kind)
    body = t.block(fn.body, env, k, 2)
    out = ('/-- what a windowed stream hands to its consumers -/\ninductive Emit (β : Type) where\n  | empty                 -- EmptyRDD(context)\n'
           '  | union (w : List β)    -- context.union(window)\n  deriving Repr, DecidableEq\n\n'
           'structure Win (β : Type) where\n  current_time : Nat\n  window : List β\n  window_duration : Nat\n  slide_duration : Nat\n'
           '  slide_counter : Nat\n  current_rdd : Emit β\n\n'
           '/-- `WindowedDStream._step(time_)`; `b` = the parent\'s `_current_rdd` once the parent has been stepped -/\n'
           'def winStep {β : Type} (self : Win β) (time_ : Nat) (b : β) : Option (Win β) :=\n  %s\n' % body)
    return 'pysparkling/streaming/dstream.py (WindowedDStream._step)', out


# ---- C04: _run_task --------------------------------------------------------------------------------

class TrTask(TrM):
    """`try: return <attempt> except Exception as e: <handler>`: the attempt is the parameter `run`, indexed by the
    attempt number the task context holds at that moment"""

    def try_(self, s, rest, env, k, ind):
        pad = ' ' * ind
        if not (len(s.body) == 1 and isinstance(s.body[0], ast.Return) and isinstance(s.body[0].value, ast.Call)
                and ast.unparse(s.body[0].value) == 'func(task_context, rdd.compute(partition, task_context))'):
            raise NotTranslatable('the attempt is no longer `return func(task_context, rdd.compute(partition, task_context))`')
        if s.orelse or s.finalbody or len(s.handlers) != 1:
            raise NotTranslatable('try shape')
        h = s.handlers[0]
        if not (isinstance(h.type, ast.Name) and h.type.id == 'Exception' and h.name):
            raise NotTranslatable('handler is not `except Exception as <name>`')
        v, e = self.fresh('v'), self.fresh(h.name)
        env_ok = dict(env)
        env_ok['@value'] = v
        env_f = dict(env)
        env_f[h.name] = e
        ok = k(RETURN, env_ok, ast.Name(id='@value', ctx=ast.Load()))
        bad = self.block(list(h.body) + rest, env_f, k, ind + 4)
        return 'match run %s with\n%s| .ok %s => %s\n%s| .fail %s =>\n%s    %s' % (
            env['@self']['attempt_number'], pad, v, ok, pad, e, pad, bad)


def gen_c04(repo):
    tree = parse(repo, 'pysparkling/context.py')
    fn = find_def(tree, '_run_task')
    if [a.arg for a in fn.args.args] != ['task_context', 'rdd', 'func', 'partition']:
        raise NotTranslatable('_run_task parameters')
    fields = {'attempt_number': 'attempt_number', 'max_retries': 'max_retries', 'catch_exceptions': 'catch_exceptions'}
    kinds = {'attempt_number': 'nat', 'max_retries': 'nat', 'catch_exceptions': 'bool', 'retry_wait': 'nat'}
    t = TrTask(fields, selfname='task_context', kinds=kinds,
               noise=lambda src: src.startswith('log.') or src.startswith('time.sleep('))
    t.fields_extra = {'retry_wait'}
    sv = 'tc'
    env = t.start_env([], svar=sv)

    def k(kind, e2, value):
        if kind == RETURN and isinstance(value, ast.Name) and value.id == '@value':
            return 'some (.inl (.ok %s, %s))' % (e2['@value'], t.record(e2))
        if kind == RETURN and isinstance(value, ast.Call) and ast.unparse(value) == '_run_task(task_context, rdd, func, partition)':
            return 'some (.inr %s)' % t.record(e2)
        if kind == RAISE and isinstance(value, ast.Name) and value.id in e2:
            return 'some (.inl (.error %s, %s))' % (e2[value.id], t.record(e2))
        raise NotTranslatable('%s %s in _run_task' % (kind, ast.unparse(value) if value is not None else ''))
    # `if task_context.retry_wait: time.sleep(...)` is a pure wait
    body = t.block(fn.body, env, k, 4)
    out = ('/-- outcome of one attempt at computing the partition and applying the job\'s function -/\n'
           'inductive Attempt (α ε : Type) where\n  | ok (v : α)\n  | fail (e : ε)\n\n'
           'structure TC where\n  attempt_number : Nat\n  max_retries : Nat\n  catch_exceptions : Bool\n  deriving Repr, DecidableEq\n\n'
           '/-- one activation of `_run_task`: `.inl` = it returned or raised, `.inr` = it calls itself again -/\n'
           'def runTaskBody {α ε : Type} (run : Nat → Attempt α ε) (tc : TC) : Option ((Except ε α × TC) ⊕ TC) :=\n    %s\n\n'
           '/-- `_run_task` with the depth of its self-recursion bounded by `fuel` -/\n'
           'def runTask {α ε : Type} (run : Nat → Attempt α ε) (fuel : Nat) (tc : TC) : Option (Except ε α × TC) :=\n'
           '  iterOpt (runTaskBody run) fuel tc\n' % body)
    return 'pysparkling/context.py (_run_task)', out


# ---- C10: QueueStream.get, FileStream.get, DStream._step (source streams) ----------------------------

def gen_c10(repo):
    qs = find_def(find_class(parse(repo, 'pysparkling/streaming/queuestream.py'), 'QueueStream'), 'get')
    fields = {'queue': 'queue', 'oneAtATime': 'oneAtATime', 'default': 'default'}
    kinds = {'queue': 'list', 'oneAtATime': 'bool'}

    def ext_expr(node, tr, env):
        if ast.unparse(node) == 'self.queue.qsize()':
            return '(%s).length' % env['@self']['queue']
        return None
    DRAIN = 'batches = [self.queue.get_nowait() for _ in range(q_size)]'
    FLAT = '[e for batch in batches for e in (batch.toLocalIterator() if isinstance(batch, RDD) else batch)]'

    class TQ(TrM):
        def block(self, stmts, env, k, ind):
            if stmts and ast.unparse(stmts[0]) == DRAIN and 'q_size' in env:
                # `q_size` calls of get_nowait(): queue.Empty if fewer are queued; a queued dataset is modelled by its elements
                q, n, pad = env['@self']['queue'], env['q_size'], ' ' * ind
                env2 = dict(env)
                env2['@self'] = dict(env['@self'], queue='((%s).drop %s)' % (q, n))
                env2['batches'] = '((%s).take %s)' % (q, n)
                return ('if (%s).length < %s then none   -- queue.Empty\n%selse\n%s  ' % (q, n, pad, pad)) + self.block(stmts[1:], env2, k, ind + 2)
            return super().block(stmts, env, k, ind)
    t = TQ(fields, ext_expr=ext_expr, kinds=kinds, state_type='QS α')
    env = t.start_env([])
    env['@kind']['q_size'] = 'nat'

    def k(kind, e2, value):
        q = e2['@self']['queue']

        def st(queue):
            e3 = dict(e2)
            e3['@self'] = dict(e2['@self'], queue=queue)
            return t.record(e3)
        if kind == RETURN and value is not None:
            src = ast.unparse(value)
            if src == 'self.default':
                return 'some (%s, %s)' % (e2['@self']['default'], t.record(e2))
            if src == 'self.queue.get_nowait()':
                return 'match %s with | [] => none /- queue.Empty -/ | b :: rest => some (some b, %s)' % (q, st('rest'))
            if src == FLAT and 'batches' in e2:
                return 'some (some (%s).flatten, %s)' % (e2['batches'], t.record(e2))
        raise NotTranslatable('%s %s in QueueStream.get' % (kind, ast.unparse(value) if value is not None else ''))
    out = ('structure QS (α : Type) where\n  queue : List (List α)      -- the `queue.Queue` of batches, oldest first\n  oneAtATime : Bool\n'
           '  default : Option (List α)\n\n'
           '/-- `QueueStream.get()`: what is handed to the deserializer (`none` = Python `None`) and the stream afterwards -/\n'
           'def queueGet {α : Type} (self : QS α) : Option (Option (List α) × QS α) :=\n  %s\n\n' % t.block(qs.body, env, k, 2))

    fs = find_def(find_class(parse(repo, 'pysparkling/streaming/filestream.py'), 'FileStream'), 'get')
    want = '[fn for fn in File.resolve_filenames(self.path) if fn not in self.files_done]'

    def ext2(node, tr, env):
        if ast.unparse(node) == want:
            return '(listing.filter fun fn => !(%s).contains fn)' % env['@self']['files_done']
        return None

    def ext_stmt(s, tr, env):
        if isinstance(s, ast.AugAssign) and ast.unparse(s) == 'self.files_done |= set(files)' and 'files' in env:
            return {'files_done': '(%s ++ %s)' % (env['@self']['files_done'], env['files'])}     # a set, as a list read only through `contains`
        return None
    t2 = TrM({'files_done': 'files_done'}, ext_expr=ext2, ext_stmt=ext_stmt, kinds={'files_done': 'list'}, state_type='FS')
    env2 = t2.start_env([])
    env2['@kind']['files'] = 'list'

    def k2(kind, e2, value):
        if kind == RETURN and isinstance(value, ast.Constant) and value.value is None:
            return 'some (none, %s)' % t2.record(e2)
        if kind == RETURN and value is not None and ast.unparse(value) == "','.join(files)" and 'files' in e2:
            return 'some (some %s, %s)' % (e2['files'], t2.record(e2))
        raise NotTranslatable('%s in FileStream.get' % kind)
    out += ('structure FS where\n  files_done : List String    -- the set `files_done`, read only through membership\n\n'
            '/-- `FileStream.get()`; `listing` = what `File.resolve_filenames(self.path)` returns at this poll; the result is the list of\n'
            'new files (joined with commas for the deserializer) or `none` -/\n'
            'def fileGet (self : FS) (listing : List String) : Option (Option (List String) × FS) :=\n  %s\n\n' % t2.block(fs.body, env2, k2, 2))

    # DStream._step of a source stream
    step = find_def(find_class(parse(repo, 'pysparkling/streaming/dstream.py'), 'DStream'), '_step')

    def ext3(node, tr, env):
        src = ast.unparse(node)
        if src == 'self._stream.get()':
            return 'got'
        if src == 'self._jrdd_deserializer(self._stream.get())':
            return '(deser got)'
        return None
    t3 = TrM({'_current_time': 'current_time', '_current_rdd': 'current_rdd', '_jrdd_deserializer': 'has_deserializer'},
             ext_expr=ext3, kinds={'_current_time': 'nat'}, state_type='Src ρ')
    env3 = t3.start_env(['time_'])
    env3['@kind']['time_'] = 'nat'
    # `self._jrdd_deserializer is None`: the field is modelled by whether there is one
    body = [ast.fix_missing_locations(_DeserIsNone().visit(s)) for s in step.body]
    t3.kinds['_jrdd_deserializer'] = 'bool'

    def k3(kind, e2, value):
        if kind == FALL or (kind == RETURN and value is None):
            return 'some (%s, polled)' % t3.record(e2)
        raise NotTranslatable('%s in DStream._step' % kind)
    # whether the source was polled is recorded by the generator: a poll happens exactly where `self._stream.get()` is evaluated
    rendered = t3.block(body, env3, k3, 2)
    n_polls = rendered.count('got')
    if n_polls != 2:
        raise NotTranslatable('DStream._step evaluates self._stream.get() in %d places' % n_polls)
    guard, _, rest = rendered.partition('else')
    rendered = guard.replace('polled', 'false') + 'else' + rest.replace('polled', 'true')
    out += ('structure Src (ρ : Type) where\n  current_time : Nat\n  current_rdd : ρ\n  has_deserializer : Bool\n\n'
            '/-- `DStream._step(time_)` of a stream with a source; `got` = what `self._stream.get()` returns if it is called; the Boolean says\n'
            'whether it was called (the source polled) -/\n'
            'def srcStep {ρ : Type} (self : Src ρ) (time_ : Nat) (got : ρ) (deser : ρ → ρ) : Option (Src ρ × Bool) :=\n  %s\n' % rendered)
    return ('pysparkling/streaming/queuestream.py (QueueStream.get), pysparkling/streaming/filestream.py (FileStream.get), '
            'pysparkling/streaming/dstream.py (DStream._step)'), out


class _DeserIsNone(ast.NodeTransformer):
    """`self._jrdd_deserializer is None` -> `not self._jrdd_deserializer` (the field is modelled as "there is one")"""

    def visit_Compare(self, node):
        if ast.unparse(node) == 'self._jrdd_deserializer is None':
            return ast.UnaryOp(op=ast.Not(), operand=node.left)
        return node


# ---- C09: the order of effects in saveAsTextFile -----------------------------------------------------

class TrEff(TrM):
    """statements whose calls are EFFECTS on an abstract store: an effect either succeeds or raises (the exception
    propagates: nothing after it runs), and in both cases the store may have changed"""

    def __init__(self, effects, tests, **kw):
        super().__init__({}, **kw)
        self.effects = effects      # predicate on the call's source text -> effect name
        self.tests = tests          # source text of a side-effect-free test -> lean (over the current store)

    def effect_of(self, call):
        src = ast.unparse(call)
        for name, pred in self.effects.items():
            if pred(src):
                return name
        return None

    def cond(self, e, env):
        src = ast.unparse(e)
        if src in self.tests:
            return '(%s = true)' % (self.tests[src] % env['@st'])
        return super().cond(e, env)

    def block(self, stmts, env, k, ind):
        if stmts:
            s, rest = stmts[0], stmts[1:]
            pad = ' ' * ind
            if isinstance(s, ast.FunctionDef):
                # a local helper: only its name matters here (the effects that use it are named by the generator)
                return self.block(rest, env, k, ind)
            if isinstance(s, ast.Expr) and isinstance(s.value, ast.Call) and self.effect_of(s.value):
                st2 = self.fresh('st')
                env2 = dict(env)
                env2['@st'] = st2
                return ('match E.%s %s with\n%s| (%s, false) => (%s, .failed)   -- the exception reaches the caller\n%s| (%s, true) =>\n%s  ' %
                        (self.effect_of(s.value), env['@st'], pad, st2, st2, pad, st2, pad)) + self.block(rest, env2, k, ind + 2)
        return super().block(stmts, env, k, ind)


def gen_c09(repo):
    fn = find_def(find_class(parse(repo, 'pysparkling/rdd.py'), 'RDD'), 'saveAsTextFile')
    effects = {
        'dumpSingle': lambda src: src == 'fileio.TextFile(path).dump(to_stringio(self.collect()))',
        'runParts': lambda src: src.startswith('self.context.runJob(self.mapPartitions(to_stringio), lambda tc, stringio: fileio.TextFile(os.path.join(path, ')
        and 'part-' in src and src.endswith(').dump(stringio), resultHandler=list)'),
        'dumpMarker': lambda src: src == "fileio.TextFile(os.path.join(path, '_SUCCESS')).dump()",
    }
    tests = {'fileio.TextFile(path).exists()': 'E.pathExists %s', 'self.getNumPartitions() == 1': 'E.single %s'}

    def ext_stmt(s, tr, env):
        # the codec suffix of the part files is a pure function of `path` (modelled by `codecSuffix`); it is not an effect
        src = ast.unparse(s)
        if src == "codec_suffix = ''":
            return {}
        if isinstance(s, ast.If) and ast.unparse(s.test).startswith('path.endswith(') and \
                [ast.unparse(x) for x in s.body] == ["codec_suffix = path[path.rfind('.'):]"] and not s.orelse:
            return {}
        return None
    t = TrEff(effects, tests, ext_stmt=ext_stmt)
    env = {'@self': {}, '@kind': {}, '@st': 'st'}

    def k(kind, e2, value):
        if kind == RAISE and value is not None and ast.unparse(value).startswith('FileAlreadyExistsException('):
            return '(%s, .alreadyExists)' % e2['@st']
        if kind == RETURN and value is not None and ast.unparse(value) == 'self':
            return '(%s, .ok)' % e2['@st']
        raise NotTranslatable('%s in saveAsTextFile' % kind)
    body = t.block(fn.body, env, k, 2)
    out = ('inductive SaveResult where\n  | ok\n  | alreadyExists      -- FileAlreadyExistsException\n'
           '  | failed             -- an exception of an effect reached the caller\n  deriving DecidableEq, Repr\n\n'
           '/-- the effects `saveAsTextFile` has on the store `σ` (file system + fault plan position): each may raise (`false`) -/\n'
           'structure Eff (σ : Type) where\n  pathExists : σ → Bool             -- fileio.TextFile(path).exists()\n'
           '  single : σ → Bool                 -- self.getNumPartitions() == 1\n'
           '  dumpSingle : σ → σ × Bool         -- TextFile(path).dump(to_stringio(self.collect()))\n'
           '  runParts : σ → σ × Bool           -- runJob over the partitions, each task dumping path/part-NNNNN<suffix>\n'
           '  dumpMarker : σ → σ × Bool         -- TextFile(path/_SUCCESS).dump()\n\n'
           '/-- the order of tests and effects of `RDD.saveAsTextFile(path)` -/\n'
           'def saveAsTextFile {σ : Type} (E : Eff σ) (st : σ) : σ × SaveResult :=\n  %s\n' % body)
    return 'pysparkling/rdd.py (RDD.saveAsTextFile: order of tests and effects)', out


# ---- C20: Local.resolve_filenames ------------------------------------------------------------------

class TrStr(TrM):
    """strings as `List Char`: literals, `+`, `s[n:]`, `s.startswith(lit)`, `s.endswith(x)`, `x in s` (substring),
    `any(<test> for v in <const list>)`"""

    def expr(self, e, env):
        if isinstance(e, ast.Constant) and isinstance(e.value, str):
            return '"%s".toList' % e.value.replace('\\', '\\\\').replace('"', '\\"')
        if isinstance(e, ast.BinOp) and isinstance(e.op, ast.Add):
            return '(%s ++ %s)' % (self.expr(e.left, env), self.expr(e.right, env))
        if isinstance(e, ast.Subscript) and isinstance(e.slice, ast.Slice) and e.slice.upper is None and e.slice.step is None \
                and isinstance(e.slice.lower, ast.Constant) and isinstance(e.slice.lower.value, int) and e.slice.lower.value >= 0:
            return '(%s.drop %d)' % (self.expr(e.value, env), e.slice.lower.value)
        if isinstance(e, ast.List):
            return '[' + ', '.join(self.expr(x, env) for x in e.elts) + ']'
        return super().expr(e, env)

    def cond(self, e, env):
        if isinstance(e, ast.Call) and isinstance(e.func, ast.Attribute) and e.func.attr in ('startswith', 'endswith') and len(e.args) == 1:
            fn = 'isPrefixOf' if e.func.attr == 'startswith' else 'isSuffixOf'
            return '(List.%s %s %s = true)' % (fn, self.expr(e.args[0], env), self.expr(e.func.value, env))
        if isinstance(e, ast.Compare) and len(e.ops) == 1 and isinstance(e.ops[0], ast.In) and self.kind(e.comparators[0], env) == 'str':
            return '(Str.hasInfix %s %s = true)' % (self.expr(e.comparators[0], env), self.expr(e.left, env))
        if isinstance(e, ast.Call) and isinstance(e.func, ast.Name) and e.func.id == 'any' and len(e.args) == 1 \
                and isinstance(e.args[0], ast.GeneratorExp) and len(e.args[0].generators) == 1:
            g = e.args[0].generators[0]
            if g.ifs or not isinstance(g.target, ast.Name) or not isinstance(g.iter, ast.Name) or env['@kind'].get(g.iter.id) != 'strlist':
                raise NotTranslatable('any(...) shape')
            v = self.fresh(g.target.id)
            env2 = dict(env)
            env2[g.target.id] = v
            return '((%s).any (fun %s => decide %s) = true)' % (env[g.iter.id], v, self.cond(e.args[0].elt, env2))
        return super().cond(e, env)


def gen_c20(repo):
    fn = find_def(find_class(parse(repo, 'pysparkling/fileio/fs/local.py'), 'Local'), 'resolve_filenames')
    if [a.arg for a in fn.args.args] != ['expr']:
        raise NotTranslatable('resolve_filenames parameters')
    WALK = ("for root, _, filenames in os.walk(prefix):\n    for filename in filenames:\n        path = os.path.join(root, filename)\n"
            "        if fnmatch(path, expr) or fnmatch(path, expr + '/part*'):\n            files.append(path)")

    def ext_expr(node, tr, env):
        src = ast.unparse(node)
        if src == 'os.path.sep':
            return '"/".toList'                                  # POSIX (trusted: the checks run on Linux)
        if src == 't.get_next([\'*\', \'?\'])' and env.get('t') is not None:
            return '(E.literalPrefix %s)' % env['t']              # Tokenizer(expr).get_next(['*', '?'])
        if isinstance(node, ast.Call) and src.startswith('Tokenizer(') and len(node.args) == 1:
            return tr.expr(node.args[0], env)                     # the tokenizer object is its remaining text
        if isinstance(node, ast.Call) and src.startswith('os.path.dirname(') and len(node.args) == 1:
            return '(E.dirname %s)' % tr.expr(node.args[0], env)
        return None

    def ext_stmt(s, tr, env):
        src = ast.unparse(s)
        if src == 'if os.path.altsep:\n    os_sep.append(os.path.altsep)':
            return {}                                             # POSIX: os.path.altsep is None
        if src == WALK and 'files' in env:
            e2 = dict(env)
            e2['path'] = 'path'
            e2['@kind'] = dict(env['@kind'], path='str')
            test = tr.cond(s.body[0].body[1].test, e2)
            return {'@local:files': '(%s ++ (E.walk %s).filter (fun path => decide %s))' % (env['files'], env['prefix'], test)}
        return None

    UNANCHOR = 'files = [path[2:] for path in files]'

    class T(TrStr):
        @staticmethod
        def is_test(e):
            return (isinstance(e, ast.UnaryOp) and isinstance(e.op, ast.Not)) or \
                (isinstance(e, ast.Call) and isinstance(e.func, ast.Name) and e.func.id == 'any')

        def kind(self, e, env):
            return 'bool' if self.is_test(e) else super().kind(e, env)

        def expr(self, e, env):
            if self.is_test(e):                                   # a test stored in a local: `anchored = not any(...)`
                return '(decide %s)' % self.cond(e, env)
            return super().expr(e, env)

        def cond(self, e, env):
            src = ast.unparse(e)
            if src.startswith('os.path.isfile(') and isinstance(e, ast.Call):
                return '(E.isFile %s = true)' % self.expr(e.args[0], env)
            if src.startswith('fnmatch(') and isinstance(e, ast.Call) and len(e.args) == 2:
                return '(E.fnmatch %s %s = true)' % (self.expr(e.args[0], env), self.expr(e.args[1], env))
            return super().cond(e, env)

        def block(self, stmts, env, k, ind):
            if stmts and ast.unparse(stmts[0]) == UNANCHOR and 'files' in env:
                nm = self.fresh('files')                          # the first two characters of every name dropped
                env2 = dict(env)
                env2['files'] = nm
                return 'let %s := (%s).map (fun path => path.drop 2)\n%s' % (nm, env['files'], ' ' * ind) + self.block(stmts[1:], env2, k, ind)
            if stmts:
                upd = ext_stmt(stmts[0], self, env)
                if upd is not None and '@local:files' in upd:
                    nm = self.fresh('files')
                    env2 = dict(env)
                    env2['files'] = nm
                    return 'let %s := %s\n%s' % (nm, upd['@local:files'], ' ' * ind) + self.block(stmts[1:], env2, k, ind)
            return super().block(stmts, env, k, ind)
    t = T({}, ext_expr=ext_expr, ext_stmt=lambda s, tr, env: {} if ext_stmt(s, tr, env) == {} else None)
    env = {'@self': {}, '@kind': {'expr': 'str', 'prefix': 'str', 'os_sep': 'strlist', 'files': 'list', 't': 'str'}, 'expr': 'expr'}

    def k(kind, e2, value):
        if kind == RETURN and value is not None:
            return t.expr(value, e2)
        raise NotTranslatable('%s in resolve_filenames' % kind)
    body = t.block(fn.body, env, k, 2)
    out = ('abbrev Str := List Char\n\n/-- `x in s` for strings -/\ndef Str.hasInfix (s sub : Str) : Bool := (List.range (s.length + 1)).any fun i => sub.isPrefixOf (s.drop i)\n\n'
           '/-- what `Local.resolve_filenames` asks of its environment -/\nstructure Env where\n'
           '  isFile : Str → Bool               -- os.path.isfile\n  literalPrefix : Str → Str         -- Tokenizer(expr).get_next([\'*\', \'?\'])\n'
           '  dirname : Str → Str               -- os.path.dirname\n  walk : Str → List Str             -- the paths os.walk(prefix) yields, joined as root/filename, in its order\n'
           '  fnmatch : Str → Str → Bool        -- fnmatch(path, pattern)\n\n'
           '/-- `Local.resolve_filenames(expr)` (POSIX path separators) -/\n'
           'def resolveFilenames (E : Env) (expr : Str) : List Str :=\n  %s\n' % body)
    return 'pysparkling/fileio/fs/local.py (Local.resolve_filenames)', out



# ---- C02: the per-key comprehensions of the join family, the grouping loop, cartesian, subtractByKey ------------

class TrComp:
    """list comprehensions over a grouped pair `kv` and the dictionaries `d_other` / `d_self` (association lists):
    `kv[0]`, `kv[1]`, `kv[1][0]`, `kv[1][1]`, tuples, `d[kv[0]] if kv[0] in d else [] / [None]`, `l if l else [None]`,
    `for v in <iter>`, `if kv[0] (not) in d`. A branch paired with `[None]` holds optional values: the other branch is
    lifted with `some`."""

    def __init__(self, dicts, lists=()):
        self.dicts, self.lists = set(dicts), set(lists)

    def sub(self, e):
        if isinstance(e, ast.Name):
            return e.id
        if isinstance(e, ast.Subscript) and isinstance(e.slice, ast.Constant) and e.slice.value in (0, 1) \
                and not (isinstance(e.value, ast.Name) and e.value.id in self.dicts):
            return '%s.%d' % (self.sub(e.value), e.slice.value + 1)
        raise NotTranslatable('projection ' + ast.unparse(e)[:60])

    def elt(self, e):
        if isinstance(e, ast.Tuple):
            return '()' if not e.elts else '(' + ', '.join(self.elt(x) for x in e.elts) + ')'
        if isinstance(e, ast.Constant) and e.value is None:
            return 'none'
        return self.sub(e)

    def test(self, e):
        if isinstance(e, ast.Compare) and len(e.ops) == 1 and isinstance(e.ops[0], (ast.In, ast.NotIn)) \
                and isinstance(e.comparators[0], ast.Name) and e.comparators[0].id in self.dicts:
            t = '(%s.lookup %s).isSome' % (e.comparators[0].id, self.sub(e.left))
            return t if isinstance(e.ops[0], ast.In) else '!' + t
        if isinstance(e, ast.UnaryOp) and isinstance(e.op, ast.Not):
            return '!(%s)' % self.test(e.operand)
        if isinstance(e, ast.BoolOp) and isinstance(e.op, ast.And):
            return '(' + ' && '.join(self.test(v) for v in e.values) + ')'
        return '!(%s).isEmpty' % self.sub(e)                      # truth value of a list

    def lst(self, e, lift=False):
        """an iterable as a Lean list; `lift`: its elements become `some _`"""
        if isinstance(e, ast.IfExp):
            other = e.orelse
            if isinstance(other, ast.List) and not other.elts:
                return '(if %s then %s else [])' % (self.test(e.test), self.lst(e.body, lift))
            if isinstance(other, ast.List) and len(other.elts) == 1 and isinstance(other.elts[0], ast.Constant) and other.elts[0].value is None:
                return '(if %s then %s else [none])' % (self.test(e.test), self.lst(e.body, True))
            raise NotTranslatable('conditional iterable ' + ast.unparse(e)[:60])
        if isinstance(e, ast.Subscript) and isinstance(e.value, ast.Name) and e.value.id in self.dicts:
            base = '((%s.lookup %s).getD [])' % (e.value.id, self.sub(e.slice))         # guarded by `k in d`
        else:
            base = self.sub(e)
        return '(%s.map some)' % base if lift else base

    def comp(self, e):
        if not isinstance(e, (ast.ListComp, ast.GeneratorExp)):
            raise NotTranslatable('not a comprehension')

        def go(gens):
            g = gens[0]
            if not isinstance(g.target, ast.Name):
                raise NotTranslatable('comprehension target')
            inner = go(gens[1:]) if gens[1:] else None
            it = self.lst(g.iter)
            cond = ' && '.join(self.test(c) for c in g.ifs)
            if inner is None and not cond:
                return '(%s).map fun %s => %s' % (it, g.target.id, self.elt(e.elt))
            body = inner if inner is not None else '[%s]' % self.elt(e.elt)
            if cond:
                body = 'if %s then %s else []' % (cond, body)
            return '(%s).flatMap fun %s => %s' % (it, g.target.id, body)
        return go(list(e.generators))


def gen_c02(repo):
    rdd = find_class(parse(repo, 'pysparkling/rdd.py'), 'RDD')

    def the_lambda_comp(fname, attr='flatMap'):
        fn = find_def(rdd, fname)
        found = [n for n in ast.walk(fn) if isinstance(n, ast.Call) and isinstance(n.func, ast.Attribute) and n.func.attr == attr
                 and len(n.args) == 1 and isinstance(n.args[0], ast.Lambda)]
        if len(found) != 1:
            raise NotTranslatable('%s: %d %s(lambda ...)' % (fname, len(found), attr))
        lam = found[0].args[0]
        return fn, [a.arg for a in lam.args.args], lam.body

    out = 'variable {κ ν ω α β : Type} [DecidableEq κ]\n\n'
    sigs = {
        'join': ('joinPerKey', 'd_other', '(d_other : List (κ × List ω)) (kv : κ × List ν) : List (κ × (ν × ω))'),
        'leftOuterJoin': ('leftOuterPerKey', 'd_other', '(d_other : List (κ × List ω)) (kv : κ × List ν) : List (κ × (ν × Option ω))'),
        'rightOuterJoin': ('rightOuterPerKey', 'd_self', '(d_self : List (κ × List ν)) (kv : κ × List ω) : List (κ × (Option ν × ω))'),
        'fullOuterJoin': ('fullOuterPerKey', None, '(kv : κ × (List ν × List ω)) : List (κ × (Option ν × Option ω))'),
        '_leftSemiJoin': ('semiPerKey', 'd_other', '(d_other : List (κ × List ω)) (kv : κ × List ν) : List (κ × (ν × Unit))'),
        '_leftAntiJoin': ('antiPerKey', 'd_other', '(d_other : List (κ × List ω)) (kv : κ × List ν) : List (κ × (ν × Option Unit))'),
    }
    for fname, (lean, d, sig) in sigs.items():
        fn, params, body = the_lambda_comp(fname)
        if params != ['kv']:
            raise NotTranslatable('%s: lambda parameters %s' % (fname, params))
        if d is not None:
            # the dictionary is the grouped other side: `d = X.groupByKey().collectAsMap()`
            want = '%s = %s.groupByKey().collectAsMap()' % (d, 'other' if d == 'd_other' else 'self')
            if want not in [ast.unparse(s) for s in fn.body]:
                raise NotTranslatable('%s: %s is not the grouped other side' % (fname, d))
        tr = TrComp([d] if d else [])
        out += '/-- the list `RDD.%s` builds for one grouped key (`flatMap(lambda kv: [...])`) -/\ndef %s %s :=\n  %s\n\n' % (
            fname, lean, sig, tr.comp(body))
    # cartesian: [(a, b) for a in v1 for b in v2]
    fn = find_def(rdd, 'cartesian')
    comps = [n for n in ast.walk(fn) if isinstance(n, ast.ListComp)]
    if len(comps) != 1:
        raise NotTranslatable('cartesian: comprehension')
    out += '/-- `RDD.cartesian`: the list handed to `parallelize` -/\ndef cartesianList (v1 : List α) (v2 : List β) : List (α × β) :=\n  %s\n\n' % (
        TrComp([], ['v1', 'v2']).comp(comps[0]))
    # groupByKey: r = defaultdict(list); for key, value in <it>: r[key].append(value); ... r.items()
    fn = find_def(rdd, 'groupByKey')
    src = [ast.unparse(s) for s in fn.body if not (isinstance(s, ast.Expr) and isinstance(s.value, ast.Constant))]
    loop = 'for key, value in self.toLocalIterator():\n    r[key].append(value)'
    if 'r = defaultdict(list)' not in src or loop not in src or 'return self.context.parallelize(r.items(), numPartitions)' not in src:
        raise NotTranslatable('groupByKey: grouping loop')
    out += ('/-- `r[key].append(value)` on a `defaultdict(list)`: a new key is inserted at the end with `[value]` -/\n'
            'def appendTo (r : List (κ × List ν)) (key : κ) (value : ν) : List (κ × List ν) :=\n'
            '  if Assoc.has r key then r.map fun e => if e.1 == key then (e.1, e.2 ++ [value]) else e else r ++ [(key, [value])]\n\n'
            '/-- the grouping loop of `RDD.groupByKey`: `r.items()` after `for key, value in it: r[key].append(value)` -/\n'
            'def groupItems (it : List (κ × ν)) : List (κ × List ν) :=\n  it.foldl (fun r kv => appendTo r kv.1 kv.2) []\n\n')
    # subtractByKey: filter_func and the flatMapValues projection
    fn = find_def(rdd, 'subtractByKey')
    src = [ast.unparse(s) for s in fn.body if not (isinstance(s, ast.Expr) and isinstance(s.value, ast.Constant))]
    if src != ['def filter_func(pair):\n    _, (val1, val2) = pair\n    return val1 and (not val2)',
               'return self.cogroup(other, numPartitions).filter(filter_func).flatMapValues(lambda x: x[0])']:
        raise NotTranslatable('subtractByKey body')
    out += ('/-- `filter_func` of `RDD.subtractByKey`: `val1 and not val2` (truth values of the two value lists) -/\n'
            'def subtractKeep (pair : κ × (List ν × List ω)) : Bool :=\n  !(pair.2.1).isEmpty && !(!(pair.2.2).isEmpty)\n\n'
            '/-- `flatMapValues(lambda x: x[0])` -/\ndef subtractValues (x : List ν × List ω) : List ν := x.1\n')
    return 'pysparkling/rdd.py (join family per-key comprehensions, groupByKey loop, cartesian, subtractByKey)', out

# ---- C03: what a pool task receives and sends back (clone_contains, stored_idents, get_not_in, join) --------

def gen_c03(repo):
    cm = find_class(parse(repo, 'pysparkling/cache_manager.py'), 'CacheManager')
    ctx_tree = parse(repo, 'pysparkling/context.py')
    fields = {'cache_obj': 'cache_obj'}
    kinds = {'cache_obj': 'assoc'}
    STORED = "v['mem_obj'] is not None or v['disk_location'] is not None"

    def dictcomp(node, tr, env):
        """{i: c for i, c in self.cache_obj.items() if <test on i>}  ->  filter"""
        if not (isinstance(node, ast.DictComp) and len(node.generators) == 1):
            return None
        g = node.generators[0]
        if not (ast.unparse(g.iter) == 'self.cache_obj.items()' and isinstance(g.target, ast.Tuple) and len(g.target.elts) == 2
                and all(isinstance(t, ast.Name) for t in g.target.elts) and len(g.ifs) == 1
                and ast.unparse(node.key) == g.target.elts[0].id and ast.unparse(node.value) == g.target.elts[1].id):
            raise NotTranslatable('dict comprehension shape')
        kname = g.target.elts[0].id
        env2 = dict(env)
        env2[kname] = 'p.1'
        return '(%s.filter fun p => decide %s)' % (env['@self']['cache_obj'], tr.cond(g.ifs[0], env2))

    class T(TrM):
        def cond(self, e, env):
            if isinstance(e, ast.Call) and isinstance(e.func, ast.Name) and e.func.id == 'filter_id' and len(e.args) == 1:
                return '(filter_id %s = true)' % self.expr(e.args[0], env)
            if isinstance(e, ast.Compare) and len(e.ops) == 1 and isinstance(e.ops[0], ast.NotIn) and ast.unparse(e.comparators[0]) == 'idents':
                return '(¬ (idents.contains %s = true))' % self.expr(e.left, env)
            return super().cond(e, env)

    def ext_expr(node, tr, env):
        return dictcomp(node, tr, env)
    out = ('/-- the part of a cache entry the cache manager reads back -/\nstructure Entry (β : Type) where\n  mem_obj : Option β\n'
           '  disk_location : Option Unit := none\n\nstructure CM (κ β : Type) where\n  cache_obj : Assoc κ (Entry β)\n\n'
           'variable {κ β : Type} [BEq κ]\n\n')

    # clone_contains(filter_id): the clone's `cache_obj`
    fn = find_def(cm, 'clone_contains')
    asg = [s for s in fn.body if isinstance(s, ast.Assign) and ast.unparse(s.targets[0]) == 'cm.cache_obj']
    ret = [s for s in fn.body if isinstance(s, ast.Return)]
    if len(asg) != 1 or len(ret) != 1 or ast.unparse(ret[0].value) != 'cm' or not ast.unparse(fn.body[-3] if len(fn.body) >= 3 else fn.body[0]):
        raise NotTranslatable('clone_contains shape')
    news = [s for s in fn.body if isinstance(s, ast.Assign) and ast.unparse(s.targets[0]) == 'cm']
    if len(news) != 1 or not ast.unparse(news[0].value).startswith('CacheManager('):
        raise NotTranslatable('clone_contains does not build a fresh CacheManager')
    t = T(fields, ext_expr=ext_expr, kinds=kinds)
    env = t.start_env(['filter_id'])
    out += ('/-- `clone_contains(filter_id)`: a fresh manager holding the entries whose ident passes the filter -/\n'
            'def cloneContains (self : CM κ β) (filter_id : κ → Bool) : CM κ β :=\n  { cache_obj := %s }\n\n' % t.expr(asg[0].value, env))

    # get_not_in(idents)
    fn = find_def(cm, 'get_not_in')
    ret = [s for s in fn.body if isinstance(s, ast.Return)]
    if len(ret) != 1:
        raise NotTranslatable('get_not_in shape')
    env = t.start_env(['idents'])
    out += ('/-- `get_not_in(idents)`: the entries whose ident is not listed -/\n'
            'def getNotIn (self : CM κ β) (idents : List κ) : Assoc κ (Entry β) :=\n  %s\n\n' % t.expr(ret[0].value, env))

    # stored_idents()
    fn = find_def(cm, 'stored_idents')
    ret = [s for s in fn.body if isinstance(s, ast.Return)]
    want = '[k for k, v in self.cache_obj.items() if %s]' % STORED
    if len(ret) != 1 or ast.unparse(ret[0].value) != want:
        raise NotTranslatable('stored_idents is no longer `%s`' % want)
    out += ('/-- `stored_idents()`: the idents whose entry is held in memory or on disk -/\n'
            'def storedIdents (self : CM κ β) : List κ :=\n  (self.cache_obj.filter fun p => p.2.mem_obj.isSome || p.2.disk_location.isSome).map (·.1)\n\n')

    # join(cache_objects)
    fn = find_def(cm, 'join')
    body = [s for s in fn.body if not (isinstance(s, ast.Expr) and isinstance(s.value, ast.Constant))]
    if [ast.unparse(s) for s in body] != ['self.cache_obj.update(cache_objects)']:
        raise NotTranslatable('join is no longer `self.cache_obj.update(cache_objects)`')
    out += ('/-- `join(cache_objects)`: `dict.update` -/\n'
            'def join (self : CM κ β) (cache_objects : Assoc κ (Entry β)) : CM κ β :=\n  { cache_obj := Assoc.update self.cache_obj cache_objects }\n\n')

    # the filter a pool task's clone is built with, and what the task sends back
    dist = find_def(find_class(ctx_tree, 'Context'), '_runJob_distributed')
    prep = find_def(dist, 'prepare')
    clones = [n for n in ast.walk(prep) if isinstance(n, ast.Call) and ast.unparse(n.func) == 'self._cache_manager.clone_contains']
    if len(clones) != 1 or ast.unparse(clones[0].args[0]) != 'lambda i: i[1] == partition.index':
        raise NotTranslatable('the clone filter is no longer `lambda i: i[1] == partition.index`')
    joins = [n for n in ast.walk(dist) if isinstance(n, ast.Call) and ast.unparse(n.func) == 'self._cache_manager.join']
    if len(joins) != 1 or ast.unparse(joins[0].args[0]) != 'cache_result':
        raise NotTranslatable('the driver no longer joins `cache_result`')
    rjm = find_def(ctx_tree, 'runJob_map')
    src = ast.unparse(rjm)
    if 'cm_state = task_context.cache_manager.stored_idents()' not in src or 'task_context.cache_manager.get_not_in(cm_state)' not in src \
            or src.index('cm_state = task_context.cache_manager.stored_idents()') > src.index('result = _run_task(task_context, rdd, func, partition)') \
            or src.index('task_context.cache_manager.get_not_in(cm_state)') < src.index('result = _run_task(task_context, rdd, func, partition)'):
        raise NotTranslatable('runJob_map no longer snapshots stored_idents() before the task and returns get_not_in(snapshot) after it')
    out += ('/-- the clone shipped to the task of partition `index`: `clone_contains(lambda i: i[1] == partition.index)` -/\n'
            'def cloneForTask {δ : Type} [BEq δ] (driver : CM (δ × Nat) β) (index : Nat) : CM (δ × Nat) β :=\n'
            '  cloneContains driver (fun i => i.2 == index)\n\n'
            '/-- what `runJob_map` sends back: `get_not_in(stored_idents() as they were before the task)` of the manager after the task -/\n'
            'def sentBack (before after : CM κ β) : Assoc κ (Entry β) :=\n  getNotIn after (storedIdents before)\n')
    return ('pysparkling/cache_manager.py (clone_contains, get_not_in, stored_idents, join), pysparkling/context.py '
            '(_runJob_distributed clone filter and join, runJob_map snapshot)'), out


# ---- C08: codec selection by file name, codec suffix of part files, line encoding --------------------

def gen_c08(repo):
    tree = parse(repo, 'pysparkling/fileio/codec/__init__.py')
    tab = [s for s in tree.body if isinstance(s, ast.Assign) and ast.unparse(s.targets[0]) == 'FILE_ENDINGS']
    if len(tab) != 1 or not isinstance(tab[0].value, ast.List):
        raise NotTranslatable('FILE_ENDINGS table')
    rows, classes = [], []
    for el in tab[0].value.elts:
        if not (isinstance(el, ast.Tuple) and len(el.elts) == 2 and isinstance(el.elts[0], ast.Tuple) and isinstance(el.elts[1], ast.Name)
                and all(isinstance(x, ast.Constant) and isinstance(x.value, str) for x in el.elts[0].elts)):
            raise NotTranslatable('FILE_ENDINGS row ' + ast.unparse(el))
        cls = el.elts[1].id
        classes.append(cls)
        rows.append('([%s], CodecName.%s)' % (', '.join('"%s".toList' % x.value for x in el.elts[0].elts), cls))
    if len(set(classes)) != len(classes):
        raise NotTranslatable('a codec class appears twice in FILE_ENDINGS')
    out = ('abbrev Str := List Char\n\n/-- `x in s` for strings -/\ndef Str.hasInfix (s sub : Str) : Bool := (List.range (s.length + 1)).any fun i => sub.isPrefixOf (s.drop i)\n'
           '/-- `s.rfind(c)` for a one-character `c` (-1 when absent) -/\ndef Str.rfindChar (s : Str) (c : Char) : Int :=\n'
           '  match s.reverse.findIdx? (· = c) with\n  | some i => (s.length : Int) - 1 - i\n  | none => -1\n\n'
           '/-- the codec classes named in `FILE_ENDINGS`, plus the two fall-backs of `get_codec` -/\n'
           'inductive CodecName where\n  | Codec | NoCodec%s\n  deriving DecidableEq, Repr\n\n' % ''.join(' | ' + c for c in classes))
    out += '/-- `FILE_ENDINGS` -/\ndef fileEndings : List (List Str × CodecName) :=\n  [%s]\n\n' % ',\n   '.join(rows)

    gc = find_def(tree, 'get_codec')
    body = [st for st in gc.body if not (isinstance(st, ast.Expr) and isinstance(st.value, ast.Constant))]
    want = ["if '.' not in path or path.rfind('/') > path.rfind('.'):\n    return Codec",
            "for endings, codec_class in FILE_ENDINGS:\n    if any((path.endswith(e) for e in endings)):\n        log.debug('Using %s codec: %s', endings, path)\n        return codec_class",
            'return NoCodec']
    got = [ast.unparse(st) for st in body]
    # the log line is noise: compare without it
    norm = lambda t: '\n'.join(l for l in t.split('\n') if not l.strip().startswith('log.'))    # noqa: E731
    if [norm(g) for g in got] != [norm(w) for w in want]:
        # translate what can be translated structurally: guard, table scan, fall-back
        raise NotTranslatable('get_codec no longer has the shape guard / table scan / fall-back: %r' % got)
    t = TrStr({}, kinds={})
    env = {'@self': {}, '@kind': {'path': 'str'}, 'path': 'path'}
    guard = body[0].test

    class G(TrStr):
        def cond(self, e, env):
            if isinstance(e, ast.Compare) and len(e.ops) == 1 and isinstance(e.ops[0], (ast.In, ast.NotIn)) \
                    and isinstance(e.left, ast.Constant) and isinstance(e.left.value, str) and self.kind(e.comparators[0], env) == 'str':
                c = '(Str.hasInfix %s %s = true)' % (self.expr(e.comparators[0], env), self.expr(e.left, env))
                return c if isinstance(e.ops[0], ast.In) else '(¬ %s)' % c
            return super().cond(e, env)

        def expr(self, e, env):
            if isinstance(e, ast.Call) and isinstance(e.func, ast.Attribute) and e.func.attr == 'rfind' and len(e.args) == 1 \
                    and isinstance(e.args[0], ast.Constant) and isinstance(e.args[0].value, str) and len(e.args[0].value) == 1:
                return "(Str.rfindChar %s '%s')" % (self.expr(e.func.value, env), e.args[0].value)
            return super().expr(e, env)
    g = G({}, kinds={})
    scan_test = body[1].body[0].test        # any(path.endswith(e) for e in endings)
    gen = scan_test.args[0]
    if not (isinstance(gen, ast.GeneratorExp) and ast.unparse(gen.elt) == 'path.endswith(e)' and ast.unparse(gen.generators[0].iter) == 'endings'):
        raise NotTranslatable('table scan test')
    out += ('/-- `get_codec(path)` -/\ndef getCodec (path : Str) : CodecName :=\n  if %s then CodecName.Codec\n'
            '  else match fileEndings.find? (fun row => row.1.any fun e => List.isSuffixOf e path) with\n'
            '    | some row => row.2\n    | none => CodecName.NoCodec\n\n' % g.cond(guard, env))

    # the suffix of the part files (saveAsTextFile and saveAsPickleFile must compute it the same way)
    rdd = find_class(parse(repo, 'pysparkling/rdd.py'), 'RDD')
    want_if = ("if path.endswith(tuple((ending for endings, _ in fileio.codec.FILE_ENDINGS for ending in endings))):\n"
               "    codec_suffix = path[path.rfind('.'):]")
    for name in ('saveAsTextFile', 'saveAsPickleFile'):
        fn = find_def(rdd, name)
        srcs = [ast.unparse(st) for st in fn.body]
        if "codec_suffix = ''" not in srcs or want_if not in srcs or srcs.index("codec_suffix = ''") + 1 != srcs.index(want_if):
            raise NotTranslatable('codec suffix computation of %s' % name)
    out += ("/-- the suffix given to part files: `path[path.rfind('.'):]` when `path` ends with any ending of `FILE_ENDINGS`, else `''` -/\n"
            'def codecSuffix (path : Str) : Str :=\n  if (fileEndings.flatMap (·.1)).any (fun ending => List.isSuffixOf ending path) then\n'
            "    path.drop (Str.rfindChar path '.').toNat\n  else []\n\n")
    # line encoding
    fn = find_def(find_def(rdd, 'saveAsTextFile'), 'to_stringio')
    loops = [st for st in fn.body if isinstance(st, ast.For)]
    if len(loops) != 1 or ast.unparse(loops[0]) != "for line in data:\n    stringio.write(f'{line}\\n')":
        raise NotTranslatable('to_stringio loop: %r' % [ast.unparse(l) for l in loops])
    out += ("/-- `to_stringio(data)`: `for line in data: write(f'{line}\\n')` (lines as their `str()` text) -/\n"
            "def toStringIO (data : List Str) : Str := data.flatMap fun line => line ++ ['\\n']\n")
    return ('pysparkling/fileio/codec/__init__.py (FILE_ENDINGS, get_codec), pysparkling/rdd.py (codec suffix of saveAsTextFile / '
            'saveAsPickleFile, to_stringio)'), out


# ---- C12: three-valued logic and null tests of the expression evaluator ---------------------------------

class TrSV(TrM):
    """Python values as the SQL model's `SV` (null / bool / int / double / string) with Python truthiness"""

    def __init__(self, cls, **kw):
        super().__init__({}, **kw)
        self.cls = cls

    def is_sv(self, e, env):
        return isinstance(e, ast.Name) and env['@kind'].get(e.id) == 'sv'

    def expr(self, e, env):
        if isinstance(e, ast.Constant) and e.value is None:
            return 'SV.null'
        if isinstance(e, ast.Constant) and isinstance(e.value, bool):
            return '(SV.bool %s)' % ('true' if e.value else 'false')
        if isinstance(e, ast.Name) and e.id in env:
            return env[e.id]
        if isinstance(e, ast.BoolOp):
            vals = [self.expr(v, env) for v in e.values]
            cur = vals[-1]
            for v in reversed(vals[:-1]):
                cur = ('(if truthy %s = true then %s else %s)' % (v, cur, v)) if isinstance(e.op, ast.And) else \
                    ('(if truthy %s = true then %s else %s)' % (v, v, cur))
            return cur
        if isinstance(e, ast.UnaryOp) and isinstance(e.op, ast.Not):
            return '(SV.bool (!truthy %s))' % self.expr(e.operand, env)
        if isinstance(e, ast.Compare) and len(e.ops) == 1 and isinstance(e.ops[0], (ast.Is, ast.IsNot)) \
                and isinstance(e.comparators[0], ast.Constant) and e.comparators[0].value is None:
            return '(SV.bool (decide %s))' % self.cond(e, env)
        if isinstance(e, ast.Call) and ast.unparse(e.func) == 'self.unsafe_operation':
            m = find_def(self.cls, 'unsafe_operation')
            params = [a.arg for a in m.args.args][1:]
            body = [st for st in m.body if not (isinstance(st, ast.Expr) and isinstance(st.value, ast.Constant))]
            if len(params) != len(e.args) or len(body) != 1 or not isinstance(body[0], ast.Return):
                raise NotTranslatable('unsafe_operation shape')
            env2 = dict(env)
            env2['@kind'] = dict(env['@kind'])
            for p_, a in zip(params, e.args):
                env2[p_] = self.expr(a, env)
                env2['@kind'][p_] = 'sv'
            return self.expr(body[0].value, env2)
        raise NotTranslatable('expression ' + ast.unparse(e)[:80])

    def cond(self, e, env):
        if isinstance(e, ast.Compare) and len(e.ops) == 1 and isinstance(e.ops[0], (ast.Is, ast.IsNot)) \
                and isinstance(e.comparators[0], ast.Constant) and e.comparators[0].value is None:
            t = '(%s = SV.null)' % self.expr(e.left, env)
            return t if isinstance(e.ops[0], ast.Is) else '(¬ %s)' % t
        if isinstance(e, ast.UnaryOp) and isinstance(e.op, ast.Not):
            return '(¬ %s)' % self.cond(e.operand, env)
        if isinstance(e, ast.BoolOp):
            j = ' ∧ ' if isinstance(e.op, ast.And) else ' ∨ '
            return '(' + j.join(self.cond(v, env) for v in e.values) + ')'
        if self.is_sv(e, env):
            return '(truthy %s = true)' % env[e.id]
        raise NotTranslatable('truth value of ' + ast.unparse(e)[:60])


def gen_c12(repo):
    tree = parse(repo, 'pysparkling/sql/expressions/operators.py')
    out = 'open PysparklingVerif.Sql\n\n'

    def one(clsname, leanname, arity, doc):
        cls = find_class(tree, clsname)
        fn = [n for n in cls.body if isinstance(n, ast.FunctionDef) and n.name == 'eval']
        if len(fn) != 1 or [a.arg for a in fn[0].args.args] != ['self', 'row', 'schema']:
            raise NotTranslatable('%s.eval' % clsname)
        srcs = {'self.arg1.eval(row, schema)': 'a', 'self.arg2.eval(row, schema)': 'b', 'self.column.eval(row, schema)': 'a'}

        class Sub(ast.NodeTransformer):
            def visit_Call(self, node):
                s_ = ast.unparse(node)
                if s_ in srcs:
                    return ast.Name(id=srcs[s_], ctx=ast.Load())
                return self.generic_visit(node)
        body = [ast.fix_missing_locations(Sub().visit(st)) for st in fn[0].body]
        t = TrSV(cls)
        names = ['a', 'b'][:arity]
        env = {'@self': {}, '@kind': {n: 'sv' for n in names}}
        for n in names:
            env[n] = n
        # locals assigned from sub-expression values are values too
        for st in body:
            if isinstance(st, ast.Assign) and isinstance(st.targets[0], ast.Name):
                env['@kind'][st.targets[0].id] = 'sv'

        def k(kind, e2, value):
            if kind == RETURN and value is not None:
                return t.expr(value, e2)
            raise NotTranslatable('%s in %s.eval' % (kind, clsname))
        ps = ' '.join('(%s : SV)' % n for n in names)
        return '/-- %s -/\ndef %s %s : SV :=\n  %s\n\n' % (doc, leanname, ps, t.block(body, env, k, 2))
    out += one('And', 'andEval', 2, '`And.eval` on the values of its operands')
    out += one('Or', 'orEval', 2, '`Or.eval` on the values of its operands')
    out += one('Invert', 'invertEval', 1, '`Invert.eval` (`~col`) on the value of its operand')
    out += one('IsNull', 'isNullEval', 1, '`IsNull.eval`')
    out += one('IsNotNull', 'isNotNullEval', 1, '`IsNotNull.eval`')
    out += int_operation(tree, 'Mod', 'modInt', '`Mod.unsafe_operation` on two Python ints (`none` = the SQL null it returns)')
    out += int_operation(tree, 'Divide', 'divRat', '`Divide.unsafe_operation` on two numbers as exact rationals (`none` = null)', num='Rat')
    return ('pysparkling/sql/expressions/operators.py (And.eval, Or.eval, Invert.eval, IsNull.eval, IsNotNull.eval, '
            'Mod.unsafe_operation on ints, Divide.unsafe_operation)'), out


def int_operation(tree, clsname, leanname, doc, num='Int'):
    """`unsafe_operation(self, value1, value2)` of a binary operator, for operands that are Python ints: `if`/`return`/assignments over
    `abs`, `%`, unary minus, comparisons with constants, conditional expressions. A branch guarded by `isinstance(.., float)` (alone
    or in an `or`) is the float case and is skipped; `return None` is the null result."""
    cls = find_class(tree, clsname)
    fn = [n for n in cls.body if isinstance(n, ast.FunctionDef) and n.name == 'unsafe_operation']
    if len(fn) != 1 or [a.arg for a in fn[0].args.args] != ['self', 'value1', 'value2']:
        raise NotTranslatable('%s.unsafe_operation' % clsname)

    def is_float_test(e):
        if isinstance(e, ast.BoolOp) and isinstance(e.op, ast.Or):
            return all(is_float_test(v) for v in e.values)
        return isinstance(e, ast.Call) and ast.unparse(e.func) == 'isinstance' and len(e.args) == 2 and ast.unparse(e.args[1]) == 'float'

    def ex(e, env):
        if isinstance(e, ast.Name) and e.id in env:
            return env[e.id]
        if isinstance(e, ast.Constant) and isinstance(e.value, int) and not isinstance(e.value, bool):
            return '(%d : %s)' % (e.value, num)
        if isinstance(e, ast.BinOp) and isinstance(e.op, ast.Div) and num == 'Rat':
            return '(%s / %s)' % (ex(e.left, env), ex(e.right, env))              # true division (guarded by the caller's test)
        if num != 'Int':
            if isinstance(e, ast.Name) and e.id in env:
                return env[e.id]
            raise NotTranslatable('%s expression ' % num + ast.unparse(e)[:60])
        if isinstance(e, ast.Call) and ast.unparse(e.func) == 'abs' and len(e.args) == 1:
            return '((Int.natAbs %s : Nat) : Int)' % ex(e.args[0], env)
        if isinstance(e, ast.UnaryOp) and isinstance(e.op, ast.USub):
            return '(-%s)' % ex(e.operand, env)
        if isinstance(e, ast.BinOp) and isinstance(e.op, ast.Mod):
            return '(Int.fmod %s %s)' % (ex(e.left, env), ex(e.right, env))        # Python's % is the floor remainder
        if isinstance(e, ast.IfExp):
            return '(if %s then %s else %s)' % (cond(e.test, env), ex(e.body, env), ex(e.orelse, env))
        raise NotTranslatable('int expression ' + ast.unparse(e)[:60])

    def cond(e, env):
        ops = {ast.Lt: '<', ast.LtE: '≤', ast.Gt: '>', ast.GtE: '≥', ast.Eq: '=', ast.NotEq: '≠'}
        if isinstance(e, ast.Compare) and len(e.ops) == 1 and type(e.ops[0]) in ops:
            return '(%s %s %s)' % (ex(e.left, env), ops[type(e.ops[0])], ex(e.comparators[0], env))
        raise NotTranslatable('int condition ' + ast.unparse(e)[:60])

    def block(stmts, env, ind):
        if not stmts:
            raise NotTranslatable('%s.unsafe_operation falls off its end' % clsname)
        st, rest = stmts[0], stmts[1:]
        pad = ' ' * ind
        if isinstance(st, ast.Expr) and isinstance(st.value, ast.Constant):
            return block(rest, env, ind)
        if isinstance(st, ast.Return):
            def opt(v):
                if v is None or (isinstance(v, ast.Constant) and v.value is None):
                    return 'none'
                if isinstance(v, ast.IfExp):
                    return '(if %s then %s else %s)' % (cond(v.test, env), opt(v.body), opt(v.orelse))
                return '(some %s)' % ex(v, env)
            return opt(st.value)
        if isinstance(st, ast.If) and not st.orelse and is_float_test(st.test):
            return block(rest, env, ind)                   # the float case: not for ints
        if isinstance(st, ast.If) and not st.orelse:
            return 'if %s then\n%s  %s\n%selse\n%s  %s' % (cond(st.test, env), pad, block(list(st.body), env, ind + 2), pad, pad,
                                                          block(rest, env, ind + 2))
        if isinstance(st, ast.Assign) and len(st.targets) == 1 and isinstance(st.targets[0], ast.Name):
            nm = st.targets[0].id + '_'
            return 'let %s := %s\n%s%s' % (nm, ex(st.value, env), pad, block(rest, dict(env, **{st.targets[0].id: nm}), ind))
        raise NotTranslatable('statement in %s.unsafe_operation: %s' % (clsname, ast.unparse(st)[:60]))
    body = block(list(fn[0].body), {'value1': 'value1', 'value2': 'value2'}, 2)
    return '/-- %s -/\ndef %s (value1 value2 : %s) : Option %s :=\n  %s\n\n' % (doc, leanname, num, num, body)


# ---- C01: the actions of RDD as compositions over the list of partitions ---------------------------------

class TrF:
    """functional expressions: lambdas, functools.reduce, sums, comprehensions over partitions, method chains on `self`"""

    def __init__(self, module_funcs, head_helpers=()):
        self.module_funcs = module_funcs      # name -> lean term for module-level helpers (unit_map, unit_collect)
        self.head_helpers = set(head_helpers)  # module-level helpers that return the first element of an iterable or raise
        self.cnt = 0

    def lam(self, e, env, drop_first=True):
        """`lambda tc, i: BODY` -> `fun i => BODY` (the task context is dropped)"""
        if isinstance(e, ast.Name) and e.id in self.module_funcs:
            return self.module_funcs[e.id]
        if isinstance(e, ast.Name) and e.id in env:
            return env[e.id]
        if not isinstance(e, ast.Lambda):
            raise NotTranslatable('function ' + ast.unparse(e)[:60])
        params = [a.arg for a in e.args.args]
        if drop_first:
            params = params[1:]
        env2 = dict(env)
        for p_ in params:
            env2[p_] = p_
        return '(fun %s => %s)' % (' '.join(params), self.expr(e.body, env2))

    def expr(self, e, env):
        src = ast.unparse(e)
        if isinstance(e, ast.Name):
            if e.id in env:
                return env[e.id]
            raise NotTranslatable('free name ' + e.id)
        if isinstance(e, ast.Call):
            f = ast.unparse(e.func)
            if f == 'copy.deepcopy' and len(e.args) == 1:
                return '(deepcopy %s)' % self.expr(e.args[0], env)
            if f == 'functools.reduce' and len(e.args) == 3:
                return '(List.foldl %s %s %s)' % (self.lam(e.args[0], env, False), self.expr(e.args[2], env), self.expr(e.args[1], env))
            if f == 'functools.reduce' and len(e.args) == 2:
                return '(reduce1 %s %s)' % (self.lam(e.args[0], env, False), self.expr(e.args[1], env))
            if f == 'sum' and len(e.args) == 1 and isinstance(e.args[0], ast.GeneratorExp) and ast.unparse(e.args[0].elt) == '1' \
                    and len(e.args[0].generators) == 1 and not e.args[0].generators[0].ifs:
                return '(%s).length' % self.expr(e.args[0].generators[0].iter, env)
            if f == 'sum' and len(e.args) == 1:
                return '(List.sum %s)' % self.expr(e.args[0], env)
            if f == 'list' and len(e.args) == 1:
                return self.expr(e.args[0], env)
            if f == 'iter' and len(e.args) == 1:
                return self.expr(e.args[0], env)
            if f == 'dict' and len(e.args) == 1:
                return '(Rdd.pyDict %s)' % self.expr(e.args[0], env)
            if (f == 'next' or f in self.head_helpers) and len(e.args) == 1:
                return '(List.head? %s)' % self.expr(e.args[0], env)      # `none` = it raises (StopIteration / the helper's ValueError)
            if f == 'itertools.chain.from_iterable' and len(e.args) == 1:
                return '(List.flatten %s)' % self.expr(e.args[0], env)
            if f == 'itertools.islice' and len(e.args) == 2:
                return '(List.take %s %s)' % (self.expr(e.args[1], env), self.expr(e.args[0], env))
            if f == 'self.context.runJob':
                kw = {k.arg: k.value for k in e.keywords}
                if len(e.args) != 2 or ast.unparse(e.args[0]) != 'self' or set(kw) - {'resultHandler', 'allowLocal'} or 'resultHandler' not in kw:
                    raise NotTranslatable('runJob call shape: ' + src[:80])
                # runJob(rdd, f, resultHandler=h) = h(f(tc, partition) for partition in partitions)   [C04: fault-free job]
                tasks = '(List.map %s parts)' % self.lam(e.args[1], env)
                h = kw['resultHandler']
                if isinstance(h, ast.Name) and h.id == 'sum':
                    return '(List.sum %s)' % tasks
                return '(%s %s)' % (self.lam(h, env, False), tasks)
            if f in env and f != 'self':      # a local helper applied to arguments
                return '(%s %s)' % (env[f], ' '.join(self.expr(a, env) for a in e.args))
            if isinstance(e.func, ast.Attribute):
                recv, m = e.func.value, e.func.attr
                if ast.unparse(recv) == 'self' and m in ('aggregate',):
                    return '(%s %s parts)' % (m, ' '.join(self.lam(a, env, False) if isinstance(a, (ast.Lambda,)) else self.expr(a, env) for a in e.args))
        if isinstance(e, ast.GeneratorExp) or isinstance(e, ast.ListComp):
            gens = e.generators
            if len(gens) == 2 and not gens[0].ifs and not gens[1].ifs and ast.unparse(gens[1].iter) == ast.unparse(gens[0].target) \
                    and ast.unparse(e.elt) == ast.unparse(gens[1].target):
                return '(List.flatten %s)' % self.expr(gens[0].iter, env)      # [x for p in l for x in p]
        if isinstance(e, ast.IfExp) and isinstance(e.test, ast.Name):
            return '(if %s ≠ [] then %s else %s)' % (self.expr(e.test, env), self.expr(e.body, env), self.expr(e.orelse, env))
        if isinstance(e, ast.List):
            return '[' + ', '.join(self.expr(x, env) for x in e.elts) + ']'
        raise NotTranslatable('expression ' + src[:80])


def gen_c01(repo):
    tree = parse(repo, 'pysparkling/rdd.py')
    rdd = find_class(tree, 'RDD')

    def body_of(fn):
        return [st for st in fn.body if not (isinstance(st, ast.Expr) and isinstance(st.value, ast.Constant))]

    def single_return(name, params):
        fn = [n for n in rdd.body if isinstance(n, ast.FunctionDef) and n.name == name][0]
        if [a.arg for a in fn.args.args] != ['self'] + params:
            raise NotTranslatable('%s parameters' % name)
        b = body_of(fn)
        if len(b) != 1 or not isinstance(b[0], ast.Return):
            raise NotTranslatable('%s is no longer a single return' % name)
        return b[0].value
    # module helpers used as task function / result handler of collect
    um, uc = find_def(tree, 'unit_map'), find_def(tree, 'unit_collect')
    if [ast.unparse(x) for x in body_of(um)] != ['return list(elements)'] or [ast.unparse(x) for x in body_of(uc)] != ['return [x for p in l for x in p]']:
        raise NotTranslatable('unit_map / unit_collect')
    # `first_of(iterable)`: the first element, or ValueError (the repaired spelling of `next(...)` in `first`), by its exact shape
    heads = []
    fo = [n for n in tree.body if isinstance(n, ast.FunctionDef) and n.name == 'first_of']
    if fo:
        if [a.arg for a in fo[0].args.args] != ['iterable'] or [ast.unparse(x) for x in body_of(fo[0])] != \
                ['for element in iterable:\n    return element', "raise ValueError('RDD is empty')"]:
            raise NotTranslatable('first_of')
        heads = ['first_of']
    t = TrF({'unit_map': '(fun elements => elements)', 'unit_collect': '(fun l => List.flatten l)'}, head_helpers=heads)
    out = ('open PysparklingVerif\n\n/-- `copy.deepcopy`: the same VALUE (that the copy shares nothing with the original is the subject of the heap model, '
           'Model/ZeroCopy.lean) -/\ndef deepcopy {α : Type} (x : α) : α := x\n\n'
           '/-- `functools.reduce(f, xs)` without an initial value (`none` = TypeError on an empty sequence) -/\n'
           'def reduce1 {α : Type} (f : α → α → α) : List α → Option α\n  | [] => none\n  | x :: xs => some (xs.foldl f x)\n\n'
           '-- `runJob(rdd, f, resultHandler=h)` of a fault-free job is `h(f(tc, p) for p in partitions)` (retries and the lock: C04)\n\n')
    env = {}
    out += ('def aggregate {α β : Type} (zeroValue : β) (seqOp : β → α → β) (combOp : β → β → β) (parts : List (List α)) : β :=\n  %s\n\n' %
            t.expr(single_return('aggregate', ['zeroValue', 'seqOp', 'combOp']), {'zeroValue': 'zeroValue', 'seqOp': 'seqOp', 'combOp': 'combOp'}))
    out += ('def fold {α : Type} (zeroValue : α) (op : α → α → α) (parts : List (List α)) : α :=\n  %s\n\n' %
            t.expr(single_return('fold', ['zeroValue', 'op']), {'zeroValue': 'zeroValue', 'op': 'op'}))
    out += 'def count {α : Type} (parts : List (List α)) : Nat :=\n  %s\n\n' % t.expr(single_return('count', []), env)
    out += 'def sum (parts : List (List Int)) : Int :=\n  %s\n\n' % t.expr(single_return('sum', []), env)
    out += 'def collect {α : Type} (parts : List (List α)) : List α :=\n  %s\n\n' % t.expr(single_return('collect', []), env)
    out += 'def toLocalIterator {α : Type} (parts : List (List α)) : List α :=\n  %s\n\n' % t.expr(single_return('toLocalIterator', []), env)
    out += 'def first {α : Type} (parts : List (List α)) : Option α :=\n  %s\n\n' % t.expr(single_return('first', []), env)
    out += 'def take {α : Type} (n : Nat) (parts : List (List α)) : List α :=\n  %s\n\n' % t.expr(single_return('take', ['n']), {'n': 'n'})
    # reduce: a local reducer, the job, the emptiness test
    fn = [n for n in rdd.body if isinstance(n, ast.FunctionDef) and n.name == 'reduce'][0]
    b = body_of(fn)
    if not (len(b) == 4 and isinstance(b[0], ast.FunctionDef) and b[0].name == 'reducer'
            and [ast.unparse(x) for x in body_of(b[0])] == ['values = list(values)', 'return [functools.reduce(f, values)] if values else []']
            and isinstance(b[1], ast.Assign) and ast.unparse(b[1].targets[0]) == 'result'
            and ast.unparse(b[2]) == "if not result:\n    raise ValueError('Can not reduce() empty RDD')" and ast.unparse(b[3]) == 'return result[0]'):
        raise NotTranslatable('reduce shape: %r' % [ast.unparse(x)[:60] for x in b])
    out += ('/-- the local `reducer(values)`: the partial result as a list (empty for an empty input) -/\n'
            'def reducer {α : Type} (f : α → α → α) (values : List α) : List α :=\n  match reduce1 f values with\n  | some r => [r]\n  | none => []\n\n')
    job = t.expr(b[1].value, {'reducer': '(reducer f)', 'f': 'f'})
    out += ('/-- `reduce(f)`; `none` = ValueError("Can not reduce() empty RDD") -/\n'
            'def reduce {α : Type} (f : α → α → α) (parts : List (List α)) : Option α :=\n  (%s).head?\n' % job)
    return 'pysparkling/rdd.py (RDD.aggregate, fold, count, sum, collect, toLocalIterator, first, take, reduce; unit_map, unit_collect)', out


# ---- C19: the JSON description of data types (jsonValue / typeName / fromJson keys) ------------------------

ATOM_CLASSES = [('null', 'NullType'), ('string', 'StringType'), ('binary', 'BinaryType'), ('boolean', 'BooleanType'), ('date', 'DateType'),
                ('timestamp', 'TimestampType'), ('double', 'DoubleType'), ('float', 'FloatType'), ('byte', 'ByteType'),
                ('integer', 'IntegerType'), ('long', 'LongType'), ('short', 'ShortType')]


def gen_c19(repo):
    tree = parse(repo, 'pysparkling/sql/types.py')

    def own(cls, name):
        c = find_class(tree, cls)
        fns = [n for n in c.body if isinstance(n, ast.FunctionDef) and n.name == name]
        return fns[0] if fns else None

    def single_return(fn, what):
        b = [st for st in fn.body if not (isinstance(st, ast.Expr) and isinstance(st.value, ast.Constant))]
        if len(b) != 1 or not isinstance(b[0], ast.Return):
            raise NotTranslatable('%s is no longer a single return' % what)
        return b[0].value
    base_tn = own('DataType', 'typeName')
    if ast.unparse(single_return(base_tn, 'DataType.typeName')) != 'cls.__name__[:-4].lower()':
        raise NotTranslatable('DataType.typeName is no longer cls.__name__[:-4].lower()')
    if ast.unparse(single_return(own('DataType', 'jsonValue'), 'DataType.jsonValue')) != 'self.typeName()':
        raise NotTranslatable('DataType.jsonValue is no longer self.typeName()')
    rows = []
    for atom, cls in ATOM_CLASSES:
        find_class(tree, cls)
        # an atomic class must not override typeName / jsonValue anywhere on its way up to DataType
        c = cls
        while c != 'DataType':
            node = find_class(tree, c)
            if own(c, 'typeName') or own(c, 'jsonValue'):
                raise NotTranslatable('%s overrides typeName / jsonValue' % c)
            bases = [b.id for b in node.bases if isinstance(b, ast.Name)]
            if len(bases) != 1:
                raise NotTranslatable('bases of %s' % c)
            c = bases[0]
        rows.append('  | .%s => "%s"' % (atom, cls[:-4].lower()))      # cls.__name__[:-4].lower()
    out = ('open PysparklingVerif PysparklingVerif.Types\n\n/-- `typeName()` of the atomic classes: `cls.__name__[:-4].lower()` on the class names of the source -/\n'
           'def atomName : Atom → String\n%s\n\n' % '\n'.join(rows))

    def complex_name(cls):
        for c in (cls,):
            if own(c, 'typeName'):
                raise NotTranslatable('%s overrides typeName' % c)
        return cls[:-4].lower()

    def value(e, attrs):
        src = ast.unparse(e)
        if src == 'self.typeName()':
            return None      # filled by the caller
        m = re.match(r'self\.(\w+)\.jsonValue\(\)$', src)
        if m and m.group(1) in attrs and attrs[m.group(1)][1] == 'type':
            return 'toJ %s' % attrs[m.group(1)][0]
        m = re.match(r'self\.(\w+)$', src)
        if m and m.group(1) in attrs:
            lean, kind = attrs[m.group(1)]
            return {'bool': '.bool %s', 'str': '.str %s', 'json': '%s'}[kind] % lean
        if src == '[f.jsonValue() for f in self]':
            return '.arr (toJFields fields)'
        raise NotTranslatable('jsonValue entry ' + src)

    def obj(cls, attrs, tname):
        e = single_return(own(cls, 'jsonValue'), cls + '.jsonValue')
        if not isinstance(e, ast.Dict) or not all(isinstance(k, ast.Constant) and isinstance(k.value, str) for k in e.keys):
            raise NotTranslatable(cls + '.jsonValue is not a dict literal')
        parts = []
        for k, v in zip(e.keys, e.values):
            lean = value(v, attrs)
            if lean is None:
                lean = '.str "%s"' % tname
            parts.append('("%s", %s)' % (k.value, lean))
        return '.obj [' + ', '.join(parts) + ']', [k.value for k in e.keys]
    dec = single_return(own('DecimalType', 'jsonValue'), 'DecimalType.jsonValue')
    if ast.unparse(dec) != "f'decimal({self.precision:d},{self.scale:d})'":
        raise NotTranslatable('DecimalType.jsonValue')
    arr, arr_keys = obj('ArrayType', {'elementType': ('elementType', 'type'), 'containsNull': ('containsNull', 'bool')}, complex_name('ArrayType'))
    mp, map_keys = obj('MapType', {'keyType': ('keyType', 'type'), 'valueType': ('valueType', 'type'),
                                   'valueContainsNull': ('valueContainsNull', 'bool')}, complex_name('MapType'))
    st, st_keys = obj('StructType', {}, complex_name('StructType'))
    fld, fld_keys = obj('StructField', {'name': ('name', 'str'), 'dataType': ('dataType', 'type'), 'nullable': ('nullable', 'bool'),
                                        'metadata': ('metadata', 'json')}, None)
    out += ('mutual\n/-- `jsonValue()` -/\ndef toJ : DType → J\n  | .atom a => .str (atomName a)\n'
            '  | .decimal precision scale => .str ("decimal(" ++ String.ofList (Cast.renderNat precision) ++ "," ++ String.ofList (Cast.renderInt scale) ++ ")")\n'
            '  | .array elementType containsNull => %s\n  | .map keyType valueType valueContainsNull => %s\n  | .struct fields => %s\n'
            '/-- `[f.jsonValue() for f in self]` (`StructField.jsonValue`) -/\ndef toJFields : List (String × DType × Bool × J) → List J\n  | [] => []\n'
            '  | (name, dataType, nullable, metadata) :: rest => %s :: toJFields rest\nend\n\n' % (arr, mp, st, fld))

    # the keys `fromJson` reads, per class, in the order of the constructor arguments
    def read_keys(cls):
        fn = own(cls, 'fromJson')
        if fn is None:
            raise NotTranslatable(cls + '.fromJson')
        return re.findall(r'json\[\'(\w+)\'\]', ast.unparse(fn))
    out += '/-- keys written by `jsonValue` (besides "type") and keys read by `fromJson`, per class -/\n'
    for cls, written in (('ArrayType', arr_keys), ('MapType', map_keys), ('StructType', st_keys), ('StructField', fld_keys)):
        w = [k for k in written if not (k == 'type' and cls != 'StructField')]
        out += 'def written%s : List String := [%s]\n' % (cls, ', '.join('"%s"' % k for k in w))
        out += 'def read%s : List String := [%s]\n' % (cls, ', '.join('"%s"' % k for k in read_keys(cls)))
    # the dispatch of the parser on "type"
    pj = find_def(tree, '_parse_datatype_json_value')
    src = ast.unparse(pj)
    for needle in ("tpe = json_value['type']", 'if tpe in _all_complex_types:', '_all_complex_types[tpe].fromJson(json_value)'):
        if needle not in src:
            raise NotTranslatable('_parse_datatype_json_value: ' + needle)
    act = [st_ for st_ in tree.body if isinstance(st_, ast.Assign) and ast.unparse(st_.targets[0]) == '_all_complex_types']
    if len(act) != 1 or ast.unparse(act[0].value) != 'dict(((v.typeName(), v) for v in [ArrayType, MapType, StructType]))':
        raise NotTranslatable('_all_complex_types')
    out += '\n/-- `_all_complex_types`: the "type" strings the parser dispatches on -/\ndef complexTypeNames : List String := ["%s", "%s", "%s"]\n' % (
        complex_name('ArrayType'), complex_name('MapType'), complex_name('StructType'))
    return ('pysparkling/sql/types.py (DataType.typeName / jsonValue, DecimalType / ArrayType / MapType / StructType / StructField jsonValue, '
            'fromJson keys, _all_complex_types)'), out


# ---- C13: the schema of a join on column names (merge_schemas, get_on_fields) -----------------------------

def gen_c13(repo):
    tree = parse(repo, 'pysparkling/sql/schema_utils.py')
    consts = parse(repo, 'pysparkling/sql/internal_utils/joins.py')
    hows = {}
    for st in consts.body:
        if isinstance(st, ast.Assign) and isinstance(st.targets[0], ast.Name) and st.targets[0].id.endswith('_JOIN') \
                and isinstance(st.value, ast.Constant) and isinstance(st.value.value, str):
            hows[st.targets[0].id] = st.value.value
    want = ['INNER_JOIN', 'CROSS_JOIN', 'FULL_JOIN', 'LEFT_JOIN', 'RIGHT_JOIN', 'LEFT_SEMI_JOIN', 'LEFT_ANTI_JOIN']
    if sorted(hows) != sorted(want) or len(set(hows.values())) != len(want):
        raise NotTranslatable('join type constants: %r' % hows)
    gof = find_def(tree, 'get_on_fields')
    body = [ast.unparse(x) for x in gof.body]
    if body != ['left_on_fields = [next((field for field in left_schema if field.name == c)) for c in on]',
                'right_on_fields = [next((field for field in right_schema if field.name == c)) for c in on]',
                'return (left_on_fields, right_on_fields)']:
        raise NotTranslatable('get_on_fields: %r' % body)
    ms = find_def(tree, 'merge_schemas')
    if [a.arg for a in ms.args.args] != ['left_schema', 'right_schema', 'how', 'on']:
        raise NotTranslatable('merge_schemas parameters')

    class T(TrM):
        def expr(self, e, env):
            src = ast.unparse(e)
            if isinstance(e, ast.List) and not e.elts:
                return '[]'
            m = re.match(r'\[field for field in (left|right)_schema\.fields if field not in (\w+)\]$', src)
            if m and m.group(2) in env:
                return '(%s_schema.filter fun field => !(%s).contains field)' % (m.group(1), env[m.group(2)])
            if src == '[StructField(field.name, field.dataType, nullable=True) for field in left_on_fields]' and 'left_on_fields' in env:
                return '(%s.map fun field => { field with nullable := true })' % env['left_on_fields']
            if isinstance(e, ast.BinOp) and isinstance(e.op, ast.Add):
                return '(%s ++ %s)' % (self.expr(e.left, env), self.expr(e.right, env))
            return super().expr(e, env)

        def cond(self, e, env):
            if isinstance(e, ast.Compare) and len(e.ops) == 1 and ast.unparse(e.left) == 'how':
                if isinstance(e.ops[0], ast.In) and isinstance(e.comparators[0], ast.Tuple) and all(isinstance(x, ast.Name) and x.id in hows for x in e.comparators[0].elts):
                    return '(' + ' ∨ '.join('how = How.%s' % x.id for x in e.comparators[0].elts) + ')'
                if isinstance(e.ops[0], ast.Eq) and isinstance(e.comparators[0], ast.Name) and e.comparators[0].id in hows:
                    return '(how = How.%s)' % e.comparators[0].id
            if isinstance(e, ast.Compare) and ast.unparse(e) == 'on is None':
                return '(on = none)'
            return super().cond(e, env)

        def block(self, stmts, env, k, ind):
            if stmts:
                st = stmts[0]
                src = ast.unparse(st)
                pad = ' ' * ind
                if src == 'if on is None:\n    on = []':
                    env2 = dict(env)
                    env2['on'] = '(on.getD [])'
                    return self.block(stmts[1:], env2, k, ind)
                if src == 'left_on_fields, right_on_fields = get_on_fields(left_schema, right_schema, on)':
                    env2 = dict(env)
                    env2['left_on_fields'], env2['right_on_fields'] = 'left_on_fields', 'right_on_fields'
                    return ('match getOnFields left_schema right_schema %s with\n%s| none => none   -- StopIteration: a join column is missing\n'
                            '%s| some (left_on_fields, right_on_fields) =>\n%s  ' % (env['on'], pad, pad, pad)) + self.block(stmts[1:], env2, k, ind + 2)
            return super().block(stmts, env, k, ind)
    t = T({}, kinds={})
    env = {'@self': {}, '@kind': {}, 'on': 'on', 'left_schema': 'left_schema', 'right_schema': 'right_schema'}

    def k(kind, e2, value):
        if kind == RETURN and value is not None and ast.unparse(value).startswith('StructType(fields=') and len(value.keywords) == 1:
            return 'some %s' % t.expr(value.keywords[0].value, e2)
        if kind == RAISE:
            return 'none   -- IllegalArgumentException'
        raise NotTranslatable('%s in merge_schemas' % kind)
    body = t.block(ms.body, env, k, 2)
    out = ('/-- the join type constants of sql/internal_utils/joins.py -/\ninductive How where\n  %s\n  deriving DecidableEq, Repr\n\n' %
           ' '.join('| ' + h for h in want))
    out += '/-- the string each constant stands for -/\ndef How.text : How → String\n%s\n\n' % '\n'.join('  | .%s => "%s"' % (h, hows[h]) for h in want)
    out += ('structure Field where\n  name : String\n  dataType : Nat      -- the type, opaque here\n  nullable : Bool\n  deriving DecidableEq, Repr\n\n'
            '/-- `get_on_fields`: per join column the FIRST field of that name on each side (`none` = StopIteration) -/\n'
            'def getOnFields (left_schema right_schema : List Field) (on : List String) : Option (List Field × List Field) :=\n'
            '  match on.mapM (fun c => left_schema.find? (fun field => field.name == c)), on.mapM (fun c => right_schema.find? (fun field => field.name == c)) with\n'
            '  | some l, some r => some (l, r)\n  | _, _ => none\n\n'
            '/-- `merge_schemas(left_schema, right_schema, how, on)`: the fields of the joined frame -/\n'
            'def mergeSchemas (left_schema right_schema : List Field) (how : How) (on : Option (List String)) : Option (List Field) :=\n  %s\n' % body)
    return 'pysparkling/sql/schema_utils.py (merge_schemas, get_on_fields), pysparkling/sql/internal_utils/joins.py (join type constants)', out


# ---- C15: names of the schema and names of the rows, operation by operation ---------------------------------

class TrNames:
    """list comprehensions that build a schema (list of fields) or a row (list of (name, value) pairs): what matters here
    is the NAME each output element carries, and how many elements there are. Elements: a field is its name; a pair
    `(name, value)` is its name; `StructField(n, …)` is `n`."""

    def __init__(self, srcs):
        self.srcs = srcs            # python source text of an iterable -> (lean list, lean element type tag)

    def name_of(self, e, env):
        src = ast.unparse(e)
        if isinstance(e, ast.Name) and e.id in env:
            return env[e.id]
        if isinstance(e, ast.Attribute) and isinstance(e.value, ast.Name) and e.attr == 'name' and e.value.id in env:
            return env[e.value.id]                              # a field is represented by its name
        if isinstance(e, ast.Tuple) and len(e.elts) == 2:
            return self.name_of(e.elts[0], env)                 # (name, value)
        if isinstance(e, ast.Call) and ast.unparse(e.func) == 'StructField' and e.args:
            return self.name_of(e.args[0], env)
        if isinstance(e, ast.IfExp):
            return '(if %s then %s else %s)' % (self.test(e.test, env), self.name_of(e.body, env), self.name_of(e.orelse, env))
        raise NotTranslatable('element ' + src[:80])

    def test(self, e, env):
        if isinstance(e, ast.Compare) and len(e.ops) == 1 and isinstance(e.ops[0], (ast.Eq, ast.NotEq)):
            t = '%s = %s' % (self.name_of(e.left, env), self.name_of(e.comparators[0], env))
            return '(%s)' % t if isinstance(e.ops[0], ast.Eq) else '(¬ %s)' % t
        if isinstance(e, ast.Compare) and len(e.ops) == 1 and isinstance(e.ops[0], ast.NotIn) and ast.unparse(e.comparators[0]) == 'positions_to_drop':
            return '(¬ positions_to_drop.contains %s = true)' % self.name_of(e.left, env)
        raise NotTranslatable('test ' + ast.unparse(e)[:80])

    def source(self, e):
        src = ast.unparse(e)
        if src in self.srcs:
            return self.srcs[src], 1
        if isinstance(e, ast.Call) and ast.unparse(e.func) == 'zip' and len(e.args) == 2:
            a, _ = self.source(e.args[0])
            b, _ = self.source(e.args[1])
            return '(List.zip %s %s)' % (a, b), 2
        if isinstance(e, ast.Call) and ast.unparse(e.func) == 'enumerate' and len(e.args) == 1:
            a, _ = self.source(e.args[0])
            return '((%s).zipIdx.map fun p => (p.2, p.1))' % a, 2
        raise NotTranslatable('iterable ' + src[:80])

    def comp(self, e):
        """-> lean term: the list of names of the elements the comprehension builds"""
        if isinstance(e, ast.Call) and ast.unparse(e.func) == 'list' and len(e.args) == 1 and isinstance(e.args[0], ast.Call) \
                and ast.unparse(e.args[0].func) == 'zip':
            src, _ = self.source(e.args[0])
            return '(%s.map fun p => p.1)' % src                # list(zip(names, row)): pairs (name, value)
        if not isinstance(e, ast.ListComp) or len(e.generators) != 1:
            raise NotTranslatable('comprehension shape ' + ast.unparse(e)[:80])
        g = e.generators[0]
        src, arity = self.source(g.iter)
        env = {}
        if arity == 1 and isinstance(g.target, ast.Name):
            env[g.target.id] = 'x'
            binder = 'x'
        elif arity == 2 and isinstance(g.target, ast.Tuple) and len(g.target.elts) == 2 and all(isinstance(t, ast.Name) for t in g.target.elts):
            env[g.target.elts[0].id], env[g.target.elts[1].id] = 'p.1', 'p.2'
            binder = 'p'
        else:
            raise NotTranslatable('comprehension target')
        for extra in ('existing', 'new'):
            env[extra] = extra
        lst = src
        for cond in g.ifs:
            lst = '(%s.filter fun %s => decide %s)' % (lst, binder, self.test(cond, env))
        return '(%s.map fun %s => %s)' % (lst, binder, self.name_of(e.elt, env))


def gen_c15(repo):
    tree = parse(repo, 'pysparkling/sql/internals.py')
    cls = find_class(tree, 'DataFrameInternal')

    def method(name):
        fns = [n for n in cls.body if isinstance(n, ast.FunctionDef) and n.name == name]
        if len(fns) != 1:
            raise NotTranslatable('DataFrameInternal.' + name)
        return fns[0]

    def comps(fn):
        return [n for n in ast.walk(fn) if isinstance(n, ast.ListComp) or
                (isinstance(n, ast.Call) and ast.unparse(n.func) == 'list' and n.args and ast.unparse(n.args[0]).startswith('zip('))]
    srcs = {'self.bound_schema.fields': 'schema', 'row.__fields__': 'rowFields', 'row': 'rowValues', 'new_names': 'new_names'}
    t = TrNames(srcs)
    out = ('/-- a schema is the list of its field names; a row is the list of its field names next to its values (opaque: `Unit`) -/\n'
           'abbrev Names := List String\n\n')

    # withColumnRenamed
    fn = method('withColumnRenamed')
    cs = comps(fn)
    rows = [c for c in cs if 'row.__fields__' in ast.unparse(c)]
    schemas = [c for c in cs if 'self.bound_schema.fields' in ast.unparse(c)]
    if len(rows) != 1 or len(schemas) != 1 or 'row_from_keyed_values(keyed_values)' not in ast.unparse(fn) \
            or 'self._with_rdd(self._rdd.map(mapper), schema=new_schema)' not in ast.unparse(fn):
        raise NotTranslatable('withColumnRenamed shape')
    out += ('def renamedRowNames (existing new : String) (rowFields : Names) (rowValues : List Unit) : Names :=\n  %s\n' % t.comp(rows[0]))
    out += ('def renamedSchemaNames (existing new : String) (schema : Names) : Names :=\n  %s\n\n' % t.comp(schemas[0]))

    # toDF
    fn = method('toDF')
    cs = comps(fn)
    rows = [c for c in cs if ast.unparse(c) == 'list(zip(new_names, row))']
    schemas = [c for c in cs if 'self.bound_schema.fields' in ast.unparse(c)]
    if len(rows) != 1 or len(schemas) != 1 or 'self._with_rdd(self._rdd.map(mapper), schema=new_schema)' not in ast.unparse(fn):
        raise NotTranslatable('toDF shape')
    out += 'def toDFRowNames (new_names : Names) (rowValues : List Unit) : Names :=\n  %s\n' % t.comp(rows[0])
    out += 'def toDFSchemaNames (new_names : Names) (schema : Names) : Names :=\n  %s\n\n' % t.comp(schemas[0])

    # drop (given the positions to drop)
    fn = method('drop')
    cs = comps(fn)
    rows = [c for c in cs if 'row.__fields__' in ast.unparse(c)]
    schemas = [c for c in cs if 'self.bound_schema.fields' in ast.unparse(c)]
    if len(rows) != 1 or len(schemas) != 1 or ast.unparse(rows[0].elt) != '(field, row[i])':
        raise NotTranslatable('drop shape')
    out += 'def dropRowNames (positions_to_drop : List Nat) (rowFields : Names) : Names :=\n  %s\n' % t.comp(rows[0])
    out += 'def dropSchemaNames (positions_to_drop : List Nat) (schema : Names) : Names :=\n  %s\n\n' % t.comp(schemas[0])

    # union: the rows of `other` are re-keyed with the names of `self`; the schema is `self.bound_schema`
    fn = method('union')
    cs = [c for c in comps(fn) if 'zip(self.bound_schema.fields, row)' in ast.unparse(c)]
    if len(cs) != 1 or 'self._with_rdd(self._rdd.union(other.rdd().map(change_col_names)), self.bound_schema)' not in ast.unparse(fn):
        raise NotTranslatable('union shape')
    out += 'def unionOtherRowNames (schema : Names) (rowValues : List Unit) : Names :=\n  %s\n' % t.comp(cs[0])
    out += gen_with_column(repo, method('withColumn'))
    return ('pysparkling/sql/internals.py (DataFrameInternal.withColumnRenamed, toDF, drop, union: schema and row comprehensions; '
            'withColumn: the projection it builds), pysparkling/sql/expressions/fields.py (FieldAsExpression.eval)'), out


class TrColRef(TrNames):
    """the elements of the projection `withColumn` hands to `select`: the new column, or a field of the current frame - referred to
    by its POSITION (`FieldAsExpression(field, position)`, both taken from the same `enumerate`) or by the field alone"""

    def name_of(self, e, env):
        if isinstance(e, ast.Name) and e.id == 'new_col':
            return 'ColRef.new'
        if isinstance(e, ast.Call) and ast.unparse(e.func) == 'parse' and len(e.args) == 1 and isinstance(e.args[0], ast.Call) \
                and ast.unparse(e.args[0].func) == 'FieldAsExpression' and not e.args[0].keywords:
            a = e.args[0].args
            if len(a) == 2 and all(isinstance(x, ast.Name) and x.id in env for x in a) and env[a[0].id] == 'p.2' and env[a[1].id] == 'p.1':
                return '(ColRef.at p.1)'
            raise NotTranslatable('FieldAsExpression without the position of its field: ' + ast.unparse(e)[:80])
        if isinstance(e, ast.IfExp):
            return '(if %s then %s else %s)' % (self.test(e.test, env), self.name_of(e.body, env), self.name_of(e.orelse, env))
        raise NotTranslatable('projection element ' + ast.unparse(e)[:80])

    def test(self, e, env):
        if isinstance(e, ast.Compare) and len(e.ops) == 1 and isinstance(e.ops[0], ast.Eq):
            return '(%s = %s)' % (TrNames.name_of(self, e.left, env), TrNames.name_of(self, e.comparators[0], env))
        raise NotTranslatable('test ' + ast.unparse(e)[:80])


def gen_with_column(repo, fn):
    """`DataFrameInternal.withColumn(colName, col)` and the evaluation of the field references it builds"""
    body = [st for st in fn.body if not (isinstance(st, ast.Expr) and isinstance(st.value, ast.Constant))]
    if len(body) != 3 or ast.unparse(body[0]) != 'new_col = parse(col).alias(colName)' or not isinstance(body[1], ast.If) \
            or body[1].orelse or len(body[1].body) != 1 or ast.unparse(body[2]) != "return self.select(parse('*'), new_col)":
        raise NotTranslatable('withColumn shape')
    test = body[1].test
    if not (isinstance(test, ast.Call) and ast.unparse(test.func) == 'any' and len(test.args) == 1 and isinstance(test.args[0], ast.GeneratorExp)
            and len(test.args[0].generators) == 1 and not test.args[0].generators[0].ifs
            and ast.unparse(test.args[0].generators[0].iter) == 'self.bound_schema.fields'
            and isinstance(test.args[0].generators[0].target, ast.Name)):
        raise NotTranslatable('withColumn: the test for an existing column')
    t = TrColRef({'self.bound_schema.fields': 'schema'})
    env = {test.args[0].generators[0].target.id: 'field', 'colName': 'colName'}
    exists = '(schema.any fun field => decide %s)' % t.test(test.args[0].elt, env)
    ret = body[1].body[0]
    if not (isinstance(ret, ast.Return) and isinstance(ret.value, ast.Call) and ast.unparse(ret.value.func) == 'self.select'
            and len(ret.value.args) == 1 and isinstance(ret.value.args[0], ast.Starred) and not ret.value.keywords):
        raise NotTranslatable('withColumn: the replacing projection')
    comp = ret.value.args[0].value
    if not (isinstance(comp, ast.ListComp) and len(comp.generators) == 1 and ast.unparse(comp.generators[0].iter) == 'enumerate(self.bound_schema.fields)'):
        raise NotTranslatable('withColumn: the replacing projection is not a comprehension over the enumerated fields')

    class T2(TrColRef):
        def comp(self, e):
            g = e.generators[0]
            src, _ = self.source(g.iter)
            if g.ifs or not (isinstance(g.target, ast.Tuple) and len(g.target.elts) == 2 and all(isinstance(x, ast.Name) for x in g.target.elts)):
                raise NotTranslatable('comprehension target')
            env2 = {g.target.elts[0].id: 'p.1', g.target.elts[1].id: 'p.2', 'colName': 'colName'}
            return '(%s.map fun p => %s)' % (src, self.name_of(e.elt, env2))
    sel = T2({'self.bound_schema.fields': 'schema'}).comp(comp)
    # FieldAsExpression.eval: the position, when given, decides
    ftree = parse(repo, 'pysparkling/sql/expressions/fields.py')
    fcls = find_class(ftree, 'FieldAsExpression')
    ev = [n for n in fcls.body if isinstance(n, ast.FunctionDef) and n.name == 'eval']
    init = [n for n in fcls.body if isinstance(n, ast.FunctionDef) and n.name == '__init__']
    if len(ev) != 1 or len(init) != 1 or 'self.position = position' not in [ast.unparse(x) for x in init[0].body] \
            or [a.arg for a in init[0].args.args] != ['self', 'field', 'position']:
        raise NotTranslatable('FieldAsExpression.__init__ / eval')
    eb = [st for st in ev[0].body if not (isinstance(st, ast.Expr) and isinstance(st.value, ast.Constant))]
    if len(eb) != 2 or ast.unparse(eb[0]) != 'if self.position is not None:\n    return row[self.position]' \
            or ast.unparse(eb[1]) != 'return row[find_position_in_schema(schema, self.field)]':
        raise NotTranslatable('FieldAsExpression.eval shape')
    return ('\n/-- an element of the projection `withColumn` hands to `select`: the new column, or the field at a position of the frame -/\n'
            'inductive ColRef where\n  | new\n  | at (position : Nat)\n  deriving DecidableEq, Repr\n\n'
            '/-- `any(field.name == colName for field in self.bound_schema.fields)`: the replacing branch is taken -/\n'
            'def withColumnReplaces (colName : String) (schema : Names) : Bool :=\n  %s\n'
            '/-- the projection of the replacing branch, one element per field of the frame -/\n'
            'def withColumnSelection (colName : String) (schema : Names) : List ColRef :=\n  %s\n'
            '/-- `FieldAsExpression.eval` of a reference that carries its position: `row[self.position]` (`none` = IndexError);\n'
            'the new column evaluates to the value `v` of its expression on the row -/\n'
            'def ColRef.eval {α : Type} (v : α) (row : List α) : ColRef → Option α\n  | .new => some v\n  | .at position => row[position]?\n'
            % (exists, sel))


# ---- C06: generator plumbing of the element-wise transformations and of take / first / isEmpty -------------------------

def gen_c06(repo):
    """What the translation ASSUMES is the documented laziness of the constructs themselves - a generator expression evaluates
    its element expression when an output is pulled, `itertools.chain.from_iterable` and `itertools.islice` pull on demand -:
    each is rendered as the corresponding stream transformer of Model/Lazy.lean. What it CHECKS is that the text still consists
    of these constructs in this arrangement (a list comprehension, `list(...)` around an upstream, `chain(*l)`, a loop that
    looks ahead ... are refused), and the theorems then say what the arrangement does."""
    tree = parse(repo, 'pysparkling/rdd.py')
    rdd = find_class(tree, 'RDD')

    def body_of(fn):
        return [st for st in fn.body if not (isinstance(st, ast.Expr) and isinstance(st.value, ast.Constant))]

    def single_return(cls, name, params):
        fns = [n for n in cls.body if isinstance(n, ast.FunctionDef) and n.name == name]
        if len(fns) != 1 or [a.arg for a in fns[0].args.args] != ['self'] + params:
            raise NotTranslatable('%s.%s parameters' % (cls.name, name))
        b = body_of(fns[0])
        if len(b) != 1 or not isinstance(b[0], ast.Return):
            raise NotTranslatable('%s.%s is no longer a single return' % (cls.name, name))
        return b[0].value

    def genexp(ge, it, fn_src):
        """a generator expression over the upstream iterator `it` that calls the user function `fn_src` -> stream transformer"""
        if not isinstance(ge, ast.GeneratorExp):
            raise NotTranslatable('not a generator expression (evaluated eagerly?): ' + ast.unparse(ge)[:70])
        gens = ge.generators
        if any(g.is_async for g in gens) or ast.unparse(gens[0].iter) != it or not isinstance(gens[0].target, ast.Name):
            raise NotTranslatable('generator over something else than the upstream iterator: ' + ast.unparse(ge)[:70])
        v = gens[0].target.id
        call = '%s(%s)' % (fn_src, v)
        if len(gens) == 1 and not gens[0].ifs and ast.unparse(ge.elt) == call:
            return 'lmap k f x'
        if len(gens) == 1 and len(gens[0].ifs) == 1 and ast.unparse(gens[0].ifs[0]) == call and ast.unparse(ge.elt) == v:
            return 'lfilter k f x'
        if len(gens) == 2 and not gens[0].ifs and not gens[1].ifs and ast.unparse(gens[1].iter) == call \
                and isinstance(gens[1].target, ast.Name) and ast.unparse(ge.elt) == gens[1].target.id:
            return 'lflatMap k f x'
        raise NotTranslatable('generator expression shape: ' + ast.unparse(ge)[:70])

    def stage_lambda(e):
        """`lambda tc, i, x: <generator expression over x>`"""
        if not (isinstance(e, ast.Lambda) and [a.arg for a in e.args.args] == ['tc', 'i', 'x']):
            raise NotTranslatable('stage function ' + ast.unparse(e)[:70])
        return genexp(e.body, 'x', 'f')

    def mprdd(call, want_stage):
        """`MapPartitionsRDD(self, <stage>, preservesPartitioning=…)[.setName(…)]` -> the stage argument"""
        if isinstance(call, ast.Call) and isinstance(call.func, ast.Attribute) and call.func.attr == 'setName':
            call = call.func.value
        if not (isinstance(call, ast.Call) and ast.unparse(call.func) == 'MapPartitionsRDD' and len(call.args) == 2
                and ast.unparse(call.args[0]) == 'self'):
            raise NotTranslatable(want_stage + ': not a MapPartitionsRDD over self')
        return call.args[1]

    # map: MapF(f), whose __call__ is the generator expression
    st = mprdd(single_return(rdd, 'map', ['f']), 'map')
    if ast.unparse(st) != 'MapF(f)':
        raise NotTranslatable('map stage ' + ast.unparse(st)[:60])
    mapf = find_class(tree, 'MapF')
    init = [n for n in mapf.body if isinstance(n, ast.FunctionDef) and n.name == '__init__']
    if len(init) != 1 or [ast.unparse(x) for x in body_of(init[0])] != ['self.f = f']:
        raise NotTranslatable('MapF.__init__')
    call = [n for n in mapf.body if isinstance(n, ast.FunctionDef) and n.name == '__call__']
    if len(call) != 1 or [a.arg for a in call[0].args.args] != ['self', 'tc', 'i', 'x'] or len(body_of(call[0])) != 1 \
            or not isinstance(body_of(call[0])[0], ast.Return):
        raise NotTranslatable('MapF.__call__')
    map_t = genexp(body_of(call[0])[0].value, 'x', 'self.f')
    filter_t = stage_lambda(mprdd(single_return(rdd, 'filter', ['f']), 'filter'))
    flat_t = stage_lambda(mprdd(single_return(rdd, 'flatMap', ['f', 'preservesPartitioning']), 'flatMap'))
    for name, lam in (('keyBy', 'lambda e: (f(e), e)'), ('keys', 'lambda e: e[0]'), ('values', 'lambda e: e[1]')):
        params = ['f'] if name == 'keyBy' else []
        if ast.unparse(single_return(rdd, name, params)) != 'self.map(%s)' % lam:
            raise NotTranslatable(name + ' is no longer a map')
    # MapPartitionsRDD.compute: the stage applied to the parent's (unevaluated) iterator of the same split
    mp = find_class(tree, 'MapPartitionsRDD')
    comp = [n for n in mp.body if isinstance(n, ast.FunctionDef) and n.name == 'compute']
    if len(comp) != 1 or [ast.unparse(x) for x in body_of(comp[0])] != \
            ['return self.f(task_context, split.index, self.prev.compute(split, task_context._create_child()))']:
        raise NotTranslatable('MapPartitionsRDD.compute')

    # take / first: the job hands each partition's iterator on unevaluated; the result handler pulls
    def handler(e, task_params):
        if not (isinstance(e, ast.Call) and ast.unparse(e.func) == 'self.context.runJob' and len(e.args) == 2 and ast.unparse(e.args[0]) == 'self'):
            raise NotTranslatable('not a runJob: ' + ast.unparse(e)[:60])
        kw = {k.arg: k.value for k in e.keywords}
        if sorted(kw) != ['allowLocal', 'resultHandler'] or ast.unparse(kw['allowLocal']) != 'True':
            raise NotTranslatable('runJob keywords')
        task = e.args[1]
        if not (isinstance(task, ast.Lambda) and [a.arg for a in task.args.args] == task_params and ast.unparse(task.body) == task_params[1]):
            raise NotTranslatable('the task function evaluates the partition: ' + ast.unparse(task)[:60])
        h = kw['resultHandler']
        if not (isinstance(h, ast.Lambda) and [a.arg for a in h.args.args] == ['l']):
            raise NotTranslatable('result handler')
        return h.body

    def hexpr(e):
        src = ast.unparse(e)
        if src == 'l':
            return 'l'
        if isinstance(e, ast.Call) and ast.unparse(e.func) == 'itertools.chain.from_iterable' and len(e.args) == 1 and not e.keywords:
            return '(chainStreams %s)' % hexpr(e.args[0])
        if isinstance(e, ast.Call) and ast.unparse(e.func) == 'list' and len(e.args) == 1 and isinstance(e.args[0], ast.Call) \
                and ast.unparse(e.args[0].func) == 'itertools.islice' and len(e.args[0].args) == 2 and ast.unparse(e.args[0].args[1]) == 'n':
            return '(isliceList n %s)' % hexpr(e.args[0].args[0])
        if isinstance(e, ast.Call) and ast.unparse(e.func) == 'first_of' and len(e.args) == 1:
            return '(firstOf %s)' % hexpr(e.args[0])
        raise NotTranslatable('result handler expression: ' + src[:70])
    take_t = hexpr(handler(single_return(rdd, 'take', ['n']), ['tc', 'i']))
    first_t = hexpr(handler(single_return(rdd, 'first', []), ['tc', 'iterable']))
    fo = [n for n in tree.body if isinstance(n, ast.FunctionDef) and n.name == 'first_of']
    if len(fo) != 1 or [a.arg for a in fo[0].args.args] != ['iterable'] or [ast.unparse(x) for x in body_of(fo[0])] != \
            ['for element in iterable:\n    return element', "raise ValueError('RDD is empty')"]:
        raise NotTranslatable('first_of')
    if ast.unparse(single_return(rdd, 'isEmpty', [])) != 'not self.partitions() or len(self.take(1)) == 0':
        raise NotTranslatable('isEmpty')
    # PartitionwiseSampledRDD.compute: a generator expression that pulls EVERY element of the parent and repeats it as often as
    # the sampler draws (no short cut for an expectation of zero)
    ps = find_class(tree, 'PartitionwiseSampledRDD')
    sc_ = [n for n in ps.body if isinstance(n, ast.FunctionDef) and n.name == 'compute']
    if len(sc_) != 1 or [a.arg for a in sc_[0].args.args] != ['self', 'split', 'task_context']:
        raise NotTranslatable('PartitionwiseSampledRDD.compute')
    sb = body_of(sc_[0])
    if len(sb) != 2 or ast.unparse(sb[0]) != 'rng = TaskRandom(self.seed + split.index)' or not isinstance(sb[1], ast.Return):
        raise NotTranslatable('PartitionwiseSampledRDD.compute shape')
    ge = sb[1].value
    if not (isinstance(ge, ast.GeneratorExp) and len(ge.generators) == 2 and not any(g.ifs or g.is_async for g in ge.generators)
            and ast.unparse(ge.generators[0].iter) == 'self.prev.compute(split, task_context._create_child())'
            and isinstance(ge.generators[0].target, ast.Name)
            and ast.unparse(ge.generators[1].iter) == 'range(self.sampler(%s, rng))' % ge.generators[0].target.id
            and ast.unparse(ge.elt) == ge.generators[0].target.id):
        raise NotTranslatable('the sampling stage is not a generator expression over every element of the parent: ' + ast.unparse(ge)[:80])
    sample_t = 'lsample draws x'
    out = ('open PysparklingVerif.Lazy\n\n'
           '/-- `MapF.__call__(tc, i, x)` (the stage of `map`, hence of `keyBy` / `keys` / `values`): a generator expression over the upstream -/\n'
           'def mapStage {α : Type} (k : Nat) (f : α → α) (x : LStream α) : LStream α := %s\n'
           '/-- the stage of `filter` -/\n'
           'def filterStage {α : Type} (k : Nat) (f : α → Bool) (x : LStream α) : LStream α := %s\n'
           '/-- the stage of `flatMap` -/\n'
           'def flatMapStage {α : Type} (k : Nat) (f : α → List α) (x : LStream α) : LStream α := %s\n\n'
           '/-- `PartitionwiseSampledRDD.compute`: `(x for x in <parent> for _ in range(self.sampler(x, rng)))`; `draws` are the numbers the '
           'seeded sampler yields for the elements, in order -/\n'
           'def sampleStage {α : Type} (draws : List Nat) (x : LStream α) : LStream α := %s\n\n'
           '/-- `MapPartitionsRDD.compute(split, tc)`: the stage applied to the parent\'s iterator of the same split, which is handed over unevaluated -/\n'
           'def compute {α : Type} (stage : LStream α → LStream α) (prevCompute : LStream α) : LStream α := stage prevCompute\n\n'
           '/-- `first_of(iterable)`: `for element in iterable: return element` pulls one output (no output: ValueError) -/\n'
           'def firstOf {α : Type} (s : LStream α) : List (Ev α) × List α := isliceList 1 s\n\n'
           '/-- the result handler of `take(n)` over the per-partition iterators `l` the job hands on (task function: the identity) -/\n'
           'def takeHandler {α : Type} (n : Nat) (l : List (LStream α)) : List (Ev α) × List α := %s\n'
           '/-- the result handler of `first()` -/\n'
           'def firstHandler {α : Type} (l : List (LStream α)) : List (Ev α) × List α := %s\n'
           '/-- `isEmpty()`: `not self.partitions() or len(self.take(1)) == 0` - calls and answer -/\n'
           'def isEmpty {α : Type} (l : List (LStream α)) : List (Ev α) × Bool :=\n'
           '  if l.isEmpty then ([], true) else ((takeHandler 1 l).1, (takeHandler 1 l).2.length == 0)\n'
           % (map_t, filter_t, flat_t, sample_t, take_t, first_t))
    return ('pysparkling/rdd.py (RDD.map / MapF, filter, flatMap, keyBy, keys, values: the generator expressions; MapPartitionsRDD.compute; '
            'PartitionwiseSampledRDD.compute; take, first / first_of, isEmpty: task function and result handler)'), out


# ---- C05: CacheManager, TimedCacheManager, PersistedRDD.compute ------------------------------------

ENTRY_FIELDS = ('mem_obj', 'disk_location')


def gen_c05(repo):
    tree = parse(repo, 'pysparkling/cache_manager.py')
    cm, tcm = find_class(tree, 'CacheManager'), find_class(tree, 'TimedCacheManager')
    fields = {'cache_obj': 'cache_obj', '_time_added': 'time_added', 'timeout': 'timeout'}
    kinds = {'cache_obj': 'assoc', '_time_added': 'list'}

    def ext_expr(node, tr, env):
        if isinstance(node, ast.Dict):
            keys = [k.value if isinstance(k, ast.Constant) else None for k in node.keys]
            if None in keys or not set(ENTRY_FIELDS) <= set(keys):
                raise NotTranslatable('cache entry literal')
            parts = []
            for key, v in zip(keys, node.values):
                if key in ENTRY_FIELDS:
                    lean = tr.expr(v, env)
                    parts.append('%s := %s' % (key, 'none' if lean == 'none' else '(some %s)' % lean))
                elif not (isinstance(v, (ast.Constant, ast.Name)) or ast.unparse(v) == 'self.incr_cache_cnt()'):
                    raise NotTranslatable('value of the unmodelled entry key %r' % key)
            return '{ ' + ', '.join(parts) + ' }'
        if ast.unparse(node) == 'time.time()':
            return 'now'
        return None
    methods = {'super().add(...)': ('cmAdd', 'self', []), 'self.gc()': ('tGc', 'self', ['now']),
               'self.delete(...)': ('cmDelete', 'self', [])}
    noise = lambda src: src.startswith('log.')      # noqa: E731

    def make(fn, leanname, params, ret, extra=''):
        t = TrM(fields, noise=noise, ext_expr=ext_expr, kinds=kinds, num='Int', methods=methods, state_type='CM κ β')
        got = [a.arg for a in fn.args.args]
        if got != ['self'] + [p for p, _ in params]:
            raise NotTranslatable('parameters of %s: %s' % (fn.name, got))
        env = t.start_env([p for p, _ in params] + ['now'])

        def k(kind, e2, value):
            st = t.record(e2)
            if kind == FALL or (kind == RETURN and value is None):
                if ret != 'Unit':
                    raise NotTranslatable('%s falls off the end' % fn.name)
                return 'some ((), %s)' % st
            if kind == RETURN and ret == 'Bool' and isinstance(value, ast.Constant) and isinstance(value.value, bool):
                return 'some (%s, %s)' % ('true' if value.value else 'false', st)
            if kind == RETURN and ret == 'Bool':
                return '(%s).map fun r => (r, %s)' % (t.obool(value, e2), st)
            if kind == RETURN and ret == 'Option β':
                return '(%s).map fun r => (r, %s)' % (t.oval(value, e2), st)
            raise NotTranslatable('%s in %s' % (kind, fn.name))
        ps = ''.join(' (%s : %s)' % (p, ty) for p, ty in params)
        return 'def %s (self : CM κ β)%s%s : Option (%s × CM κ β) :=\n  %s\n' % (leanname, ps, extra, ret, t.block(fn.body, env, k, 2))
    out = ('/-- the part of a cache entry the cache manager reads back (the other keys of the entry are write-only) -/\n'
           'structure Entry (β : Type) where\n  mem_obj : Option β\n  disk_location : Option Unit := none\n\n'
           'structure CM (κ β : Type) where\n  cache_obj : Assoc κ (Entry β)\n  time_added : List (κ × Int)   -- TimedCacheManager only\n'
           '  timeout : Int                 -- TimedCacheManager only\n\nvariable {κ β : Type} [BEq κ]\n\n')
    key = [('ident', 'κ')]
    out += make(find_def(cm, 'add'), 'cmAdd', key + [('obj', 'β'), ('storageLevel', 'Unit')], 'Unit') + '\n'
    out += make(find_def(cm, 'get'), 'cmGet', key, 'Option β') + '\n'
    out += make(find_def(cm, 'has'), 'cmHas', key, 'Bool') + '\n'
    out += make(find_def(cm, 'delete'), 'cmDelete', key, 'Bool') + '\n'
    out += make(find_def(tcm, 'gc'), 'tGc', [], 'Unit', extra=' (now : Int)') + '\n'
    out += make(find_def(tcm, 'add'), 'tAdd', key + [('obj', 'β'), ('storageLevel', 'Unit')], 'Unit', extra=' (now : Int)') + '\n'

    # PersistedRDD.compute over either manager (`add` is the parameter that distinguishes them)
    rdd = parse(repo, 'pysparkling/rdd.py')
    comp = find_def(find_class(rdd, 'PersistedRDD'), 'compute')
    if [a.arg for a in comp.args.args] != ['self', 'split', 'task_context']:
        raise NotTranslatable('PersistedRDD.compute parameters')

    def ext2(node, tr, env):
        src = ast.unparse(node)
        if src == 'self._rdd_id':
            return 'rdd_id'
        if src == 'split.index':
            return 'index'
        if src == '(self._rdd_id, split.index)':
            # reached only where both were tested to be not None
            return '(match rdd_id, index with | some a, some b => some (a, b) | _, _ => none)'
        if src == 'self.storageLevel':
            return '()'
        return None
    m2 = {'task_context.cache_manager.has(...)': ('cmHas', 'cache_manager', []),
          'task_context.cache_manager.get(...)': ('cmGet', 'cache_manager', [], 'opt'),
          'task_context.cache_manager.add(...)': ('add', 'cache_manager', []),
          'list(self.prev.compute(split, task_context._create_child()))': ('up', 'cache_manager', [])}
    t = TrM({'cache_manager': 'cache_manager'}, selfname='task_context', noise=noise, ext_expr=ext2, methods=m2,
            dead=('self._cid', 'self._cache_manager'))
    env = t.start_env([], svar='task_context')

    def k2(kind, e2, value):
        if kind == RETURN and ast.unparse(value) == 'iter(data)' and 'data' in e2:
            if e2['@kind'].get('data') == 'opt':
                return '(match %s with | none => none /- iter(None) -/ | some d => some (d, %s))' % (e2['data'], e2['@self']['cache_manager'])
            return 'some (%s, %s)' % (e2['data'], e2['@self']['cache_manager'])
        raise NotTranslatable('%s in PersistedRDD.compute' % kind)
    body = t.block(comp.body, env, k2, 2)
    out += ('structure TaskCtx (κ β : Type) where\n  cache_manager : CM κ β\n\n'
            '/-- `PersistedRDD.compute(split, task_context)`: `up` computes the parent\'s partition (it may use the same cache manager),\n'
            '`add` is the `add` of the manager in use (`cmAdd`, or `tAdd · now`) -/\n'
            'def persistedCompute {β : Type} (task_context : TaskCtx (Option (Nat × Nat)) β) (rdd_id index : Option Nat)\n'
            '    (up : CM (Option (Nat × Nat)) β → Option (β × CM (Option (Nat × Nat)) β))\n'
            '    (add : CM (Option (Nat × Nat)) β → Option (Nat × Nat) → β → Unit → Option (Unit × CM (Option (Nat × Nat)) β)) :\n'
            '    Option (β × CM (Option (Nat × Nat)) β) :=\n  %s\n' % body)
    return 'pysparkling/cache_manager.py (CacheManager.add/get/has/delete, TimedCacheManager.add/gc), pysparkling/rdd.py (PersistedRDD.compute)', out


GENERATORS_M = {'C02': gen_c02, 'C11': gen_c11, 'C04': gen_c04, 'C05': gen_c05, 'C10': gen_c10, 'C09': gen_c09, 'C20': gen_c20, 'C03': gen_c03, 'C08': gen_c08, 'C12': gen_c12, 'C01': gen_c01, 'C19': gen_c19, 'C13': gen_c13, 'C15': gen_c15, 'C06': gen_c06}
