"""C05 — Caching never changes results, prevents recomputation, and unpersist is safe."""
import collections

import funcs as F
from core import Mismatch, Prop, canon
from util import build_layout, exc, random_layout

OPS = [('map', 'add1'), ('map', 'dbl'), ('map', 'neg'), ('filter', 'even'), ('filter', 'pos'), ('flatMap', 'dup'),
       ('flatMap', 'rng'), ('map', 'mod3'), ('filter', 'true'), ('flatMap', 'one')]


class Clock:
    def __init__(self):
        self.now = 1000.0

    def time(self):
        return self.now


class C05(Prop):
    id = 'C05'
    extracted = True      # statement-level kernels regenerated from the current source (harness/extract_m.py, Extracted/EquivC05.lean)
    quick_cases = 4000
    thorough_cases = 25000
    quick_budget_s = 50
    rule = ('1..2 lineages (each in its own Context) over 1..3 partitions, 1..4 element-wise stages with persist()/cache() '
            'inserted at every subset of positions, sharing one CacheManager or TimedCacheManager (virtual clock); histories '
            'of <= 6 steps: collect / take(n) (partial: first partitions only) on any node of any lineage, unpersist of any '
            'persisted node (followed by a collect of the returned dataset), clock ticks and gc(). After every step the '
            'result, the calls made to every user function that lies upstream of a persisted node (instrumented), and the '
            'set of cache keys (dataset ids renumbered by creation order) are compared with the Lean cache model. '
            'Non-trivial = at least one persist and two actions; distinct = distinct canonical case.')
    trusted = ('the clock of TimedCacheManager is replaced by a virtual, non-decreasing clock (time module patched in '
               'pysparkling.cache_manager)',
               'entries merged back from pooled workers (CacheManager.join) never expire — executor not quantified here',
               'stages downstream of the last persisted node are lazy; their partial call counts belong to C06')

    def setup(self, ctx):
        import pysparkling
        from pysparkling import cache_manager
        self.ps = pysparkling
        self.cm_mod = cache_manager
        self.real_time = cache_manager.time

    def teardown(self, ctx):
        self.cm_mod.time = self.real_time

    def gen(self, rng, tier):
        lins = []
        for L in range(rng.choice([1, 1, 2])):
            xs = [rng.randint(-3, 6) for _ in range(rng.choice([0, 2, 3, 5, 7]))]
            stages = []
            for k in range(rng.randint(1, 4)):
                if rng.random() < .45:
                    stages.append({'persist': True})
                op, f = rng.choice(OPS)
                stages.append({'op': op, 'f': f})
            if rng.random() < .5:
                stages.append({'persist': True})
            lins.append({'src': random_layout(rng, xs, 3), 'stages': stages})
        timed = rng.random() < .3
        hist = []
        for _ in range(rng.randint(2, 6)):
            L = rng.randrange(len(lins))
            n_st = len(lins[L]['stages'])
            r = rng.random()
            pidx = [i + 1 for i, s in enumerate(lins[L]['stages']) if 'persist' in s]
            if r < .45:
                hist.append({'kind': 'collect', 'lineage': L, 'upto': rng.randint(0, n_st)})
            elif r < .7:
                hist.append({'kind': 'take', 'lineage': L, 'upto': rng.randint(0, n_st), 'n': rng.randint(0, 5)})
            elif r < .82 and pidx:
                hist.append({'kind': 'unpersist', 'lineage': L, 'upto': rng.choice(pidx)})
            elif timed:
                hist.append({'kind': 'tick', 'dt': rng.choice([1, 4, 5, 6, 20])})
                if rng.random() < .7:
                    hist.append({'kind': 'gc'})
            else:
                hist.append({'kind': 'collect', 'lineage': L, 'upto': n_st})
        return {'lineages': lins, 'history': hist, 'timeout': 5 if timed else None}

    def fixed_cases(self, tier):
        st = [{'op': 'map', 'f': 'dbl'}, {'persist': True}, {'op': 'map', 'f': 'add1'}]
        lin = {'src': [[1, 2], [3]], 'stages': st}
        return [{'kind': 'twin-empty', 'n': n, 'persist_at': pa} for n in (1, 2, 3) for pa in ([0], [0, 1], ['result'], [1, 'result'])] + [
            {'lineages': [lin], 'timeout': None, 'history': [{'kind': 'collect', 'lineage': 0, 'upto': 3},
                                                              {'kind': 'unpersist', 'lineage': 0, 'upto': 2},
                                                              {'kind': 'collect', 'lineage': 0, 'upto': 3}]},
            {'lineages': [lin], 'timeout': None, 'history': [{'kind': 'take', 'lineage': 0, 'upto': 3, 'n': 1},
                                                              {'kind': 'collect', 'lineage': 0, 'upto': 2},
                                                              {'kind': 'collect', 'lineage': 0, 'upto': 3}]},
            {'lineages': [lin, lin], 'timeout': None, 'history': [{'kind': 'collect', 'lineage': 0, 'upto': 3},
                                                                   {'kind': 'collect', 'lineage': 1, 'upto': 3},
                                                                   {'kind': 'unpersist', 'lineage': 1, 'upto': 2},
                                                                   {'kind': 'collect', 'lineage': 0, 'upto': 3}]},
            {'lineages': [lin], 'timeout': 5, 'history': [{'kind': 'collect', 'lineage': 0, 'upto': 3}, {'kind': 'tick', 'dt': 4},
                                                           {'kind': 'gc'}, {'kind': 'collect', 'lineage': 0, 'upto': 3},
                                                           {'kind': 'tick', 'dt': 2}, {'kind': 'gc'},
                                                           {'kind': 'collect', 'lineage': 0, 'upto': 3}]},
        ]

    def nontrivial(self, case):
        if case.get('kind') == 'twin-empty':
            return True
        return any('persist' in s for l in case['lineages'] for s in l['stages']) and \
            sum(1 for h in case['history'] if h['kind'] in ('collect', 'take')) >= 2

    def shrink(self, case):
        if case.get('kind') == 'twin-empty':
            return
        h = case['history']
        for i in range(len(h)):
            yield dict(case, history=h[:i] + h[i + 1:])
        if len(case['lineages']) == 2 and all(s.get('lineage', 0) == 0 for s in h):
            yield dict(case, lineages=case['lineages'][:1])

    def run_twin(self, case, ctx):
        """the same pipeline with and without persist() inserted, over datasets WITHOUT partitions (model-free: the property's
        first clause, observed through the actions that see the partition layout)"""
        ps = self.ps
        ctx.note('twin:datasets-without-partitions')

        def build(sc, persist):
            e = sc.union([])
            parts = [e.persist() if persist and i in case['persist_at'] else e for i in range(case['n'])]
            u = parts[0]
            for q in parts[1:]:
                u = u.union(q)
            return u.persist() if persist and 'result' in case['persist_at'] else u

        def observe(r):
            return {'collect': r.collect(), 'glom': r.glom().collect(), 'count': r.count(), 'glom-count': r.glom().count(),
                    'partition-sums': r.mapPartitions(lambda it: [sum(it)]).collect(), 'partitions': r.getNumPartitions()}
        try:
            plain = observe(build(ps.Context(), False))
            cached = observe(build(ps.Context(), True))
        except Exception as e:  # pylint: disable=broad-except
            return Mismatch('pipeline over datasets without partitions raised', exc(e), None, 'C05:twin:exc')
        if plain != cached:
            return Mismatch('inserting persist() into a union of datasets without partitions changes what actions return',
                            cached, plain, 'C05:twin-empty', relation='spec')
        return None

    def run_case(self, case, ctx):
        if case.get('kind') == 'twin-empty':
            return self.run_twin(case, ctx)
        clock = Clock()
        self.cm_mod.time = clock
        try:
            return self._run(case, ctx, clock)
        finally:
            self.cm_mod.time = self.real_time

    def _run(self, case, ctx, clock):
        ps = self.ps
        timed = case['timeout'] is not None
        ctx.note('manager:' + ('timed' if timed else 'plain'))
        ctx.note('lineages:%d' % len(case['lineages']))
        cm = ps.TimedCacheManager(timeout=float(case['timeout'])) if timed else ps.CacheManager()
        log = []

        def wrap(tag, fn):
            def logged(x):
                log.append(tag)
                return fn(x)
            return logged

        nodes, idmap, model_lins = [], {}, []
        for L, lin in enumerate(case['lineages']):
            sc = ps.Context(cache_manager=cm)
            rdd = build_layout(sc, lin['src'])
            ns = [rdd]
            mstages = []
            for k, s in enumerate(lin['stages']):
                tag = 100 * L + k
                if 'persist' in s:
                    rdd = rdd.persist() if k % 2 else rdd.cache()
                    idmap[rdd.id()] = tag
                    mstages.append({'persist': tag})
                else:
                    fn = {'map': F.MAP, 'filter': F.PRED, 'flatMap': F.FLAT}[s['op']][s['f']]
                    rdd = getattr(rdd, s['op'])(wrap(tag, fn))
                    mstages.append({'op': s['op'], 'f': s['f'], 'tag': tag})
                ns.append(rdd)
            nodes.append(ns)
            model_lins.append({'src': lin['src'], 'stages': mstages})

        def keys():
            return sorted([idmap.get(k[0], -k[0]), k[1]] for k in cm.cache_obj)

        impl, mhist = [], []
        for step in case['history']:
            kind = step['kind']
            ctx.note('step:' + kind)
            del log[:]
            try:
                if kind == 'tick':
                    clock.now += step['dt']
                    impl.append(None)
                    mhist.append(step)
                elif kind == 'gc':
                    if timed:
                        cm.gc()
                    impl.append({'keys': keys()})
                    mhist.append(step)
                elif kind == 'unpersist':
                    back = nodes[step['lineage']][step['upto']].unpersist()
                    impl.append({'keys': keys()})
                    mhist.append(step)
                    # the dataset handed back must have the same contents; run it (and keep the model in step)
                    del log[:]
                    contents = back.glom().collect()
                    impl.append({'result': contents, 'keys': keys(), 'calls': collections.Counter(log)})
                    mhist.append({'kind': 'collect', 'lineage': step['lineage'], 'upto': step['upto'] - 1})
                else:
                    rdd = nodes[step['lineage']][step['upto']]
                    res = rdd.glom().collect() if kind == 'collect' else rdd.take(step['n'])
                    impl.append({'result': res, 'keys': keys(), 'calls': collections.Counter(log)})
                    mhist.append(step)
            except Exception as e:  # pylint: disable=broad-except
                return Mismatch('step %r raised' % (step,), exc(e), None, 'C05:exc:' + kind)
        model = ctx.driver.ask({'p': 'C05', 'lineages': model_lins, 'history': mhist,
                                **({'timeout': case['timeout']} if timed else {})})['model']
        for idx, (step, got, want) in enumerate(zip(mhist, impl, model)):
            kind = step['kind']
            if want is None:
                continue
            if 'result' in want:
                if kind == 'collect' and canon(want['result']) != canon(want['spec']):
                    return Mismatch('Lean cache model differs from the persistence-free SPEC', want['result'], want['spec'], 'model-spec')
                if canon(got['result']) != canon(want['result']):
                    sig = 'C05:result'
                    if idx > 0 and mhist[idx - 1]['kind'] == 'unpersist':
                        sig = 'C05:unpersist-contents'
                    return Mismatch('step %d (%s): result differs from the persistence-free result' % (idx, kind), got['result'],
                                    want['result'], sig, relation='spec')
                # calls to user functions UPSTREAM of a persisted node (all-or-nothing per partition)
                L = step['lineage']
                st = model_lins[L]['stages'][:step['upto']]
                last_p = max([i for i, s in enumerate(st) if 'persist' in s], default=-1)
                shielded = {s['tag'] for s in st[:last_p + 1] if 'op' in s}
                want_calls = collections.Counter()
                for tag, part in want['log']:
                    if tag in shielded:
                        src = model_lins[L]['src'][part]
                        vals = list(src)
                        for s in model_lins[L]['stages']:
                            if 'op' not in s:
                                continue
                            if s['tag'] == tag:
                                break
                            fn = {'map': F.MAP, 'filter': F.PRED, 'flatMap': F.FLAT}[s['op']][s['f']]
                            if s['op'] == 'map':
                                vals = [fn(v) for v in vals]
                            elif s['op'] == 'filter':
                                vals = [v for v in vals if fn(v)]
                            else:
                                vals = [w for v in vals for w in fn(v)]
                        want_calls[tag] += len(vals)
                got_calls = collections.Counter({t: c for t, c in got['calls'].items() if t in shielded})
                want_calls = collections.Counter({t: c for t, c in want_calls.items() if c})
                if got_calls != want_calls:
                    more = {t: c for t, c in (got_calls - want_calls).items()}
                    return Mismatch('step %d (%s): calls to user functions upstream of a persisted dataset differ '
                                    '(recomputation of a cached partition, or a cached partition not used)' % (idx, kind),
                                    dict(got_calls), dict(want_calls), 'C05:recompute' if more else 'C05:calls')
            if sorted(map(tuple, got['keys'])) != sorted(map(tuple, want['keys'])):
                sig = {'unpersist': 'C05:unpersist-keys', 'gc': 'C05:gc-keys'}.get(kind, 'C05:keys')
                return Mismatch('step %d (%s): cache entries differ from the model' % (idx, kind), got['keys'],
                                sorted(want['keys']), sig)
        return None


PROP = C05()
