"""C11 — Windowed and stateful streams equal a fold over the batch history (generator focused on
window(w, s) for w in 1..4, s in 1..3 and updateStateByKey with sum / last / count / list-append,
with one or several consumers); machinery shared with C10."""
from props.c10 import C10


class C11(C10):
    id = 'C11'
    focus = 'C11'
    extracted = True      # WindowedDStream._step regenerated from the current source (harness/extract_m.py, Extracted/EquivC11.lean)
    rule = ('stream DAGs in which ~40% of the derived streams are window(w, s) (w 1..4, s 1..3) and ~45% of the keyed ones '
            'updateStateByKey (sum / last / count / list-append, the last one also in its in-place spelling), each with 1..4 consumers (foreachRDD outputs, count, further '
            'operations), over batch histories of up to 6 batches + exhaustion, up to 9 ticks, driven through the real start() '
            'callback by a virtual clock; every consumer\'s per-tick batch is compared with the Lean model (window: ordered; '
            'state: as a key -> state map). Fixed: w=3,s=2 over six batches with three consumers; a key absent for several '
            'ticks. Non-trivial = a window or state node and a non-empty batch; distinct = distinct canonical case.')
    trusted = C10.trusted

    def nontrivial(self, case):
        return any(n['kind'] in ('window', 'state') for n in case['nodes']) and any(b for s in case['sources'] for b in s['queue'])


PROP = C11()
