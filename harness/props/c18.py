"""C18 — Casting follows Spark's conversion rules for all values."""
import datetime
import math

from core import Mismatch, Prop

import re

DATE_FORM = re.compile(r'^[0-9]{4}(-[0-9]{1,2}(-[0-9]{1,2})?)?([ T].*)?$', re.S)
WIDTHS = ['byte', 'short', 'int', 'long']
BITS = {'byte': 8, 'short': 16, 'int': 32, 'long': 64}
TYPES = ['null', 'string', 'boolean', 'byte', 'short', 'int', 'long', 'float', 'double', 'date', 'timestamp',
         'binary', 'decimal', 'arrayL', 'arrayS', 'mapL', 'mapS', 'structL', 'structS']


def _types():
    from pysparkling.sql import types as T
    return {
        'null': T.NullType(), 'string': T.StringType(), 'boolean': T.BooleanType(), 'byte': T.ByteType(),
        'short': T.ShortType(), 'int': T.IntegerType(), 'long': T.LongType(), 'float': T.FloatType(),
        'double': T.DoubleType(), 'date': T.DateType(), 'timestamp': T.TimestampType(),
        'binary': T.BinaryType(), 'decimal': T.DecimalType(10, 2),
        'arrayL': T.ArrayType(T.LongType()), 'arrayS': T.ArrayType(T.StringType()),
        'mapL': T.MapType(T.StringType(), T.LongType()), 'mapS': T.MapType(T.StringType(), T.StringType()),
        'structL': T.StructType([T.StructField('a', T.LongType())]), 'structS': T.StructType([T.StructField('a', T.StringType())]),
    }


def exc_name(e):
    return {'exc': type(e).__name__}


class C18(Prop):
    id = 'C18'
    extracted = True      # arithmetic kernels regenerated from the current source (harness/extract.py, Extracted/Equiv*.lean)
    quick_cases = 400
    thorough_cases = 6000
    rule = ('cases are batches of (kind, items): kind in int/float/bool -> bounded cast vs Lean castBounded and '
            'BitVec wrap (SPEC); str2int/str2bool/str2date vs Lean string models; null: every (from,to) type pair; '
            'roundtrip: int/bool -> string -> back. Fixed cases: ALL 2^16 short-range integers for each width and '
            '+-3 around +-2^7,2^15,2^31,2^63 and multiples; all (y,m,d) over boundary years x m 0..13 x d 0..32 '
            'x 4 renderings. Non-trivial = batch contains at least one item whose result differs from the input '
            '(wraps / parses / null); distinct = distinct canonical batch.')
    trusted = ('float repr round-trip (str(float) / float(str)) is a CPython runtime fact, sampled only',
               'Python int() grammar outside the modelled alphabet (underscores, non-ASCII digits/whitespace) is not modelled',
               'datetime.date validity is modelled by validDate and validated against datetime.date on the boundary grid')
    assumptions = ('casting = pysparkling.sql.casts.get_caster(from_type, to_type, {})(value); Column.cast on a '
                   'DataFrame cannot be used as the observable because expressions do not carry their data type '
                   '(Column.data_type is a TODO stub in the pinned tree)',)

    def setup(self, ctx):
        from pysparkling.sql.casts import get_caster
        self.ty = _types()
        self.get_caster = get_caster

    # ---- generators -------------------------------------------------------------------------
    def fixed_cases(self, tier):
        out = []
        allshort = list(range(-32768 - 300, 32768 + 300))
        for w in WIDTHS:
            for i in range(0, len(allshort), 4096):
                out.append({'kind': 'int', 'w': w, 'from': 'long', 'items': allshort[i:i + 4096]})
            b = []
            for p in (7, 8, 15, 16, 31, 32, 63, 64, 65, 127, 128):
                for s in (1, -1):
                    for k in (1, 2, 3, 5):
                        for d in range(-3, 4):
                            b.append(s * k * 2 ** p + d)
            out.append({'kind': 'int', 'w': w, 'from': 'long', 'items': b})
            out.append({'kind': 'float', 'w': w, 'items': [float(x) + f for x in b[:200] if abs(x) < 2 ** 52
                                                           for f in (0.5, -0.5, 0.25)]})
            out.append({'kind': 'bool', 'w': w, 'items': [True, False]})
            out.append({'kind': 'str2int', 'w': w, 'items':
                        [pre + sg + str(abs(v)) + post for v in
                         [0, 1, 127, 128, 129, 255, 256, 32767, 32768, 2 ** 31 - 1, 2 ** 31, 2 ** 63 - 1, 2 ** 63, 2 ** 64]
                         for sg in ('', '-', '+') for pre in ('', ' ', '\t') for post in ('', ' ', '\n')] + ['']})
            out.append({'kind': 'roundtrip', 'w': w, 'items': [v for v in b if abs(v) < 2 ** 70][:300]})
        out.append({'kind': 'null', 'items': [[f, t] for f in TYPES for t in TYPES]})
        out.append({'kind': 'str2bool', 'items': self._case_variants('true') + self._case_variants('false') +
                    ['', 't', 'tru', 'truee', ' true', 'true ', 'yes', 'no', '1', '0', 'TRUE\n', 'fa1se', 'ＴＲＵＥ']})
        out.append({'kind': 'boolrt', 'items': [True, False]})
        years = [0, 1, 4, 99, 100, 400, 999, 1000, 1582, 1900, 1999, 2000, 2001, 2004, 2019, 2100, 2400, 9999]
        for y in years:
            items = []
            for m in range(0, 14):
                for d in range(0, 33):
                    items.append('%04d-%02d-%02d' % (y, m, d))
                    items.append('%04d-%d-%d' % (y, m, d))
                    if d in (1, 29, 30, 31):
                        items.append('%04d-%d-%d 12:00:00' % (y, m, d))
                        items.append('%04d-%02d-%dT01:02' % (y, m, d))
                items.append('%04d-%d' % (y, m))
                items.append('%04d-%02d' % (y, m))
            items.append('%04d' % y)
            items.append('%d' % y)
            out.append({'kind': 'str2date', 'items': items})
        out.append({'kind': 'nullopt', 'items': [['string', 'timestamp', {'timestampFormat': 'yyyy-MM-dd'}],
                                                ['string', 'timestamp', {'timestampFormat': "yyyy-MM-dd'T'HH:mm:ss"}],
                                                ['string', 'date', {'dateFormat': 'yyyy/MM/dd'}]]})
        out.append({'kind': 'str2date', 'items': [
            '', ' ', '2019', ' 2019', '2019 ', ' 2019-1-1 ', '2019-1-1-1', '12345-1-1', '19-1-1', 'abcd', 'abcd-1-1',
            '2019-', '2019--1', '2019-1-', '2019-01-01T', 'T2019-01-01', '2019-01-01 T', '2019-01-01Tx y', '2019-1-1\t',
            '2019-01-01\n', '\t2019-01-01', '2019-+1-1', '2019-1-+1', '+019-1-1', '2019-1-1x', '2019-x', '2019-02-29',
            '2020-02-29', '1900-02-29', '2000-02-29', '2019-04-31', '2019-12-31', '2019-12-32', '2019-13-01', '2019-00-10',
            '0000', '0000-01-01', '0001', '10000-01-01', '2019-1 1', '2019 -1-1', '2019-01-01  12', ' T', 'T', '-', '--']})
        return out

    @staticmethod
    def _case_variants(word):
        out = []
        for k in range(2 ** len(word)):
            out.append(''.join(c.upper() if (k >> i) & 1 else c for i, c in enumerate(word)))
        return out

    def gen(self, rng, tier):
        kind = rng.choice(['int', 'int', 'float', 'float', 'str2int', 'str2bool', 'str2date', 'str2date',
                           'roundtrip', 'floatrt', 'same'])
        w = rng.choice(WIDTHS)
        n = rng.randint(1, 40)
        if kind == 'int':
            items = []
            for _ in range(n):
                bits = rng.choice([3, 7, 8, 9, 15, 16, 17, 31, 32, 33, 63, 64, 65, 100, 200])
                v = rng.getrandbits(bits)
                items.append(v if rng.random() < .5 else -v)
            return {'kind': 'int', 'w': w, 'from': rng.choice(['byte', 'short', 'int', 'long']), 'items': items}
        if kind == 'float':
            items = []
            for _ in range(n):
                mag = rng.choice([1, 100, 1e3, 1e5, 1e10, 1e15, 1e19, 1e25])
                f = rng.uniform(-mag, mag)
                if rng.random() < .2:
                    f = float(round(f)) + rng.choice([0.0, 0.5, -0.5])
                items.append(f)
            return {'kind': 'float', 'w': w, 'items': items}
        if kind == 'str2int':
            items = []
            for _ in range(n):
                bits = rng.choice([3, 7, 8, 15, 16, 31, 32, 63, 64, 70])
                v = rng.getrandbits(bits)
                s = rng.choice(['', '', '-', '+']) + ('0' * rng.choice([0, 0, 1, 3])) + str(v)
                s = rng.choice(['', '', ' ', '\t ', '\n']) + s + rng.choice(['', '', ' ', ' \t', '\r\n'])
                if rng.random() < .08:   # malformed stream
                    s = rng.choice(['', ' ', '-', '+', '1 2', '--1', '1-', '1.0', 'abc', '1e3', '+-1', '- 1'])
                items.append(s)
            return {'kind': 'str2int', 'w': w, 'items': items}
        if kind == 'str2bool':
            alpha = 'trueflsTRUEFALS x'
            items = []
            for _ in range(n):
                r = rng.random()
                if r < .35:
                    items.append(rng.choice(self._case_variants('true')))
                elif r < .7:
                    items.append(rng.choice(self._case_variants('false')))
                else:
                    items.append(''.join(rng.choice(alpha) for _ in range(rng.randint(0, 6))))
            return {'kind': 'str2bool', 'items': items}
        if kind == 'str2date':
            items = []
            for _ in range(n):
                y = rng.choice([rng.randint(0, 9999), rng.randint(1990, 2030), rng.choice([0, 1, 9999, 10000, 123])])
                m = rng.choice([rng.randint(1, 12), rng.randint(0, 14)])
                d = rng.choice([rng.randint(1, 28), rng.randint(28, 32), rng.randint(0, 40)])
                ys = rng.choice(['%04d', '%04d', '%04d', '%d', '%05d']) % y
                parts = [ys]
                k = rng.choice([1, 2, 3, 3, 3, 4])
                if k >= 2:
                    parts.append(rng.choice(['%d', '%02d']) % m)
                if k >= 3:
                    parts.append(rng.choice(['%d', '%02d']) % d)
                if k >= 4:
                    parts.append('7')
                s = '-'.join(parts)
                s += rng.choice(['', '', '', ' 12:30:00', 'T12:30', ' ', 'T', ' x y', 'Tx', '  1', ' T'])
                if rng.random() < .15:
                    s = rng.choice(['', ' ', '\t']) + s + rng.choice(['', ' ', '\n'])
                if rng.random() < .05:
                    i = rng.randrange(len(s) + 1)
                    s = s[:i] + rng.choice('x-T +0') + s[i:]
                items.append(s)
            return {'kind': 'str2date', 'items': items}
        if kind == 'roundtrip':
            items = []
            for _ in range(n):
                v = rng.getrandbits(rng.choice([3, 7, 8, 15, 16, 31, 32, 63, 64, 66]))
                items.append(v if rng.random() < .5 else -v)
            return {'kind': 'roundtrip', 'w': w, 'items': items}
        if kind == 'floatrt':
            return {'kind': 'floatrt', 'items': [rng.uniform(-1, 1) * 10 ** rng.randint(-20, 20) for _ in range(n)]}
        return {'kind': 'same', 'ty': rng.choice(['string', 'boolean', 'byte', 'short', 'int', 'long', 'double']),
                'items': [rng.randint(-100, 100) for _ in range(n)]}

    def nontrivial(self, case):
        k = case['kind']
        if k == 'int':
            lo, hi = -2 ** (BITS[case['w']] - 1), 2 ** (BITS[case['w']] - 1) - 1
            return any(not lo <= v <= hi for v in case['items'])
        return len(case['items']) > 0

    def shrink(self, case):
        if len(case['items']) > 1:
            for it in case['items']:
                yield dict(case, items=[it])

    # ---- one case ---------------------------------------------------------------------------
    def run_case(self, case, ctx):
        kind = case['kind']
        ty, gc, ask = self.ty, self.get_caster, ctx.driver.ask
        ctx.note('kind:' + kind, len(case['items']))

        def call(f, *a):
            try:
                return f(*a)
            except Exception as e:  # pylint: disable=broad-except
                return exc_name(e)

        for it in case['items']:
            if kind in ('int', 'float', 'bool'):
                w = case['w']
                if kind == 'int':
                    frm = case.get('from', 'long')
                    if frm == w:            # same type is the identity clause, not the wrap clause
                        frm = 'long' if w != 'long' else 'int'
                    impl = call(gc(ty[frm], ty[w], {}), it)
                    r = ask({'p': 'C18', 'op': 'int', 'w': w, 'v': it})
                elif kind == 'float':
                    impl = call(gc(ty['double'], ty[w], {}), it)
                    num, den = it.as_integer_ratio()
                    r = ask({'p': 'C18', 'op': 'float', 'w': w, 'num': num, 'den': den})
                else:
                    impl = call(gc(ty['boolean'], ty[w], {}), it)
                    r = ask({'p': 'C18', 'op': 'bool', 'w': w, 'b': it})
                if r['model'] != r['spec']:
                    return Mismatch('model differs from SPEC (two\'s-complement wrap) for %s %r' % (kind, it),
                                    impl, r, 'model-spec:%s:%s' % (kind, w))
                if impl != r['spec'] or isinstance(impl, bool):
                    return Mismatch('cast %s %r to %s: implementation differs from two\'s-complement wrap' % (kind, it, w),
                                    impl, r['spec'], 'wrap:%s:%s' % (kind, w))
                if not (-2 ** (BITS[w] - 1) <= impl < 2 ** (BITS[w] - 1)) or (impl - (int(it))) % 2 ** BITS[w] != 0:
                    return Mismatch('wrap oracle self-check failed', impl, r, 'wrap-oracle')
            elif kind == 'str2int':
                w = case['w']
                impl = call(gc(ty['string'], ty[w], {}), it)
                r = ask({'p': 'C18', 'op': 'str2int', 'w': w, 's': it})['model']
                if isinstance(r, dict) and r.get('exc') == 'ValueError':
                    ctx.note('str2int:malformed')
                    continue     # malformed numerals: the property says nothing
                ctx.note('str2int:null' if r is None else 'str2int:value')
                if impl != r or isinstance(impl, bool):
                    return Mismatch('cast string %r to %s' % (it, w), impl, r, 'str2int:%s' % w)
            elif kind == 'str2bool':
                impl = call(gc(ty['string'], ty['boolean'], {}), it)
                r = ask({'p': 'C18', 'op': 'str2bool', 's': it})['model']
                ctx.note('str2bool:' + str(r))
                if impl is not r:
                    return Mismatch('cast string %r to boolean' % (it,), impl, r, 'str2bool')
            elif kind == 'str2date':
                impl = call(gc(ty['string'], ty['date'], {}), it)
                if isinstance(impl, datetime.date):
                    impl = [impl.year, impl.month, impl.day]
                r = ask({'p': 'C18', 'op': 'str2date', 's': it})['model']
                if not DATE_FORM.match(it):
                    # the property speaks about yyyy[-m[-d]][( |T)time] only; other strings are not compared
                    ctx.note('str2date:out-of-form')
                    continue
                ctx.note('str2date:' + ('null' if r is None else 'date'))
                if impl != r:
                    return Mismatch('cast string %r to date' % (it,), impl, r, 'str2date')
                if r is not None:       # validDate vs datetime.date
                    try:
                        datetime.date(*r)
                    except ValueError:
                        return Mismatch('model accepted a date datetime.date rejects', impl, r, 'validDate')
            elif kind == 'nullopt':
                # casting null yields null also when the caller passes parsing options
                f, t, opts = it
                impl = call(gc(ty[f], ty[t], dict(opts)), None)
                ctx.note('null:with-options')
                if impl is not None:
                    return Mismatch('cast null from %s to %s with options %s does not yield null' % (f, t, opts), impl, None,
                                    'null-options:%s->%s' % (f, t), relation='spec')
            elif kind == 'null':
                f, t = it
                impl = call(gc(ty[f], ty[t], {}), None)
                r = ask({'p': 'C18', 'op': 'null', 'from': f, 'to': t})['model']
                m = r['str'] if isinstance(r, dict) and 'str' in r else r
                if isinstance(r, dict) and r.get('refused'):
                    # a pair the caster refuses for every value (not a cast at all): only that it IS refused is compared
                    if isinstance(impl, dict) and impl.get('exc') in ('AnalysisException', 'NotImplementedError'):
                        ctx.note('null:refused')
                        continue
                    return Mismatch('cast null from %s to %s: the model refuses this pair of types, the implementation does not'
                                    % (f, t), impl, r, 'null-model:%s->%s' % (f, t))
                if impl != m:
                    return Mismatch('cast null from %s to %s: implementation differs from model' % (f, t), impl, r,
                                    'null-model:%s->%s' % (f, t))
                sig = 'cast-null-to-string' if (t == 'string' and impl == 'null') else 'null:%s->%s' % (f, t)
                if impl is not None and not ctx.is_known(sig):
                    return Mismatch('cast null from %s to %s does not yield null' % (f, t), impl, None,
                                    sig, relation='spec')
            elif kind == 'roundtrip':
                w = case['w']
                s = call(gc(ty['long' if w != 'long' else 'int'], ty['string'], {}), it)
                ms = ask({'p': 'C18', 'op': 'render', 'v': it})['model']
                if s != ms:
                    return Mismatch('cast %r to string' % (it,), s, ms, 'render')
                back = call(gc(ty['string'], ty[w], {}), s)
                mb = ask({'p': 'C18', 'op': 'str2int', 'w': w, 's': ms})['model']
                lo, hi = -2 ** (BITS[w] - 1), 2 ** (BITS[w] - 1) - 1
                want = it if lo <= it <= hi else None
                if mb != want:
                    return Mismatch('model round trip differs from SPEC', back, mb, 'model-spec:roundtrip')
                if back != want:
                    return Mismatch('number -> string -> %s round trip of %r' % (w, it), back, want, 'roundtrip:%s' % w)
            elif kind == 'boolrt':
                s = call(gc(ty['boolean'], ty['string'], {}), it)
                ms = ask({'p': 'C18', 'op': 'renderBool', 'b': it})['model']
                if s != ms:
                    return Mismatch('cast %r to string' % (it,), s, ms, 'renderBool')
                back = call(gc(ty['string'], ty['boolean'], {}), s)
                if back is not it:
                    return Mismatch('boolean -> string -> boolean', back, it, 'boolrt')
            elif kind == 'floatrt':
                s = call(gc(ty['double'], ty['string'], {}), it)
                back = call(gc(ty['string'], ty['double'], {}), s)
                if back != it or not isinstance(back, float):
                    return Mismatch('float -> string -> float', back, it, 'floatrt')
            elif kind == 'same':
                t = case['ty']
                v = {'string': str(it), 'boolean': it % 2 == 0, 'double': it / 4}.get(t, it)
                impl = call(gc(ty[t], ty[t], {}), v)
                if impl is not v:
                    return Mismatch('cast %r to its own type %s is not the identity' % (v, t), impl, v, 'same')
            else:
                raise ValueError(kind)
        return None


PROP = C18()
