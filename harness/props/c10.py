"""C10 — Each stream batch is processed exactly once; per-batch ops equal RDD ops.
(C11 reuses this module with a generator focused on windows and state.)"""
import funcs as F
from core import Mismatch, Prop, canon
from util import exc, multiset

UNORDERED = {'join', 'leftOuterJoin', 'rightOuterJoin', 'fullOuterJoin', 'cogroup', 'countByValue', 'state', 'groupByKey',
             'reduceByKey'}


def _upd_sum(vs, st):
    return sum(vs) + (st or 0)


def _upd_last(vs, st):
    return vs[-1] if vs else st


def _upd_count(vs, st):
    return len(vs) + (st or 0)


def _upd_append(vs, st):
    return (st or []) + list(vs)


def _upd_extend(vs, st):
    # list-append in its in-place spelling (legal in Spark, where the function gets a private copy of the state): a fold
    # applies the function ONCE per key and interval, so extending the state it is handed must give the same lists
    st = st or []
    st.extend(vs)
    return st


UPD = {'sum': _upd_sum, 'last': _upd_last, 'count': _upd_count, 'append': _upd_append, 'extend': _upd_extend}


class VirtualStreaming:
    """drives the REAL StreamingContext.start() callback with a virtual clock, no IOLoop"""

    def __init__(self):
        import pysparkling.streaming.context as sctx
        self.mod = sctx
        self.cb = None
        self.now = 1000.0

    def time(self):
        return self.now

    def __enter__(self):
        outer = self
        self.saved = (self.mod.PeriodicCallback, self.mod.time)

        class FakePCB:
            def __init__(self, cb, ms):
                outer.cb = cb
                outer.period = ms / 1000.0

            def start(self):
                pass

            def stop(self):
                pass
        self.mod.PeriodicCallback = FakePCB
        self.mod.time = self
        return self

    def __exit__(self, *a):
        self.mod.PeriodicCallback, self.mod.time = self.saved
        self.mod.StreamingContext._activeContext = None

    def tick(self):
        self.now += self.period
        self.cb()


def gen_network(rng, focus):
    """random DAG; returns (sources, nodes). Element kinds: 'I' ints, 'P' (int key, int value), 'X' terminal"""
    nsrc = rng.choice([1, 1, 2])
    sources, nodes, kinds = [], [], []
    for q in range(nsrc):
        kind = rng.choice(['I', 'P']) if focus == 'C10' else rng.choice(['I', 'P', 'P'])
        nb = rng.randint(0, 6)
        batches = []
        for _ in range(nb):
            m = rng.choice([0, 1, 2, 3, 4])
            if kind == 'I':
                batches.append([rng.randint(-2, 6) for _ in range(m)])
            else:
                batches.append([{'t': [rng.choice([0, 1, 2]), rng.randint(0, 5)]} for _ in range(m)])
        default = None
        if rng.random() < .3:
            default = [rng.randint(0, 3)] if kind == 'I' else [{'t': [rng.choice([0, 1]), 9]}]
        sources.append({'queue': batches, 'oneAtATime': rng.random() < .75, 'default': default,
                        **({'asRdd': True} if rng.random() < .2 else {})})
        nodes.append({'kind': 'src', 'q': q})
        kinds.append(kind)
    target = rng.randint(2, 7)
    while len(nodes) < nsrc + target:
        i = rng.randrange(len(nodes))
        k = kinds[i]
        if k == 'X':
            continue
        same = [j for j in range(len(nodes)) if kinds[j] == k]
        r = rng.random()
        wprob = .12 if focus == 'C10' else .4
        if r < wprob:
            nodes.append({'kind': 'window', 'prev': i, 'w': rng.randint(1, 4), 's': rng.randint(1, 3)})
            kinds.append(k)
            continue
        if k == 'I':
            ch = rng.choice(['map', 'map', 'filter', 'flatMap', 'count', 'countByValue', 'reduce', 'transform', 'repartition',
                             'union', 'pair'])
            if ch == 'map':
                nodes.append({'kind': 'map', 'prev': i, 'f': rng.choice(['add1', 'dbl', 'neg', 'mod3'])}); kinds.append('I')
            elif ch == 'filter':
                nodes.append({'kind': 'filter', 'prev': i, 'f': rng.choice(['even', 'pos', 'true', 'false'])}); kinds.append('I')
            elif ch == 'flatMap':
                nodes.append({'kind': 'flatMap', 'prev': i, 'f': rng.choice(['dup', 'rng', 'nil'])}); kinds.append('I')
            elif ch == 'count':
                nodes.append({'kind': 'count', 'prev': i}); kinds.append('I')
            elif ch == 'countByValue':
                nodes.append({'kind': 'countByValue', 'prev': i}); kinds.append('X')
            elif ch == 'reduce':
                nodes.append({'kind': 'reduce', 'prev': i, 'f': rng.choice(['add', 'max', 'min'])}); kinds.append('I')
            elif ch == 'transform':
                nodes.append({'kind': 'transform', 'prev': i, 'f': rng.choice(['rev', 'incp', 'countp', 'sump', 'firstp'])}); kinds.append('I')
            elif ch == 'repartition':
                if nodes[i]['kind'] in ('src', 'window', 'union'):
                    continue     # these can emit an EmptyRDD instance, which repartition() passes through unchanged
                nodes.append({'kind': 'repartition', 'prev': i, 'n': rng.randint(1, 3)}); kinds.append('I')
            elif ch == 'union':
                nodes.append({'kind': 'union', 'a': i, 'b': rng.choice(same)}); kinds.append('I')
            else:
                nodes.append({'kind': 'map', 'prev': i, 'f': 'pairMod'}); kinds.append('P')
        else:
            sprob = .1 if focus == 'C10' else .45
            if rng.random() < sprob:
                nodes.append({'kind': 'state', 'prev': i, 'upd': rng.choice(list(UPD))}); kinds.append('X')
                continue
            ch = rng.choice(['mapValues', 'flatMapValues', 'reduceByKey', 'groupByKey', 'join', 'leftOuterJoin', 'rightOuterJoin',
                             'fullOuterJoin', 'cogroup', 'count', 'union', 'filter'])
            if ch == 'mapValues':
                nodes.append({'kind': 'mapValues', 'prev': i, 'f': rng.choice(['add1', 'dbl'])}); kinds.append('P')
            elif ch == 'flatMapValues':
                nodes.append({'kind': 'flatMapValues', 'prev': i, 'f': rng.choice(['dup', 'rng'])}); kinds.append('P')
            elif ch == 'reduceByKey':
                nodes.append({'kind': 'reduceByKey', 'prev': i, 'f': rng.choice(['add', 'max'])}); kinds.append('P')
            elif ch == 'groupByKey':
                nodes.append({'kind': 'groupByKey', 'prev': i}); kinds.append('X')
            elif ch == 'count':
                nodes.append({'kind': 'count', 'prev': i}); kinds.append('I')
            elif ch == 'union':
                nodes.append({'kind': 'union', 'a': i, 'b': rng.choice(same)}); kinds.append('P')
            elif ch == 'filter':
                nodes.append({'kind': 'filter', 'prev': i, 'f': 'keyEven'}); kinds.append('P')
            else:
                nodes.append({'kind': ch, 'a': i, 'b': rng.choice(same)}); kinds.append('X')
    # a count directly below a window may be taken through the library's own countByWindow
    for nd in nodes:
        if nd['kind'] == 'count' and nodes[nd['prev']]['kind'] == 'window' and rng.random() < .6:
            nd['cbw'] = rng.choice(['slide', 'noslide'])
    # output actions: at least one, possibly several consumers of the same stream
    n0 = len(nodes)
    for _ in range(rng.randint(1, 3)):
        nodes.append({'kind': 'out', 'prev': rng.randrange(nsrc, n0) if n0 > nsrc else 0})
    if rng.random() < .5:
        nodes.append({'kind': 'out', 'prev': n0 - 1})
    return sources, nodes


class C10(Prop):
    id = 'C10'
    focus = 'C10'
    extracted = True      # source streams regenerated from the current source (harness/extract_m.py, Extracted/EquivC10.lean)
    quick_cases = 4000
    thorough_cases = 25000
    quick_budget_s = 50
    rule = ('random stream DAGs (1..2 queue sources, 2..7 derived streams incl. diamonds: one source feeding several branches '
            'that are unioned / joined / cogrouped; 1..4 foreachRDD outputs, several on the same stream) over all listed '
            'operations x batch histories (0..6 batches of 0..4 elements incl. empty ones, queue exhaustion, oneAtATime on/off, '
            'with/without default) x up to 9 ticks, driven through the REAL StreamingContext.start() callback by a virtual '
            'clock. Per tick: every output\'s captured batch (ordered, or as a multiset below dict/set-ordered operations), the '
            'number of get() calls on every source, and that every output fired exactly once are compared with the Lean network '
            'model. Non-trivial = at least one non-empty batch and one derived operation; distinct = distinct canonical case.')
    trusted = ('tornado IOLoop timing (late / merged callbacks) is replaced by one callback invocation per virtual tick',
               'monitored directories are driven with files created before / between / after stream creation and ticks; file '
               'deletion or modification is not exercised')

    def setup(self, ctx):
        import pysparkling
        self.ps = pysparkling

    def gen(self, rng, tier):
        if self.focus == 'C10' and rng.random() < .12:
            names = ['f%d.txt' % i for i in range(8)]
            rng.shuffle(names)
            cut = sorted(rng.randint(0, 8) for _ in range(2))
            pre, between, rest = names[:cut[0]][:3], names[cut[0]:cut[1]][:2], names[cut[1]:]
            ticks = []
            for _ in range(rng.randint(1, 4)):
                k = rng.choice([0, 0, 1, 1, 2])
                ticks.append(rest[:k])
                rest = rest[k:]
            # removals: before a tick, some files that were present for at least one earlier tick disappear
            removes, present_prev = [], list(pre) + list(between)
            for names in ticks:
                k = rng.choice([0, 0, 1, 1, 2])
                gone = rng.sample(present_prev, min(k, len(present_prev))) if rng.random() < .5 else []
                removes.append(gone)
                present_prev = [n for n in present_prev if n not in gone] + list(names)
            # (a file removed before its first tick would never be delivered: only files already seen by a tick are removed,
            # except those of the very first tick, which may go before they were ever listed - the model's listings say so)
            return {'kind': 'files', 'pre': pre, 'between': between, 'ticks': ticks, 'removes': removes,
                    'process_all': rng.random() < .3, 'spell': rng.choice(['glob', 'glob', 'dir', 'dir/', 'file://dir']),
                    'latedir': rng.random() < .3}
        sources, nodes = gen_network(rng, self.focus)
        longest = max([len(s['queue']) for s in sources] + [1])
        return {'sources': sources, 'nodes': nodes, 'ticks': rng.randint(1, longest + 3),
                'batch': rng.choice([1.0, 1.0, 0.5, 0.1, 0.1, 0.2, 0.05, 0.3])}

    def fixed_cases(self, tier):
        diamond = {'sources': [{'queue': [[1, 2], [], [3]], 'oneAtATime': True, 'default': None}],
                   'nodes': [{'kind': 'src', 'q': 0}, {'kind': 'map', 'prev': 0, 'f': 'add1'}, {'kind': 'filter', 'prev': 0, 'f': 'even'},
                             {'kind': 'union', 'a': 1, 'b': 2}, {'kind': 'out', 'prev': 3}, {'kind': 'out', 'prev': 3},
                             {'kind': 'count', 'prev': 0}, {'kind': 'out', 'prev': 6}], 'ticks': 5}
        win = {'sources': [{'queue': [[1], [2], [3], [4], [5], [6]], 'oneAtATime': True, 'default': None}],
               'nodes': [{'kind': 'src', 'q': 0}, {'kind': 'window', 'prev': 0, 'w': 3, 's': 2}, {'kind': 'out', 'prev': 1},
                         {'kind': 'count', 'prev': 1}, {'kind': 'out', 'prev': 3}, {'kind': 'out', 'prev': 1}], 'ticks': 7}
        cbw = [dict(win, nodes=[{'kind': 'src', 'q': 0}, {'kind': 'window', 'prev': 0, 'w': w_, 's': s_}, {'kind': 'out', 'prev': 1},
                                {'kind': 'count', 'prev': 1, 'cbw': m_}, {'kind': 'out', 'prev': 3}], batch=b_)
               for (w_, s_, m_, b_) in [(3, 2, 'slide', 1.0), (2, 1, 'noslide', 0.1), (4, 3, 'slide', 0.1), (1, 1, 'noslide', 1.0),
                                        (3, 1, 'slide', 0.3), (2, 3, 'slide', 0.05)]]
        st = {'sources': [{'queue': [[{'t': [0, 1]}], [{'t': [1, 5]}], [], [{'t': [0, 2]}, {'t': [0, 3]}]], 'oneAtATime': True,
                           'default': None}],
              'nodes': [{'kind': 'src', 'q': 0}, {'kind': 'state', 'prev': 0, 'upd': 'sum'}, {'kind': 'out', 'prev': 1},
                        {'kind': 'out', 'prev': 1}], 'ticks': 6}
        # the in-place list-append with two consumers (the function must run once per key and interval)
        st_ext = dict(st, nodes=[dict(n, upd='extend') if n['kind'] == 'state' else n for n in st['nodes']])
        # a window over the running states of an in-place list-append: what was emitted in an earlier interval must not change
        st_win = dict(st, nodes=[{'kind': 'src', 'q': 0}, {'kind': 'state', 'prev': 0, 'upd': 'extend'}, {'kind': 'window', 'prev': 1, 'w': 2, 's': 1},
                                 {'kind': 'out', 'prev': 2}, {'kind': 'out', 'prev': 1}])
        allq = dict(diamond, sources=[{'queue': [[1, 2], [3], [4]], 'oneAtATime': False, 'default': [7]}])
        files = [{'kind': 'files', 'pre': ['a.txt'], 'between': ['b.txt'], 'ticks': [[], ['c.txt', 'd.txt'], []], 'process_all': pa}
                 for pa in (False, True)]
        # rotation: in one interval a processed file disappears and a new one appears (same number of entries)
        files += [{'kind': 'files', 'pre': ['a.txt'], 'between': ['b.txt'], 'ticks': [['c.txt'], ['d.txt'], ['e.txt'], []],
                   'removes': [[], ['b.txt'], ['c.txt'], []], 'process_all': pa} for pa in (False, True)]
        files += [dict(f, spell=sp) for f in files[:2] for sp in ('dir', 'dir/', 'file://dir')]
        files += [{'kind': 'files', 'pre': [], 'between': ['b.txt'], 'ticks': [[], ['c.txt', 'd.txt'], []], 'process_all': pa, 'spell': sp,
                   'latedir': True} for pa in (False, True) for sp in ('dir', 'file://dir')]
        rddq = [dict(diamond, sources=[{'queue': [[1, 2], [], [3]], 'oneAtATime': o, 'default': dflt, 'asRdd': True}])
                for o in (True, False) for dflt in (None, [7])]
        return [diamond, win, st, st_ext, st_win, allq] + rddq + cbw + (files if self.focus == 'C10' else [])

    def nontrivial(self, case):
        if case.get('kind') == 'files':
            return bool(case['between'] or any(case['ticks']))
        return any(b for s in case['sources'] for b in s['queue']) and any(n['kind'] not in ('src', 'out') for n in case['nodes'])

    def shrink(self, case):
        if case.get('kind') == 'files':
            return
        if case['ticks'] > 1:
            yield dict(case, ticks=case['ticks'] - 1)
        outs = [i for i, n in enumerate(case['nodes']) if n['kind'] == 'out']
        if len(outs) > 1:
            for i in outs:
                yield dict(case, nodes=case['nodes'][:i] + case['nodes'][i + 1:]) if i == len(case['nodes']) - 1 else case
        for qi, s in enumerate(case['sources']):
            for bi in range(len(s['queue'])):
                s2 = dict(s, queue=s['queue'][:bi] + s['queue'][bi + 1:])
                yield dict(case, sources=case['sources'][:qi] + [s2] + case['sources'][qi + 1:])

    @staticmethod
    def _capture(c):
        def cap_rdd(rdd):                      # ONE positional argument: foreachRDD inspects co_argcount
            c.append(F.to_json(rdd.collect()))
        return cap_rdd

    @staticmethod
    def _part(f):
        def tr(rdd):
            return rdd.mapPartitions(f)
        return tr

    def run_files(self, case, ctx):
        import os
        ps = self.ps
        self.nfiles = getattr(self, 'nfiles', 0) + 1
        d = os.path.join(ctx.scratch, 'fs%d' % self.nfiles)
        late = bool(case.get('latedir')) and not case['pre'] and case.get('spell', 'glob') != 'glob'
        if not late:
            os.makedirs(d)

        def create(names):
            for n in names:
                with open(os.path.join(d, n), 'w') as f:
                    f.write(n + '-line\n')
        ctx.note('node:textFileStream')
        create(case['pre'])
        got = []
        with VirtualStreaming() as vs:
            try:
                sc = ps.Context()
                ssc = ps.streaming.StreamingContext(sc, float(case.get('batch', 1.0)))
                spelled = {'glob': d + '/*', 'dir': d, 'dir/': d + '/', 'file://dir': 'file://' + d}[case.get('spell', 'glob')]
                ctx.note('spell:' + case.get('spell', 'glob'))
                stream = ssc.textFileStream(spelled, process_all=case['process_all'])
                a, b = [], []
                stream.foreachRDD(self._capture(a))
                stream.map(lambda x: x).foreachRDD(self._capture(b))      # a second derived stream shares the source
                if late:
                    ctx.note('directory-created-after-the-stream')
                    os.makedirs(d)                 # the monitored directory itself appears after the stream was defined
                create(case['between'])            # files appearing after creation, before the first interval
                ssc.start()
                for t, names in enumerate(case['ticks']):
                    for n in (case.get('removes') or [[]] * len(case['ticks']))[t]:
                        os.remove(os.path.join(d, n))          # a processed file is rotated out while new ones arrive
                    create(names)
                    vs.tick()
                got = [a, b]
            except Exception as e:  # pylint: disable=broad-except
                return Mismatch('file stream raised', exc(e), None, 'C10:files:exc')
        present = list(case['pre']) + list(case['between'])
        listings = []
        for t, names in enumerate(case['ticks']):
            gone = (case.get('removes') or [[]] * len(case['ticks']))[t]
            present = [n for n in present if n not in gone] + list(names)
            listings.append(sorted(os.path.join(d, n) for n in present))
        done0 = [] if case['process_all'] else sorted(os.path.join(d, n) for n in case['pre'])
        model = ctx.driver.ask({'p': 'C10', 'op': 'files', 'done0': done0, 'listings': listings})['model']
        want = [[os.path.basename(n) + '-line' for n in sorted(fresh or [])] for fresh in model]
        for which, seen in zip(('the stream', 'a derived stream'), got):
            if seen != want:
                return Mismatch('monitored directory: lines delivered per interval to %s (every new file exactly once, in the '
                                'first interval after it appears)' % which, seen, want, 'C10:files')
        return None

    def run_case(self, case, ctx):
        if case.get('kind') == 'files':
            return self.run_files(case, ctx)
        ps = self.ps
        for n in case['nodes']:
            ctx.note('node:' + n['kind'])
        unordered_below = []
        for i, n in enumerate(case['nodes']):
            parents = [n[k] for k in ('prev', 'a', 'b') if k in n]
            unordered_below.append(n['kind'] in UNORDERED or any(unordered_below[p] for p in parents))
        with VirtualStreaming() as vs:
            try:
                sc = ps.Context()
                ssc = ps.streaming.StreamingContext(sc, float(case.get('batch', 1.0)))
                ds, polls, cap = [], [], {}
                for i, n in enumerate(case['nodes']):
                    k = n['kind']
                    if k == 'src':
                        s = case['sources'][n['q']]
                        batches = [[F.from_json(x) for x in b] for b in s['queue']]
                        if s.get('asRdd'):
                            batches = [sc.parallelize(b) for b in batches]      # a queue of datasets instead of lists
                        d = ssc.queueStream(batches, oneAtATime=s['oneAtATime'],
                                            default=None if s['default'] is None else [F.from_json(x) for x in s['default']])
                        cnt = [0]
                        real_get = d._stream.get

                        def counted(real_get=real_get, cnt=cnt):
                            cnt[0] += 1
                            return real_get()
                        d._stream.get = counted
                        polls.append(cnt)
                    elif k == 'map':
                        d = ds[n['prev']].map(F.MAP[n['f']])
                    elif k == 'filter':
                        d = ds[n['prev']].filter(F.PRED[n['f']])
                    elif k == 'flatMap':
                        d = ds[n['prev']].flatMap(F.FLAT[n['f']])
                    elif k == 'mapValues':
                        d = ds[n['prev']].mapValues(F.MAP[n['f']])
                    elif k == 'flatMapValues':
                        d = ds[n['prev']].flatMapValues(F.FLAT[n['f']])
                    elif k == 'transform':
                        d = ds[n['prev']].transform(self._part(F.PART[n['f']][0]))
                    elif k == 'repartition':
                        d = ds[n['prev']].repartition(n['n'])
                    elif k == 'groupByKey':
                        d = ds[n['prev']].groupByKey().mapValues(list)
                    elif k == 'reduceByKey':
                        d = ds[n['prev']].reduceByKey(F.BIN[n['f']])
                    elif k == 'reduce':
                        d = ds[n['prev']].reduce(F.BIN[n['f']])
                    elif k == 'count':
                        wn = case['nodes'][n['prev']] if n.get('cbw') else None
                        if wn is not None and wn['kind'] == 'window':
                            # the library's own countByWindow (a window of its own over the same parent, then count)
                            bi = float(case.get('batch', 1.0))
                            if wn['s'] == 1 and n['cbw'] == 'noslide':
                                d = ds[wn['prev']].countByWindow(wn['w'] * bi)
                            else:
                                d = ds[wn['prev']].countByWindow(wn['w'] * bi, wn['s'] * bi)
                        else:
                            d = ds[n['prev']].count()
                    elif k == 'countByValue':
                        d = ds[n['prev']].countByValue()
                    elif k == 'union':
                        d = ds[n['a']].union(ds[n['b']])
                    elif k == 'cogroup':
                        d = ds[n['a']].cogroup(ds[n['b']]).mapValues(lambda v: [list(v[0]), list(v[1])])
                    elif k in ('join', 'leftOuterJoin', 'rightOuterJoin', 'fullOuterJoin'):
                        d = getattr(ds[n['a']], k)(ds[n['b']])
                    elif k == 'window':
                        # durations are given as a multiple of the batch interval, computed in floating point the way a
                        # caller would (3 * 0.1 is 0.30000000000000004): the window must still span exactly w intervals
                        bi = float(case.get('batch', 1.0))
                        d = ds[n['prev']].window(n['w'] * bi, n['s'] * bi)
                    elif k == 'state':
                        d = ds[n['prev']].updateStateByKey(UPD[n['upd']])
                    elif k == 'out':
                        cap[i] = []
                        ds[n['prev']].foreachRDD(self._capture(cap[i]))
                        d = None
                    else:
                        raise ValueError(k)
                    ds.append(d)
                ssc.start()
                impl = []
                for t in range(case['ticks']):
                    vs.tick()
                    impl.append({'outs': {i: list(c) for i, c in cap.items()}, 'polls': [c[0] for c in polls]})
            except Exception as e:  # pylint: disable=broad-except
                return Mismatch('stream network raised', exc(e), None, '%s:exc' % self.id)
        model = ctx.driver.ask(dict(case, p=self.id))['model']
        for t, (got, want) in enumerate(zip(impl, model)):
            src_nodes = [n for n in case['nodes'] if n['kind'] == 'src']
            want_polls = [want['polls'][n['q']] for n in src_nodes]
            if got['polls'] != want_polls:
                return Mismatch('tick %d: number of polls of the sources (each must be read exactly once per interval)' % (t + 1),
                                got['polls'], want_polls, '%s:polls' % self.id, relation='spec')
            for o in want['outs']:
                i = o['node']
                fired = got['outs'][i]
                if len(fired) != t + 1:
                    return Mismatch('tick %d: output action on node %d fired %d times in total instead of once per interval'
                                    % (t + 1, i, len(fired)), len(fired), t + 1, '%s:fires' % self.id, relation='spec')
                g, w = fired[t], o['batch']
                kind = case['nodes'][case['nodes'][i]['prev']]['kind']
                ok = (multiset(g) == multiset(w)) if unordered_below[i] else (canon(g) == canon(w))
                if not ok:
                    return Mismatch('tick %d: batch seen by the output on node %d (a %s stream) differs from the per-batch '
                                    'semantics' % (t + 1, i, kind), g, w, '%s:batch:%s' % (self.id, kind))
        return None


PROP = C10()
