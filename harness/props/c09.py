"""C09 — Existing outputs are never overwritten and _SUCCESS marks only complete saves."""
import bz2
import gzip
import io
import itertools
import os
import threading

from core import CaseTimeout, Mismatch, Prop, canon
from props.c08 import decode_by_name, listing
from util import build_layout, exc


class InjectedWriteError(OSError):
    pass


class InjectedComputeError(RuntimeError):
    pass


def encode_by_name(name, data):
    """compress with the stdlib codec the NAME declares (the extensions the campaign uses)"""
    if name.endswith('.gz'):
        return gzip.compress(data)
    if name.endswith('.bz2'):
        return bz2.compress(data)
    return data


class C09(Prop):
    id = 'C09'
    extracted = True      # order of tests and effects of saveAsTextFile regenerated from the current source (harness/extract_m.py, Extracted/EquivC09.lean)
    quick_cases = 700
    thorough_cases = 8000
    quick_budget_s = 50
    rule = ('crash points: failure injected at the k-th file write for k = 0..partitions (part files and marker), once or on '
            'every later attempt; failing computation of partition k for c attempts (c >= max_retries = every attempt); '
            'pre-existing file / non-empty directory / empty directory at the target; 1..4 partitions (single-file fast path '
            'included), max_retries 1..3, extensions none/.gz/.bz2. Fixed: ALL single-fault crash points for n <= 4. After each '
            'save: exception class, directory listing with decoded contents, marker presence, textFile() of a marked '
            'directory, and a follow-up job on the same context are compared with the Lean save state machine. '
            'Non-trivial = a fault is injected or the target pre-exists; distinct = distinct canonical case.')
    trusted = ('a failing write is injected in Local.dump: either before anything is written, or (torn write) after the file was created with the first half of its text (a decodable partial file; arbitrary byte-level truncation is not modelled)',
               'local in-process executor (partition order deterministic)')

    def setup(self, ctx):
        from pysparkling import Context
        from pysparkling.exceptions import FileAlreadyExistsException
        from pysparkling.fileio.fs import local
        self.Context = Context
        self.Exists = FileAlreadyExistsException
        self.local = local
        self.n = 0

    def fixed_cases(self, tier):
        out = []
        data = [['a', 'b'], [], ['c'], ['d', '']]
        for n in range(1, 5):
            parts = data[:n]
            writes = 1 if n == 1 else n + 1
            for k in range(writes + 1):
                for mode in ('once', 'always'):
                    for mx in (1, 2):
                        out.append({'parts': parts, 'ext': '', 'max': mx, 'wfail': [k] if mode == 'once' else [],
                                    'wfail_from': None if mode == 'once' else k, 'cfail': [], 'pre': None})
            for k in range(writes + 1):
                for mx in (1, 2, 3):
                    # torn write at crash point k (once, and on every attempt from k on), followed by a second save
                    out.append({'parts': parts, 'ext': '.gz' if k % 2 else '', 'max': mx, 'wfail': [k], 'wfail_from': None, 'cfail': [],
                                'pre': None, 'torn': [k], 'second': [['z']]})
                    out.append({'parts': parts, 'ext': '', 'max': mx, 'wfail': [], 'wfail_from': k, 'cfail': [], 'pre': None,
                                'torn': list(range(k, k + 6)), 'second': data[:max(1, n - 1)]})
            for k in range(n):
                for c in (1, 3):
                    out.append({'parts': parts, 'ext': '.gz' if k % 2 else '', 'max': 2, 'wfail': [], 'wfail_from': None,
                                'cfail': [[k, c]], 'pre': None})
            if n >= 2:
                out.append({'parts': parts, 'ext': '', 'max': 2, 'wfail': [], 'wfail_from': None, 'cfail': [[n - 1, 10 ** 6]],
                            'pre': None, 'catch': True})
            for pre in ('file', 'dir', 'emptydir'):
                out.append({'parts': parts, 'ext': '', 'max': 2, 'wfail': [], 'wfail_from': None, 'cfail': [], 'pre': pre})
                out.append({'parts': parts, 'ext': '', 'max': 2, 'wfail': [], 'wfail_from': None, 'cfail': [], 'pre': pre, 'url': True})
            out.append({'parts': parts, 'ext': '', 'max': 2, 'wfail': [n // 2], 'wfail_from': None, 'cfail': [], 'pre': None, 'url': True,
                        'torn': [n // 2], 'second': [['z']]})
        return out

    def gen(self, rng, tier):
        n = rng.randint(1, 4)
        parts = [[rng.choice(['a', 'bb', '', 'é', 'x y']) for _ in range(rng.choice([0, 1, 2, 3]))] for _ in range(n)]
        mx = rng.randint(1, 3)
        wfail = sorted({rng.randint(0, n + 3) for _ in range(rng.choice([0, 0, 1, 1, 2]))})
        wfrom = rng.choice([None, None, None, rng.randint(0, n + 2)])
        cfail = []
        for k in range(n):
            if rng.random() < .2:
                cfail.append([k, rng.choice([1, 1, 2, mx, mx + 1])])
        pre = rng.choice([None] * 8 + ['file', 'dir', 'emptydir'])
        if rng.random() < .08:
            # catch_exceptions=True never gives up retrying: only "fails on every attempt" plans have the same meaning
            k = rng.randrange(n)
            return {'parts': parts, 'ext': '', 'max': mx, 'wfail': [], 'wfail_from': None, 'cfail': [[k, 10 ** 6]], 'pre': None,
                    'catch': True}
        torn = [k for k in set(wfail) | (set(range(wfrom, n + 4)) if wfrom is not None else set()) if rng.random() < .5]
        second = None
        if rng.random() < .3:
            second = [[rng.choice(['q', 'r']) for _ in range(rng.randint(0, 2))] for _ in range(rng.randint(1, max(1, n - 1)))]
        return {'parts': parts, 'ext': rng.choice(['', '', '.gz', '.bz2']), 'max': mx, 'wfail': wfail, 'wfail_from': wfrom,
                'cfail': cfail, 'pre': pre, 'torn': sorted(torn), 'second': second, **({'url': True} if rng.random() < .2 else {})}

    def nontrivial(self, case):
        return bool(case['wfail'] or case['wfail_from'] is not None or case['cfail'] or case['pre'])

    def shrink(self, case):
        if len(case['parts']) > 1:
            for i in range(len(case['parts'])):
                yield dict(case, parts=case['parts'][:i] + case['parts'][i + 1:],
                           cfail=[c for c in case['cfail'] if c[0] < len(case['parts']) - 1])
        for i in range(len(case['wfail'])):
            yield dict(case, wfail=case['wfail'][:i] + case['wfail'][i + 1:])
        for i in range(len(case['cfail'])):
            yield dict(case, cfail=case['cfail'][:i] + case['cfail'][i + 1:])
        if case['ext']:
            yield dict(case, ext='')

    def run_case(self, case, ctx):
        self.n += 1
        root = os.path.join(ctx.scratch, 's%d' % self.n)
        os.makedirs(root)
        path = os.path.join(root, 'out' + case['ext'])
        pre_files, pre_dirs = [], []
        if case['pre'] == 'file':
            with open(path, 'w') as f:
                f.write('old')
            pre_files = [path]
        elif case['pre'] == 'dir':
            os.makedirs(path)
            with open(os.path.join(path, 'keep.txt'), 'w') as f:
                f.write('old')
            pre_files = [os.path.join(path, 'keep.txt')]
        elif case['pre'] == 'emptydir':
            os.makedirs(path)
            pre_dirs = [path]
        ctx.note('pre:%s' % case['pre'])
        # the same target may be spelled as a file:// URL: existence checks, writes and the marker must all mean the same file
        spelled = ('file://' + path) if case.get('url') else path
        ctx.note('url:%s' % bool(case.get('url')))
        ctx.note('parts:%d' % len(case['parts']))
        before = listing(root)

        parts = case['parts']
        cf = {k: c for k, c in case['cfail']}
        attempts = {}
        writes = [0]
        wfail = set(case['wfail'])
        wfrom = case['wfail_from']
        torn = set(case.get('torn') or [])
        real_dump = self.local.Local.dump

        def faulty_dump(fs_self, stream):
            k = writes[0]
            writes[0] += 1
            if k in wfail or (wfrom is not None and k >= wfrom):
                if k in torn:
                    # a torn write: the file comes into being with the first half of its text, then the write fails
                    name = fs_self.file_name
                    text = decode_by_name(name, stream.read()).decode('utf8')
                    real_dump(fs_self, io.BytesIO(encode_by_name(name, text[:len(text) // 2].encode('utf8'))))
                raise InjectedWriteError('injected failure of write #%d (%s)' % (k, os.path.basename(fs_self.file_name)))
            return real_dump(fs_self, stream)

        def compute(i, it):
            attempts[i] = attempts.get(i, 0) + 1
            if attempts[i] - 1 < cf.get(i, 0):
                raise InjectedComputeError(i, attempts[i] - 1)
            return it

        sc = self.Context(max_retries=case['max'], catch_exceptions=bool(case.get('catch')))
        rdd = build_layout(sc, parts).mapPartitionsWithIndex(compute) if cf else build_layout(sc, parts)
        self.local.Local.dump = faulty_dump
        try:
            try:
                rdd.saveAsTextFile(spelled)
                result = 'ok'
            except self.Exists:
                result = 'FileAlreadyExists'
            except (InjectedWriteError, InjectedComputeError):
                result = 'failed'
            except RecursionError:
                # catch_exceptions=True: the task is retried for ever; the interpreter ends it
                result = 'failed' if case.get('catch') else 'other:RecursionError'
            except CaseTimeout:
                raise
            except BaseException as e:  # pylint: disable=broad-except
                result = 'other:' + type(e).__name__
        finally:
            self.local.Local.dump = real_dump
        after = listing(root)
        second = case.get('second')
        if second is not None:
            # a later, fault-free save of other data to the same path: refused whenever ANYTHING is there
            try:
                build_layout(sc, second).saveAsTextFile(spelled)
                result2 = 'ok'
            except self.Exists:
                result2 = 'FileAlreadyExists'
            except CaseTimeout:
                raise
            except BaseException as e:  # pylint: disable=broad-except
                result2 = 'other:' + type(e).__name__
            after2 = listing(root)
        r = ctx.driver.ask({'p': 'C09', 'op': 'save', 'path': path, 'parts': parts, 'max': case['max'],
                            'pre_files': pre_files, 'pre_dirs': pre_dirs, 'wfail': case['wfail'], 'torn': sorted(torn),
                            **({'second': second} if second is not None else {}),
                            **({'wfail_from': wfrom} if wfrom is not None else {}), 'cfail': case['cfail']})
        ctx.note('result:' + r['result'])
        if result != r['result']:
            return Mismatch('outcome of the save differs (ok / FileAlreadyExists / failed)', result, r['result'], 'C09:outcome')
        if r['result'] == 'FileAlreadyExists' and after != before:
            return Mismatch('target existed but the file system was modified', sorted(after), sorted(before), 'C09:overwrite', relation='spec')
        want = {f['name']: f['text'] for f in r['files']}
        if sorted(after) != sorted(want):
            return Mismatch('directory listing after the save differs from the model', sorted(after), sorted(want), 'C09:listing')
        marker = os.path.join(path, '_SUCCESS')
        # (with a torn write of the marker itself the - empty - marker exists although the call raised: every part was
        # complete before it, which is what the marker promises; that case is covered by the read-back below)
        if marker in after and r['result'] != 'ok' and not torn:
            return Mismatch('_SUCCESS present although the save failed', sorted(after), r['result'], 'C09:marker', relation='spec')
        for name, data in after.items():
            if name in pre_files:
                text = data.decode('utf8')
            else:
                try:
                    text = decode_by_name(name, data).decode('utf8')
                except Exception as e:  # pylint: disable=broad-except
                    return Mismatch('file %s is not decodable by the codec its name declares' % name, exc(e), None, 'C09:stream')
            if text != want[name]:
                return Mismatch('content of %s differs from the model' % os.path.basename(name), text, want[name], 'C09:content')
        if second is not None:
            r2 = r['second']
            ctx.note('second:' + r2['result'])
            if result2 != r2['result']:
                return Mismatch('a second save to the same path: outcome differs (existing output must be refused)', result2, r2['result'],
                                'C09:second:outcome')
            if r2['result'] == 'FileAlreadyExists' and after2 != after:
                return Mismatch('the refused second save modified the existing output', sorted(after2), sorted(after), 'C09:second:overwrite',
                                relation='spec')
            if sorted(after2) != sorted(f['name'] for f in r2['files']):
                return Mismatch('directory listing after the second save differs from the model', sorted(after2),
                                sorted(f['name'] for f in r2['files']), 'C09:second:listing')
        # the context must remain usable
        try:
            follow = sc.parallelize([1, 2, 3], 2).map(lambda x: x + 1).sum()
        except CaseTimeout:
            raise
        except BaseException as e:  # pylint: disable=broad-except
            follow = exc(e)
        if follow != 9:
            return Mismatch('follow-up job on the same context after the save', follow, 9, 'C09:usable-after', relation='spec')
        if marker in after:
            flat = [x for p in parts for x in p]
            try:
                back = sc.textFile(path).collect()
            except CaseTimeout:
                raise
            except BaseException as e:  # pylint: disable=broad-except
                back = exc(e)
            if r['readDir'] != flat:
                return Mismatch('Lean readDir of the marked directory differs from the data', r['readDir'], flat, 'model-spec:readDir')
            if back != flat:
                return Mismatch('reading a directory that carries the marker does not return every partition in order', back, flat,
                                'C09:read-marked', relation='spec')
        return None


PROP = C09()
