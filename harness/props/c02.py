"""C02 — Keyed, join and set operations follow Spark's multiset semantics."""
import funcs as F
from core import Mismatch, Prop, canon
from util import build_layout, exc, multiset, random_layout

KEYS = [None, 0, 1, 1, 'a', (0, 'a'), 2]
BINARY = ['join', 'leftOuterJoin', 'rightOuterJoin', 'fullOuterJoin', 'cogroup', 'subtractByKey']
UNARY = ['groupByKey', 'reduceByKey', 'foldByKey', 'aggregateByKey', 'countByKey', 'sortByKey']
SETOPS = ['subtract', 'distinct', 'intersection', 'cartesian']


def gen_pairs(rng, n, vkind):
    out = []
    for _ in range(n):
        k = rng.choice(KEYS)
        out.append((k, F.gen_value(rng, vkind)))
    return out


class C02(Prop):
    id = 'C02'
    extracted = True      # per-key comprehensions of the join family, the grouping loop, cartesian, subtractByKey (harness/extract_m.py TrComp, Extracted/EquivC02.lean)
    quick_cases = 6000
    thorough_cases = 40000
    quick_budget_s = 60
    rule = ('every keyed/join/set op x pairs of key-value lists (length 0..6) over keys {None, 0, 1, "a", (0,"a"), 2} with '
            'duplicates, values ints / strings / None-mix / tuples / unhashable lists x random partitionings of both sides '
            '(1..4 partitions, empty ones included) x numPartitions in {None, 1, 3}; results compared with the Lean model '
            'and the relational SPEC as multisets, grouping ops per key with ordered value lists, sortByKey exactly. '
            'Non-trivial = at least one duplicate or shared key and a non-empty input; distinct = distinct canonical case.')
    trusted = ('Python dict/set key equality (1 == True == 1.0) is avoided by the key domain',)

    def setup(self, ctx):
        from pysparkling import Context
        self.Context = Context

    def gen(self, rng, tier):
        cls = rng.random()
        m = rng.choice([None, None, 1, 3])
        if cls < .5:
            op = rng.choice(BINARY)
            vk = rng.choice(['I', 'I', 'S', 'N', 'L', 'T'])
            wk = rng.choice(['I', 'S', 'N', 'L'])
            a = gen_pairs(rng, rng.randint(0, 6), vk)
            b = gen_pairs(rng, rng.randint(0, 5), wk)
            return {'op': op, 'm': m,
                    'a': [[F.to_json(x) for x in p] for p in random_layout(rng, a)],
                    'b': [[F.to_json(x) for x in p] for p in random_layout(rng, b)]}
        if cls < .8:
            op = rng.choice(UNARY)
            c = {'op': op, 'm': m}
            if op == 'reduceByKey':
                vk = rng.choice(['I', 'S', 'L', 'I'])
                c['f'] = rng.choice(['add', 'add', 'first', 'last', 'pairUp'] + (['sub', 'max', 'mul'] if vk == 'I' else []))
            elif op == 'foldByKey':
                vk, (c['z'], c['f']) = rng.choice([('I', (0, 'add')), ('I', (1, 'mul')), ('I', (3, 'add')), ('S', ('', 'add')),
                                                    ('L', ([], 'extend')), ('L', ([], 'add')), ('N', (None, 'maxOpt'))])
                c['z'] = F.to_json(c['z'])
            elif op == 'aggregateByKey':
                c['agg'] = rng.choice(list(F.AGG))
                vk = 'I' if c['agg'] in ('sumCount', 'addAdd') else rng.choice(['I', 'S', 'N'])
                if c['agg'] == 'maxOpt' and vk == 'N':
                    vk = 'I'
            elif op == 'sortByKey':
                vk = rng.choice(['I', 'S', 'L'])
                c['asc'] = rng.random() < .6
            else:
                vk = rng.choice(['I', 'S', 'N', 'L', 'T'])
            n = rng.randint(0, 7)
            if op == 'sortByKey':
                keys = rng.choice([[0, 1, 2, 3, 1, 0], ['a', 'b', '', 'ab', 'a'], [(0,), (0, 1), (1,), (), (0,)]])
                a = [(rng.choice(keys), F.gen_value(rng, vk)) for _ in range(n)]
            else:
                a = gen_pairs(rng, n, vk)
            c['a'] = [[F.to_json(x) for x in p] for p in random_layout(rng, a)]
            return c
        op = rng.choice(SETOPS)
        ek = rng.choice(['I', 'I', 'S', 'N', 'T', ('P', 'I', 'S')] + (['L'] if op in ('subtract', 'cartesian') else []))
        a = [F.gen_value(rng, ek) for _ in range(rng.randint(0, 6))]
        b = [F.gen_value(rng, ek) for _ in range(rng.randint(0, 5))]
        return {'op': op, 'm': m,
                'a': [[F.to_json(x) for x in p] for p in random_layout(rng, a)],
                'b': [[F.to_json(x) for x in p] for p in random_layout(rng, b)]}

    def fixed_cases(self, tier):
        a = [[{'t': [1, 'a']}], [{'t': [1, 'b']}, {'t': [2, 'c']}]]
        b = [[{'t': [1, 'x']}, {'t': [1, 'y']}, {'t': [3, 'z']}]]
        out = [{'op': op, 'm': None, 'a': a, 'b': b} for op in BINARY]
        out += [{'op': op, 'm': None, 'a': [], 'b': b} for op in BINARY]
        return out

    def nontrivial(self, case):
        keyed = case['op'] not in SETOPS

        def key(x):
            return canon(x['t'][0]) if (keyed and isinstance(x, dict) and x['t']) else canon(x)
        ka = [key(x) for p in case['a'] for x in p]
        kb = [key(x) for p in case.get('b', []) for x in p]
        return len(ka) > 0 and (len(set(ka)) < len(ka) or bool(set(ka) & set(kb)))

    def shrink(self, case):
        for side in ('a', 'b'):
            if side not in case:
                continue
            lay = case[side]
            for i in range(len(lay)):
                if len(lay) > 1:
                    merged = lay[:i] + lay[i + 1:]
                    if i + 1 < len(lay):
                        merged = lay[:i] + [lay[i] + lay[i + 1]] + lay[i + 2:]
                    yield dict(case, **{side: merged})
                for j in range(len(lay[i])):
                    yield dict(case, **{side: lay[:i] + [lay[i][:j] + lay[i][j + 1:]] + lay[i + 1:]})
        if case.get('m') is not None:
            yield dict(case, m=None)

    def run_case(self, case, ctx):
        op = case['op']
        ctx.note('op:' + op)
        sc = self.Context()
        la = [[F.from_json(x) for x in p] for p in case['a']]
        lb = [[F.from_json(x) for x in p] for p in case.get('b', [])]
        m = case.get('m')
        try:
            ra = build_layout(sc, la)
            rb = build_layout(sc, lb) if 'b' in case else None
            if op in ('join', 'leftOuterJoin', 'rightOuterJoin', 'fullOuterJoin', 'cogroup', 'subtractByKey'):
                if op == 'join':
                    res = ra.join(rb, m).collect()
                elif op == 'cogroup':
                    res = [(k, [list(v[0]), list(v[1])]) for k, v in ra.cogroup(rb, m).collect()]
                else:
                    res = getattr(ra, op)(rb, m).collect()
            elif op == 'groupByKey':
                res = [(k, list(v)) for k, v in ra.groupByKey(m).collect()]
            elif op == 'reduceByKey':
                res = ra.reduceByKey(F.BIN[case['f']], m).collect()
            elif op == 'foldByKey':
                res = ra.foldByKey(F.from_json(case['z']), F.BIN[case['f']]).collect()
            elif op == 'aggregateByKey':
                z, s, c = F.AGG[case['agg']]
                res = ra.aggregateByKey(z(), F.BIN[s], F.BIN[c]).collect()
            elif op == 'countByKey':
                res = list(ra.countByKey().items())
            elif op == 'sortByKey':
                res = ra.sortByKey(ascending=case['asc'], numPartitions=m).collect()
            elif op == 'subtract':
                res = ra.subtract(rb, m).collect()
            elif op == 'distinct':
                res = ra.distinct(m).collect()
            elif op == 'intersection':
                res = ra.intersection(rb).collect()
            elif op == 'cartesian':
                res = ra.cartesian(rb).collect()
            else:
                raise ValueError(op)
            impl = [F.to_json(x) for x in res]
        except Exception as e:  # pylint: disable=broad-except
            impl = exc(e)
        r = ctx.driver.ask(dict(case, p='C02'))
        model, spec = r['model'], r['spec']
        ordered = op == 'sortByKey'
        cmp = (lambda x: [canon(e) for e in x]) if ordered else multiset
        if spec is not None:
            ctx.note('spec_applies')
            if multiset(spec) != multiset(model):
                return Mismatch('Lean model differs from relational SPEC', model, spec, 'model-spec:' + op)
        if isinstance(impl, dict):
            return Mismatch('%s raised' % op, impl, model, 'C02:%s:exc' % op)
        if spec is not None and multiset(impl) != multiset(spec):
            return Mismatch('%s differs from the relational SPEC (as a multiset)' % op, impl, spec, 'C02:' + op, relation='multiset')
        if cmp(impl) != cmp(model):
            return Mismatch('%s differs from the model (%s)' % (op, 'ordered' if ordered else 'multiset; per-key value lists ordered'),
                            impl, model, 'C02:' + op + ':model')
        return None


PROP = C02()
