"""C12 — DataFrame projection, filter, sort, limit and union match SQL semantics."""
import sqlgen as G
from core import Mismatch, Prop, canon
from util import build_layout, exc, multiset, random_layout


def result_type(rng, types, ast_type):
    return ast_type


class C12(Prop):
    id = 'C12'
    extracted = True      # three-valued connectives / null tests regenerated from the current source (Extracted/EquivC12.lean)
    quick_cases = 5000
    thorough_cases = 30000
    quick_budget_s = 60
    rule = ('typed tables (1..4 nullable columns over int / double / string / boolean, 0..6 rows, doubles dyadic so float '
            'arithmetic is exact) split into 1..4 partitions x chains of 1..3 relational operations (select with aliased '
            'expressions or, in one chain of eight, a projection of bare columns that lists one twice (followed by at least one more step), withColumn (new and existing name), filter, drop, withColumnRenamed, toDF, union, unionByName, distinct, '
            'dropDuplicates, orderBy with per-key direction and nulls first/last, limit) whose expressions are type-directed trees '
            'of depth <= 3 over arithmetic, comparison, AND/OR/NOT, null tests, between, coalesce, when/otherwise. The collected '
            'rows and column names are compared with the Lean model and the Lean SQL reference: ordered while the row order is '
            'defined, as a multiset after distinct/dropDuplicates. Non-trivial = non-empty table and a non-constant expression; '
            'distinct = distinct canonical case; the share of constant expressions is measured.')
    trusted = ('double arithmetic is exact only on the dyadic values the generator uses (divisors are literal powers of two or 0)',
               'strings are compared by code point; % and ** are outside the listed operators',
               'Row equality ignores field names (tuples), as distinct() does')

    def setup(self, ctx):
        from pysparkling import Context
        from pysparkling.sql.session import SparkSession
        self.sc = Context()
        self.spark = SparkSession(self.sc)

    # ---- generation -----------------------------------------------------------------------------
    def gen(self, rng, tier):
        names, types, rows = G.gen_table(rng)
        case = {'names': names, 'types': types, 'rows': [[G.sv(v) for v in r] for r in rows], 'parts': rng.randint(1, 4), 'ops': []}
        cur_names, cur_types = list(names), list(types)
        ordered = True
        fresh = [0]

        def new_name():
            fresh[0] += 1
            return 'n%d' % fresh[0]
        repeated = rng.random() < .12      # a chain that starts from a projection listing a column twice (SELECT i, i, d)
        nsteps = max(2, rng.randint(1, 3)) if repeated else rng.randint(1, 3)
        rep_step = rng.randrange(nsteps - 1) if repeated else -1      # the repeating projection is not the last step
        for step in range(nsteps):
            choices = ['select', 'select', 'withColumn', 'withColumn', 'filter', 'filter', 'orderBy', 'orderBy', 'drop', 'rename', 'toDF',
                       'union', 'unionByName', 'distinct', 'dropDuplicates']
            if ordered:
                choices += ['limit', 'limit']
            op = rng.choice(choices)
            dup = [n for n in cur_names if cur_names.count(n) > 1]
            vis = [t if n not in dup else 'hidden' for n, t in zip(cur_names, cur_types)]
            single = [n for n in cur_names if n not in dup]
            if dup:
                # columns whose name is carried twice cannot be referenced by name (legitimately ambiguous): expressions,
                # renames may name them (both copies are renamed), key lists use the other columns only; unionByName needs unique names
                if op == 'unionByName':
                    op = 'union'        # by name needs unique names; the positional union does not
            if step == rep_step and not dup:
                picks = [rng.randrange(len(cur_names)) for _ in range(rng.randint(1, 3))]
                picks.insert(rng.randint(0, len(picks)), rng.choice(picks))
                case['ops'].append({'op': 'select', 'cols': [{'e': {'op': 'col', 'i': i}, 'name': cur_names[i], 'bare': True} for i in picks]})
                cur_names, cur_types = [cur_names[i] for i in picks], [cur_types[i] for i in picks]
                case.setdefault('types_trace', []).append(list(cur_types))
                continue
            if op == 'select':
                cols, nt = [], []
                for _ in range(rng.randint(1, 3)):
                    t = rng.choice([x for x in vis if x != 'hidden'] + G.TYPES)
                    cols.append({'e': G.gen_expr(rng, vis, t, rng.choice([0, 1, 2, 2, 3])), 'name': new_name()})
                    nt.append(t)
                case['ops'].append({'op': 'select', 'cols': cols})
                cur_names, cur_types = [c['name'] for c in cols], nt
            elif op == 'withColumn':
                t = rng.choice([x for x in vis if x != 'hidden'] + G.TYPES)
                name = rng.choice(cur_names) if rng.random() < .4 else new_name()
                case['ops'].append({'op': 'withColumn', 'name': name, 'e': G.gen_expr(rng, vis, t, rng.randint(0, 3))})
                if name in cur_names:
                    cur_types = [t if n == name else x for n, x in zip(cur_names, cur_types)]
                else:
                    cur_names, cur_types = cur_names + [name], cur_types + [t]
            elif op == 'filter':
                case['ops'].append({'op': 'filter', 'e': G.gen_expr(rng, vis, 'bool', rng.randint(1, 3))})
            elif op == 'orderBy':
                keys = []
                for _ in range(rng.randint(1, 3)):
                    t = rng.choice(sorted(set(vis) - {'hidden'}) or ['int'])
                    e = G.gen_expr(rng, vis, t, rng.choice([0, 0, 1]))
                    keys.append({'e': e, 'asc': rng.random() < .5, 'nullsFirst': rng.random() < .5})
                case['ops'].append({'op': 'orderBy', 'keys': keys})
            elif op == 'drop':
                if len(cur_names) < 2:
                    continue
                d = rng.sample(cur_names, rng.randint(1, len(cur_names) - 1))
                if rng.random() < .2:
                    d.append('missing')
                keep = [i for i, n in enumerate(cur_names) if n not in d]
                if not keep:
                    continue        # a name carried by several columns drops them all: keep at least one column
                case['ops'].append({'op': 'drop', 'names': d})
                cur_names, cur_types = [cur_names[i] for i in keep], [cur_types[i] for i in keep]
            elif op == 'rename':
                old = rng.choice(cur_names + ['missing'])      # a name carried twice renames both columns
                new = new_name()
                case['ops'].append({'op': 'rename', 'old': old, 'new': new})
                cur_names = [new if n == old else n for n in cur_names]
            elif op == 'toDF':
                nn = [new_name() for _ in cur_names]
                case['ops'].append({'op': 'toDF', 'names': nn})
                cur_names = nn
            elif op in ('union', 'unionByName'):
                other = [[G.gen_val(rng, t) for t in cur_types] for _ in range(rng.randint(0, 3))]
                if op == 'union':
                    case['ops'].append({'op': 'union', 'rows': [[G.sv(v) for v in r] for r in other], 'names': list(cur_names)})
                else:
                    perm = list(range(len(cur_names)))
                    rng.shuffle(perm)
                    case['ops'].append({'op': 'unionByName', 'names': [cur_names[i] for i in perm],
                                        'rows': [[G.sv(r[i]) for i in perm] for r in other], 'types': [cur_types[i] for i in perm]})
            elif op == 'distinct':
                case['ops'].append({'op': 'distinct'})
                ordered = False
            elif op == 'dropDuplicates':
                if not ordered:
                    continue     # which duplicate survives depends on the (now undefined) row order
                if not single:
                    continue
                case['ops'].append({'op': 'dropDuplicates', 'cols': rng.sample(single, rng.randint(1, len(single)))})
                ordered = False
            elif op == 'limit':
                case['ops'].append({'op': 'limit', 'n': rng.randint(0, 5)})
            case.setdefault('types_trace', []).append(list(cur_types))
        case['ordered'] = ordered
        return case

    def fixed_cases(self, tier):
        base = {'names': ['a', 'b'], 'types': ['int', 'bool'], 'parts': 2,
                'rows': [[G.sv(1), None], [G.sv(2), False], [None, True], [G.sv(1), True]], 'ordered': True}
        col = lambda i: {'op': 'col', 'i': i}  # noqa: E731
        lit = lambda v: {'op': 'lit', 'v': G.sv(v)}  # noqa: E731
        return [
            dict(base, ops=[{'op': 'filter', 'e': {'op': 'or', 'a': {'op': 'lt', 'a': col(0), 'b': lit(1.5)}, 'b': col(1)}}]),
            dict(base, ops=[{'op': 'select', 'cols': [{'e': {'op': 'and', 'a': col(1), 'b': {'op': 'lit', 'v': None}}, 'name': 'x'},
                                                        {'e': {'op': 'eq', 'a': col(0), 'b': lit(1.0)}, 'name': 'y'},
                                                        {'e': {'op': 'neg', 'e': col(0)}, 'name': 'z'}]}]),
            dict(base, ops=[{'op': 'withColumn', 'name': 'a', 'e': {'op': 'add', 'a': col(0), 'b': lit(1)}}]),
            dict(base, ops=[{'op': 'orderBy', 'keys': [{'e': col(0), 'asc': False, 'nullsFirst': True},
                                                         {'e': col(1), 'asc': True, 'nullsFirst': False}]}]),
            dict(base, ops=[{'op': 'drop', 'names': ['missing', 'b']}]),
            # SELECT a, a, b then a new value for b: the two copies of a stay (third hunt, repaired in c4f04bd)
            dict(base, ops=[{'op': 'select', 'cols': [{'e': col(0), 'name': 'a', 'bare': True}, {'e': col(0), 'name': 'a', 'bare': True},
                                                        {'e': col(1), 'name': 'b', 'bare': True}]},
                            {'op': 'withColumn', 'name': 'b', 'e': {'op': 'not', 'e': col(2)}}]),
        ] + self.moving_columns()

    @staticmethod
    def moving_columns():
        """the same column NAME is referenced before and after an operation that moves it to another position (the harness
        uses one Column object per name for the whole chain, as a program holding on to `col("c")` does)"""
        col = lambda i: {'op': 'col', 'i': i}  # noqa: E731
        lit = lambda v: {'op': 'lit', 'v': G.sv(v)}  # noqa: E731
        t = {'names': ['a', 'b', 'c'], 'types': ['int', 'int', 'int'], 'parts': 2, 'ordered': True,
             'rows': [[G.sv(1), G.sv(10), G.sv(5)], [G.sv(2), G.sv(20), G.sv(1)], [G.sv(3), None, G.sv(7)], [G.sv(4), G.sv(40), None]]}
        gt = lambda i, v: {'op': 'gt', 'a': col(i), 'b': lit(v)}  # noqa: E731
        out = []
        for first in ({'op': 'filter', 'e': gt(2, 0)}, {'op': 'withColumn', 'name': 'd', 'e': {'op': 'add', 'a': col(2), 'b': col(1)}},
                      {'op': 'orderBy', 'keys': [{'e': col(2), 'asc': True, 'nullsFirst': True}]}):
            # after drop(['a']) the columns are b, c[, d]: c sits at position 1
            for last in ({'op': 'filter', 'e': gt(1, 2)}, {'op': 'withColumn', 'name': 'e', 'e': {'op': 'mul', 'a': col(1), 'b': col(0)}},
                         {'op': 'orderBy', 'keys': [{'e': col(1), 'asc': False, 'nullsFirst': False}]},
                         {'op': 'select', 'cols': [{'e': col(1), 'name': 'x'}, {'e': {'op': 'sub', 'a': col(1), 'b': col(0)}, 'name': 'y'}]}):
                out.append(dict(t, ops=[first, {'op': 'drop', 'names': ['a']}, last]))
        return out

    def nontrivial(self, case):
        return len(case['rows']) > 0 and not all(G.is_constant(o) for o in case['ops'])

    def shrink(self, case):
        ops = case['ops']
        if len(ops) > 1:
            yield dict(case, ops=ops[:-1])
        rows = case['rows']
        for i in range(len(rows)):
            yield dict(case, rows=rows[:i] + rows[i + 1:])
        if case['parts'] > 1:
            yield dict(case, parts=1)

    # ---- execution --------------------------------------------------------------------------------
    def make_df(self, names, types, rows, parts):
        import random
        data = [tuple(G.sv_back(v) for v in r) for r in rows]
        n = max(1, parts)
        size = -(-len(data) // n) if data else 0
        layout = [data[i * size:(i + 1) * size] for i in range(n)] if size else [[] for _ in range(n)]
        rdd = build_layout(self.sc, layout)
        return self.spark.createDataFrame(rdd, G.spark_schema(names, types))

    def run_case(self, case, ctx):
        from pysparkling.sql import functions as F
        names = list(case['names'])
        nconst = 0
        colcache = {} if case.get('reuse_columns', True) else None      # one Column object per name for the whole chain
        try:
            df = self.make_df(case['names'], case['types'], case['rows'], case['parts'])
            for o in case['ops']:
                op = o['op']
                ctx.note('op:' + op)
                if op == 'select':
                    # a bare entry is the column itself (select("i", "i", "d")): no alias, so the projection may repeat a column
                    df = df.select(*[names[c['e']['i']] if c.get('bare') else G.to_column(c['e'], names, colcache).alias(c['name'])
                                     for c in o['cols']])
                    nconst += sum(1 for c in o['cols'] if G.is_constant(c['e']))
                    ctx.note('expressions_total', len(o['cols']))
                    names = [c['name'] for c in o['cols']]
                elif op == 'withColumn':
                    df = df.withColumn(o['name'], G.to_column(o['e'], names, colcache))
                    if o['name'] not in names:
                        names = names + [o['name']]
                elif op == 'filter':
                    df = df.filter(G.to_column(o['e'], names, colcache))
                    nconst += 1 if G.is_constant(o['e']) else 0
                    ctx.note('expressions_total')
                elif op == 'orderBy':
                    keys = []
                    for k in o['keys']:
                        c = G.to_column(k['e'], names, colcache)
                        keys.append({(True, True): c.asc_nulls_first, (True, False): c.asc_nulls_last,
                                     (False, True): c.desc_nulls_first, (False, False): c.desc_nulls_last}[(k['asc'], k['nullsFirst'])]())
                    df = df.orderBy(*keys)
                elif op == 'drop':
                    df = df.drop(*o['names'])
                    names = [n for n in names if n not in o['names']]
                elif op == 'rename':
                    df = df.withColumnRenamed(o['old'], o['new'])
                    names = [o['new'] if n == o['old'] else n for n in names]
                elif op == 'toDF':
                    df = df.toDF(*o['names'])
                    names = list(o['names'])
                elif op == 'union':
                    cur_types = case['types_trace'][case['ops'].index(o)] if 'types_trace' in case else case['types']
                    other = self.make_df(names, cur_types, o['rows'], 1)
                    df = df.union(other)
                elif op == 'unionByName':
                    other = self.make_df(o['names'], o['types'], o['rows'], 2)
                    df = df.unionByName(other)
                elif op == 'distinct':
                    df = df.distinct()
                elif op == 'dropDuplicates':
                    df = df.dropDuplicates(o['cols'])
                elif op == 'limit':
                    df = df.limit(o['n'])
                else:
                    raise ValueError(op)
            got_rows = [[G.sv(v) for v in r] for r in df.collect()]
            got_names = list(df.columns)
            impl = {'names': got_names, 'rows': got_rows}
        except Exception as e:  # pylint: disable=broad-except
            impl = exc(e)
        ctx.note('constant_expressions', nconst)
        r = ctx.driver.ask({'p': 'C12', 'names': case['names'], 'rows': case['rows'], 'ops': case['ops']})
        ordered = case.get('ordered', True)
        cmp = (lambda x: [canon(e) for e in x]) if ordered else multiset
        if cmp(r['rows']) != cmp(r['spec']):
            return Mismatch('Lean implementation-shaped model differs from the Lean SQL reference (theorem hypothesis violated?)',
                            r['rows'], r['spec'], 'model-spec')
        if isinstance(impl, dict) and 'exc' in impl:
            return Mismatch('relational chain raised', impl, r['spec'], 'C12:exc:' + case['ops'][-1]['op'])
        last = case['ops'][-1]['op'] if case['ops'] else 'none'
        if impl['names'] != r['names']:
            return Mismatch('column names differ', impl['names'], r['names'], 'C12:names:' + last)
        if cmp(impl['rows']) != cmp(r['spec']):
            return Mismatch('rows differ from the SQL reference (%s)' % ('ordered' if ordered else 'as a multiset'), impl['rows'], r['spec'],
                            'C12:rows:' + '+'.join(o['op'] for o in case['ops']), relation='ordered' if ordered else 'multiset')
        return None


PROP = C12()
