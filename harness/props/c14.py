"""C14 — Grouped aggregation is correct and independent of partitioning."""
import itertools
import math
from fractions import Fraction

import sqlgen as G
from core import Mismatch, Prop, canon
from util import build_layout, exc

NUMERIC = ['sum', 'avg', 'mean', 'variance', 'var_samp', 'var_pop', 'stddev', 'stddev_samp', 'stddev_pop', 'skewness', 'kurtosis',
           'sumDistinct']
ANY = ['count', 'count1', 'min', 'max', 'collect_list', 'collect_set', 'countDistinct', 'first', 'last', 'first_ign', 'last_ign']
METHODS = ['m_count', 'm_sum', 'm_avg', 'm_mean', 'm_min', 'm_max']   # GroupedData.count() / .sum(col) / ...
UNDEF = '#undefined'      # 0/0: Spark returns null or NaN depending on version; either is accepted


def frac(q):
    return Fraction(q[0], q[1])


def opt(o):
    return G.sv_back(o['v']) if o['has'] else None


def project(f, st, vtype):
    """what aggregate `f` must return, read from the (Lean-computed, exact) accumulator of its column"""
    n = st['n']
    num = (lambda q: int(q)) if vtype == 'int' else float
    if f in ('count', 'm_count_col'):
        return n
    if f in ('count1', 'm_count'):
        return st['rows']
    if f in ('sum', 'm_sum'):
        return None if n == 0 else num(frac(st['sum']))
    if f in ('avg', 'mean', 'm_avg', 'm_mean'):
        return None if st['avg'] is None else float(frac(st['avg']))
    if f in ('min', 'm_min'):
        return opt(st['min'])
    if f in ('max', 'm_max'):
        return opt(st['max'])
    if f in ('variance', 'var_samp'):
        return (None if n == 0 else UNDEF) if st['varSamp'] is None else float(frac(st['varSamp']))
    if f == 'var_pop':
        return None if st['varPop'] is None else float(frac(st['varPop']))
    if f in ('stddev', 'stddev_samp'):
        return (None if n == 0 else UNDEF) if st['varSamp'] is None else math.sqrt(frac(st['varSamp']))
    if f == 'stddev_pop':
        return None if st['varPop'] is None else math.sqrt(frac(st['varPop']))
    if f == 'skewness':
        m2, m3 = frac(st['m2']), frac(st['m3'])
        if n == 0:
            return None
        return UNDEF if m2 == 0 else math.sqrt(n) * float(m3) / float(m2) ** 1.5
    if f == 'kurtosis':
        m2, m4 = frac(st['m2']), frac(st['m4'])
        if n == 0:
            return None
        return UNDEF if m2 == 0 else float(n * m4 / (m2 * m2) - 3)
    if f == 'collect_list':
        return [G.sv_back(v) for v in st['items']]
    if f == 'collect_set':
        return ('set', [G.sv_back(v) for v in st['distinct']])
    if f == 'countDistinct':
        return len(st['distinct'])
    if f == 'sumDistinct':
        d = [G.sv_back(v) for v in st['distinct']]
        return None if not d else num(sum(Fraction(x) for x in d))
    if f == 'first':
        return opt(st['first'])
    if f == 'last':
        return opt(st['last'])
    if f == 'first_ign':
        return opt(st['firstNN'])
    if f == 'last_ign':
        return opt(st['lastNN'])
    raise KeyError(f)


def same(impl, want):
    if isinstance(want, tuple) and want[0] == 'set':
        return isinstance(impl, (list, set, tuple)) and sorted(map(canon, impl)) == sorted(map(canon, want[1])) \
            and len(list(impl)) == len(want[1])
    if want == UNDEF:
        return impl is None or (isinstance(impl, float) and math.isnan(impl))
    if want is None or impl is None:
        return impl is None and want is None
    if isinstance(want, bool) or isinstance(impl, bool):
        return impl is want
    if isinstance(want, float):
        return isinstance(impl, (int, float)) and not isinstance(impl, bool) and \
            (impl == want or abs(impl - want) <= 1e-9 * max(1.0, abs(want)))
    if isinstance(want, int):
        return isinstance(impl, int) and impl == want
    if isinstance(want, list):
        return isinstance(impl, list) and len(impl) == len(want) and all(same(a, b) for a, b in zip(impl, want))
    return impl == want


def view(v):
    if isinstance(v, tuple):
        return {'set': sorted(v[1], key=canon)}
    if isinstance(v, float) and math.isnan(v):
        return 'NaN'
    return v


class C14(Prop):
    id = 'C14'
    extracted = True      # arithmetic kernels regenerated from the current source (harness/extract.py, Extracted/Equiv*.lean)
    quick_cases = 2200
    thorough_cases = 30000
    quick_budget_s = 70
    rule = ('typed tables of 0..6 rows with 0..2 nullable key columns (int / string, few distinct values so groups repeat), an '
            'optional string pivot column and 1..2 nullable value columns (int / dyadic double / string / boolean; all-null groups '
            'and columns included) x 1..2 aggregates out of the 23 listed functions (count, count(1), sum, avg/mean, min, max, '
            'variance/var_samp/var_pop, stddev/stddev_samp/stddev_pop, skewness, kurtosis, collect_list, collect_set, '
            'countDistinct, sumDistinct, first/last with and without ignorenulls) and the GroupedData shorthands x groupBy / '
            'rollup / cube, optionally pivoted (automatic and explicit value lists, values absent from the data) x ARBITRARY '
            'assignments of the rows to 1..4 partitions (empty partitions, partitions where a group has no rows or only nulls; '
            'thorough: every assignment of a <=6-row table to 3 partitions and every contiguous split), plus describe() and '
            'summary(). Every output row is compared (as a multiset of rows, floats within 1e-9 relative) with the projection of '
            'the Lean accumulators for the same layout; the Lean side also confirms per case that partitioned = direct '
            'aggregation. Non-trivial = at least two rows in two non-empty partitions or a group with a null; distinct = '
            'distinct canonical case.')
    trusted = ('the final formulas from exact moments to var/stddev/skewness/kurtosis (m2/(n-1), sqrt, sqrt(n)*m3/m2^1.5, '
               'n*m4/m2^2-3) are computed by the harness in floating point from the model\'s exact rational moments',
               'where a statistic is undefined (0/0: sample variance of one value, skewness of equal values) both null and NaN are '
               'accepted',
               'describe()/summary(): count, mean, stddev, min, max are compared; the approximate percentiles are outside the property; '
               'describe() / summary() of a table without rows report count 0 and no other statistic')

    def setup(self, ctx):
        from pysparkling import Context
        from pysparkling.sql.session import SparkSession
        self.sc = Context()
        self.spark = SparkSession(self.sc)

    # ---- generation -----------------------------------------------------------------------------
    def gen_table(self, rng, nkeys, pivot, vtypes, nrows):
        ktypes = [rng.choice(['int', 'str']) for _ in range(nkeys)]
        rows = []
        for _ in range(nrows):
            row = []
            for t in ktypes:
                row.append(rng.choice([None, 0, 1, 1, 2]) if t == 'int' else rng.choice([None, 'a', 'b', 'b', '']))
            if pivot:
                row.append(rng.choice([None, 'x', 'x', 'y', 'z']))
            null_p = rng.choice([.15, .15, .5, .9])
            for t in vtypes:
                row.append(G.gen_val(rng, t, null_p=null_p))
            rows.append([G.sv(v) for v in row])
        return ktypes, rows

    def gen_aggs(self, rng, vtypes):
        aggs = []
        for _ in range(rng.choice([1, 1, 2])):
            col = rng.randrange(len(vtypes))
            pool = ANY + (NUMERIC + NUMERIC if vtypes[col] in ('int', 'dbl') else [])
            aggs.append({'f': rng.choice(pool), 'col': col})
        return aggs

    def gen(self, rng, tier):
        if rng.random() < .08:
            vtypes = [rng.choice(['int', 'dbl', 'str']) for _ in range(rng.randint(1, 3))]
            _, rows = self.gen_table(rng, 0, False, vtypes, rng.choice([0, 1, 2, 3, 4, 5, 6]))     # the table without any row included
            return {'kind': rng.choice(['describe', 'summary']), 'vtypes': vtypes, 'layout': self.assign(rng, rows)}
        nkeys = rng.choice([0, 1, 1, 1, 2, 2])
        pivot = None
        if rng.random() < .25:
            pivot = {'auto': rng.random() < .5, 'values': rng.choice([['x'], ['x', 'y'], ['y', 'x', 'q'], ['q']])}
        vtypes = [rng.choice(['int', 'int', 'dbl', 'dbl', 'str', 'bool']) for _ in range(rng.choice([1, 1, 2]))]
        ktypes, rows = self.gen_table(rng, nkeys, pivot, vtypes, rng.choice([0, 1, 2, 3, 4, 5, 6, 6]))
        mode = rng.choice(['groupby', 'groupby', 'groupby', 'rollup', 'cube']) if nkeys else 'groupby'
        if rng.random() < .12 and vtypes[0] in ('int', 'dbl'):
            aggs = [{'f': rng.choice(METHODS), 'col': 0}]
        else:
            aggs = self.gen_aggs(rng, vtypes)
        return {'kind': 'agg', 'mode': mode, 'ktypes': ktypes, 'pivot': pivot, 'vtypes': vtypes, 'aggs': aggs,
                'layout': self.assign(rng, rows)}

    @staticmethod
    def assign(rng, rows):
        """arbitrary assignment of rows to partitions (partition contents keep the table's relative order)"""
        n = rng.choice([1, 2, 2, 3, 3, 4])
        lay = [[] for _ in range(n)]
        for r in rows:
            lay[rng.randrange(n)].append(r)
        return lay

    def fixed_cases(self, tier):
        out = []
        S = G.sv
        # the defects repaired in this repository: a group that a partition sees only nulls of / no rows of
        rows = [[S('a'), S(1)], [S('a'), None], [S('b'), S(4)], [S('a'), S(5)], [S('b'), None], [None, S(2)]]
        splits = [[rows], [rows[:1], rows[1:2], rows[2:]], [[], rows[:3], [], rows[3:]], [[r] for r in rows],
                  [rows[1:2], rows[:1] + rows[2:]], [rows[4:5], rows[1:2], rows[:1], rows[2:4], rows[5:]]]
        for f in ANY + NUMERIC:
            for lay in splits[1:4] if tier == 'quick' else splits:
                out.append({'kind': 'agg', 'mode': 'groupby', 'ktypes': ['str'], 'pivot': None, 'vtypes': ['int'],
                            'aggs': [{'f': f, 'col': 0}], 'layout': lay})
        for mode in ('rollup', 'cube'):
            rows2 = [[S('a'), S(1), S(1.5)], [S('a'), S(1), None], [None, S(2), S(3.0)], [S('b'), S(1), S(0.5)], [S('a'), S(2), S(2.5)],
                     [S('b'), None, None]]
            for f in ('sum', 'count', 'avg', 'collect_list', 'first', 'max', 'stddev_pop'):
                out.append({'kind': 'agg', 'mode': mode, 'ktypes': ['str', 'int'], 'pivot': None, 'vtypes': ['dbl'],
                            'aggs': [{'f': f, 'col': 0}], 'layout': [rows2[:2], rows2[2:5], [], rows2[5:]]})
        rows3 = [[S(1), S('x'), S(1)], [S(1), S('y'), S(4)], [S(2), None, S(3)], [S(2), S('x'), S(5)], [None, S('y'), None], [S(1), S('x'), None]]
        for pv in ({'auto': True, 'values': []}, {'auto': False, 'values': ['y', 'x', 'q']}):
            for aggs in ([{'f': 'sum', 'col': 0}], [{'f': 'sum', 'col': 0}, {'f': 'count', 'col': 0}], [{'f': 'first', 'col': 0}]):
                out.append({'kind': 'agg', 'mode': 'groupby', 'ktypes': ['int'], 'pivot': pv, 'vtypes': ['int'], 'aggs': aggs,
                            'layout': [rows3[:2], rows3[2:3], rows3[3:]]})
        # a pivot cell whose group is present in every partition while the CELL has no row in the first two (resp. the last two)
        # of them: only a pivot produces per-group partials that saw no row at all, and only a third partition shows what adopting
        # such a partial does to first / last (seeded change C14-m16 was reported for some seeds only)
        rows4 = [[S(1), S('x'), S(1)], [S(1), S('x'), S(2)], [S(1), S('y'), S(7)], [S(1), S('x'), S(3)]]
        for lay in ([rows4[:1], rows4[1:2], rows4[2:3], rows4[3:]], [rows4[2:3], rows4[:1], rows4[1:2], rows4[3:]],
                    [rows4[:1], [], rows4[1:2], rows4[2:]]):
            for f in ('first', 'last', 'first_ign', 'last_ign', 'min', 'collect_list', 'count', 'sum'):
                out.append({'kind': 'agg', 'mode': 'groupby', 'ktypes': ['int'], 'pivot': {'auto': False, 'values': ['x', 'y']},
                            'vtypes': ['int'], 'aggs': [{'f': f, 'col': 0}], 'layout': lay})
        for kind in ('describe', 'summary'):
            t = [[S(1), S(1.5), S('b')], [None, S(2.0), S('a')], [S(3), None, None], [S(5), S(0.5), S('a')]]
            out.append({'kind': kind, 'vtypes': ['int', 'dbl', 'str'], 'layout': [t[:1], [], t[1:3], t[3:]]})
            out.append({'kind': kind, 'vtypes': ['int', 'str'], 'layout': [[], [], []]})
        if tier == 'thorough':
            out += self.exhaustive()
        return out

    def exhaustive(self):
        """every assignment of a 6-row table to 3 partitions, and every contiguous split into <= 4 partitions"""
        S = G.sv
        rows = [[S('a'), S(1)], [S('b'), None], [S('a'), None], [S('b'), S(4)], [None, S(2)], [S('a'), S(7)]]
        out = []
        aggsets = [[{'f': 'sum', 'col': 0}, {'f': 'avg', 'col': 0}], [{'f': 'kurtosis', 'col': 0}, {'f': 'first', 'col': 0}],
                   [{'f': 'collect_list', 'col': 0}, {'f': 'countDistinct', 'col': 0}], [{'f': 'stddev', 'col': 0}, {'f': 'last_ign', 'col': 0}]]
        for i, assign in enumerate(itertools.product(range(3), repeat=6)):
            lay = [[r for r, p in zip(rows, assign) if p == q] for q in range(3)]
            out.append({'kind': 'agg', 'mode': 'groupby', 'ktypes': ['str'], 'pivot': None, 'vtypes': ['int'],
                        'aggs': aggsets[i % len(aggsets)], 'layout': lay})
        for cuts in itertools.combinations_with_replacement(range(7), 3):
            b = [0] + list(cuts) + [6]
            lay = [rows[b[i]:b[i + 1]] for i in range(4)]
            for aggs in aggsets:
                out.append({'kind': 'agg', 'mode': 'rollup', 'ktypes': ['str'], 'pivot': None, 'vtypes': ['int'], 'aggs': aggs, 'layout': lay})
        return out

    def nontrivial(self, case):
        lay = case['layout']
        return sum(1 for p in lay if p) >= 2 or any(v is None for p in lay for r in p for v in r)

    def shrink(self, case):
        lay = case['layout']
        for i in range(len(lay)):
            if len(lay) > 1 and not lay[i]:
                yield dict(case, layout=lay[:i] + lay[i + 1:])
            for j in range(len(lay[i])):
                yield dict(case, layout=lay[:i] + [lay[i][:j] + lay[i][j + 1:]] + lay[i + 1:])
        if case['kind'] == 'agg' and len(case['aggs']) > 1:
            for a in case['aggs']:
                yield dict(case, aggs=[a])
        if len(lay) > 1:
            yield dict(case, layout=[lay[0] + lay[1]] + lay[2:])

    # ---- execution ------------------------------------------------------------------------------
    def make_df(self, names, types, layout):
        data = [[tuple(G.sv_back(v) for v in r) for r in p] for p in layout]
        return self.spark.createDataFrame(build_layout(self.sc, data), G.spark_schema(names, types))

    def column(self, a, vnames):
        from pysparkling.sql import functions as F
        c, f = vnames[a['col']], a['f']
        if f == 'count1':
            return F.count(F.lit(1))
        if f in ('first', 'last'):
            return getattr(F, f)(c)
        if f in ('first_ign', 'last_ign'):
            return getattr(F, f[:-4])(c, True)
        return getattr(F, f)(c)

    def run_case(self, case, ctx):
        if case['kind'] != 'agg':
            return self.run_describe(case, ctx)
        nk = len(case['ktypes'])
        knames = ['k%d' % i for i in range(nk)]
        vnames = ['v%d' % i for i in range(len(case['vtypes']))]
        pivot = case['pivot']
        names = knames + (['p'] if pivot else []) + vnames
        types = case['ktypes'] + (['str'] if pivot else []) + case['vtypes']
        aggs = case['aggs']
        ctx.note('mode:' + case['mode'] + (':pivot' if pivot else ''))
        for a in aggs:
            ctx.note('agg:' + a['f'])
        ctx.note('parts:%d' % len(case['layout']))
        # ---- model
        off = nk + (1 if pivot else 0)
        req = {'p': 'C14', 'ncols': len(vnames), 'mode': case['mode'],
               'parts': [[dict({'k': r[:nk], 'v': r[off:]}, **({'pv': r[nk]} if pivot else {})) for r in p] for p in case['layout']]}
        if pivot:
            req['pvs'] = [G.sv(v) for v in pivot['values']]
            req['auto'] = pivot['auto']
        r = ctx.driver.ask(req)
        if not r['spec_equal']:
            return Mismatch('Lean: partitioned aggregation differs from direct aggregation', None, None, 'model-spec')
        pvs = [G.sv_back(v) for v in r['pvs']] if pivot else [None]
        want = []
        for g in r['groups']:
            row = [None if (isinstance(k, dict) and k.get('g')) else G.sv_back(k) for k in g['k']]
            for b in range(len(pvs)):
                for a in aggs:
                    row.append(project(a['f'], g['st'][b * len(vnames) + a['col']], case['vtypes'][a['col']]))
            want.append(row)
        # ---- implementation
        try:
            df = self.make_df(names, types, case['layout'])
            gd = {'groupby': df.groupBy, 'rollup': df.rollup, 'cube': df.cube}[case['mode']](*knames)
            if pivot:
                gd = gd.pivot('p') if pivot['auto'] else gd.pivot('p', list(pivot['values']))
            f0 = aggs[0]['f']
            if f0.startswith('m_'):
                out = gd.count() if f0 == 'm_count' else getattr(gd, f0[2:])(vnames[0])
            else:
                out = gd.agg(*[self.column(a, vnames) for a in aggs])
            got = [list(row) for row in out.collect()]
        except Exception as e:  # pylint: disable=broad-except
            return Mismatch('aggregation raised', exc(e), [[view(v) for v in w] for w in want],
                            'C14:exc:%s:%s' % (type(e).__name__, aggs[0]['f']))
        if pivot and not pvs and not got and want:
            pass
        sig = 'C14:%s%s:%s' % (case['mode'], ':pivot' if pivot else '', '+'.join(sorted({a['f'] for a in aggs})))
        if len(got) != len(want):
            return Mismatch('number of output rows (one per distinct key combination, plus subtotals)',
                            got, [[view(v) for v in w] for w in want], sig + ':rows', relation='spec')
        # multiset match of rows. Because an undefined statistic accepts null AND NaN, one output row can be compatible
        # with several expected rows: a greedy pairing could starve a later row, so find a perfect matching (augmenting paths)
        compat = [[j for j, w in enumerate(want) if len(w) == len(g) and all(same(x, y) for x, y in zip(g, w))] for g in got]
        owner = {}

        def augment(i, seen):
            for j in compat[i]:
                if j in seen:
                    continue
                seen.add(j)
                if j not in owner or augment(owner[j], seen):
                    owner[j] = i
                    return True
            return False
        for i, g in enumerate(got):
            if not augment(i, set()):
                return Mismatch('output row %r equals no group of the direct computation' % (g,), got,
                                [[view(v) for v in w] for w in want], sig, relation='spec')
        return None

    def run_describe(self, case, ctx):
        vnames = ['v%d' % i for i in range(len(case['vtypes']))]
        ctx.note('kind:' + case['kind'])
        r = ctx.driver.ask({'p': 'C14', 'ncols': len(vnames), 'mode': 'groupby',
                            'parts': [[{'k': [], 'v': row} for row in p] for p in case['layout']]})
        if not r['spec_equal']:
            return Mismatch('Lean: partitioned aggregation differs from direct aggregation', None, None, 'model-spec')
        sts = r['groups'][0]['st'] if r['groups'] else None     # no row at all: every column has count 0 and no other statistic
        try:
            df = self.make_df(vnames, case['vtypes'], case['layout'])
            out = df.describe() if case['kind'] == 'describe' else df.summary()
            rows = {row[0]: list(row)[1:] for row in out.collect()}
            cols = list(out.columns)
        except Exception as e:  # pylint: disable=broad-except
            return Mismatch(case['kind'] + ' raised', exc(e), None, 'C14:exc:' + case['kind'])
        if cols != ['summary'] + vnames:
            return Mismatch(case['kind'] + ': columns', cols, ['summary'] + vnames, 'C14:%s:columns' % case['kind'], relation='spec')
        for j, t in enumerate(case['vtypes']):
            numeric = t in ('int', 'dbl')
            if sts is None:
                ctx.note('describe-of-an-empty-table')
                for stat, w in {'count': 0, 'mean': None, 'stddev': None, 'min': None, 'max': None}.items():
                    if stat not in rows or len(rows[stat]) != len(vnames) or not self.cell_matches(rows[stat][j], w if w is not None or stat not in ('mean', 'stddev') else UNDEF, stat):
                        return Mismatch('%s() of a table without rows: %s of column %s (count 0, no other statistic)' % (case['kind'], stat, vnames[j]),
                                        rows.get(stat), w, 'C14:%s:empty' % case['kind'], relation='spec')
                continue
            st = sts[j]
            want = {'count': project('count', st, t),
                    'mean': project('avg', st, t) if numeric else None,
                    'stddev': project('stddev', st, t) if numeric else None,
                    'min': project('min', st, t), 'max': project('max', st, t)}
            for stat, w in want.items():
                cell = rows.get(stat, [None] * len(vnames))[j]
                ok = self.cell_matches(cell, w, stat)
                if not ok:
                    return Mismatch('%s(): %s of column %s disagrees with the aggregate' % (case['kind'], stat, vnames[j]),
                                    cell, view(w), 'C14:%s:%s' % (case['kind'], stat), relation='spec')
        return None

    @staticmethod
    def cell_matches(cell, want, stat):
        if want == UNDEF:
            return cell is None or str(cell).lower() == 'nan'
        if want is None:
            return cell is None
        if cell is None:
            return False
        if stat == 'count':
            return str(cell) == str(want)
        if isinstance(want, str):
            return cell == want
        try:
            return same(float(cell), float(want))
        except ValueError:
            return False


PROP = C14()
