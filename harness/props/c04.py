"""C04 — Failed tasks are retried, errors surface, and the context stays usable."""
import itertools
import os
import threading

from core import CaseTimeout, Mismatch, Prop, canon


class CustomFault(RuntimeError):
    pass


EXC = {'ValueError': ValueError, 'KeyError': KeyError, 'Custom': CustomFault, 'StopIteration': StopIteration}
ACTIONS = ['collect', 'sum', 'reduce', 'count', 'foreach', 'fold', 'countByValue', 'toLocalIterator', 'groupByKey', 'zipWithIndex',
           'distinct', 'takeSample']
LAZY = ['take', 'first', 'isEmpty']


class C04(Prop):
    id = 'C04'
    extracted = True      # statement-level kernels regenerated from the current source (harness/extract_m.py, Extracted/EquivC04.lean)
    quick_cases = 3000
    thorough_cases = 20000
    quick_budget_s = 45
    rule = ('fault plans: 1..4 partitions, per partition 0..max_retries(+1) failing attempts, failure position before first '
            '/ mid / after last element, three exception classes, tasks that try to create datasets / run actions while '
            'the job runs; max_retries 1..4; executors default (in-process), ThreadPoolExecutor, multiprocessing ThreadPool; '
            'whole-partition actions and the lazy take/first/isEmpty; 1..3 jobs per history followed by a fault-free job on '
            'the same context. Fixed: ALL plans for <= 3 partitions, max_retries <= 3 (quick: <= 2 partitions x <= 3), default '
            'executor. Attempt logs, exception class and (partition, attempt) payload, results and the follow-up result are '
            'compared with the Lean retry/lock model. Non-trivial = at least one failing attempt; distinct = distinct case.')
    trusted = ('thread pools: which later partitions were already attempted when an earlier one exhausts its retries is '
               'scheduling-dependent; only their upper bound is checked',
               'max_retries = 0 (never stops retrying) and catch_exceptions=True are outside the property')

    def setup(self, ctx):
        from pysparkling import Context
        from pysparkling.exceptions import ContextIsLockedException
        self.Context = Context
        self.Locked = ContextIsLockedException

    def fixed_cases(self, tier):
        out = []
        maxp = 2 if tier == 'quick' else 3
        for mx in (1, 2, 3):
            for n in range(1, maxp + 1):
                for fails in itertools.product(range(0, mx + 1), repeat=n):
                    plan = [{'fails': f, 'v': 10 * (i + 1), 'pos': ['before', 'mid', 'after'][(i + f) % 3],
                             'exc': ['ValueError', 'KeyError', 'Custom'][(i + 2 * f) % 3]} for i, f in enumerate(fails)]
                    out.append({'max': mx, 'executor': 'default', 'jobs': [{'plan': plan, 'action': 'collect'}]})
        for pos in ('before', 'mid', 'after'):
            for f in (1, 2):
                out.append({'max': 2, 'executor': 'default', 'jobs': [{'plan': [
                    {'fails': 0, 'v': 5, 'pos': 'mid', 'exc': 'ValueError'}, {'fails': f, 'v': 9, 'pos': pos, 'exc': 'KeyError'}],
                    'action': 'collect', 'persist': True}]})
        for act in LAZY:
            out.append({'max': 3, 'executor': 'default',
                        'jobs': [{'plan': [{'fails': 0, 'v': 1, 'pos': 'before', 'exc': 'ValueError'},
                                           {'fails': 1, 'v': 2, 'pos': 'before', 'exc': 'KeyError'}], 'action': act, 'lazy': True}]})
        out.append({'max': 2, 'executor': 'default', 'jobs': [{'plan': [{'nested': 'parallelize'}], 'action': 'collect'}]})
        out.append({'max': 2, 'executor': 'default', 'jobs': [{'plan': [{'fails': 0, 'v': 1, 'pos': 'mid', 'exc': 'Custom'},
                                                                          {'nested': 'count'}], 'action': 'sum'}]})
        out.append({'max': 3, 'executor': 'default', 'jobs': [{'plan': [], 'action': 'first', 'lazy': True, 'empty': True}]})
        for ex in ('default', 'tpe', 'threadpool'):
            for f in (1, 2):
                out.append({'max': 2, 'executor': ex, 'jobs': [{'plan': [
                    {'fails': 0, 'v': 5, 'pos': 'before', 'exc': 'ValueError'}, {'fails': f, 'v': 9, 'pos': 'before', 'exc': 'StopIteration'},
                    {'fails': 0, 'v': 2, 'pos': 'before', 'exc': 'ValueError'}], 'action': 'collect'}]})
            out.append({'max': 3, 'executor': ex, 'jobs': [{'plan': [
                {'fails': 0, 'v': 5, 'pos': 'mid', 'exc': 'ValueError'}, {'fails': 1, 'v': 9, 'pos': 'mid', 'exc': 'KeyError'}],
                'action': 'takeSample'}]})
        for nested in ('parallelize', 'count', 'first', 'isEmpty', 'top', 'distinct', 'save'):
            out.append({'kind': 'serialized-nested', 'nested': nested, 'max': 2})
        out.append({'kind': 'late-sibling'})
        return out

    def gen(self, rng, tier):
        mx = rng.randint(1, 4)
        ex = rng.choice(['default'] * 5 + ['tpe', 'threadpool'])
        jobs = []
        for _ in range(rng.randint(1, 3)):
            n = rng.randint(1, 4)
            lazy = rng.random() < .15
            plan = []
            for i in range(n):
                if rng.random() < .08:
                    plan.append({'nested': rng.choice(['parallelize', 'count', 'map'])})
                else:
                    f = rng.choice([0, 0, 0, 1, 1, 2, mx - 1, mx, mx + 1])
                    plan.append({'fails': max(0, f), 'v': rng.randint(-5, 20), 'pos': 'before' if lazy else rng.choice(['before', 'mid', 'after']),
                                 'exc': rng.choice([e for e in EXC if not (lazy and e == 'StopIteration')])})
            jobs.append({'plan': plan, 'action': rng.choice(LAZY) if lazy else rng.choice(ACTIONS), 'lazy': lazy,
                         'persist': (not lazy) and rng.random() < .3})
        return {'max': mx, 'executor': ex, 'jobs': jobs}

    def nontrivial(self, case):
        if case.get('kind') in ('serialized-nested', 'late-sibling'):
            return True
        return any(p.get('fails', 1) > 0 for j in case['jobs'] for p in j['plan'])

    def shrink(self, case):
        if case.get('kind') in ('serialized-nested', 'late-sibling'):
            return
        jobs = case['jobs']
        if len(jobs) > 1:
            for i in range(len(jobs)):
                yield dict(case, jobs=jobs[:i] + jobs[i + 1:])
        for i, j in enumerate(jobs):
            for k in range(len(j['plan'])):
                if len(j['plan']) > 1:
                    yield dict(case, jobs=jobs[:i] + [dict(j, plan=j['plan'][:k] + j['plan'][k + 1:])] + jobs[i + 1:])
        if case['executor'] != 'default':
            yield dict(case, executor='default')

    # ---- real run -------------------------------------------------------------------------------
    def make_pool(self, kind):
        if kind == 'tpe':
            from concurrent.futures import ThreadPoolExecutor
            return ThreadPoolExecutor(3)
        if kind == 'threadpool':
            from multiprocessing.pool import ThreadPool
            return ThreadPool(3)
        return None

    def run_job(self, sc, job, follow=False):
        plan = job['plan']
        n = len(plan)
        if job.get('empty'):
            rdd = sc.parallelize([], 1)
            try:
                return {'result': {'done': rdd.first()}, 'attempts': []}
            except CaseTimeout:
                raise
            except BaseException as e:  # pylint: disable=broad-except
                return {'result': {'raised_any': type(e).__name__}, 'attempts': []}
        # partition p holds the data [v_p - 1, 1] (sum v_p, two elements) -> per-partition value v_p
        data = [[p.get('v', 0) - 1, 1] for p in plan]
        lock = threading.Lock()
        attempts = {}

        def faulty(i, it):
            if plan[i].get('exc') == 'StopIteration':
                return faulty_plain(i, it)
            return faulty_gen(i, it)

        def faulty_plain(i, it):
            # not a generator: a StopIteration leaving it (e.g. next() of an exhausted iterator in user code) is a task failure
            with lock:
                attempts[i] = attempts.get(i, 0) + 1
                att = attempts[i] - 1
            if att < plan[i]['fails']:
                raise StopIteration(i, att)
            return list(it)

        def faulty_gen(i, it):
            with lock:
                attempts[i] = attempts.get(i, 0) + 1
                att = attempts[i] - 1
            p = plan[i]
            if 'nested' in p:
                if p['nested'] == 'parallelize':
                    sc.parallelize([1, 2])
                elif p['nested'] == 'count':
                    base.count()
                else:
                    base.map(lambda x: x)
                yield 0
                return
            failing = att < p['fails']
            err = EXC[p['exc']]
            if failing and p['pos'] == 'before':
                raise err(i, att)
            k = 0
            for x in it:
                if failing and p['pos'] == 'mid' and k == 1:
                    raise err(i, att)
                yield x
                k += 1
            if failing and p['pos'] == 'after':
                raise err(i, att)

        base = sc.parallelize(list(range(n)), n).flatMap(lambda i: data[i]) if n > 1 else sc.parallelize(data[0], 1)
        rdd = base.mapPartitionsWithIndex(faulty)
        if job.get('persist'):
            rdd = rdd.persist()
        act = job['action']
        seen = []
        try:
            if act == 'collect':
                res = rdd.mapPartitions(lambda it: [sum(it)]).collect()
            elif act == 'sum':
                res = rdd.sum()
            elif act == 'reduce':
                res = rdd.reduce(lambda a, b: a + b)
            elif act == 'fold':
                res = rdd.fold(0, lambda a, b: a + b)
            elif act == 'count':
                res = rdd.count()
            elif act == 'foreach':
                rdd.foreach(seen.append)
                res = sum(seen) if not follow else sum(seen)
            elif act == 'countByValue':
                res = sum(k * c for k, c in rdd.countByValue().items())
            elif act == 'toLocalIterator':
                res = sum(rdd.toLocalIterator())
            elif act == 'groupByKey':       # a shuffle: the partitions are pulled through toLocalIterator
                res = sum(sum(vs) for _, vs in rdd.map(lambda x: (x % 2, x)).groupByKey().collect())
            elif act == 'zipWithIndex':
                res = sum(x for x, _ in rdd.zipWithIndex().collect())
            elif act == 'distinct':
                res = sorted(rdd.distinct().collect())
            elif act == 'takeSample':   # not one of the lazily evaluated actions: sizes and draws through whole-partition jobs
                res = sum(rdd.takeSample(False, 1000, 7))
            elif act == 'take':
                res = rdd.take(1000)
            elif act == 'first':
                res = rdd.first()
            elif act == 'isEmpty':
                res = rdd.isEmpty()
            else:
                raise ValueError(act)
            out = {'done': res}
            if job.get('persist'):
                # a later action on the persisted dataset must see every partition's complete data
                out['again'] = rdd.mapPartitions(lambda it: [sum(it)]).collect()
        except self.Locked:
            out = {'raised': 0}
        except tuple(EXC.values()) as e:
            out = {'raised': e.args[0] * 100 + e.args[1] + 1, 'cls': type(e).__name__,
                   'want_cls': EXC[plan[e.args[0]]['exc']].__name__}
        except RuntimeError as e:
            c = e.__cause__ or e.__context__
            if isinstance(c, StopIteration) and len(c.args) == 2:
                # a task's StopIteration reaches the caller as RuntimeError (PEP 479, as in PySpark), carrying the original
                out = {'raised': c.args[0] * 100 + c.args[1] + 1, 'cls': 'StopIteration', 'want_cls': 'StopIteration'}
            else:
                out = {'raised_any': type(e).__name__}
        except CaseTimeout:
            raise
        except BaseException as e:  # pylint: disable=broad-except
            out = {'raised_any': type(e).__name__}
        return {'result': out, 'attempts': [attempts.get(i, 0) for i in range(n)]}

    def run_serialized_nested(self, case, ctx):
        """a pool whose tasks receive PICKLED copies of function, dataset and context (serializer set): a task that creates
        a dataset or runs an action through the context it captured must still be refused"""
        import pickle

        import cloudpickle
        from concurrent.futures import ThreadPoolExecutor
        ctx.note('executor:tpe+cloudpickle')
        ctx.note('nested:' + case['nested'])
        pool = ThreadPoolExecutor(2)
        try:
            sc = self.Context(pool=pool, serializer=cloudpickle.dumps, deserializer=pickle.loads, max_retries=case['max'])
            base = sc.parallelize([1, 2, 3, 4], 2)
            kind = case['nested']
            save_dir = ctx.scratch

            def f(x):
                if kind == 'parallelize':
                    sc.parallelize([1, 2])
                elif kind == 'count':
                    base.count()
                elif kind == 'first':
                    base.first()
                elif kind == 'isEmpty':
                    base.isEmpty()
                elif kind == 'top':
                    base.top(1)
                elif kind == 'distinct':
                    base.distinct()
                elif kind == 'save':
                    base.saveAsTextFile(save_dir + '/nested-save-%d' % x)
                return x
            try:
                got = {'done': base.map(f).collect()}
            except self.Locked:
                got = 'refused'
            except CaseTimeout:
                raise
            except BaseException as e:  # pylint: disable=broad-except
                got = {'raised': type(e).__name__}
            try:
                follow = sc.parallelize([1, 2, 3], 2).map(lambda x: x + 1).collect()
            except CaseTimeout:
                raise
            except BaseException as e:  # pylint: disable=broad-except
                follow = {'raised': type(e).__name__}
        finally:
            pool.shutdown()
        if got != 'refused':
            return Mismatch('a task that %s through the (pickled copy of the) context was not refused with ContextIsLockedException'
                            % {'parallelize': 'creates a dataset', 'count': 'runs count()', 'first': 'runs first()',
                               'isEmpty': 'runs isEmpty()', 'top': 'runs top(1)', 'distinct': 'runs distinct()',
                               'save': 'runs saveAsTextFile()'}[kind],
                            got, 'ContextIsLockedException', 'C04:nested:serialized', relation='spec')
        if follow != [2, 3, 4]:
            return Mismatch('follow-up job after the refused one', follow, [2, 3, 4], 'C04:result:follow-up', relation='spec')
        return None

    def run_late_sibling(self, case, ctx):
        """a thread pool, one attempt per task: partition 0 fails, partition 1 is still inside its task when the driver
        receives the error; whatever partition 1 then tries to start on the context must be refused - it is a running task"""
        from concurrent.futures import ThreadPoolExecutor
        ctx.note('executor:tpe')
        ctx.note('late-sibling')
        pool = ThreadPoolExecutor(2)
        started, release, finished, outcome = threading.Event(), threading.Event(), threading.Event(), []
        try:
            sc = self.Context(pool=pool, max_retries=1)
            locked = self.Locked

            def f(i, it):
                if i == 0:
                    started.wait(5)              # the sibling is inside its task
                    raise ValueError(0, 0)
                started.set()
                release.wait(10)                 # ... and stays there until the driver has seen the job fail
                try:
                    outcome.append(['done', sc.parallelize([1, 2, 3]).count()])
                except locked:
                    outcome.append(['refused'])
                except BaseException as e:  # pylint: disable=broad-except
                    outcome.append(['raised', type(e).__name__])
                finished.set()
                return it
            try:
                sc.parallelize([0, 1], 2).mapPartitionsWithIndex(f).collect()
                first = 'done'
            except ValueError:
                first = 'raised'
            release.set()
            finished.wait(10)
            follow = sc.parallelize([1, 2, 3], 2).map(lambda x: x + 1).collect()
        finally:
            release.set()
            pool.shutdown(wait=True)
        if first != 'raised':
            return Mismatch('the failing partition\'s exception did not reach the caller', first, 'raised', 'C04:exception')
        if follow != [2, 3, 4]:
            return Mismatch('follow-up job after the failed one', follow, [2, 3, 4], 'C04:result:follow-up', relation='spec')
        if outcome != [['refused']]:
            return Mismatch('a task still running after its job has failed on a thread pool started a job on the context and was not '
                            'refused', outcome, [['refused']], 'C04:late-sibling-nested-job', relation='spec')
        return None

    def run_case(self, case, ctx):
        if case.get('kind') == 'late-sibling':
            return self.run_late_sibling(case, ctx)
        if case.get('kind') == 'serialized-nested':
            return self.run_serialized_nested(case, ctx)
        pool = self.make_pool(case['executor'])
        ctx.note('executor:' + case['executor'])
        ctx.note('max_retries:%d' % case['max'])
        try:
            sc = self.Context(pool=pool, max_retries=case['max']) if pool else self.Context(max_retries=case['max'])
            jobs = case['jobs'] + [{'plan': [{'fails': 0, 'v': 7, 'pos': 'before', 'exc': 'ValueError'},
                                              {'fails': 0, 'v': 8, 'pos': 'before', 'exc': 'ValueError'}], 'action': 'collect'}]
            impl = [self.run_job(sc, j) for j in jobs]
        finally:
            if pool is not None:
                (pool.shutdown if hasattr(pool, 'shutdown') else pool.terminate)()
        req = {'p': 'C04', 'max': case['max'], 'jobs': [
            {'plan': [({'nested': True} if 'nested' in p else {'fails': p['fails'], 'v': p['v']}) for p in j['plan']],
             'lazy': bool(j.get('lazy')), 'consume': (1 if j['action'] in ('first', 'isEmpty') else len(j['plan']))}
            for j in jobs]}
        model = ctx.driver.ask(req)['model']
        pooled = case['executor'] != 'default'
        for idx, (j, got, want) in enumerate(zip(jobs, impl, model)):
            last = idx == len(jobs) - 1
            tag = 'follow-up job' if last else 'job %d' % idx
            ctx.note('action:' + j['action'])
            w = want['result']
            g = got['result']
            if j.get('empty'):
                if 'raised_any' not in g:
                    return Mismatch('first() of an empty dataset did not raise', g, 'an exception', 'C04:empty-first')
                continue
            if 'raised_any' in g:
                return Mismatch('%s: unexpected exception class reached the caller' % tag, g, w, 'C04:foreign-exc')
            if isinstance(w, dict) and 'done' in w:
                ctx.note('outcome:done')
                vs = w['done']
                act = j['action']
                exp = {'collect': vs, 'sum': sum(vs), 'reduce': sum(vs), 'fold': sum(vs), 'count': 2 * len(vs),
                       'toLocalIterator': sum(vs), 'groupByKey': sum(vs), 'zipWithIndex': sum(vs), 'takeSample': sum(vs),
                       'distinct': sorted({x for v in vs for x in (v - 1, 1)}),
                       'foreach': None, 'countByValue': sum(vs), 'take': [x for v in vs for x in (v - 1, 1)],
                       'first': (vs[0] - 1) if vs else None, 'isEmpty': False}[act]
                if act == 'foreach':        # returns nothing; side effects of failed attempts are not "the result"
                    exp = g.get('done')
                again = g.pop('again', None)
                if again is not None and again != vs:
                    return Mismatch('%s: a second action on the persisted dataset does not see the complete partitions' % tag,
                                    again, vs, 'C04:persisted-after-retry')
                if g != {'done': exp}:
                    return Mismatch('%s (%s): result differs from the fault-free result' % (tag, act), g, {'done': exp},
                                    'C04:result' + (':follow-up' if last else ''))
                if got['attempts'] != want['attempts'] and not j.get('lazy'):
                    return Mismatch('%s: attempts per partition differ (each partition must be attempted fails+1 times)' % tag,
                                    got['attempts'], want['attempts'], 'C04:attempts')
            else:
                ctx.note('outcome:raised')
                code = w['raised']
                if pooled and not j.get('lazy'):
                    # any exhausted partition's last-attempt exception may arrive first
                    ok_codes = set()
                    for p, pl in enumerate(j['plan']):
                        if 'nested' in pl:
                            ok_codes.add(0)
                        elif pl['fails'] >= case['max']:
                            ok_codes.add(p * 100 + case['max'])
                    if g.get('raised') not in ok_codes:
                        return Mismatch('%s: caller did not receive an exhausted task\'s own last exception' % tag, g,
                                        sorted(ok_codes), 'C04:exception')
                    for p, pl in enumerate(j['plan']):
                        bound = case['max'] if ('nested' in pl or pl['fails'] >= case['max']) else pl['fails'] + 1
                        if got['attempts'][p] > bound:
                            return Mismatch('%s: partition %d attempted more often than allowed' % (tag, p), got['attempts'], bound,
                                            'C04:attempts')
                else:
                    if g.get('raised') != code:
                        return Mismatch('%s: caller did not receive the task\'s own (last attempt) exception' % tag, g, w,
                                        'C04:exception')
                    na = len(want['attempts'])
                    if got['attempts'][:na] != want['attempts'] or any(got['attempts'][na:]):
                        return Mismatch('%s: attempt counts differ (exactly max_retries attempts, nothing after)' % tag,
                                        got['attempts'], want['attempts'], 'C04:attempts')
                if g.get('cls') is not None and g['cls'] != g['want_cls']:
                    return Mismatch('%s: exception class changed' % tag, g['cls'], g['want_cls'], 'C04:exception-class')
        return None


PROP = C04()
