"""C15 — A DataFrame's schema, column list and rows always agree."""
import math

import sqlgen as G
from core import Mismatch, Prop, canon
from util import build_layout, exc, random_layout

AGG_FNS = ['count', 'countStar', 'sum', 'min', 'max', 'avg', 'first', 'last', 'countDistinct']
HOWS = ['inner', 'left', 'right', 'full', 'leftsemi', 'leftanti']
ROW_ONLY = ('filter', 'sort', 'limit', 'distinct', 'sample', 'repartition')


def agg_type(fn, t):
    if fn in ('count', 'countStar', 'countDistinct'):
        return 'int'
    if fn == 'avg':
        return 'dbl'
    return t


def agg_name(a):
    if a['alias'] is not None:
        return a['alias']
    c = a['col']
    return {'count': 'count(%s)', 'countStar': 'count(1)', 'sum': 'sum(%s)', 'min': 'min(%s)', 'max': 'max(%s)', 'avg': 'avg(%s)',
            'first': 'first(%s, false)', 'last': 'last(%s, false)', 'countDistinct': 'count(DISTINCT %s)'}[a['fn']].replace('%s', c)


def rnd(v):
    """canonical value for multiset comparison: floats to 9 significant digits, integral floats stay floats"""
    if isinstance(v, float):
        if math.isnan(v) or math.isinf(v):
            return repr(v)
        return 'f%.9g' % v
    if isinstance(v, dict) and 'd' in v:
        return 'f%.9g' % (v['d'][0] / v['d'][1])
    if isinstance(v, dict) and 'i' in v:
        return v['i']
    if isinstance(v, dict) and 's' in v:
        return 's' + v['s']
    if isinstance(v, str):
        return 's' + v
    return v


def rows_key(rows):
    return sorted(canon([rnd(v) for v in r]) for r in rows)


class Tracker:
    """generator-side bookkeeping of the current column names / types (only steers generation)"""

    def __init__(self, names, types, nrows):
        self.names, self.types, self.nrows = list(names), list(types), nrows

    def unique(self, want=None):
        return [n for n, t in zip(self.names, self.types) if self.names.count(n) == 1 and (want is None or t in want)]

    def expr_types(self):
        # ambiguous columns are never referenced from generated expressions
        return [t if self.names.count(n) == 1 else 'amb' for n, t in zip(self.names, self.types)]


class C15(Prop):
    id = 'C15'
    extracted = True      # schema / row comprehensions of rename, toDF, drop, union regenerated from the current source (Extracted/EquivC15.lean)
    quick_cases = 1500
    thorough_cases = 25000
    quick_budget_s = 75
    rule = ('createDataFrame over typed nullable tables (1..4 columns, 0..5 rows, 1..3 partitions) or range(start, end, step, '
            'numPartitions) followed by chains of 1..4 operations out of select (with "*", repeated columns, aliased and '
            'un-aliased generated-name expressions), withColumn (new / existing name), filter, drop (present / absent), '
            'withColumnRenamed (also ONTO an existing name, creating duplicates), join (6 types, 1..2 keys, other columns sharing '
            'names across the sides, self joins), crossJoin, union, groupBy/rollup/cube.agg (9 aggregates, aliased or with '
            'generated names), pivot (given / data-derived values, 1..2 aggregates), sort, limit, distinct, sample, repartition; '
            'a tenth of the references are deliberately missing or ambiguous. After EVERY step the property is checked directly '
            'on the real DataFrame (columns = schema names = Row.__fields__ of every row, len(row), count(), rdd rows) and the '
            'step is replayed in the Lean model from the real previous frame (names exactly, rows as a multiset, refusal against '
            'exception). Non-trivial = non-empty table and a chain of >= 2 operations; distinct = distinct canonical case.')
    trusted = ('row VALUES and generated NAMES are compared with the model as a tie of the model to the code; a disagreement there that '
               'leaves names / schema / rows mutually consistent is reported as a broken correspondence (no-failing-input-found), not as a '
               'counterexample to C15',
               'floats are compared to 9 significant digits (avg)')

    def setup(self, ctx):
        from pysparkling import Context
        from pysparkling.sql.session import SparkSession
        self.sc = Context()
        self.spark = SparkSession(self.sc)

    # ---- generation -----------------------------------------------------------------------------
    def gen_other(self, rng, tr, share):
        """a second table; `share` = names (with types) it must contain"""
        names = [n for n, _ in share]
        types = [t for _, t in share]
        for i in range(rng.randint(0, 2)):
            n = rng.choice(['v', 'w', 'o%d' % i] + tr.names)
            if n in names:
                continue
            names.append(n)
            types.append(rng.choice(G.TYPES))
        perm = list(range(len(names)))
        rng.shuffle(perm)
        names = [names[i] for i in perm]
        types = [types[i] for i in perm]
        rows = []
        for _ in range(rng.randint(0, 4)):
            rows.append([G.sv(self.small(rng, t) if n in dict(share) else G.gen_val(rng, t)) for n, t in zip(names, types)])
        return {'names': names, 'types': types, 'rows': rows, 'parts': rng.randint(1, 2)}

    @staticmethod
    def small(rng, t):
        if t == 'int':
            return rng.choice([0, 1, 1, 2, None])
        if t == 'str':
            return rng.choice(['a', 'b', 'b', None])
        if t == 'bool':
            return rng.choice([True, False, None])
        return rng.choice([0.5, 1.0, 1.0, None])

    def gen_aggs(self, rng, tr, n):
        aggs, names, types = [], [], []
        for _ in range(n):
            fn = rng.choice(AGG_FNS)
            want = ('int', 'dbl') if fn in ('sum', 'avg') else None
            cols = tr.unique(want)
            if fn == 'countStar' or not cols:
                fn, col, t = 'countStar', '', 'int'
            else:
                col = rng.choice(cols)
                t = tr.types[tr.names.index(col)]
            a = {'fn': fn, 'col': col, 'alias': rng.choice([None, None, 't', 'k0', 'n%d' % len(aggs)])}
            aggs.append(a)
            names.append(agg_name(a))
            types.append(agg_type(fn, t))
        return aggs, names, types

    def gen_op(self, rng, tr):
        names, types = tr.names, tr.types
        uniq = tr.unique()
        bad = rng.random() < .05         # deliberately missing / ambiguous reference
        amb = sorted(n for n in set(names) if names.count(n) > 1)

        def ref(pool=None):
            if bad:
                # a missing name, an ambiguous one, or an existing name in another capitalisation (names are case-sensitive here:
                # such a reference is refused, it must not half-resolve)
                other_case = [n.swapcase() for n in names if n.swapcase() != n and n.swapcase() not in names]
                return rng.choice(amb + ['nope'] + other_case[:2])
            pool = uniq if pool is None else pool
            return rng.choice(pool) if pool else 'nope'
        kinds = ['select', 'select', 'withColumn', 'filter', 'drop', 'dropRef', 'rename', 'rename', 'join', 'join', 'joinOn', 'crossJoin', 'union', 'agg', 'agg',
                 'pivot', 'pivot', 'pivot', 'sort', 'limit', 'distinct', 'sample', 'repartition']
        if tr.nrows > 25:
            kinds = [k for k in kinds if k not in ('join', 'joinOn', 'crossJoin', 'union')]
        kind = rng.choice(kinds)
        et = tr.expr_types()
        if kind == 'select':
            items, nn, nt = [], [], []
            for _ in range(rng.randint(1, 3)):
                r = rng.random()
                if r < .2:
                    items.append({'k': 'star'})
                    nn += names
                    nt += types
                elif r < .55:
                    c = ref()
                    items.append({'k': 'col', 'c': c})
                    nn.append(c)
                    nt.append(types[names.index(c)] if c in names else 'int')
                else:
                    t = rng.choice([x for x in et if x != 'amb'] + G.TYPES)
                    e = G.gen_expr(rng, et, t, rng.choice([0, 1, 1, 2]))
                    alias = rng.choice([None, 'e%d' % len(items), rng.choice(names or ['e'])])
                    items.append({'k': 'expr', 'alias': alias, 'e': e})
                    nn.append(alias if alias is not None else '?gen')
                    nt.append(t)
            tr.names, tr.types = nn, nt
            return {'op': 'select', 'items': items}
        if kind == 'withColumn':
            t = rng.choice(G.TYPES)
            name = rng.choice(names + ['n', 'm'])
            e = G.gen_expr(rng, et, t, rng.choice([0, 1, 2]))
            if name in names:
                tr.types = [t if n == name else x for n, x in zip(names, types)]
            else:
                tr.names, tr.types = names + [name], types + [t]
            return {'op': 'withColumn', 'name': name, 'e': e}
        if kind == 'filter':
            return {'op': 'filter', 'e': G.gen_expr(rng, et, 'bool', rng.choice([1, 2]))}
        if kind == 'joinOn':
            # a join on a Column condition over the columns of both sides (all names distinct, so that every reference is
            # unambiguous): all six join types
            if len(set(names)) != len(names) or bad:
                return self.gen_op(rng, tr)
            other = self.gen_other(rng, tr, [])
            if not other['names']:
                other = dict(other, names=['w'], types=['int'], rows=[[G.sv(rng.choice([0, 1, 2, None]))] for _ in range(rng.randint(0, 3))])
            fresh = []
            for j, n in enumerate(other['names']):
                n2 = '%s_r%d' % (n, j)
                while n2 in names or n2 in fresh:
                    n2 += 'x'
                fresh.append(n2)
            other = dict(other, names=fresh)
            how = rng.choice(HOWS)
            both_t = list(types) + list(other['types'])
            if rng.random() < .5 and any(t == 'int' for t in types) and any(t == 'int' for t in other['types']):
                li = rng.choice([i for i, t in enumerate(types) if t == 'int'])
                ri = len(types) + rng.choice([i for i, t in enumerate(other['types']) if t == 'int'])
                cond = {'op': rng.choice(['eq', 'eq', 'lt', 'ge']), 'a': {'op': 'col', 'i': li}, 'b': {'op': 'col', 'i': ri}}
            else:
                cond = G.gen_expr(rng, both_t, 'bool', rng.choice([1, 2]))
            if how not in ('leftsemi', 'leftanti'):
                tr.names, tr.types = list(names) + list(other['names']), both_t
            tr.nrows = tr.nrows * max(1, len(other['rows']))
            return {'op': 'joinOn', 'how': how, 'cond': cond, 'other': other}
        if kind == 'drop':
            # (also a name that several columns carry: all of them go)
            cols = [rng.choice(names + uniq + ['zz']) for _ in range(rng.randint(1, 2))] if names else ['zz']
            keep = [i for i, n in enumerate(names) if n not in cols]
            tr.names, tr.types = [names[i] for i in keep], [types[i] for i in keep]
            return {'op': 'drop', 'cols': cols}
        if kind == 'dropRef':
            # drop through a bound column reference (df[i]): exactly that ONE column goes, also when its name occurs twice
            if not names:
                return {'op': 'limit', 'n': 2}
            i = rng.randrange(len(names))
            tr.names, tr.types = names[:i] + names[i + 1:], types[:i] + types[i + 1:]
            return {'op': 'dropRef', 'pos': i}
        if kind == 'rename':
            old = rng.choice(names + ['zz'])
            new = rng.choice(names + ['r', 'q'])
            tr.names = [new if n == old else n for n in names]
            return {'op': 'rename', 'old': old, 'new': new}
        if kind in ('join', 'crossJoin', 'union'):
            if kind == 'union':
                r_ = rng.random()
                onames = [rng.choice(['a', 'b', n]) for n in names] if r_ < .25 else list(names)
                if .25 <= r_ < .55:
                    rng.shuffle(onames)      # same names in another order: union is positional
                other = {'names': onames, 'types': list(types),
                         'rows': [[G.sv(G.gen_val(rng, t)) for t in types] for _ in range(rng.randint(0, 3))], 'parts': rng.randint(1, 2)}
                if rng.random() < .07:
                    other['names'], other['types'] = other['names'] + ['x'], other['types'] + ['int']
                    other['rows'] = [r + [None] for r in other['rows']]
                tr.nrows += len(other['rows'])
                return {'op': 'union', 'other': other}
            if kind == 'crossJoin':
                other = self.gen_other(rng, tr, [])
                if not other['names']:
                    other['names'], other['types'], other['rows'] = ['v'], ['int'], [[G.sv(1)]]
                tr.names, tr.types = names + other['names'], types + other['types']
                tr.nrows *= max(1, len(other['rows']))
                return {'op': 'crossJoin', 'other': other}
            keyable = tr.unique(('int', 'str', 'bool'))
            if not keyable:
                on = ['nope']
                share = []
            else:
                on = rng.sample(keyable, min(len(keyable), rng.choice([1, 1, 2])))
                share = [(c, types[names.index(c)]) for c in on]
            if bad:
                on = on + [rng.choice(amb + ['nope'])]
            if rng.random() < .2 and not bad:
                other = 'self'
                on_ok = on
                onames, otypes, orows = names, types, tr.nrows
            else:
                other = self.gen_other(rng, tr, share)
                onames, otypes, orows = other['names'], other['types'], len(other['rows'])
                on_ok = on
            how = rng.choice(HOWS)
            rest_l = [(n, t) for n, t in zip(names, types) if n not in on_ok]
            rest_r = [] if how in ('leftsemi', 'leftanti') else [(n, t) for n, t in zip(onames, otypes) if n not in on_ok]
            tr.names = list(on_ok) + [n for n, _ in rest_l] + [n for n, _ in rest_r]
            tr.types = [dict(zip(names, types)).get(c, 'int') for c in on_ok] + [t for _, t in rest_l] + [t for _, t in rest_r]
            tr.nrows = tr.nrows * max(1, orows)
            return {'op': 'join', 'how': how, 'on': on, 'other': other}
        if kind in ('agg', 'pivot'):
            keyable = tr.unique(('int', 'str', 'bool'))
            keys = rng.sample(keyable, min(len(keyable), rng.choice([0, 1, 1, 2])))
            if bad:
                keys = keys + [rng.choice(amb + ['nope'])]
            ktypes = [dict(zip(names, types)).get(k, 'int') for k in keys]
            if kind == 'agg':
                aggs, an, at = self.gen_aggs(rng, tr, rng.choice([1, 1, 2, 3]))
                mode = rng.choice(['groupby', 'groupby', 'rollup', 'cube']) if keys else 'groupby'
                tr.names, tr.types = keys + an, ktypes + at
                return {'op': 'agg', 'mode': mode, 'keys': keys, 'aggs': aggs}
            pcols = [c for c in tr.unique(('str',)) if c not in keys]
            if not pcols:
                return self.gen_op(rng, tr)
            pcol = rng.choice(pcols)
            aggs, an, at = self.gen_aggs(rng, tr, rng.choice([1, 1, 2]))
            values = rng.choice([None, None, ['a'], ['b', 'a', 'zz'], [], ['a', None], [None]])
            pv = values if values is not None else ['?p']
            if len(aggs) == 1:
                pn, pt = [str(p) for p in pv], [at[0]] * len(pv)
            else:
                pn = ['%s_%s' % (p, n) for p in pv for n in an]
                pt = [t for _ in pv for t in at]
            tr.names, tr.types = keys + pn, ktypes + pt
            if values is None:
                tr.names = keys + ['?auto']       # unknown until run: later references use fresh picks only
                tr.types = ktypes + ['int']
            return {'op': 'pivot', 'keys': keys, 'pcol': pcol, 'values': values, 'aggs': aggs}
        if kind == 'sort':
            ks = [{'c': ref(), 'asc': rng.random() < .6} for _ in range(rng.randint(1, 2))]
            return {'op': 'sort', 'keys': ks}
        if kind == 'limit':
            return {'op': 'limit', 'n': rng.choice([0, 1, 2, 3, 10])}
        if kind == 'distinct':
            return {'op': 'distinct'}
        if kind == 'sample':
            return {'op': 'sample', 'fraction': rng.choice([0.0, 0.3, 0.5, 0.8, 1.0]), 'seed': rng.choice([None, rng.randint(0, 50)]),
                    'spell': rng.choice(['full', 'full', 'frac', 'kw'])}
        return {'op': 'repartition', 'n': rng.randint(1, 3)}

    def gen(self, rng, tier):
        if rng.random() < .1:
            start, step = rng.randint(-3, 3), rng.choice([1, 1, 2, 3])
            stop = start + rng.randint(-2, 7)     # empty ranges included (stop <= start): an empty frame with the column id
            src = {'range': [start, stop, step], 'parts': rng.randint(1, 3)}
            tr = Tracker(['id'], ['int'], max(0, stop - start))
        else:
            names, types, rows = G.gen_table(rng, nrows=rng.choice([0, 1, 2, 3, 4, 5]))
            names = [rng.choice(['k', 's', 'v', 'c%d' % i]) for i in range(len(names))]
            names = list(dict.fromkeys(names))
            types = types[:len(names)]
            rows = [[self.small(rng, t) if rng.random() < .6 else v for v, t in zip(r, types)] for r in rows]
            src = {'names': names, 'types': types, 'rows': [[G.sv(v) for v in r[:len(names)]] for r in rows], 'parts': rng.randint(1, 3)}
            src = self.pick_via(rng, src)
            names, types = src['names'], src['types']
            tr = Tracker(names, types, len(rows))
        ops = []
        for _ in range(rng.choice([1, 2, 2, 3, 3, 4])):
            if '?auto' in tr.names or '?gen' in tr.names or '?p' in tr.names:
                # names only known at run time: continue with operations that need no column reference
                ops.append(rng.choice([{'op': 'distinct'}, {'op': 'limit', 'n': 2}, {'op': 'repartition', 'n': 2},
                                       {'op': 'sample', 'fraction': .5, 'seed': 3}, {'op': 'select', 'items': [{'k': 'star'}]}]))
                continue
            ops.append(self.gen_op(rng, tr))
        return {'src': src, 'ops': ops}

    @staticmethod
    def pick_via(rng, src):
        """other ways of handing the same table to createDataFrame: a list of Row objects with an inferred schema - all with
        the same fields ('rows') or each lacking some of the fields whose value is null ('hetero': the schema is the union
        of the rows' fields in order of first appearance, Row(**kw) sorting its fields by name) - or tuples with a list of
        column names ('names'). The table is stored in the column order the resulting frame must have."""
        names, rows = src['names'], src['rows']
        if not rows or rng.random() > .3:
            return src
        via = rng.choice(['rows', 'hetero', 'hetero', 'names', 'ragged'])
        if via == 'ragged':
            # tuples of differing lengths (some lack trailing values): either no frame is obtained (an exception) or every
            # Row has as many values as the frame has columns
            if len(names) < 2 or len(rows) < 2 or any(all(r[j] is None for r in rows) for j in range(len(names))):
                return src
            short = [rng.choice([0, 0, 1]) for _ in rows]
            short[rng.randrange(len(rows))] = 1
            if all(short):
                short[0] = 0
            recs = rng.choice(['tuples', 'tuples', 'rowclass', 'rows'])
            if recs != 'tuples' and rng.random() < .4:
                short[rng.randrange(len(rows))] = -1           # one record with a value MORE than the others (and field names of its own)
            return dict(src, via='ragged', short=short, parts=1, withnames=rng.random() < .5, asrdd=rng.random() < .4, records=recs)
        if via == 'names':
            if any(all(r[j] is None for r in rows) for j in range(len(names))):
                return src                      # a column without any value: its type cannot be inferred (no frame is obtained)
            # tuples with a list of column names - or records that carry field names of their own (Row objects), which the list
            # of names replaces position by position
            recs = rng.choice(['tuples', 'tuples', 'rows', 'rows-perm'])
            if recs == 'rows-perm' and (len(names) < 2 or len(set(names)) != len(names) or not all(n.isidentifier() for n in names)):
                recs = 'rows'
            return dict(src, via='names', records=recs, parts=1)
        if via == 'rows' and rng.random() < .4:
            return dict(src, via='rows', explicit=True, parts=1)
        absent = [[j for j, v in enumerate(r) if v is None and via == 'hetero' and rng.random() < .7] for r in rows]
        absent = [ab if len(ab) < len(names) else ab[1:] for ab in absent]      # a Row keeps at least one field
        order = []
        for r, ab in zip(rows, absent):
            for n in sorted(n for j, n in enumerate(names) if j not in ab):
                if n not in order:
                    order.append(n)
        if len(order) != len(names) or any(all(r[j] is None for r in rows) for j in range(len(names))):
            return src
        perm = [names.index(n) for n in order]
        return {'names': order, 'types': [src['types'][j] for j in perm], 'rows': [[r[j] for j in perm] for r in rows],
                'parts': 1, 'via': via, 'absent': [[perm.index(j) for j in ab] for ab in absent]}

    def fixed_cases(self, tier):
        S = G.sv
        t3 = {'names': ['k', 's', 'v'], 'types': ['int', 'str', 'dbl'],
              'rows': [[S(1), S('x'), S(1.5)], [S(2), S('y'), None], [S(1), S('z'), S(2.5)]], 'parts': 2}
        t2 = {'names': ['k', 's'], 'types': ['int', 'str'], 'rows': [[S(1), S('p')], [S(3), S('q')]], 'parts': 1}
        col = lambda i: {'op': 'col', 'i': i}  # noqa: E731
        out = [
            {'src': t3, 'ops': [{'op': 'select', 'items': [{'k': 'col', 'c': 'k'}, {'k': 'col', 'c': 'k'}]}]},
            {'src': t3, 'ops': [{'op': 'select', 'items': [{'k': 'star'}, {'k': 'col', 'c': 'k'}]}, {'op': 'distinct'}]},
            {'src': t3, 'ops': [{'op': 'join', 'how': 'inner', 'on': ['k'], 'other': 'self'}, {'op': 'rename', 'old': 'v', 'new': 'w'}]},
            {'src': t3, 'ops': [{'op': 'rename', 'old': 'k', 'new': 's'}, {'op': 'rename', 'old': 'v', 'new': 'w'},
                                {'op': 'select', 'items': [{'k': 'star'}, {'k': 'col', 'c': 'w'}]}, {'op': 'distinct'}]},
            {'src': t3, 'ops': [{'op': 'rename', 'old': 'k', 'new': 's'}, {'op': 'withColumn', 'name': 'n',
                                                                           'e': {'op': 'add', 'a': col(2), 'b': {'op': 'lit', 'v': S(1)}}}]},
            {'src': t3, 'ops': [{'op': 'select', 'items': [{'k': 'expr', 'alias': None, 'e': {'op': 'add', 'a': col(0), 'b': {'op': 'lit', 'v': S(1.5)}}},
                                                           {'k': 'expr', 'alias': None, 'e': {'op': 'between', 'e': col(0), 'lo': {'op': 'lit', 'v': S(1)}, 'hi': col(2)}}]}]},
            {'src': t3, 'ops': [{'op': 'agg', 'mode': 'cube', 'keys': ['k', 's'], 'aggs': [{'fn': 'sum', 'col': 'v', 'alias': None},
                                                                                            {'fn': 'countStar', 'col': '', 'alias': 'k'}]}]},
            {'src': t3, 'ops': [{'op': 'pivot', 'keys': ['k'], 'pcol': 's', 'values': None, 'aggs': [{'fn': 'sum', 'col': 'v', 'alias': None}]},
                                {'op': 'distinct'}]},
            {'src': t3, 'ops': [{'op': 'pivot', 'keys': ['k'], 'pcol': 's', 'values': ['x', 'q'],
                                 'aggs': [{'fn': 'sum', 'col': 'v', 'alias': 't'}, {'fn': 'count', 'col': 'v', 'alias': None}]}]},
            {'src': t3, 'ops': [{'op': 'union', 'other': dict(t3, names=['a', 'b', 'c'])}, {'op': 'sort', 'keys': [{'c': 'v', 'asc': False}]},
                                {'op': 'limit', 'n': 4}]},
            {'src': t3, 'ops': [{'op': 'union', 'other': dict(t3, names=['v', 's', 'k'])}, {'op': 'distinct'}]},
            {'src': dict(t3, rows=t3['rows'] * 6), 'ops': [{'op': 'sample', 'fraction': .5, 'seed': None}, {'op': 'limit', 'n': 30}]},
            {'src': t3, 'ops': [{'op': 'crossJoin', 'other': t2}, {'op': 'dropRef', 'pos': 0}, {'op': 'distinct'}]},
            {'src': t3, 'ops': [{'op': 'rename', 'old': 'k', 'new': 's'}, {'op': 'dropRef', 'pos': 1}]},
            {'src': {'range': [1, 7, 2], 'parts': 3}, 'ops': [{'op': 'withColumn', 'name': 'id', 'e': {'op': 'mul', 'a': col(0), 'b': col(0)}}]},
        ]
        het = {'names': ['a', 'b', 'c'], 'types': ['int', 'str', 'dbl'], 'rows': [[S(1), None, None], [None, S('x'), S(2.5)]], 'parts': 1,
               'via': 'hetero', 'absent': [[2], [0]]}
        het2 = {'names': ['b', 'a'], 'types': ['str', 'int'], 'rows': [[S('y'), None], [S('x'), S(1)]], 'parts': 1, 'via': 'hetero',
                'absent': [[1], []]}
        for srcx in (het, het2, dict(t3, via='rows', parts=1, names=['k', 's', 'v']), dict(t2, via='names')):
            out.append({'src': srcx, 'ops': [{'op': 'distinct'}]})
            out.append({'src': srcx, 'ops': [{'op': 'limit', 'n': 5}, {'op': 'select', 'items': [{'k': 'star'}]}]})
        for how in HOWS:
            out.append({'src': t3, 'ops': [{'op': 'join', 'how': how, 'on': ['k'], 'other': t2}]})
            out.append({'src': t3, 'ops': [{'op': 'join', 'how': how, 'on': ['k', 's'], 'other': t2}, {'op': 'crossJoin', 'other': t2}]})
        return out

    def nontrivial(self, case):
        src = case['src']
        return len(case['ops']) >= 2 and ('range' in src or bool(src['rows']))

    def shrink(self, case):
        ops = case['ops']
        for i in range(len(ops) - 1, -1, -1):
            yield dict(case, ops=ops[:i] + ops[i + 1:])
        if len(ops) > 1:
            yield dict(case, ops=ops[:-1])
        src = case['src']
        if 'rows' in src:
            for j in range(len(src['rows'])):
                yield dict(case, src=dict(src, rows=src['rows'][:j] + src['rows'][j + 1:]))

    # ---- execution ------------------------------------------------------------------------------
    def make_df(self, t):
        rows = [tuple(G.sv_back(v) for v in r) for r in t['rows']]
        if t.get('via') in ('rows', 'hetero'):
            from pysparkling.sql.types import Row
            absent = t.get('absent') or [[] for _ in rows]
            if t.get('explicit'):
                # keyword-built Rows (fields sorted by name), each with one field more than the explicit schema has
                return self.spark.createDataFrame([Row(zz_extra=7, **dict(zip(t['names'], r))) for r in rows],
                                                  G.spark_schema(t['names'], t['types']))
            return self.spark.createDataFrame([Row(**{n: v for j, (n, v) in enumerate(zip(t['names'], r)) if j not in ab})
                                               for r, ab in zip(rows, absent)])
        if t.get('via') == 'names':
            if t.get('records') == 'rows':
                from pysparkling.sql.types import Row
                own = ['f%02d' % j for j in range(len(t['names']))]      # (sorted order = positional order)
                return self.spark.createDataFrame([Row(**dict(zip(own, r))) for r in rows], list(t['names']))
            if t.get('records') == 'rows-perm':
                # keyword-built Rows (which hold their values in the sorted order of the names) and the list of the same names in
                # the order the columns are wanted in: every value must arrive under its own name, typed as that column
                from pysparkling.sql.types import Row
                return self.spark.createDataFrame([Row(**dict(zip(t['names'], r))) for r in rows], list(t['names']))
            return self.spark.createDataFrame([tuple(r) for r in rows], list(t['names']))
        if t.get('via') == 'ragged':
            data = [tuple(r[:len(r) - k]) if k >= 0 else tuple(r) + (7,) for r, k in zip(rows, t['short'])]
            if t.get('records') in ('rowclass', 'rows'):
                from pysparkling.sql.types import Row
                # records that are Row objects: of a Row class with the table's field names (fewer values are legal there), with
                # other field names when wider; or Rows built from positional values only
                named = t['records'] == 'rowclass'
                P = Row(*t['names'])
                W = Row(*(['x%d' % j for j in range(len(t['names']) + 1)]))
                data = [(W(*d) if len(d) > len(t['names']) else P(*d)) if named else Row(*d) for d in data]
            if t.get('asrdd'):
                data = self.sc.parallelize(data, 1)
            return self.spark.createDataFrame(data, list(t['names'])) if t.get('withnames') else self.spark.createDataFrame(data)
        n = max(1, t.get('parts', 1))
        cuts = [len(rows) * i // n for i in range(n + 1)]
        layout = [rows[cuts[i]:cuts[i + 1]] for i in range(n)]
        return self.spark.createDataFrame(build_layout(self.sc, layout), G.spark_schema(t['names'], t['types']))

    def observe(self, df):
        rows = df.collect()
        return {'columns': list(df.columns), 'schema': list(df.schema.names), 'fields': [list(r.__fields__) for r in rows],
                'lens': [len(r) for r in rows], 'count': df.count(), 'rows': [[G.sv(v) for v in r] for r in rows],
                'rdd': [[G.sv(v) for v in r] for r in df.rdd.collect()]}

    @staticmethod
    def id_duplicates(df):
        """do two columns of the frame carry the same internal field id (same source field selected twice, self join)?"""
        try:
            ids = [getattr(f, 'id', None) for f in df._jdf.bound_schema.fields]      # pylint: disable=protected-access
        except Exception:  # pylint: disable=broad-except
            return False
        ids = [i for i in ids if i is not None]
        return len(set(ids)) < len(ids)

    @staticmethod
    def direct(o):
        """the property itself, on what the real DataFrame shows"""
        cols = o['columns']
        if o['schema'] != cols:
            return 'df.columns differs from the schema field names'
        if any(f != cols for f in o['fields']):
            return 'a collected Row\'s field names differ from df.columns'
        if any(n != len(cols) for n in o['lens']):
            return 'a collected Row does not have one value per column'
        if o['count'] != len(o['rows']):
            return 'count() differs from the number of collected rows'
        if rows_key(o['rdd']) != rows_key(o['rows']):
            return 'df.rdd holds different rows than collect()'
        return None

    def apply_impl(self, df, op, src_df):
        from pysparkling.sql import functions as F
        k = op['op']
        names = list(df.columns)
        if k == 'select':
            items = []
            for it in op['items']:
                if it['k'] == 'star':
                    items.append('*')
                elif it['k'] == 'col':
                    items.append(it['c'])
                else:
                    c = G.to_column(it['e'], names, self._colcache)
                    items.append(c.alias(it['alias']) if it['alias'] is not None else c)
            return df.select(*items)
        if k == 'withColumn':
            return df.withColumn(op['name'], G.to_column(op['e'], names, self._colcache))
        if k == 'filter':
            return df.filter(G.to_column(op['e'], names, self._colcache))
        if k == 'drop':
            return df.drop(*op['cols'])
        if k == 'dropRef':
            return df.drop(df[op['pos']])
        if k == 'rename':
            return df.withColumnRenamed(op['old'], op['new'])
        if k == 'join':
            other = df if op['other'] == 'self' else self.make_df(op['other'])
            return df.join(other, on=list(op['on']), how=op['how'])
        if k == 'crossJoin':
            return df.crossJoin(self.make_df(op['other']))
        if k == 'joinOn':
            return df.join(self.make_df(op['other']), G.to_column(op['cond'], names + list(op['other']['names']), self._colcache), op['how'])
        if k == 'union':
            return df.union(self.make_df(op['other']))
        if k in ('agg', 'pivot'):
            cols = []
            for a in op['aggs']:
                fn = a['fn']
                c = F.count(F.lit(1)) if fn == 'countStar' else getattr(F, fn)(a['col'])
                cols.append(c.alias(a['alias']) if a['alias'] is not None else c)
            if k == 'agg':
                gd = {'groupby': df.groupBy, 'rollup': df.rollup, 'cube': df.cube}[op['mode']](*op['keys'])
            else:
                gd = df.groupBy(*op['keys'])
                gd = gd.pivot(op['pcol']) if op['values'] is None else gd.pivot(op['pcol'], list(op['values']))
            return gd.agg(*cols)
        if k == 'sort':
            return df.sort(*[F.col(x['c']).asc() if x['asc'] else F.col(x['c']).desc() for x in op['keys']])
        if k == 'limit':
            return df.limit(op['n'])
        if k == 'distinct':
            return df.distinct()
        if k == 'sample':
            sp = op.get('spell', 'full')       # the documented spellings: sample(withReplacement, fraction, seed), sample(fraction[, seed]), keywords
            if op.get('seed') is None:
                if sp == 'frac':
                    return df.sample(float(op['fraction']))
                if sp == 'kw':
                    return df.sample(fraction=float(op['fraction']))
                return df.sample(False, float(op['fraction']))       # unseeded: the frame must still be ONE sample
            if sp == 'frac':
                return df.sample(float(op['fraction']), op['seed'])
            if sp == 'kw':
                return df.sample(fraction=float(op['fraction']), seed=op['seed'])
            return df.sample(False, float(op['fraction']), op['seed'])
        if k == 'repartition':
            return df.repartition(op['n'])
        raise KeyError(k)

    def run_case(self, case, ctx):
        src = case['src']
        self._colcache = {}          # one Column object per column name for the whole chain
        ctx.note('len:%d' % len(case['ops']))
        try:
            if 'range' in src:
                a, b, s = src['range']
                df = self.spark.range(a, b, s, src['parts'])
            else:
                df = self.make_df(src)
            prev = self.observe(df)
        except Exception as e:  # pylint: disable=broad-except
            if src.get('via') == 'ragged':
                ctx.note('source:ragged:refused')      # no DataFrame obtained
                return None
            return Mismatch('creating the source DataFrame raised', exc(e), None, 'C15:source:exc')
        if src.get('via') == 'ragged':
            bad = self.direct(prev)
            ctx.note('source:ragged:accepted')
            return Mismatch('source (tuples of differing lengths): ' + bad, prev, None, 'C15:direct:source', relation='spec') if bad else None
        bad = self.direct(prev)
        if bad:
            return Mismatch('source: ' + bad, prev, None, 'C15:direct:source', relation='spec')
        if 'range' in src:
            r = ctx.driver.ask({'p': 'C15', 'range': src['range']})
            if r['names'] != prev['columns'] or rows_key(r['rows']) != rows_key(prev['rows']):
                return Mismatch('range(): rows / names differ from the model', {'columns': prev['columns'], 'rows': prev['rows']},
                                r, 'C15:model:range', relation='model-only')
        if src.get('via') == 'rows' and src.get('explicit'):
            ctx.note('source:rows+schema')
            if prev['columns'] != list(src['names']) or rows_key(prev['rows']) != rows_key(src['rows']):
                return Mismatch('createDataFrame(keyword-built Rows with one more field, explicit schema): columns / rows differ '
                                'from the table (values placed by field name)', {'columns': prev['columns'], 'rows': prev['rows']},
                                {'columns': src['names'], 'rows': src['rows']}, 'C15:source:rows+schema', relation='spec')
        elif src.get('via') in ('rows', 'hetero'):
            ctx.note('source:' + src['via'])
            absent = src.get('absent') or [[] for _ in src['rows']]
            # every Row in its own field order (Row(**kw) sorts its fields by name) with the fields it really has
            rows = [sorted([n, v] for j, (n, v) in enumerate(zip(src['names'], r)) if j not in ab) for r, ab in zip(src['rows'], absent)]
            r = ctx.driver.ask({'p': 'C15', 'fromRows': rows})
            if r['names'] != prev['columns'] or rows_key(r['rows']) != rows_key(prev['rows']):
                return Mismatch('createDataFrame over Row objects: columns / rows differ from the model (fields in order of first '
                                'appearance, values placed by name, missing fields null)', {'columns': prev['columns'], 'rows': prev['rows']},
                                r, 'C15:model:fromRows', relation='model-only')
        elif src.get('via'):
            ctx.note('source:' + src['via'] + (':' + src['records'] if src.get('records') else ''))
            if src.get('records') == 'rows-perm':
                if prev['columns'] != list(src['names']) or rows_key(prev['rows']) != rows_key(src['rows']):
                    return Mismatch('createDataFrame(keyword-built Rows, list of the same names in another order): every value belongs '
                                    'under its own name', {'columns': prev['columns'], 'rows': prev['rows']},
                                    {'columns': src['names'], 'rows': src['rows']}, 'C15:source:rows-perm', relation='spec')
                try:      # the inferred schema must describe the rows it was inferred from
                    again = self.spark.createDataFrame(df.collect(), df.schema).collect()
                    if [list(r) for r in again] != [list(r) for r in df.collect()]:
                        raise ValueError('rows differ')
                except Exception as e:  # pylint: disable=broad-except
                    return Mismatch('the schema of a frame created from Rows and a list of names does not accept the frame\'s own rows',
                                    exc(e), None, 'C15:source:rows-perm:schema', relation='spec')
        def max_col(a):
            if isinstance(a, dict):
                own = [a['i']] if a.get('op') == 'col' and isinstance(a.get('i'), int) else []
                return max(own + [max_col(v) for v in a.values()] + [-1])
            if isinstance(a, list):
                return max([max_col(v) for v in a] + [-1])
            return -1
        for step, op in enumerate(case['ops']):
            k = op['op']
            ctx.note('op:' + k)
            width = len(prev['columns']) + (len(op['other']['names']) if k == 'joinOn' else 0)
            if k == 'joinOn' and len(set(prev['columns']) | set(op['other']['names'])) != width:
                ctx.note('joinOn-names-not-distinct')      # (only a shrunk case: the generator keeps all names distinct)
                return None
            if max_col({kk: v for kk, v in op.items() if kk != 'other'}) >= width:
                # a positional reference beyond the frame (only a shrunk case can have one: the generator builds expressions
                # over the columns that exist): not a program
                ctx.note('reference-beyond-frame')
                return None
            try:
                ndf = self.apply_impl(df, op, df)
                cur = self.observe(ndf)
                err = None
            except Exception as e:  # pylint: disable=broad-except
                err = exc(e)
            # ---- model step from the real previous frame
            mop = dict(op)
            if k == 'dropRef':
                # in the model: the projection on the remaining positions (un-aliased column references keep their names)
                mop = {'op': 'select', 'items': [{'k': 'expr', 'alias': None, 'e': {'op': 'col', 'i': j}}
                                                 for j in range(len(prev['columns'])) if j != op['pos']]}
            if k in ('join', 'joinOn', 'crossJoin', 'union'):
                o = op['other']
                mop['other'] = {'names': prev['columns'], 'rows': prev['rows']} if o == 'self' else {'names': o['names'], 'rows': o['rows']}
            if k == 'sample':
                if err is not None:
                    mop = {'op': 'sample', 'keep': [True] * len(prev['rows'])}
                else:
                    keep, j = [], 0
                    want = [canon([rnd(v) for v in r]) for r in cur['rows']]
                    for r in prev['rows']:
                        if j < len(want) and canon([rnd(v) for v in r]) == want[j]:
                            keep.append(True)
                            j += 1
                        else:
                            keep.append(False)
                    if j != len(want):
                        return Mismatch('step %d sample: the result is not an order-preserving sub-list of the input' % step,
                                        cur['rows'], prev['rows'], 'C15:model:sample', relation='model-only')
                    mop = {'op': 'sample', 'keep': keep}
            if k == 'pivot' and op.get('values') and any(v is None for v in op['values']):
                # a null among the given pivot values (legal; its column collects the rows whose pivot column is null): the
                # model's pivot values are strings, so only the property itself is checked on the real frame
                ctx.note('pivot-null-value-not-modelled')
                if err is not None:
                    # (is it the operation as such that is refused - an unknown key or pivot column?)
                    r = ctx.driver.ask({'p': 'C15', 'names': prev['columns'], 'rows': prev['rows'],
                                        'op': dict(mop, values=[v for v in op['values'] if v is not None])})
                    if 'refused' in r:
                        ctx.note('refused:' + r['refused'])
                        return None
                    return Mismatch('step %d pivot with a null among the values raised' % step, err, None, 'C15:pivot-null:exc', relation='spec')
                bad = self.direct(cur)
                if bad:
                    return Mismatch('step %d after %s: %s' % (step, k, bad),
                                    {'columns': cur['columns'], 'schema': cur['schema'], 'fields': cur['fields'][:3], 'lens': cur['lens'][:6]},
                                    None, 'C15:direct:' + k, relation='spec')
                df, prev = ndf, cur
                continue
            r = ctx.driver.ask({'p': 'C15', 'names': prev['columns'], 'rows': prev['rows'], 'op': mop})
            if err is not None:
                if 'refused' in r:
                    ctx.note('refused:' + r['refused'])
                    return None          # both sides reject the operation: no DataFrame was obtained
                if k == 'dropRef' and self.id_duplicates(df):
                    # two columns that stem from the same source field (select('*', '*'), self join) share an internal id,
                    # which makes a BOUND reference to one of them ambiguous. Ids are not modelled. (withColumn used to be
                    # exempted here as well: it re-selected every untouched field by its id - a defect, repaired in c4f04bd,
                    # found by the third hunt of C12; it goes by position now and is compared like every other step.)
                    ctx.note('dropRef-id-ambiguity')
                    return None
                return Mismatch('step %d %s raised but the model computes a frame' % (step, k), err, {'names': r['names']},
                                'C15:model:exc:' + k, relation='model-only')
            if k == 'dropRef' and self.id_duplicates(df):
                # two columns stemming from the same source field share an internal id: a bound reference to one of them is
                # ambiguous and drop() ignores it. Ids are not modelled: the direct check below still runs, the model step not
                bad = self.direct(cur)
                if bad:
                    return Mismatch('step %d after %s: %s' % (step, k, bad), {'columns': cur['columns'], 'schema': cur['schema']}, None,
                                    'C15:direct:' + k, relation='spec')
                ctx.note('dropRef-id-ambiguity')
                return None
            # ---- the property itself
            bad = self.direct(cur)
            if bad:
                return Mismatch('step %d after %s: %s' % (step, k, bad),
                                {'columns': cur['columns'], 'schema': cur['schema'], 'fields': cur['fields'][:3], 'lens': cur['lens'][:6],
                                 'count': cur['count'], 'rows': len(cur['rows'])}, r.get('names'), 'C15:direct:' + k, relation='spec')
            # ---- the tie of the model to the code
            if 'refused' in r and not prev['rows']:
                ctx.note('lazy-reference-on-empty-frame')
                return None              # the code evaluates these references per row: with no row nothing is looked up
            if r.get('refused') == 'ambiguous' and k == 'join':
                # a join key that names two columns of one side: the code resolves it to the first of them and keeps the
                # other as an ordinary column; the model's joins are defined for unambiguous keys only (C13's quantifier).
                # The property itself has just been checked on the real frame; the chain is not continued in the model.
                ctx.note('join-key-ambiguous-not-modelled')
                return None
            if 'refused' in r:
                return Mismatch('step %d %s: the model refuses (%s) what the code accepts' % (step, k, r['refused']),
                                {'columns': cur['columns']}, r, 'C15:model:refused:' + k, relation='model-only')
            if not r['consistent']:
                return Mismatch('Lean: the model frame is inconsistent', None, r, 'model-inconsistent')
            if r['names'] != cur['columns']:
                return Mismatch('step %d %s: column names differ from the model\'s schema derivation' % (step, k), cur['columns'], r['names'],
                                'C15:model:names:' + k, relation='model-only')
            if rows_key(r['rows']) != rows_key(cur['rows']):
                return Mismatch('step %d %s: rows differ from the model (as a multiset)' % (step, k), cur['rows'], r['rows'],
                                'C15:model:rows:' + k, relation='model-only')
            df, prev = ndf, cur
        return None


PROP = C15()
