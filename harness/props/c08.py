"""C08 — Saving and re-reading data is lossless for every codec and partition count."""
import bz2
import gzip
import io
import lzma
import os
import struct
import tarfile
import zipfile

from core import Mismatch, Prop, canon
from util import build_layout, exc, random_layout

EXTS = ['', '.gz', '.bz2', '.xz', '.lzma', '.zip', '.tar', '.tar.gz', '.tar.bz2']
COMPRESSED = ('.gz', '.bz2', '.xz', '.lzma', '.zip', '.tar')
LINEBREAKS = '\n\r\x0b\x0c\x1c\x1d\x1e\x85  '
ALPHABETS = {
    'ascii': 'abcXYZ019 _-,;',
    'unicode': 'aé漢ü€ß😀Ω',
    'white': ' \t\xa0  a',
    'mixed': 'ab \té漢.,/\\"\'',
}


def decode_by_name(name, data):
    """decode a file with the stdlib codec the NAME declares (independent of pysparkling's codecs)"""
    if name.endswith('.tar.gz'):
        with tarfile.open(fileobj=io.BytesIO(data), mode='r:gz') as f:
            return b''.join(f.extractfile(m).read() for m in f.getmembers() if m.isfile())
    if name.endswith('.tar.bz2'):
        with tarfile.open(fileobj=io.BytesIO(data), mode='r:bz2') as f:
            return b''.join(f.extractfile(m).read() for m in f.getmembers() if m.isfile())
    if name.endswith('.tar'):
        with tarfile.open(fileobj=io.BytesIO(data), mode='r:') as f:
            return b''.join(f.extractfile(m).read() for m in f.getmembers() if m.isfile())
    if name.endswith('.gz'):
        return gzip.decompress(data)
    if name.endswith('.bz2'):
        return bz2.decompress(data)
    if name.endswith('.xz') or name.endswith('.lzma'):
        return lzma.decompress(data)
    if name.endswith('.zip'):
        with zipfile.ZipFile(io.BytesIO(data)) as f:
            return b''.join(f.read(n) for n in f.namelist())
    return data


def listing(root):
    out = {}
    for d, _, fs in os.walk(root):
        for f in fs:
            p = os.path.join(d, f)
            with open(p, 'rb') as fh:
                out[p] = fh.read()
    return out


class C08(Prop):
    id = 'C08'
    extracted = True      # codec table / get_codec / part-file suffix / line encoding regenerated from the current source (Extracted/EquivC08.lean)
    quick_cases = 900
    thorough_cases = 12000
    quick_budget_s = 60
    rule = ('text: 9 extensions x 1..5 partitions (empty partitions and the empty dataset included) x string lists over '
            'ASCII / Unicode / whitespace / empty-string alphabets (no line-break characters) x minPartitions; every written '
            'file is decoded by the harness with the stdlib codec its NAME declares and compared with the model\'s text, '
            'names/codecs compared with the model, textFile() result compared with the original strings. pickle: object lists '
            'x partitions x extensions. records: fixed length and <I / >H / <B length-prefix framings. wholeTextFiles. '
            'splitlines: the model\'s line-break set vs str.splitlines on strings WITH break characters. '
            'Non-trivial = at least two non-empty strings/records; distinct = distinct canonical case.')
    trusted = ('stdlib gzip/bz2/lzma/zipfile/tarfile, UTF-8 and pickle are not modelled; their round trip is exercised, not proved',
               'struct pack/unpack is modelled for unsigned little/big-endian prefixes only')

    def setup(self, ctx):
        from pysparkling import Context
        self.Context = Context
        self.n = 0

    def gen_line(self, rng, alpha):
        return ''.join(rng.choice(ALPHABETS[alpha]) for _ in range(rng.choice([0, 0, 1, 2, 3, 6])))

    def fixed_cases(self, tier):
        out = []
        for ext in EXTS:
            for parts in ([['a', '', 'b c']], [['a'], [], ['', 'b c']], [[], []], [[]], [['x'], ['y'], ['z']]):
                out.append({'kind': 'text', 'ext': ext, 'parts': parts, 'minp': None})
        out.append({'kind': 'text', 'ext': '.gz', 'parts': [[str(i)] for i in range(12)], 'minp': 3})
        out.append({'kind': 'text', 'ext': '', 'parts': [[str(i)] for i in range(11)], 'minp': None})
        return out

    def gen(self, rng, tier):
        r = rng.random()
        if r < .55:
            alpha = rng.choice(list(ALPHABETS))
            lines = [self.gen_line(rng, alpha) for _ in range(rng.choice([0, 1, 2, 3, 5, 8]))]
            return {'kind': 'text', 'ext': rng.choice(EXTS), 'parts': random_layout(rng, lines, 5),
                    'minp': rng.choice([None, None, 1, 2, 7])}
        if r < .7:
            objs = [rng.choice([1, 'a', None, (1, 'b'), [1, 2], {'k': 1}, 2.5, True, 'é']) for _ in range(rng.randint(0, 7))]
            return {'kind': 'pickle', 'ext': rng.choice(EXTS), 'parts': random_layout(rng, objs, 4),
                    'batch': rng.choice([1, 2, 10]), 'minp': rng.choice([None, 3])}
        if r < .82:
            if rng.random() < .5:
                L = rng.randint(1, 5)
                recs = [[rng.randrange(256) for _ in range(L)] for _ in range(rng.randint(0, 6))]
                return {'kind': 'fixed', 'L': L, 'records': recs}
            fmt = rng.choice(['<I', '>H', '<B', '>I', '<H'])
            recs = [[rng.randrange(256) for _ in range(rng.choice([0, 1, 2, 5, 9]))] for _ in range(rng.randint(0, 6))]
            return {'kind': 'var', 'fmt': fmt, 'records': recs}
        if r < .9:
            alpha = rng.choice(list(ALPHABETS))
            files = {}
            for i in range(rng.randint(1, 4)):
                sep = '\r\n' if rng.random() < .12 else '\n'
                files['f%d%s' % (i, rng.choice(['.txt', '', '.gz', '.bz2']))] = \
                    sep.join(self.gen_line(rng, alpha) for _ in range(rng.randint(0, 4)))
            return {'kind': 'whole', 'files': files, 'minp': rng.choice([None, 5])}
        s = ''.join(rng.choice('ab ' + LINEBREAKS + '\r\n') for _ in range(rng.randint(0, 12)))
        return {'kind': 'splitlines', 'text': s}

    def nontrivial(self, case):
        k = case['kind']
        if k in ('text', 'pickle'):
            return sum(1 for p in case['parts'] for x in p if x not in ('', None)) >= 2
        if k in ('fixed', 'var'):
            return len(case['records']) >= 2
        return True

    def shrink(self, case):
        if case['kind'] in ('text', 'pickle'):
            ps = case['parts']
            for i in range(len(ps)):
                if len(ps) > 1:
                    yield dict(case, parts=ps[:i] + ps[i + 1:])
                for j in range(len(ps[i])):
                    yield dict(case, parts=ps[:i] + [ps[i][:j] + ps[i][j + 1:]] + ps[i + 1:])
            if case.get('minp'):
                yield dict(case, minp=None)

    def run_case(self, case, ctx):
        kind = case['kind']
        ctx.note('kind:' + kind)
        self.n += 1
        root = os.path.join(ctx.scratch, 'c%d' % self.n)
        os.makedirs(root)
        sc = self.Context()
        if kind == 'splitlines':
            r = ctx.driver.ask({'p': 'C08', 'op': 'splitlines', 'text': case['text']})['model']
            if r != case['text'].splitlines():
                return Mismatch('model splitlines differs from str.splitlines', case['text'].splitlines(), r, 'splitlines-model')
            return None
        if kind == 'text':
            return self.run_text(case, ctx, sc, root)
        if kind == 'pickle':
            path = os.path.join(root, 'out' + case['ext'])
            flat = [x for p in case['parts'] for x in p]
            try:
                build_layout(sc, case['parts']).saveAsPickleFile(path, case['batch'])
                back = sc.pickleFile(path, case['minp']).collect()
            except Exception as e:  # pylint: disable=broad-except
                return Mismatch('pickle save/load raised', exc(e), flat, 'C08:pickle:exc')
            if back != flat or [type(x) for x in back] != [type(x) for x in flat]:
                return Mismatch('saveAsPickleFile -> pickleFile does not return equal objects in order', back, flat, 'C08:pickle')
            bad = self.check_names(case, path, ctx, len(case['parts']))
            return bad
        if kind in ('fixed', 'var'):
            recs = [bytes(r) for r in case['records']]
            path = os.path.join(root, 'data.bin')
            if kind == 'fixed':
                blob = b''.join(recs)
                arg = case['L']
                m = ctx.driver.ask({'p': 'C08', 'op': 'fixed', 'L': case['L'], 'data': list(blob)})['model']
            else:
                fmt = case['fmt']
                pl = struct.calcsize(fmt)
                if any(len(r) >= 256 ** pl for r in recs):
                    return None
                blob = b''.join(struct.pack(fmt, len(r)) + r for r in recs)
                arg = fmt
                fr = ctx.driver.ask({'p': 'C08', 'op': 'frame', 'pl': pl, 'little': fmt[0] == '<', 'records': case['records']})['model']
                if bytes(fr) != blob:
                    return Mismatch('model framing differs from struct.pack', list(blob), fr, 'frame-model')
                m = ctx.driver.ask({'p': 'C08', 'op': 'var', 'pl': pl, 'little': fmt[0] == '<', 'data': list(blob)})['model']
            with open(path, 'wb') as f:
                f.write(blob)
            if [bytes(x) for x in m] != recs:
                return Mismatch('model chunker does not return the records (theorem hypothesis violated?)', m, case['records'], 'model-spec:chunks')
            try:
                got = sc.binaryRecords(path, arg).collect()
            except Exception as e:  # pylint: disable=broad-except
                return Mismatch('binaryRecords raised', exc(e), case['records'], 'C08:records:exc')
            if [bytes(x) for x in got] != recs:
                return Mismatch('binaryRecords does not split the file back into the original records',
                                [list(x) for x in got], case['records'], 'C08:records:' + kind)
            return None
        if kind == 'whole':
            d = os.path.join(root, 'in')
            os.makedirs(d)
            want = []
            for name, content in case['files'].items():
                p = os.path.join(d, name)
                raw = content.encode('utf8')
                if name.endswith('.gz'):
                    raw = gzip.compress(raw)
                elif name.endswith('.bz2'):
                    raw = bz2.compress(raw)
                with open(p, 'wb') as f:
                    f.write(raw)
                want.append([p, content])
            want.sort()
            try:
                got = sorted([list(x) for x in sc.wholeTextFiles(d + '/*', case['minp']).collect()])
            except Exception as e:  # pylint: disable=broad-except
                return Mismatch('wholeTextFiles raised', exc(e), want, 'C08:whole:exc')
            if got != want:
                norm = [[p, c.replace('\r\n', '\n').replace('\r', '\n')] for p, c in want]
                sig = 'C08:whole:newline-translation' if got == norm else 'C08:whole'
                if not ctx.is_known(sig):
                    return Mismatch('wholeTextFiles does not return each file\'s decoded content keyed by its path', got, want, sig)
            return None
        raise ValueError(kind)

    def model_save(self, ctx, path, parts):
        return ctx.driver.ask({'p': 'C08', 'op': 'save', 'path': path, 'parts': parts, 'max': 3, 'pre_files': [], 'pre_dirs': [],
                               'wfail': [], 'cfail': []})

    def check_names(self, case, path, ctx, nparts):
        """file names and the codec each name selects, vs the model (content placeholder)"""
        r = self.model_save(ctx, path, [['x'] for _ in range(nparts)])
        want = sorted(f['name'] for f in r['files'])
        got = sorted(listing(os.path.dirname(path)))
        if got != want:
            return Mismatch('files produced by the save differ from the model', got, want, 'C08:names')
        if case['ext'].endswith(COMPRESSED):
            for n in got:
                if not n.endswith('_SUCCESS') and not n.endswith(COMPRESSED):
                    return Mismatch('target path carries a compression extension but a data file does not', n, case['ext'],
                                    'C08:uncompressed-part', relation='spec')
        return None

    def run_text(self, case, ctx, sc, root):
        path = os.path.join(root, 'out' + case['ext'])
        parts = case['parts']
        flat = [x for p in parts for x in p]
        ctx.note('ext:' + (case['ext'] or 'none'))
        ctx.note('parts:%d' % len(parts))
        try:
            build_layout(sc, parts).saveAsTextFile(path)
        except Exception as e:  # pylint: disable=broad-except
            return Mismatch('saveAsTextFile raised', exc(e), None, 'C08:save:exc')
        r = self.model_save(ctx, path, parts)
        files = listing(root)
        want = {f['name']: f for f in r['files']}
        if sorted(files) != sorted(want):
            return Mismatch('files produced by the save differ from the model', sorted(files), sorted(want), 'C08:names')
        for name, data in sorted(files.items()):
            compressed_target = case['ext'].endswith(COMPRESSED)
            if compressed_target and not name.endswith('_SUCCESS') and not name.endswith(COMPRESSED):
                return Mismatch('target path carries a compression extension but a data file does not', name, case['ext'],
                                'C08:uncompressed-part', relation='spec')
            try:
                text = decode_by_name(name, data).decode('utf8')
            except Exception as e:  # pylint: disable=broad-except
                return Mismatch('data file %s is not a valid stream of the format its name declares' % os.path.basename(name),
                                exc(e), want[name]['codec'], 'C08:invalid-stream', relation='spec')
            if text != want[name]['text']:
                return Mismatch('content of %s differs from the model' % os.path.basename(name), text, want[name]['text'], 'C08:content')
        try:
            back = sc.textFile(path, case['minp']).collect()
        except Exception as e:  # pylint: disable=broad-except
            return Mismatch('textFile raised on the saved data', exc(e), flat, 'C08:read:exc')
        if len(parts) >= 2 and r['readDir'] != flat:
            return Mismatch('Lean readDir differs from the original strings (theorem hypothesis violated?)', r['readDir'], flat, 'model-spec:readDir')
        if back != flat:
            return Mismatch('saveAsTextFile -> textFile does not return the same strings in the same order', back, flat,
                            'C08:roundtrip', relation='spec')
        return None


PROP = C08()
