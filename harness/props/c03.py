"""C03 — Results are independent of execution backend and task schedule."""
import itertools
import pickle
import random as pyrandom

from core import Mismatch, Prop, canon
from sched import OrderPool, SchedPool
from util import exc


# ---- module-level user functions (importable by reference: plain pickle must be able to ship them) ---------
def f_inc(x):
    return x + 1


def f_dbl(x):
    return x * 2


def f_even(x):
    return x % 2 == 0


def f_pos(x):
    return x > 0


def f_dup(x):
    return [x, x]


def f_kv(x):
    return (x % 3, x)


def f_add(a, b):
    return a + b


def f_id(x):
    return x


def f_neg(x):
    return -x


FUNCS = {'inc': f_inc, 'dbl': f_dbl, 'even': f_even, 'pos': f_pos, 'dup': f_dup, 'kv': f_kv, 'add': f_add, 'id': f_id, 'neg': f_neg}
# the same as closures (need cloudpickle / dill to travel to a process pool)
LAMBDAS = {'inc': lambda x: x + 1, 'dbl': lambda x: x * 2, 'even': lambda x: x % 2 == 0, 'pos': lambda x: x > 0,
           'dup': lambda x: [x, x], 'kv': lambda x: (x % 3, x), 'add': lambda a, b: a + b, 'id': lambda x: x, 'neg': lambda x: -x}

ELEMENTWISE = [{'op': 'map', 'f': 'inc'}, {'op': 'map', 'f': 'dbl'}, {'op': 'filter', 'f': 'even'}, {'op': 'filter', 'f': 'pos'},
               {'op': 'flatMap', 'f': 'dup'}, {'op': 'map', 'f': 'neg'}]
STRUCTURAL = [{'op': 'aggregateByKey'}, {'op': 'foldByKey'}, {'op': 'countByKey'}, {'op': 'cogroup_self'}, {'op': 'coalesce', 'n': 2}, {'op': 'coalesce', 'n': 1}, {'op': 'repartition', 'n': 3}, {'op': 'sortBy'}, {'op': 'distinct'},
              {'op': 'reduceByKey'}, {'op': 'groupByKey'}, {'op': 'zipWithIndex'}, {'op': 'glom'}, {'op': 'union_self'},
              {'op': 'sampleByKey', 'seed': 5}]
# DataFrame jobs over the same data (the tasks of the sql layer travel to the pools like any others)
DF_STAGES = [{'op': 'df', 'what': w} for w in ('groupBy', 'rollup', 'cube', 'intersect', 'intersectAll', 'exceptAll', 'distinct', 'join')]
ACTIONS = ['collect', 'collect', 'count', 'collectInner', 'collectInner', 'unpersist', 'reduce', 'reduceMax', 'fold', 'foldMax', 'take3', 'first', 'reduce', 'aggregate', 'takeSample', 'collect', 'foreach', 'foreachPartition']

BACKENDS = ['thread', 'thread+datapickle', 'mp+cloudpickle+datapickle', 'mp+cloudpickle', 'mp+dill', 'ppe+cloudpickle', 'ppe+dill', 'reversed', 'shuffled']


def df_stage(sc, r, what, table):
    """(x % 3, x) pairs as a two-column DataFrame, one relational operation, back to a sorted dataset of tuples"""
    from pysparkling.sql import functions as F
    from pysparkling.sql.session import SparkSession
    spark = SparkSession(sc)
    df = spark.createDataFrame(r.map(table['kv']), ['k', 'v'])
    if what in ('groupBy', 'rollup', 'cube'):
        d = getattr(df, what)('k').agg(F.count('v').alias('n'), F.sum('v').alias('s'))
    elif what in ('intersect', 'intersectAll', 'exceptAll'):
        d = getattr(df, what)(df.filter(df.v > 2))
    elif what == 'distinct':
        d = df.distinct()
    else:
        d = df.join(df.filter(df.v > 2).withColumnRenamed('v', 'w'), on=['k'], how='left')
    return d.rdd.map(tuple).sortBy(repr)


def build(sc, pipe, table, handles=None):
    r = sc.parallelize(list(pipe['data']), pipe['n'])
    for o in pipe['ops']:
        k = o['op']
        if k in ('map', 'filter', 'flatMap'):
            r = getattr(r, k)(table[o['f']])
        elif k == 'sample':
            r = r.sample(o['repl'], o['fraction'], o['seed'])
        elif k == 'persist':
            r = r.persist()
            if handles is not None:
                handles.append(r)
        elif k == 'df':
            r = df_stage(sc, r, o['what'], table)
        elif k == 'coalesce':
            r = r.coalesce(o['n'])
        elif k == 'repartition':
            r = r.repartition(o['n'])
        elif k == 'sortBy':
            r = r.sortBy(table['id'])
        elif k == 'distinct':
            r = r.distinct().sortBy(table['id'])
        elif k == 'reduceByKey':
            r = r.map(table['kv']).reduceByKey(table['add']).sortByKey()
        elif k == 'aggregateByKey':
            r = r.map(table['kv']).aggregateByKey(0, table['add'], table['add']).sortByKey()
        elif k == 'foldByKey':
            r = r.map(table['kv']).foldByKey(0, table['add']).sortByKey()
        elif k == 'countByKey':
            r = sc.parallelize(sorted(r.map(table['kv']).countByKey().items()), 2)
        elif k == 'cogroup_self':
            kv = r.map(table['kv'])
            r = kv.cogroup(kv).mapValues(lambda ab: (sorted(ab[0]), sorted(ab[1]))).sortByKey()
        elif k == 'groupByKey':
            r = r.map(table['kv']).groupByKey().mapValues(sorted).sortByKey()
        elif k == 'zipWithIndex':
            r = r.zipWithIndex()
        elif k == 'glom':
            r = r.glom()
        elif k == 'union_self':
            r = r.union(r)
        elif k == 'sampleByKey':
            r = r.map(table['kv']).sampleByKey(False, {0: .5, 1: 1.0}, o['seed'])
        else:
            raise KeyError(k)
    return r


def act(r, a, table, handles=()):
    if a == 'collect':
        return r.collect()
    if a == 'collectInner':
        # an action on the FIRST persisted step of the lineage (not on the final dataset): what it cached must still be its own
        return handles[0].collect() if handles else None
    if a == 'unpersist':
        # drop every persisted step of the lineage; the entries the workers merged back must go as well
        for h in handles:
            h.unpersist()
        return None
    if a == 'count':
        return r.count()
    if a == 'take3':
        return r.take(3)
    if a == 'first':
        return r.take(1)
    # (no intermediate job between two actions: "the same kind of action twice with different functions" must stay adjacent)
    def guarded(fn):
        try:
            return fn()
        except (TypeError, ValueError) as e:      # non-numeric elements, or an empty dataset: the same on every backend
            return 'raises:' + type(e).__name__
    if a == 'reduce':
        return guarded(lambda: r.reduce(table['add']))
    if a == 'reduceMax':     # the same KIND of action as 'reduce' with another user function: must not be confused with it
        return guarded(lambda: r.reduce(lambda p, q: p if p >= q else q))
    if a == 'foldMax':
        return guarded(lambda: r.fold(-10 ** 9, lambda p, q: p if p >= q else q))
    if a == 'fold':
        return guarded(lambda: r.fold(0, table['add']))
    if a == 'aggregate':
        return r.aggregate(0, lambda acc, x: acc + 1, table['add'])
    if a == 'takeSample':
        return r.takeSample(False, 2, seed=11)
    if a == 'foreach':
        # side-effect actions return None whatever the function returns - here something that cannot be sent back from a worker
        return r.foreach(lambda x: (i for i in ()))
    if a == 'foreachPartition':
        def g(it):
            for _ in it:
                pass
            yield 0
        return r.foreachPartition(g)
    raise KeyError(a)


def cache_view(sc):
    """cache contents with dataset ids renumbered by rank (ids differ between contexts)"""
    items = sorted(sc._cache_manager.cache_obj.items())  # pylint: disable=protected-access
    ids = sorted({k[0] for k, _ in items})
    rank = {i: n for n, i in enumerate(ids)}
    return [[[rank[k[0]], k[1]], (list(v['mem_obj']) if v['mem_obj'] is not None else None)] for k, v in items]


def lineage(r):
    seen, todo, out = set(), [r], []
    while todo:
        x = todo.pop()
        if id(x) in seen or not hasattr(x, '__dict__'):
            continue
        seen.add(id(x))
        out.append(x)
        for k in ('prev', 'rdd', '_rdd'):
            if hasattr(x, k):
                todo.append(getattr(x, k))
        for k in ('rdds',):
            for y in getattr(x, k, None) or []:
                todo.append(y)
    return out


# attributes the current code still (re)binds on the shared PersistedRDD object from inside the tasks. They are DEAD
# stores (the model's `stepNew` writes `attrCid` and nothing reads it); `dead_stores_are_dead` checks on the source
# that nothing reads them.
WRITE_ONLY = {'PersistedRDD': {'_cid', '_cache_manager'}}


def dead_stores_are_dead(repo):
    """-> None, or a description of a READ of one of the write-only attributes"""
    import ast
    import os
    tree = ast.parse(open(os.path.join(repo, 'pysparkling', 'rdd.py')).read())
    for n in ast.walk(tree):
        if isinstance(n, ast.Attribute) and n.attr == '_cid' and isinstance(n.ctx, ast.Load):
            return 'rdd.py:%d reads ._cid' % n.lineno
    for c in ast.walk(tree):
        if isinstance(c, ast.ClassDef) and c.name == 'PersistedRDD':
            for n in ast.walk(c):
                if isinstance(n, ast.Attribute) and n.attr == '_cache_manager' and isinstance(n.ctx, ast.Load) \
                        and isinstance(n.value, ast.Name) and n.value.id == 'self':
                    return 'rdd.py:%d PersistedRDD reads self._cache_manager' % n.lineno
    return None


def shared_fingerprint(r):
    """which attributes the dataset objects of the lineage have and which objects they are bound to: the tasks of a
    thread pool share these objects, so any attribute they (re)bind is state shared between tasks"""
    return [(type(x).__name__, sorted((k, id(v)) for k, v in vars(x).items()
                                      if not k.startswith('_p') and k != '_partitions' and k not in WRITE_ONLY.get(type(x).__name__, ())))
            for x in lineage(r)]


def counting(table, counts):
    """the same user functions, counting their calls (in-process backends only: threads share `counts`)"""
    import threading
    lock = threading.Lock()

    def wrap(name, f):
        def g(*a):
            with lock:
                counts[name] = counts.get(name, 0) + 1
            return f(*a)
        return g
    return {k: wrap(k, f) for k, f in table.items()}


def run_pipeline(sc, pipe, table, fingerprints=None):
    handles = []
    r = build(sc, pipe, table, handles)
    before = shared_fingerprint(r) if fingerprints is not None else None
    out = [act(r, a, table, handles) for a in pipe['actions']]
    if fingerprints is not None:
        fingerprints.append((before, shared_fingerprint(r)))
    return out, cache_view(sc)


class C03(Prop):
    id = 'C03'
    extracted = True      # what a pool task receives / sends back, regenerated from the current source (harness/extract_m.py, Extracted/EquivC03.lean)
    quick_cases = 400
    thorough_cases = 6000
    quick_budget_s = 100
    thorough_budget_s = 1500
    rule = ('pipelines over 2..4 partitions of 0..10 ints: 1..4 stages out of map / filter / flatMap / sample(with and without '
            'replacement, seeded) / persist() at any position / coalesce / repartition / sortBy / distinct / reduceByKey / '
            'groupByKey / zipWithIndex / glom / union / sampleByKey, followed by 2..3 actions (collect twice, count, take, reduce, '
            'aggregate, takeSample) so that later actions read what earlier ones cached; and SAVING jobs (saveAsTextFile of 2..3 '
            'partitions with 1..3 attempts per task, outcome and files compared with the in-process executor). (a) SCHEDULES: a deterministic '
            'line-granularity scheduler pool (one real thread per task, one running at a time, yields at every source line '
            'inside pysparkling): every task start order, every single pre-emption point x target, and sampled 2- and '
            '3-pre-emption schedules; (b) BACKENDS: ThreadPoolExecutor, multiprocessing.Pool with cloudpickle / dill, '
            'ProcessPoolExecutor with cloudpickle / dill, pools executing the tasks in reversed and shuffled order. Every run is '
            'compared - action results and cache contents (dataset ids renumbered) - with the default in-process executor on '
            'a fresh context, the shared dataset objects and the module-global random state are checked to be untouched by the '
            'tasks, and the sample->persist pipelines also with the Lean task/pool model (results, merged cache, second '
            'action). Non-trivial = a persist or a sample in the pipeline and >= 2 partitions with data; distinct = distinct '
            '(pipeline, schedule / backend).')
    trusted = ('pre-emption below source-line granularity (inside one bytecode line, inside C code) and inside user functions is not '
               'explored; process pools are black boxes (OS scheduling, the pickling layers): sampled, not enumerated',
               'the Lean model covers the task program source -> sample -> persist and the driver-side clone / join; other '
               'transformations are compared with the in-process executor only (their list semantics are C01/C02/C07)',
               'the generator of the model is abstract; the harness feeds it the decisions of random.Random(seed + i)')

    def setup(self, ctx):
        import multiprocessing
        from concurrent import futures

        import cloudpickle
        import dill

        import pysparkling
        self.ps = pysparkling
        self.cloudpickle, self.dill = cloudpickle, dill
        self.futures = futures
        self.mp = multiprocessing.get_context('fork')
        self.mp_pool = None
        self.ppe = None

    def teardown(self, ctx):
        if self.mp_pool is not None:
            self.mp_pool.terminate()
            self.mp_pool = None
        if self.ppe is not None:
            self.ppe.shutdown(wait=False, cancel_futures=True)
            self.ppe = None

    def backend(self, name, seed=0):
        """-> (context, lambda table?)"""
        ps = self.ps
        if name == 'thread':
            return ps.Context(pool=self.futures.ThreadPoolExecutor(4)), LAMBDAS
        if name == 'thread+datapickle':      # partitions and results travel through the data (de)serializer pair
            return ps.Context(pool=self.futures.ThreadPoolExecutor(4), data_serializer=pickle.dumps, data_deserializer=pickle.loads), LAMBDAS
        if name == 'mp+cloudpickle+datapickle':
            if self.mp_pool is None:
                self.mp_pool = self.mp.Pool(3)
            return ps.Context(pool=self.mp_pool, serializer=self.cloudpickle.dumps, deserializer=pickle.loads,
                              data_serializer=pickle.dumps, data_deserializer=pickle.loads), LAMBDAS
        if name.startswith('mp+'):
            if self.mp_pool is None:
                self.mp_pool = self.mp.Pool(3)
            ser = name[3:]
            if ser == 'pickle':
                return ps.Context(pool=self.mp_pool), FUNCS
            mod = self.cloudpickle if ser == 'cloudpickle' else self.dill
            return ps.Context(pool=self.mp_pool, serializer=mod.dumps, deserializer=pickle.loads if ser == 'cloudpickle' else mod.loads), LAMBDAS
        if name.startswith('ppe+'):
            if self.ppe is None:
                self.ppe = self.futures.ProcessPoolExecutor(3, mp_context=self.mp)
            ser = name[4:]
            mod = self.cloudpickle if ser == 'cloudpickle' else self.dill
            return ps.Context(pool=self.ppe, serializer=mod.dumps, deserializer=pickle.loads if ser == 'cloudpickle' else mod.loads), LAMBDAS
        if name == 'reversed':
            return ps.Context(pool=OrderPool(lambda n: list(range(n - 1, -1, -1)))), LAMBDAS
        if name == 'shuffled':
            rng = pyrandom.Random(seed)

            def order(n):
                o = list(range(n))
                rng.shuffle(o)
                return o
            return ps.Context(pool=OrderPool(order)), LAMBDAS
        raise KeyError(name)

    # ---- generation -----------------------------------------------------------------------------
    def gen_pipe(self, rng, small=False):
        n = rng.choice([2, 2, 3, 4])
        data = [rng.randint(-3, 9) for _ in range(rng.choice([0, 3, 4, 6, 8, 10]) if not small else rng.choice([2, 4, 5]))]
        ops = []
        for _ in range(rng.randint(1, 4 if not small else 3)):
            r = rng.random()
            if r < .3:
                ops.append(dict(rng.choice(ELEMENTWISE)))
            elif r < .5:
                if rng.random() < .06 and len(data) <= 3 and not any(o.get('fraction', 0) > 100 for o in ops):
                    ops.append({'op': 'sample', 'repl': True, 'fraction': rng.choice([510.0, 600.0]), 'seed': rng.randint(0, 30)})
                else:
                    ops.append({'op': 'sample', 'repl': rng.random() < .25, 'fraction': rng.choice([.3, .5, .8, 1.0]), 'seed': rng.randint(0, 30)})
            elif r < .75:
                ops.append({'op': 'persist'})
            elif not small:
                ops.append(dict(rng.choice(STRUCTURAL)))
        if not small and rng.random() < .12 and not any(o['op'] in [q['op'] for q in STRUCTURAL] for o in ops):
            ops.append(dict(rng.choice(DF_STAGES)))
        if not any(o['op'] == 'persist' for o in ops) and rng.random() < .5:
            ops.insert(rng.randint(0, len(ops)), {'op': 'persist'})
        actions = ['collect'] + [rng.choice(ACTIONS) for _ in range(rng.randint(1, 2))]
        return {'n': n, 'data': data, 'ops': ops, 'actions': actions if not small else ['collect', 'collect']}

    def gen(self, rng, tier):
        r = rng.random()
        if r < .4:
            pipe = self.gen_pipe(rng, small=True)
            k = rng.choice([1, 2, 2, 3])
            return {'kind': 'sched', 'pipe': pipe, 'order': rng.sample(range(pipe['n']), pipe['n']),
                    'preempt': sorted((rng.randint(1, 260), rng.randrange(pipe['n'])) for _ in range(k)), 'job': rng.choice([0, 0, 1])}
        if r < .55:
            return self.gen_model(rng)
        if r < .62:
            n = rng.choice([2, 2, 3])
            return {'kind': 'save', 'n': n, 'data': [rng.randint(0, 9) for _ in range(rng.randint(n, 6))], 'map': rng.choice([None, 'id', 'inc']),
                    'order': rng.sample(range(n), n), 'retries': rng.choice([1, 1, 2, 3]), 'fmt': rng.choice(['text', 'text', 'pickle']),
                    'preempt': sorted([rng.randint(1, 160), rng.randrange(n)] for _ in range(rng.choice([1, 1, 2])))}
        return {'kind': 'backend', 'pipe': self.gen_pipe(rng), 'backend': rng.choice(BACKENDS), 'seed': rng.randint(0, 99)}

    def gen_model(self, rng):
        n = rng.choice([2, 3, 4])
        data = [rng.randint(0, 9) for _ in range(rng.choice([0, 3, 5, 8]))]
        return {'kind': 'model', 'n': n, 'data': data, 'fraction': rng.choice([0.0, .3, .5, .8, 1.0]), 'seed': rng.randint(0, 40),
                'backend': rng.choice(['sched', 'thread', 'mp+cloudpickle', 'reversed']),
                'order': rng.sample(range(n), n), 'preempt': sorted((rng.randint(1, 200), rng.randrange(n)) for _ in range(rng.choice([0, 1, 2])))}

    def fixed_cases(self, tier):
        out = []
        base = {'n': 2, 'data': [0, 1, 2, 3], 'ops': [{'op': 'map', 'f': 'id'}, {'op': 'persist'}], 'actions': ['collect', 'collect']}
        samp = {'n': 2, 'data': list(range(8)), 'ops': [{'op': 'sample', 'repl': False, 'fraction': .5, 'seed': 7}, {'op': 'persist'}],
                'actions': ['collect', 'collect']}
        coal = {'n': 4, 'data': list(range(8)), 'ops': [{'op': 'coalesce', 'n': 2}, {'op': 'glom'}], 'actions': ['collect', 'collect']}
        nested = {'n': 2, 'data': list(range(12)), 'ops': [{'op': 'sample', 'repl': False, 'fraction': .5, 'seed': 7},
                                                          {'op': 'sample', 'repl': False, 'fraction': 1.0, 'seed': 3}], 'actions': ['collect', 'collect']}
        # every start order, every single pre-emption (point x target) of the first job, for the three basic pipelines
        limit = 70 if tier == 'quick' else 400
        for pipe in (base, samp, coal, nested):
            for order in itertools.permutations(range(2)):
                out.append({'kind': 'sched', 'pipe': pipe, 'order': list(order), 'preempt': [], 'job': 0})
            for step in range(1, limit, 1 if tier != 'quick' else 2):
                for to in range(2):
                    out.append({'kind': 'sched', 'pipe': pipe, 'order': [1 - to, to], 'preempt': [[step, to]], 'job': 0})
        # two pre-emptions: the shape that broke the shared cache key (switch away early, switch back)
        pts = range(1, 60, 3) if tier == 'quick' else range(1, 160, 2)
        for a in pts:
            for b in (a + 1, a + 2, a + 5, a + 11, a + 23):
                for first in (0, 1):
                    out.append({'kind': 'sched', 'pipe': base, 'order': [first, 1 - first], 'preempt': [[a, 1 - first], [b, first]], 'job': 0})
                    out.append({'kind': 'sched', 'pipe': samp, 'order': [first, 1 - first], 'preempt': [[a, 1 - first], [b, first]], 'job': 0})
        two_level = {'n': 3, 'data': [4, 1, 6, 2, 9, 3], 'ops': [{'op': 'map', 'f': 'inc'}, {'op': 'persist'}, {'op': 'map', 'f': 'dbl'}, {'op': 'persist'}],
                     'actions': ['collectInner', 'collect', 'collectInner', 'collect']}
        big_poisson = {'n': 2, 'data': [1, 2, 3], 'ops': [{'op': 'sample', 'repl': True, 'fraction': 600.0, 'seed': 5}, {'op': 'persist'}],
                       'actions': ['count', 'collect']}
        for b in BACKENDS:
            out.append({'kind': 'backend', 'pipe': two_level, 'backend': b, 'seed': 1})
            out.append({'kind': 'backend', 'pipe': big_poisson, 'backend': b, 'seed': 1})
        for order in ([0, 1, 2], [2, 1, 0]):
            out.append({'kind': 'sched', 'pipe': two_level, 'order': order, 'preempt': [], 'job': 0})
            out.append({'kind': 'sched', 'pipe': two_level, 'order': order, 'preempt': [[40, 1], [90, 0]], 'job': 1})
        for step in range(1, 150 if tier == 'quick' else 400):
            for first in (0, 1):
                out.append({'kind': 'save', 'n': 2, 'data': [1, 2, 3, 4], 'map': None, 'order': [first, 1 - first], 'retries': 1,
                            'preempt': [[step, 1 - first]]})
        twice = {'n': 3, 'data': [3, 9, 1, 7, 5, 2], 'ops': [{'op': 'map', 'f': 'inc'}],
                 'actions': ['reduce', 'reduceMax', 'reduce', 'foldMax', 'fold', 'foldMax']}
        for b in BACKENDS:
            out.append({'kind': 'backend', 'pipe': twice, 'backend': b, 'seed': 1})
        for b in BACKENDS:
            for pipe in (base, samp, coal, nested):
                out.append({'kind': 'backend', 'pipe': pipe, 'backend': b, 'seed': 1})
        # DataFrame jobs on the process pools and the reordering pools (sub-totals, set operations, joins)
        for b in ('mp+cloudpickle', 'ppe+dill', 'mp+cloudpickle+datapickle', 'thread', 'reversed'):
            for st in DF_STAGES:
                out.append({'kind': 'backend', 'pipe': {'n': 3, 'data': list(range(12)), 'ops': [dict(st)], 'actions': ['collect', 'count']},
                            'backend': b, 'seed': 1})
        out.append({'kind': 'deadstores'})
        for b in ('sched', 'thread', 'mp+cloudpickle', 'ppe+dill', 'reversed'):
            out.append({'kind': 'model', 'n': 3, 'data': list(range(9)), 'fraction': .5, 'seed': 4, 'backend': b, 'order': [2, 0, 1],
                        'preempt': [[5, 0], [40, 1]]})
        return out

    def nontrivial(self, case):
        if case['kind'] == 'deadstores':
            return False
        if case['kind'] in ('model', 'save'):
            return len(case['data']) >= 2
        p = case['pipe']
        return len(p['data']) >= 2 and any(o['op'] in ('persist', 'sample') for o in p['ops'])

    def shrink(self, case):
        if case['kind'] in ('model', 'deadstores'):
            return
        if case['kind'] == 'save':
            for i in range(len(case['preempt'])):
                if len(case['preempt']) > 1:
                    yield dict(case, preempt=case['preempt'][:i] + case['preempt'][i + 1:])
            return
        p = case['pipe']
        for i in range(len(p['ops'])):
            yield dict(case, pipe=dict(p, ops=p['ops'][:i] + p['ops'][i + 1:]))
        if len(p['actions']) > 1:
            yield dict(case, pipe=dict(p, actions=p['actions'][:-1]))
        if case['kind'] == 'sched' and case['preempt']:
            for i in range(len(case['preempt'])):
                yield dict(case, preempt=case['preempt'][:i] + case['preempt'][i + 1:])
        for i in range(len(p['data'])):
            yield dict(case, pipe=dict(p, data=p['data'][:i] + p['data'][i + 1:]))

    # ---- execution ------------------------------------------------------------------------------
    def reference(self, pipe, counts=None):
        return run_pipeline(self.ps.Context(), pipe, counting(LAMBDAS, counts) if counts is not None else LAMBDAS)

    def run_case(self, case, ctx):
        if case['kind'] == 'model':
            return self.run_model(case, ctx)
        if case['kind'] == 'save':
            return self.run_save(case, ctx)
        if case['kind'] == 'deadstores':
            import core
            bad = dead_stores_are_dead(core.REPO)
            if bad:
                return Mismatch('an attribute the tasks write on the shared dataset object is read again (the model treats it '
                                'as a dead store): ' + bad, bad, None, 'C03:shared:dead-store-read', relation='model-only')
            return None
        pipe = case['pipe']
        for o in pipe['ops']:
            ctx.note('op:' + o['op'])
        # user-function call counts can be observed on the backends that run in this process
        inproc = case['kind'] == 'sched' or case.get('backend') in ('thread', 'reversed', 'shuffled')      # (not thread+datapickle: functions travel by reference but results are copies; counts still shared - kept out for simplicity)
        want_counts, got_counts = ({}, {}) if inproc else (None, None)
        try:
            want = self.reference(pipe, want_counts)
        except Exception as e:  # pylint: disable=broad-except
            ctx.note('reference-raises')
            want = exc(e)
        glob_before = pyrandom.getstate()
        if case['kind'] == 'sched':
            ctx.note('sched:preempt%d' % len(case['preempt']))
            pool = SchedPool(order=case['order'], preempt=[tuple(p) for p in case['preempt']])
            pool.only_job = case.get('job', 0)
            sc, table = self.ps.Context(pool=pool), LAMBDAS
            label = 'schedule order=%s preempt=%s' % (case['order'], case['preempt'])
        else:
            bk = case['backend']
            if bk == 'mp+pickle' and (any(o['op'] not in ('map', 'filter', 'flatMap', 'persist', 'sample') for o in pipe['ops'])
                                      or any(a not in ('collect', 'count', 'take3', 'first') for a in pipe['actions'])):
                bk = 'mp+cloudpickle'      # plain pickle cannot ship the closures these operations build internally
            ctx.note('backend:' + bk)
            sc, table = self.backend(bk, case.get('seed', 0))
            label = bk
            pool = None
        fps = [] if case['kind'] == 'sched' else None
        if inproc:
            table = counting(table, got_counts)
        try:
            got = run_pipeline(sc, pipe, table, fps)
        except Exception as e:  # pylint: disable=broad-except
            got = exc(e)
        finally:
            if case['kind'] == 'backend' and case['backend'].startswith('thread'):
                sc._pool.shutdown()  # pylint: disable=protected-access
        if pool is not None:
            ctx.note('switches:%d' % min(pool.switches, 3))
        if isinstance(want, dict) and isinstance(got, dict):
            return None                  # both raise (e.g. reduce of nothing)
        if isinstance(want, dict) or isinstance(got, dict):
            return Mismatch('%s: one executor raises, the other returns' % label, got, want, 'C03:exc:' + case['kind'], relation='spec')
        if got[0] != want[0]:
            return Mismatch('%s: action results differ from the in-process executor' % label, got[0], want[0],
                            'C03:results:' + (label if case['kind'] == 'backend' else 'sched'), relation='spec')
        # after a job whose user function raised (retried, then surfaced) what the failed attempts left in the cache and how
        # often functions ran is not fixed by the property: compare those only for histories without a raising action
        raised = any(isinstance(x, str) and x.startswith('raises:') for x in want[0])
        if raised:
            ctx.note('history-with-raising-action')
            return None
        if got[1] != want[1]:
            return Mismatch('%s: cache contents after the job differ from the in-process executor' % label, got[1], want[1],
                            'C03:cache:' + (label if case['kind'] == 'backend' else 'sched'), relation='spec')
        if inproc and got_counts != want_counts:
            return Mismatch('%s: user functions are called a different number of times than on the in-process executor (data cached '
                            'by the workers is not what later actions read)' % label, got_counts, want_counts,
                            'C03:recompute:' + (label if case['kind'] == 'backend' else 'sched'), relation='spec')
        if fps and fps[0][0] != fps[0][1]:
            diff = [(a, b) for a, b in zip(*fps[0]) if a != b][:2]
            return Mismatch('%s: the tasks (re)bound attributes of the dataset objects all threads share' % label, diff, None,
                            'C03:shared:attributes', relation='model-only')
        if pyrandom.getstate() != glob_before:
            return Mismatch('%s: the tasks changed the module-global random generator (shared by all threads)' % label, None, None,
                            'C03:shared:random', relation='model-only')
        return None

    def run_save(self, case, ctx):
        """a job with side effects: saveAsTextFile of a small dataset under a schedule (tasks create the target directory and
        write one file each) must end as on the in-process executor: same outcome, same files with the same contents"""
        import os
        import shutil
        import tempfile
        ctx.note('save:preempt%d' % len(case['preempt']))
        root = tempfile.mkdtemp(prefix='c03save-', dir=ctx.scratch)

        def run(sc, name):
            target = os.path.join(root, name)
            rdd = sc.parallelize(list(case['data']), case['n'])
            if case.get('map'):
                rdd = rdd.map(LAMBDAS[case['map']])
            try:
                if case.get('fmt') == 'pickle':
                    rdd.saveAsPickleFile(target)
                else:
                    rdd.saveAsTextFile(target)
                outcome = 'ok'
            except Exception as e:  # pylint: disable=broad-except
                outcome = 'raises:' + type(e).__name__
            files = {}
            for dp, _, fns in os.walk(target):
                for fn in fns:
                    with open(os.path.join(dp, fn), 'rb') as f:
                        files[os.path.relpath(os.path.join(dp, fn), target)] = f.read().decode('latin1')
            return [outcome, sorted(files.items())]
        try:
            want = run(self.ps.Context(max_retries=case['retries']), 'ref')
            pool = SchedPool(order=case['order'], preempt=[tuple(p) for p in case['preempt']])
            got = run(self.ps.Context(pool=pool, max_retries=case['retries']), 'sched')
            ctx.note('switches:%d' % min(pool.switches, 3))
        finally:
            shutil.rmtree(root, ignore_errors=True)
        if got != want:
            return Mismatch('schedule order=%s preempt=%s: saving on a thread pool ends differently from the in-process executor '
                            '(outcome, files written)' % (case['order'], case['preempt']), got, want, 'C03:save:sched', relation='spec')
        return None

    def run_model(self, case, ctx):
        """source -> sample(seed) -> persist, twice collected: real code on a backend vs the Lean task/pool model"""
        n, data, frac, seed = case['n'], case['data'], case['fraction'], case['seed']
        ctx.note('model:' + case['backend'])
        pipe = {'n': n, 'data': data, 'ops': [{'op': 'sample', 'repl': False, 'fraction': frac, 'seed': seed}, {'op': 'persist'}],
                'actions': ['collect', 'collect']}
        if case['backend'] == 'sched':
            pool = SchedPool(order=case['order'], preempt=[tuple(p) for p in case['preempt']])
            sc, table = self.ps.Context(pool=pool), LAMBDAS
        else:
            sc, table = self.backend(case['backend'])
        try:
            r = build(sc, pipe, table)
            parts = self.ps.Context().parallelize(list(data), n).glom().collect()
            first = r.glom().collect()
            cache1 = cache_view(sc)
            second = r.glom().collect()
        except Exception as e:  # pylint: disable=broad-except
            return Mismatch('sample->persist on %s raised' % case['backend'], exc(e), None, 'C03:model:exc')
        finally:
            if case['backend'] == 'thread':
                sc._pool.shutdown()  # pylint: disable=protected-access
        keeps = []
        for i, p in enumerate(parts):
            g = pyrandom.Random(seed + i)
            keeps.append([g.random() < frac for _ in p])
        sched = []
        if case['backend'] == 'sched':
            # the model's schedule: any interleaving will do (that is the theorem); derive one from the case
            rr = pyrandom.Random(canon(case['preempt']))
            sched = [rr.randrange(n) for _ in range(40)]
        m = ctx.driver.ask({'p': 'C03', 'rddId': 0, 'seed': seed, 'parts': parts, 'keeps': keeps, 'driver': [], 'sched': sched})
        if not m['threads_equal_isolated'] or not m['second_cache_same']:
            return Mismatch('Lean: thread schedule / second action disagree with the isolated run', None, m, 'model-spec')
        if m['local_outs'] != m['outs'] or sorted(map(canon, m['local_cache'])) != sorted(map(canon, m['cache'])):
            return Mismatch('Lean: distributed job differs from the local job', None, m, 'model-spec')
        if first != m['outs']:
            return Mismatch('%s: sampled partitions differ from the model (sample of partition i drawn from Random(seed + i) only)'
                            % case['backend'], first, m['outs'], 'C03:model:outs')
        if sorted(map(canon, cache1)) != sorted(map(canon, m['cache'])):
            return Mismatch('%s: merged cache differs from the model (entry (id, i) = partition i\'s own data)' % case['backend'],
                            cache1, m['cache'], 'C03:model:cache')
        if second != m['second']:
            return Mismatch('%s: second action differs from the model' % case['backend'], second, m['second'], 'C03:model:second')
        return None


PROP = C03()
