"""C20 — File patterns resolve to exactly the matching files."""
import fnmatch
import os

from core import Mismatch, Prop, canon
from util import exc

NAMES = ['a', 'b', 'ab', 'tree', 'tre', 'trie', 'a.txt', 'b.txt', 'ab.txt', 'data', 'x1', 'x2', 'out', 'part']


def gen_tree(rng):
    """list of relative file paths; dataset directories carry part files and a _SUCCESS marker"""
    files = set()

    def fill(prefix, depth):
        for _ in range(rng.randint(1, 3)):
            name = rng.choice(NAMES)
            r = rng.random()
            if r < .45 or depth >= 2:
                files.add(prefix + name)
            elif r < .7:
                d = prefix + name + '/'
                for i in range(rng.randint(1, 3)):
                    files.add(d + 'part-%05d' % i)
                files.add(d + '_SUCCESS')
                if rng.random() < .3:
                    files.add(d + 'partial/z')
            else:
                fill(prefix + name + '/', depth + 1)
    fill('', 0)
    # a name cannot be both a file and a directory
    out = sorted(files)
    dirs = {f[:i] for f in out for i, c in enumerate(f) if c == '/'}
    return [f for f in out if f not in dirs]


def wildcardize(rng, path):
    chars = list(path)
    k = rng.choice([0, 1, 1, 2])
    for _ in range(k):
        if not chars:
            break
        i = rng.randrange(len(chars))
        r = rng.random()
        if r < .5:
            chars[i] = '?'
        elif r < .8:
            j = min(len(chars), i + rng.randint(1, 4))
            chars[i:j] = ['*']
        else:
            chars[i:i] = ['*']
    return ''.join(chars)


class C20(Prop):
    id = 'C20'
    extracted = True      # Local.resolve_filenames regenerated from the current source (harness/extract_m.py, Extracted/EquivC20.lean)
    quick_cases = 3500
    thorough_cases = 20000
    quick_budget_s = 50
    rule = ('real directory trees (files, dataset directories with part files + _SUCCESS, nesting <= 3) x path expressions built '
            'from their file and directory names with ? / * substituted at random positions, directory items, non-matching '
            'items, comma combinations with surrounding blanks, with/without file://, relative (cwd switched into the tree), '
            './-anchored and absolute. File.resolve_filenames compared as a set with the Lean resolver (which is proved equal '
            'to "all existing files matching the item or item/part*"), textFile() order compared with the sorted model order, '
            'and the model matcher validated against fnmatch. Non-trivial = expression contains a wildcard, a directory item or '
            'a comma; distinct = distinct canonical case.')
    trusted = ('fnmatch and os.walk (the matcher model is validated against fnmatch on the alphabet without "[" and "]")',
               'character classes "[...]" are outside the property and the alphabet')

    def setup(self, ctx):
        from pysparkling import Context
        from pysparkling.fileio import File
        self.Context = Context
        self.File = File
        self.n = 0
        self.cwd0 = os.getcwd()

    def teardown(self, ctx):
        os.chdir(self.cwd0)

    def gen(self, rng, tier):
        files = gen_tree(rng)
        dirs = sorted({f[:i] for f in files for i, c in enumerate(f) if c == '/'})
        items = []
        for _ in range(rng.choice([1, 1, 1, 2, 3])):
            r = rng.random()
            if r < .5:
                it = wildcardize(rng, rng.choice(files))
            elif r < .75 and dirs:
                it = rng.choice(dirs)
                if rng.random() < .3:
                    it = wildcardize(rng, it)
                r2 = rng.random()
                if r2 < .2:
                    it += '/'
                elif r2 < .45:
                    it += '/*'
            elif r < .85:
                it = rng.choice(files)
            else:
                it = rng.choice(['nothing', 'zz*', 'tree/zz?', '*/nope', '?'])
            style = rng.choice(['rel', 'rel', 'dot', 'abs'])
            if style == 'dot':
                it = './' + it
            elif style == 'abs':
                it = '@BASE@/' + it
            if rng.random() < .2:
                it = 'file://' + it
            if rng.random() < .15:
                it = rng.choice([' ', '  ']) + it + rng.choice(['', ' '])
            items.append(it)
        case = {'files': files, 'expr': ','.join(items), 'read': rng.random() < .3}
        if rng.random() < .25:
            # a history: after the first resolution files appear (next to existing ones, in directories of any depth) and
            # disappear; the same expression must then resolve to the files that exist NOW
            later = []
            for _ in range(rng.randint(1, 3)):
                f = rng.choice(files)
                d = f.rsplit('/', 1)[0] + '/' if '/' in f else ''
                later.append(d + rng.choice(['part-00007', 'a.txt', 'zz.txt', 'new/part-00000', os.path.basename(f) + 'x']))
            def fits(f):
                # not the name of an existing directory, and no existing (or new) file among its parent directories
                others = set(files) | set(later)
                parents = {f[:i] for i, c in enumerate(f) if c == '/'}
                return not any(o.startswith(f + '/') for o in others) and not (parents & others)
            case['later'] = sorted(f for f in set(later) - set(files) if fits(f))
            case['gone'] = [f for f in files if rng.random() < .2]
        return case

    def fixed_cases(self, tier):
        files = ['tree/a.txt', 'tree/b.txt', 'trie/a.txt', 'a.txt', 'out/part-00000', 'out/part-00001', 'out/_SUCCESS',
                 'nest/out/part-00000', 'nest/out/_SUCCESS']
        exprs = ['tre?/a.txt', '*/a.txt', '?ree/a.txt', './tre?/a.txt', 'tree/*', 'tree/?.txt', '*.txt', 'a.txt', 'out', 'out/',
                 'nest/out', 'nest/*', '*', 'file://out', 'file://@BASE@/out', '@BASE@/tr*/a.txt', 'out,tree/a.txt', ' out , a.txt',
                 'none*', 'out/_SUCC*', 'out/part-0000?', 'o*t', 'nest/o?t']
        hist = [{'files': files, 'expr': e, 'read': False, 'later': ['nest/out/part-00003', 'tree/c.txt'], 'gone': ['tree/a.txt']}
                for e in ('nest/out', 'nes*/o?t/part-*', 'tre?/*.txt', '@BASE@/nest/out', '*/*')]
        return [{'files': files, 'expr': e, 'read': True} for e in exprs] + hist

    def nontrivial(self, case):
        return any(c in case['expr'] for c in '*?,') or not any(case['expr'].strip().endswith(f) for f in case['files'])

    def shrink(self, case):
        fs = case['files']
        for i in range(len(fs)):
            yield dict(case, files=fs[:i] + fs[i + 1:])
        items = case['expr'].split(',')
        if len(items) > 1:
            for i in range(len(items)):
                yield dict(case, expr=','.join(items[:i] + items[i + 1:]))

    def run_case(self, case, ctx):
        self.n += 1
        base = os.path.join(ctx.scratch, 'g%d' % self.n)
        os.makedirs(base)
        for f in case['files']:
            p = os.path.join(base, f)
            os.makedirs(os.path.dirname(p), exist_ok=True)
            with open(p, 'w') as fh:
                fh.write('' if f.endswith('_SUCCESS') else os.path.basename(f) + '\n')
        expr = case['expr'].replace('@BASE@', base)
        styles = set()
        for it in expr.split(','):
            s = it.strip()
            styles.add('abs' if s.replace('file://', '').startswith('/') else 'dot' if s.replace('file://', '').startswith('./') else 'rel')
            ctx.note('style:' + ('abs' if s.replace('file://', '').startswith('/') else 'dot' if s.replace('file://', '').startswith('./') else 'rel'))
            ctx.note('wild' if ('*' in s or '?' in s) else 'literal')
        os.chdir(base)
        try:
            try:
                got = self.File.resolve_filenames(expr)
            except Exception as e:  # pylint: disable=broad-except
                got = exc(e)
            back = None
            if case.get('read') and not isinstance(got, dict):
                try:
                    sc = self.Context()
                    back = [] if not got else sc.textFile(expr).collect()
                except Exception as e:  # pylint: disable=broad-except
                    back = exc(e)
        finally:
            os.chdir(self.cwd0)
        if isinstance(back, list) and not isinstance(got, dict) and len(styles) == 1:
            # the property itself, independent of how the library spells the names it resolved: when the caller spells every
            # item the same way (all relative, all ./-anchored or all absolute) the files are read in the sorted order of their
            # PATHS ('./x.dat' and 'x.dat' are the same path; a mixture of spellings chosen by the caller is left alone)
            by_path = [os.path.basename(q) for q in sorted(os.path.normpath(q) for q in got) if not q.endswith('_SUCCESS')]
            if back != by_path:
                return Mismatch('readers do not process the resolved files in sorted path order', back, by_path, 'C20:order:paths',
                                relation='spec')
        r = ctx.driver.ask({'p': 'C20', 'op': 'resolve', 'files_rel': case['files'], 'base': base, 'expr': expr})
        if sorted(r['model']) != sorted(r['spec']):
            return Mismatch('Lean resolver differs from the filter SPEC (theorem hypothesis violated?)', r['model'], r['spec'], 'model-spec')
        if isinstance(got, dict):
            return Mismatch('resolve_filenames raised', got, r['model'], 'C20:exc')
        if sorted(got) != sorted(r['model']):
            return Mismatch('path expression does not resolve to exactly the matching existing files', sorted(got), sorted(r['model']),
                            'C20:resolve', relation='set')
        # validate the model matcher against fnmatch on every (item, file) pair of this case
        for it in expr.split(','):
            pat = it.strip().replace('file://', '')
            for f in r['model'][:3] + case['files'][:3]:
                m = ctx.driver.ask({'p': 'C20', 'op': 'match', 'pattern': pat, 's': f})['model']
                if m != fnmatch.fnmatchcase(f, pat):
                    return Mismatch('model matcher differs from fnmatch', fnmatch.fnmatchcase(f, pat), m, 'matcher-model')
        if case.get('later') or case.get('gone'):
            ctx.note('history:files-appear-and-disappear')
            now = [f for f in case['files'] if f not in (case.get('gone') or [])] + list(case.get('later') or [])
            for f in case.get('gone') or []:
                os.remove(os.path.join(base, f))
            for f in case.get('later') or []:
                q_ = os.path.join(base, f)
                os.makedirs(os.path.dirname(q_), exist_ok=True)
                with open(q_, 'w') as fh:
                    fh.write(os.path.basename(f) + '\n')
            os.chdir(base)
            try:
                try:
                    got2 = self.File.resolve_filenames(expr)
                except Exception as e:  # pylint: disable=broad-except
                    got2 = exc(e)
            finally:
                os.chdir(self.cwd0)
            r2 = ctx.driver.ask({'p': 'C20', 'op': 'resolve', 'files_rel': now, 'base': base, 'expr': expr})
            if isinstance(got2, dict) or sorted(got2) != sorted(r2['model']):
                return Mismatch('after files appeared / disappeared the same expression does not resolve to exactly the files that '
                                'exist now', got2 if isinstance(got2, dict) else sorted(got2), sorted(r2['model']), 'C20:resolve:history',
                                relation='set')
        if back is not None:
            if isinstance(back, dict):
                return Mismatch('textFile raised on the resolved files', back, r['reader'], 'C20:read:exc')
            want = []
            for name in r['reader']:
                b = os.path.basename(name)
                if not b.endswith('_SUCCESS'):
                    want.append(b)
            if back != want:
                return Mismatch('readers do not process the resolved files in sorted path order', back, want, 'C20:order')
        return None


PROP = C20()
