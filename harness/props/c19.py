"""C19 — Type descriptions round-trip and inferred schemas accept their data."""
import datetime
import decimal
import json
import pickle

from core import Mismatch, Prop, canon
from util import exc

ATOMS = ['string', 'binary', 'boolean', 'date', 'timestamp', 'double', 'float', 'byte', 'integer', 'long', 'short']
RANGES = {'byte': 7, 'short': 15, 'integer': 31, 'long': 63}


def T():
    from pysparkling.sql import types
    return types


def atom(name):
    t = T()
    return {'string': t.StringType, 'binary': t.BinaryType, 'boolean': t.BooleanType, 'date': t.DateType,
            'timestamp': t.TimestampType, 'double': t.DoubleType, 'float': t.FloatType, 'byte': t.ByteType,
            'integer': t.IntegerType, 'long': t.LongType, 'short': t.ShortType, 'null': t.NullType}[name]()


def gen_type(rng, depth, for_key=False, inferable=False):
    t = T()
    r = rng.random()
    if depth <= 0 or r < .45 or for_key:
        if for_key:
            return atom(rng.choice(['string', 'long', 'date'] if inferable else ['string', 'long', 'integer', 'date']))
        if inferable:
            return atom(rng.choice(['string', 'boolean', 'long', 'double', 'date', 'timestamp', 'binary']))
        if for_key:
            return atom(rng.choice(['string', 'long', 'integer', 'date']))
        if rng.random() < .12:
            return t.DecimalType(rng.randint(1, 38), rng.randint(0, 18)) if not inferable else t.DecimalType(38, 18)
        return atom(rng.choice(ATOMS))
    if r < .62:
        return t.ArrayType(gen_type(rng, depth - 1, inferable=inferable), True if inferable else rng.random() < .6)
    if r < .75:
        return t.MapType(gen_type(rng, depth - 1, for_key=True, inferable=inferable), gen_type(rng, depth - 1, inferable=inferable),
                         True if inferable else rng.random() < .6)
    return gen_struct(rng, depth - 1, inferable)


def gen_struct(rng, depth, inferable=False):
    t = T()
    names = rng.sample(['a', 'b', 'c', 'id', 'name', 'x y', 'é', 'value', '_1'], rng.randint(1, 4))
    fields = []
    for n in names:
        md = None if (inferable or rng.random() < .7) else rng.choice([{'k': 1}, {'comment': 'c', 'n': {'z': [1, 2]}}, {}])
        fields.append(t.StructField(n, gen_type(rng, depth, inferable=inferable), True if inferable else rng.random() < .7, md))
    return t.StructType(fields)


def gen_value(rng, dt, nullable, null_p=.2):
    t = T()
    if nullable and rng.random() < null_p:
        return None
    if isinstance(dt, t.BooleanType):
        return rng.random() < .5
    if isinstance(dt, (t.ByteType, t.ShortType, t.IntegerType, t.LongType)):
        b = RANGES[dt.typeName()]
        return rng.choice([0, 1, -1, 2 ** b - 1, -(2 ** b), rng.randint(-100, 100)])
    if isinstance(dt, (t.FloatType, t.DoubleType)):
        return rng.choice([0.0, 1.5, -2.25, 1e10])
    if isinstance(dt, t.StringType):
        return rng.choice(['', 'a', 'é', 'x y'])
    if isinstance(dt, t.BinaryType):
        return bytearray(rng.choice([b'', b'ab', b'\x00\xff']))
    if isinstance(dt, t.DecimalType):
        return decimal.Decimal(rng.choice(['0', '1.5', '-12.25']))
    if isinstance(dt, t.TimestampType):
        return datetime.datetime(2020, rng.randint(1, 12), rng.randint(1, 28), rng.randint(0, 23), 5, 6)
    if isinstance(dt, t.DateType):
        return datetime.date(2019, rng.randint(1, 12), rng.randint(1, 28))
    if isinstance(dt, t.ArrayType):
        return [gen_value(rng, dt.elementType, dt.containsNull, null_p) for _ in range(rng.choice([0, 1, 2, 3]))]
    if isinstance(dt, t.MapType):
        out = {}
        for _ in range(rng.choice([0, 1, 2])):
            out[_hashable(gen_value(rng, dt.keyType, False))] = gen_value(rng, dt.valueType, dt.valueContainsNull, null_p)
        return out
    if isinstance(dt, t.StructType):
        return t.Row(*dt.names)(*[gen_value(rng, f.dataType, f.nullable, null_p) for f in dt.fields])
    if isinstance(dt, t.NullType):
        return None
    raise TypeError(dt)


def inject(rng, dt, v, mode):
    """corrupt one position INSIDE a nested value (array element, map value, nested struct field): a null where the
    type says non-nullable, an out-of-range integer, or a value of the wrong class. Returns (value, done)."""
    t = T()
    if v is None:
        return v, False
    if isinstance(dt, t.ArrayType) and isinstance(v, list) and v:
        i = rng.randrange(len(v))
        if mode == 'null' and not dt.containsNull and not isinstance(dt.elementType, t.NullType) and rng.random() < .7:
            return v[:i] + [None] + v[i + 1:], True
        nv, done = inject(rng, dt.elementType, v[i], mode)
        return v[:i] + [nv] + v[i + 1:], done
    if isinstance(dt, t.MapType) and isinstance(v, dict) and v:
        k = rng.choice(list(v))
        if mode == 'null' and not dt.valueContainsNull and not isinstance(dt.valueType, t.NullType) and rng.random() < .7:
            return dict(v, **{k: None}) if isinstance(k, str) else {**v, k: None}, True
        nv, done = inject(rng, dt.valueType, v[k], mode)
        return {**v, k: nv}, done
    if isinstance(dt, t.StructType) and isinstance(v, tuple) and len(v):
        idxs = list(range(len(dt.fields)))
        rng.shuffle(idxs)
        vals = list(v)
        for i in idxs:
            f = dt.fields[i]
            if mode == 'null' and not f.nullable and not isinstance(f.dataType, t.NullType):
                vals[i] = None
                return t.Row(*dt.names)(*vals), True
            nv, done = inject(rng, f.dataType, vals[i], mode)
            if done:
                vals[i] = nv
                return t.Row(*dt.names)(*vals), True
        return v, False
    if mode == 'range' and isinstance(dt, (t.ByteType, t.ShortType, t.IntegerType, t.LongType)):
        b = RANGES[dt.typeName()]
        return rng.choice([2 ** b, -(2 ** b) - 1]), True
    if mode == 'type' and isinstance(dt, (t.BooleanType, t.LongType, t.IntegerType, t.DoubleType, t.DateType, t.TimestampType, t.BinaryType)):
        return 'text', True
    return v, False


def gen_deep_type(rng, depth):
    """nested types that mostly forbid nulls inside, over every atom class (strings included)"""
    t = T()
    nn = rng.random() < .3          # nulls allowed at this level?
    if depth <= 0 or rng.random() < .3:
        return atom(rng.choice(['string', 'string', 'long', 'integer', 'short', 'boolean', 'double', 'date', 'binary']))
    r = rng.random()
    if r < .45:
        return t.ArrayType(gen_deep_type(rng, depth - 1), nn)
    if r < .75:
        return t.MapType(atom(rng.choice(['string', 'long'])), gen_deep_type(rng, depth - 1), nn)
    return t.StructType([t.StructField(n, gen_deep_type(rng, depth - 1), rng.random() < .3)
                         for n in rng.sample(['a', 'b', 'c', 'x y'], rng.randint(1, 3))])


def gen_deep_struct(rng):
    t = T()
    fields = []
    for n in rng.sample(['a', 'b', 'c', 'id'], rng.randint(1, 3)):
        dt = gen_deep_type(rng, 2)
        while not isinstance(dt, (t.ArrayType, t.MapType, t.StructType)):
            dt = gen_deep_type(rng, 2)
        fields.append(t.StructField(n, dt, rng.random() < .3))
    return t.StructType(fields)


def _hashable(v):
    return v


def pv(v):
    t = T()
    if v is None:
        return None
    if isinstance(v, bool):
        return {'bool': v}
    if isinstance(v, int):
        return {'int': v}
    if isinstance(v, float):
        return 'float'
    if isinstance(v, str):
        return 'str'
    if isinstance(v, bytearray):
        return 'bytes'
    if isinstance(v, decimal.Decimal):
        return 'decimal'
    if isinstance(v, datetime.datetime):
        return 'datetime'
    if isinstance(v, datetime.date):
        return 'date'
    if isinstance(v, t.Row):
        return {'row': [[n, pv(x)] for n, x in zip(v.__fields__, v)]}
    if isinstance(v, (list, tuple)):
        return {'list': [pv(x) for x in v]}
    if isinstance(v, dict):
        return {'dict': [[pv(k), pv(x)] for k, x in v.items()]}
    raise TypeError(type(v))


def dump(dt):
    """structural dump of a real type object (same shape as the driver's dump)"""
    t = T()
    if isinstance(dt, t.DecimalType):
        return {'decimal': [dt.precision, dt.scale]}
    if isinstance(dt, t.ArrayType):
        return {'array': dump(dt.elementType), 'containsNull': dt.containsNull}
    if isinstance(dt, t.MapType):
        return {'mapKey': dump(dt.keyType), 'mapValue': dump(dt.valueType), 'valueContainsNull': dt.valueContainsNull}
    if isinstance(dt, t.StructType):
        return {'struct': [{'name': f.name, 'type': dump(f.dataType), 'nullable': f.nullable, 'metadata': f.metadata}
                           for f in dt.fields]}
    return {'atom': dt.typeName()}


class C19(Prop):
    id = 'C19'
    extracted = True      # JSON description of the types regenerated from the current source (Extracted/EquivC19.lean)
    quick_cases = 5000
    thorough_cases = 40000
    quick_budget_s = 50
    rule = ('json: type trees to depth 3 over all atomic types, decimals, arrays, maps, structs with nullability and metadata '
            '-> real json() text -> _parse_datatype_json_string, compared structurally with the Lean parser/printer; '
            'infer: 1..4 rows of nested Rows / lists / dicts of supported Python values with nulls at every position -> '
            'infer_schema_from_list vs the Lean inference+merge, the verifier on every row, createDataFrame(...).collect() == '
            'rows; verify: explicit schemas with valid rows and single-field corruptions (wrong Python type, out-of-range '
            'byte/short/int/long, None in a non-nullable position, wrong tuple length) -> accepted / exception class vs the Lean '
            'verifier; row: pickle round trip and asDict. Non-trivial = a nested type or a corruption; distinct = distinct case.')
    trusted = ('JSON text (de)serialisation (json module), pickle, time-zone conversion of aware timestamps (naive ones only)',
               'StringType accepts any Python object (as in PySpark) — not counted as a wrong-type rejection',
               'dict keys None are outside the generator (Spark forbids null map keys)')

    def setup(self, ctx):
        from pysparkling import Context
        from pysparkling.sql.session import SparkSession
        self.spark = SparkSession(Context())

    def gen(self, rng, tier):
        r = rng.random()
        if r < .3:
            dt = gen_type(rng, 3) if rng.random() < .7 else gen_struct(rng, 2)
            return {'kind': 'json', 'seed': rng.getrandbits(40)}
        if r < .6:
            return {'kind': 'infer', 'seed': rng.getrandbits(40)}
        if r < .92:
            return {'kind': 'verify', 'seed': rng.getrandbits(40)}
        return {'kind': 'row', 'seed': rng.getrandbits(40)}

    def fixed_cases(self, tier):
        sweep = [{'kind': 'nullsweep', 'seed': 0, 'atom': a, 'shape': sh} for a in ATOMS for sh in range(6)]
        return sweep + [{'kind': k, 'seed': s} for k in ('json', 'infer', 'verify', 'row') for s in range(12)]

    def nontrivial(self, case):
        return True

    def run_case(self, case, ctx):
        import random
        rng = random.Random(case['seed'])
        kind = case['kind']
        ctx.note('kind:' + kind)
        t = T()
        ask = ctx.driver.ask
        if kind == 'json':
            dt = gen_type(rng, 3) if rng.random() < .7 else gen_struct(rng, 2)
            text = dt.json()
            jv = json.loads(text)
            try:
                back = t._parse_datatype_json_string(text)
            except Exception as e:  # pylint: disable=broad-except
                return Mismatch('parsing the JSON description of a type raised', exc(e), text, 'C19:json:exc')
            if back != dt or dump(back) != dump(dt):
                return Mismatch('a data type is not reproduced by parsing its JSON description', dump(back), dump(dt), 'C19:json:roundtrip',
                                relation='spec')
            # the same for a tree that has been used before (hashed: a dict key, a set member), in both directions
            h = hash(dt)
            again = t._parse_datatype_json_string(dt.json())
            if again != dt or dt != again or hash(again) != h or len({dt, again}) != 1:
                return Mismatch('a data type that has been hashed is not equal to the tree parsed from its JSON description',
                                dump(again), dump(dt), 'C19:json:roundtrip-hashed', relation='spec')
            # ... and for a tree that has been USED: converted values with it, described itself, served as a schema
            try:
                v = gen_value(rng, dt, True)
                dt.needConversion()
                dt.fromInternal(dt.toInternal(v))
                dt.simpleString()
                if not isinstance(dt, t.NullType):
                    self.spark.createDataFrame([(v,)], t.StructType([t.StructField('x', dt, True)]), verifySchema=False).collect()
            except Exception:  # pylint: disable=broad-except
                pass          # (what these calls return is the subject of other cases; here only that the tree stays itself)
            used = t._parse_datatype_json_string(dt.json())
            if used != dt or dt != used or dump(used) != dump(dt):
                return Mismatch('a data type that has been used (values converted, served as a schema) is not equal to the tree parsed '
                                'from its JSON description', dump(used), dump(dt), 'C19:json:roundtrip-used', relation='spec')
            r = ask({'p': 'C19', 'op': 'parse', 'json': jv})
            if r['dump'] is None or canon(r['dump']) != canon(dump(dt)):
                return Mismatch('Lean JSON parser differs from the real type tree', dump(dt), r['dump'], 'json-model:parse')
            if canon(r['tojson']) != canon(jv):
                return Mismatch('Lean JSON printer differs from jsonValue()', jv, r['tojson'], 'json-model:print')
            return None
        if kind == 'infer':
            st = gen_struct(rng, 2, inferable=True)
            rows = [gen_value(rng, st, False, null_p=.3) for _ in range(rng.randint(1, 4))]
            from pysparkling.sql.schema_utils import infer_schema_from_list
            m = ask({'p': 'C19', 'op': 'infer', 'rows': [pv(r) for r in rows]})['schema']
            try:
                schema = infer_schema_from_list(list(rows))
                got = json.loads(schema.json())
            except (ValueError, TypeError) as e:
                schema, got = None, None
            except Exception as e:  # pylint: disable=broad-except
                return Mismatch('schema inference raised an unexpected exception', exc(e), m, 'C19:infer:exc')
            ctx.note('infer:' + ('ok' if got is not None else 'undetermined'))
            if canon(got) != canon(m):
                return Mismatch('inferred schema differs from the model', got, m, 'C19:infer')
            if schema is None:
                return None
            verifier = t._make_type_verifier(schema)
            for row in rows:
                try:
                    verifier(row)
                except Exception as e:  # pylint: disable=broad-except
                    return Mismatch('the inferred schema does not verify a row it was inferred from', exc(e), pv(row),
                                    'C19:infer:verify', relation='spec')
                mv = ask({'p': 'C19', 'op': 'verify', 'type': got, 'nullable': False, 'value': pv(row)})['model']
                if mv is not None:
                    return Mismatch('Lean verifier rejects a row of an inferred schema (theorem hypothesis violated?)', None, mv,
                                    'model-spec:infer-verify')
            try:
                back = self.spark.createDataFrame(list(rows)).collect()
            except Exception as e:  # pylint: disable=broad-except
                return Mismatch('createDataFrame(rows).collect() raised', exc(e), [pv(r) for r in rows], 'C19:create:exc', relation='spec')
            if back != rows or [r.__fields__ for r in back] != [tuple(r.__fields__) for r in rows]:
                return Mismatch('createDataFrame followed by collect does not return rows equal to the input', [pv(r) for r in back],
                                [pv(r) for r in rows], 'C19:create:roundtrip', relation='spec')
            return None
        if kind == 'nullsweep':
            # every atom class x every way of nesting it where nulls are forbidden: a null there must be rejected,
            # the same value without the null accepted
            a = atom(case['atom'])
            ok = gen_value(rng, a, False)
            shapes = [
                (t.ArrayType(a, False), [ok, None], [ok, ok]),
                (t.MapType(atom('string'), a, False), {'k': ok, 'j': None}, {'k': ok}),
                (t.StructType([t.StructField('a', a, False)]), t.Row('a')(None), t.Row('a')(ok)),
                (t.ArrayType(t.ArrayType(a, False), False), [[ok], [None]], [[ok], []]),
                (t.MapType(atom('string'), t.ArrayType(a, False), True), {'k': None, 'j': [ok, None, ok]}, {'k': None, 'j': [ok]}),
                (t.ArrayType(t.StructType([t.StructField('a', a, False), t.StructField('b', a, True)]), False),
                 [t.Row('a', 'b')(ok, None), t.Row('a', 'b')(None, ok)], [t.Row('a', 'b')(ok, None)]),
            ]
            dt, badv, goodv = shapes[case['shape']]
            st = t.StructType([t.StructField('f', dt, False)])
            ctx.note('nullsweep:%d' % case['shape'])
            for v, should in ((badv, 'ValueError'), (goodv, None)):
                row = t.Row('f')(v)
                mv = ask({'p': 'C19', 'op': 'verify', 'type': json.loads(st.json()), 'nullable': False, 'value': pv(row)})['model']
                want = {None: None, 'wrongType': 'TypeError', 'outOfRange': 'ValueError', 'nullability': 'ValueError', 'length': 'ValueError'}[mv]
                if want != should:
                    return Mismatch('Lean: verify model disagrees with the null sweep', mv, should, 'model-spec')
                try:
                    t._make_type_verifier(st)(row)
                    got = None
                except Exception as e:  # pylint: disable=broad-except
                    got = type(e).__name__
                if got != should:
                    return Mismatch('verification of a null inside %s (nulls forbidden there)' % dt.simpleString(), got, should,
                                    'C19:verify:nullsweep', relation='spec')
            # the same through createDataFrame, in BOTH orders with the all-nullable twin of the schema (same names and types,
            # nulls allowed everywhere): verification must depend on the schema given, not on one seen earlier in the process
            def relax(x):
                if isinstance(x, t.ArrayType):
                    return t.ArrayType(relax(x.elementType), True)
                if isinstance(x, t.MapType):
                    return t.MapType(x.keyType, relax(x.valueType), True)
                if isinstance(x, t.StructType):
                    return t.StructType([t.StructField(f.name, relax(f.dataType), True) for f in x.fields])
                return x
            twin = relax(st)

            def create(schema, v):
                try:
                    self.spark.createDataFrame([t.Row('f')(v)], schema).collect()
                    return None
                except Exception as e:  # pylint: disable=broad-except
                    return type(e).__name__
            for order in (('twin', 'strict'), ('strict', 'twin')):
                for which in order:
                    got = create(twin if which == 'twin' else st, badv)
                    should = None if which == 'twin' else 'ValueError'
                    if got != should:
                        return Mismatch('createDataFrame(row with a null inside %s, %s schema) after using the %s schema first'
                                        % (dt.simpleString(), which, order[0]), got, should, 'C19:create:nullsweep', relation='spec')
            return None
        if kind == 'verify':
            st = gen_struct(rng, 2)
            row = gen_value(rng, st, False)
            corrupt = rng.choice([None, None, 'type', 'range', 'null', 'length', 'deep', 'deep', 'deep'])
            want_cls = None
            if corrupt == 'deep':
                st = gen_deep_struct(rng) if rng.random() < .7 else gen_struct(rng, 3)
                row = gen_value(rng, st, False, null_p=.05)
                mode = rng.choice(['null', 'null', 'range', 'type'])
                vals = list(row)
                idxs = list(range(len(vals)))
                rng.shuffle(idxs)
                corrupt = None
                for i in idxs:
                    if isinstance(st.fields[i].dataType, (t.ArrayType, t.MapType, t.StructType)):
                        nv, done = inject(rng, st.fields[i].dataType, vals[i], mode)
                        if done:
                            vals[i] = nv
                            row = t.Row(*st.names)(*vals)
                            corrupt = 'deep-' + mode
                            break
            elif corrupt:
                vals = list(row)
                idxs = list(range(len(vals)))
                rng.shuffle(idxs)
                done = False
                for i in idxs:
                    f = st.fields[i]
                    if corrupt == 'type' and not isinstance(f.dataType, t.StringType) and not isinstance(f.dataType, t.NullType):
                        # (an arbitrary object is a legal struct value: its __dict__ is read; so no Weird for structs)
                        vals[i] = object.__new__(Weird) if (rng.random() < .3 and not isinstance(f.dataType, t.StructType)) else (
                            'text' if not isinstance(f.dataType, t.StringType) else 5)
                        if isinstance(f.dataType, (t.ArrayType,)) and isinstance(vals[i], str):
                            vals[i] = 5
                        if isinstance(f.dataType, (t.ByteType, t.ShortType, t.IntegerType, t.LongType)) and rng.random() < .5:
                            vals[i] = rng.random() < .5     # a bool is the Python type of BooleanType only
                        if isinstance(f.dataType, t.ArrayType) and rng.random() < .3:
                            vals[i] = t.Row('x')(1)         # a Row is a struct value, not an array
                        want_cls, done = 'TypeError', True
                    elif corrupt == 'range' and isinstance(f.dataType, (t.ByteType, t.ShortType, t.IntegerType, t.LongType)):
                        b = RANGES[f.dataType.typeName()]
                        vals[i] = rng.choice([2 ** b, -(2 ** b) - 1, 2 ** 70])
                        want_cls, done = 'ValueError', True
                    elif corrupt == 'null' and not f.nullable and not isinstance(f.dataType, t.NullType):
                        vals[i] = None
                        want_cls, done = 'ValueError', True
                    if done:
                        break
                if corrupt == 'length' and not done:
                    vals = vals + [1]
                    want_cls, done = 'ValueError', True
                    row = tuple(vals)
                elif done:
                    row = t.Row(*st.names)(*vals) if rng.random() < .5 else tuple(vals)
                else:
                    corrupt = None
            ctx.note('verify:' + str(corrupt))
            jv = json.loads(st.json())
            try:
                wire = pv(row) if isinstance(row, t.Row) else {'list': [pv(x) for x in row]}
                mv = ask({'p': 'C19', 'op': 'verify', 'type': jv, 'nullable': False, 'value': wire})['model']
            except TypeError:  # an object of a foreign class is not encodable as a model value: wrong type by construction
                mv = 'wrongType'
            try:
                t._make_type_verifier(st)(row)
                got = None
            except Exception as e:  # pylint: disable=broad-except
                got = type(e).__name__
            want = {None: None, 'wrongType': 'TypeError', 'outOfRange': 'ValueError', 'nullability': 'ValueError',
                    'length': 'ValueError'}[mv]
            if corrupt and got is None:
                return Mismatch('verification accepted a row with a %s corruption' % corrupt, got, want_cls, 'C19:verify:accepts-' + corrupt,
                                relation='spec')
            if got != want:
                return Mismatch('verifier outcome differs from the model', got, want, 'C19:verify:' + str(corrupt))
            if not corrupt:
                try:
                    frame = self.spark.createDataFrame([row], st)
                    back = frame.collect()
                except Exception as e:  # pylint: disable=broad-except
                    return Mismatch('createDataFrame(valid row, schema).collect() raised', exc(e), pv(row), 'C19:create-schema:exc',
                                    relation='spec')
                # the schema a frame hands out is the type tree it was given, and is reproduced by its own JSON description
                out_schema = frame.schema
                reparsed = t._parse_datatype_json_string(out_schema.json())
                if out_schema != st or st != out_schema or reparsed != out_schema or out_schema != reparsed or dump(out_schema) != dump(st):
                    return Mismatch('the schema of createDataFrame(rows, schema) is not the given type tree / is not reproduced by parsing '
                                    'its JSON description', dump(out_schema), dump(st), 'C19:create-schema:schema-roundtrip', relation='spec')
                if list(back[0]) != list(row) or list(back[0].__fields__) != list(st.names):
                    return Mismatch('createDataFrame with a schema does not return the input row', pv(back[0]), pv(row),
                                    'C19:create-schema:roundtrip', relation='spec')
                if len(row):
                    # the same values as a Row built from positional values only (a Row without field names: a tuple)
                    prow = t.Row(*list(row))
                    try:
                        back = self.spark.createDataFrame([prow], st).collect()
                        ok = list(back[0]) == list(row) and list(back[0].__fields__) == list(st.names)
                    except Exception as e:  # pylint: disable=broad-except
                        return Mismatch('createDataFrame(Row built from positional values, schema).collect() raised', exc(e), pv(row),
                                        'C19:create-schema:positional-row-exc', relation='spec')
                    ctx.note('create-schema:positional-row')
                    if not ok:
                        return Mismatch('createDataFrame(Row built from positional values, schema) does not return the input row',
                                        pv(tuple(back[0])), pv(tuple(row)), 'C19:create-schema:positional-row', relation='spec')
                if len(set(st.names)) == len(st.names) and st.names:
                    # the same row built with keywords (the Row constructor sorts the fields by name), and with one field
                    # more than the schema has: the values must arrive under their own names, one value per column
                    for extra in (False, True):
                        kw = dict(zip(st.names, row))
                        if extra:
                            kw['zz_' + max(st.names, key=len)] = 7
                        krow = t.Row(**kw)
                        try:
                            back = self.spark.createDataFrame([krow], st).collect()
                        except Exception as e:  # pylint: disable=broad-except
                            return Mismatch('createDataFrame(keyword-built row, schema).collect() raised', exc(e), pv(row),
                                            'C19:create-schema:kw-exc', relation='spec')
                        ctx.note('create-schema:keyword-row' + ('+extra' if extra else ''))
                        if list(back[0].__fields__) != list(st.names) or len(back[0]) != len(st.names) or \
                                [back[0][n] for n in st.names] != list(row):
                            return Mismatch('createDataFrame(keyword-built row%s, schema) does not return the values under their field '
                                            'names' % (' with one more field' if extra else ''),
                                            {'fields': list(back[0].__fields__), 'values': pv(tuple(back[0]))},
                                            {'fields': list(st.names), 'values': pv(tuple(row))},
                                            'C19:create-schema:keyword-row', relation='spec')
            return None
        # row: pickle and asDict
        names = rng.sample(['a', 'b', 'c', 'd', 'e'], rng.randint(1, 4))
        vals = [rng.randint(0, 9) for _ in names]
        row = t.Row(*names)(*vals)
        back = pickle.loads(pickle.dumps(row))
        if back != row or list(back.__fields__) != list(row.__fields__):
            return Mismatch('Row does not survive pickling', [list(back.__fields__), list(back)], [names, vals], 'C19:row:pickle', relation='spec')
        m = ask({'p': 'C19', 'op': 'asdict', 'names': names, 'values': vals})['model']
        if sorted(row.asDict().items()) != sorted((k, v) for k, v in m):
            return Mismatch('Row.asDict differs from the model', row.asDict(), m, 'C19:row:asDict')
        nested = t.Row('x', 'y')(row, [row])
        d = nested.asDict(True)
        if d != {'x': dict(zip(names, vals)), 'y': [dict(zip(names, vals))]}:
            return Mismatch('Row.asDict(recursive=True) loses names or values', d, None, 'C19:row:asDict-recursive', relation='spec')
        return None


class Weird:
    pass


PROP = C19()
