"""C07 — Partition layout contracts of parallelize, coalesce, repartition, partitionBy."""
import json
import os
import subprocess
import sys

import funcs as F
from core import HarnessError, Mismatch, Prop, REPO, canon

HERE = os.path.dirname(os.path.dirname(os.path.abspath(__file__)))


def gen_key(rng, depth=0):
    r = rng.random()
    if r < .12:
        return None
    if r < .45:
        return rng.choice([0, 1, 2, 3, -1, -2, 7, 100, 2 ** 31, 2 ** 32 + 5, 2 ** 61 - 1, 2 ** 61, -(2 ** 61 - 1),
                           -(2 ** 61), 2 ** 63, 2 ** 64 + 3, -(2 ** 70), rng.randint(-10 ** 6, 10 ** 6),
                           rng.getrandbits(80)])
    if r < .7:
        return rng.choice(['', 'a', 'b', 'ab', 'ba', 'abc', 'key', 'é', 'ü€', 'a' * 9, 'Z'])
    if r < .75:
        return rng.choice([True, False])
    if depth >= 2:
        return rng.randint(0, 5)
    return tuple(gen_key(rng, depth + 1) for _ in range(rng.choice([0, 1, 2, 2, 3])))


def build_layout(sc, layout):
    """an RDD whose partitions are exactly `layout` (built through the public API)"""
    cur = len(layout)
    if cur == 0:
        return sc.union([])              # a dataset without partitions (what an empty batch of a stream is)
    if cur == 1:
        return sc.parallelize(list(layout[0]), 1)
    return sc.parallelize(list(range(cur)), cur).flatMap(lambda i: layout[i])


class C07(Prop):
    id = 'C07'
    extracted = True      # arithmetic kernels regenerated from the current source (harness/extract.py, Extracted/Equiv*.lean)
    quick_cases = 1200
    thorough_cases = 20000
    quick_budget_s = 45
    rule = ('fixed: parallelize layouts for ALL len 0..40 x n 0..64 (thorough: 0..120 x 0..200) and sampled large (len to 10^5, n to 10^4); coalesce '
            'for ALL (cur, target) <= 16 (quick) / 40 (thorough) on singleton partitions plus random layouts with empty '
            'partitions; repartition; partitionBy with custom and default partitioner over the portable key domain; '
            'mapPartitionsWithIndex; zipWithUniqueId; 4 child interpreters with PYTHONHASHSEED in {0,1,2,random} whose '
            'layouts must agree with each other and with the seed-free Lean hash model. glom() layouts compared exactly. '
            'Non-trivial = more than one partition involved and a non-empty dataset; distinct = distinct canonical case.')
    trusted = ('int(i*len/n) equals floor(i*len/n) for i*len < 2^53 (float division exact enough); larger products are not modelled',
               'CPython numeric hash (int: value mod 2^61-1) as documented; float keys are compared across interpreters only')

    def setup(self, ctx):
        from pysparkling import Context
        self.Context = Context
        self._children_done = False

    def fixed_cases(self, tier):
        out = []
        top_len, top_n = (40, 64) if tier == 'quick' else (120, 200)
        for ln in range(0, top_len + 1):
            for n in range(0, top_n + 1):
                out.append({'op': 'parallelize', 'len': ln, 'n': n})
        for ln, n in [(100, 7), (1000, 999), (1000, 1001), (12345, 100), (99999, 10000), (100000, 3), (65537, 4096),
                      (5, 1000), (0, 1000), (1, 10000)]:
            out.append({'op': 'parallelize', 'len': ln, 'n': n})
        top = 16 if tier == 'quick' else 40
        for cur in range(1, top + 1):
            for m in range(1, top + 3):
                out.append({'op': 'coalesce', 'layout': [[i] for i in range(cur)], 'm': m})
        for cur in range(1, 8):
            for m in range(0, 10):
                out.append({'op': 'repartition', 'layout': [[i] for i in range(cur)], 'm': m})
        for m in range(1, 6):
            out.append({'op': 'coalesce', 'layout': [], 'm': m})          # no partitions at all: min(m, 0) = 0 partitions
            out.append({'op': 'repartition', 'layout': [], 'm': m})
        out.append({'op': 'children'})
        return out

    def gen(self, rng, tier):
        op = rng.choice(['parallelize', 'coalesce', 'coalesce', 'repartition', 'partitionBy', 'partitionBy',
                         'partitionBy', 'withIndex', 'uniqueId'])
        if op == 'parallelize':
            ln = rng.choice([rng.randint(0, 40), rng.randint(0, 3000)])
            return {'op': op, 'len': ln, 'n': rng.choice([rng.randint(0, ln + 3), rng.randint(0, 50)])}
        cur = rng.randint(1, 7)
        cnt = 0
        layout = []
        for _ in range(cur):
            sz = rng.choice([0, 0, 1, 1, 2, 3])
            layout.append(list(range(cnt, cnt + sz)))
            cnt += sz
        if op in ('coalesce', 'repartition'):
            return {'op': op, 'layout': layout, 'm': rng.randint(1 if op == 'coalesce' else 0, cur + 3)}
        if op == 'partitionBy':
            f = rng.choice(['default', 'default', 'default', 'ident', 'len', 'const', 'identz', 'shift', 'negate', 'kind'])
            pairs_layout = []
            for p in layout:
                q = []
                for v in p:
                    if f == 'ident':
                        k = rng.choice([0, 1, 2, 3, 4, 5, 10, 11, 100])
                    elif f in ('identz', 'shift', 'negate'):      # partition functions with negative results (floor-mod)
                        k = rng.choice([-7, -4, -3, -2, -1, 0, 1, 2, 3, 5, 8])
                    elif f == 'len':
                        k = rng.choice(['', 'a', 'bb', 'ccc', 'dddd', (1,), (1, 2), ()])
                    elif f == 'kind':
                        # keys that are equal (one dict slot) but of different classes: the function is applied to EVERY key
                        k = rng.choice([1, True, 0, False, 1, True, 'a', (1,), (True,), 2])
                    else:
                        k = gen_key(rng)
                    q.append(F.to_json((k, v)))
                pairs_layout.append(q)
            return {'op': op, 'layout': pairs_layout, 'n': rng.randint(1, 6), 'f': f}
        return {'op': op, 'layout': layout}

    def nontrivial(self, case):
        if case['op'] == 'parallelize':
            return case['len'] > 0 and case['n'] > 1
        if case['op'] == 'children':
            return True
        return sum(len(p) for p in case['layout']) > 0 and len(case['layout']) > 1

    def shrink(self, case):
        if case['op'] == 'parallelize':
            if case['len'] > 0:
                yield dict(case, len=case['len'] - 1)
            if case['n'] > 0:
                yield dict(case, n=case['n'] - 1)
        elif 'layout' in case:
            lay = case['layout']
            for i in range(len(lay)):
                if len(lay) > 1:
                    yield dict(case, layout=lay[:i] + lay[i + 1:])
                for j in range(len(lay[i])):
                    yield dict(case, layout=lay[:i] + [lay[i][:j] + lay[i][j + 1:]] + lay[i + 1:])

    # ---- child interpreters -------------------------------------------------------------------
    def children(self, ctx):
        import random
        rng = random.Random(ctx.seed * 7919 + 13)
        cases = []
        for _ in range(40):
            ks = [gen_key(rng) for _ in range(rng.randint(1, 8))]
            cases.append({'pairs': [[F.to_json(k), i] for i, k in enumerate(ks)], 'n': rng.randint(1, 5),
                          'slices': rng.randint(1, 3)})
        # long strings (alone and inside tuples), as keys next to short ones: the hash must not change its method with length
        longs = ['x' * 257, 'ab' * 200, 'é' * 300, 'q' * 1000 + 'r', ('k', 'y' * 400), (1, ('z' * 260,))]
        for i in range(6):
            ks = longs[i:] + longs[:i] + ['a', 1]
            cases.append({'pairs': [[F.to_json(k), j] for j, k in enumerate(ks)], 'n': 2 + i % 4, 'slices': 1 + i % 3})
        # float keys: compared across interpreters only
        fcases = [{'pairs': [[{'f': repr(x)}, i] for i, x in enumerate([0.5, -1.25, 1e10, 3.0, 2.5e-3, float(2 ** 70)])],
                   'n': 4, 'slices': 2},
                  # NaN (alone and inside tuples): its builtin hash depends on the object's address since Python 3.10
                  {'pairs': [[{'f': 'nan'}, 0], [{'t': [1, {'f': 'nan'}]}, 1], [{'t': ['k', {'t': [{'f': 'nan'}, None]}]}, 2],
                             [{'f': 'inf'}, 3], [{'f': '-inf'}, 4], [{'f': '-0.0'}, 5], [0, 6]], 'n': 1000, 'slices': 2},
                  {'pairs': [[{'f': 'nan'}, i] for i in range(5)], 'n': 7, 'slices': 3},
                  # numbers of the decimal module (their NaN too) and byte strings, alone and inside tuples
                  {'pairs': [[{'dec': 'NaN'}, 0], [{'dec': '-NaN'}, 1], [{'t': [1, {'t': [None, {'dec': 'NaN'}]}]}, 2], [{'dec': '1.50'}, 3],
                             [{'dec': '1'}, 4], [1, 5], [{'dec': '-0'}, 6]], 'n': 1000, 'slices': 2},
                  {'pairs': [[{'b': 'spark'}, 0], [{'b': 'a'}, 1], [{'t': [{'b': 'k'}, 1]}, 2], [{'b': ''}, 3], ['spark', 4]], 'n': 1000,
                   'slices': 2}]
        doc = json.dumps({'cases': cases + fcases})
        outs = {}
        for seed in ('0', '1', '2', 'random'):
            env = dict(os.environ, PYTHONHASHSEED=seed, VERIF_REPO=REPO)
            p = subprocess.run([sys.executable, os.path.join(HERE, 'child_hash.py')], input=doc, env=env,
                               stdout=subprocess.PIPE, stderr=subprocess.PIPE, text=True, timeout=120)
            if p.returncode != 0:
                return Mismatch('child interpreter (PYTHONHASHSEED=%s) failed' % seed, p.stderr[-800:], None, 'child-crash')
            outs[seed] = json.loads(p.stdout)['out']
        ref = outs['0']
        for seed, o in outs.items():
            for i, (a, b) in enumerate(zip(ref, o)):
                if a['layout'] != b['layout']:
                    return Mismatch('default partitioner places keys differently under PYTHONHASHSEED=%s than under 0' % seed,
                                    b['layout'], a['layout'], 'hashseed',)
        for i, c in enumerate(cases):
            r = ctx.driver.ask({'p': 'C07', 'op': 'hash', 'keys': [kv[0] for kv in c['pairs']]})
            if r['model'] != ref[i]['hashes']:
                return Mismatch('portable_hash differs from the seed-free model', ref[i]['hashes'], r['model'], 'hash-model')
            rr = ctx.driver.ask({'p': 'C07', 'op': 'partitionBy', 'layout':
                                 self._model_layout(c), 'n': c['n'], 'f': 'default'})
            if canon(rr['model']) != canon([[ {'t': kv} for kv in p] for p in ref[i]['layout']]):
                return Mismatch('child layout differs from model', ref[i]['layout'], rr['model'], 'child-model')
        ctx.note('children:interpreters', 4)
        ctx.note('children:keylists', len(cases) + len(fcases))
        return None

    @staticmethod
    def _model_layout(c):
        # parallelize(pairs, slices) layout does not matter for partitionBy: one partition is equivalent
        return [[{'t': kv} for kv in c['pairs']]]

    # ---- one case -----------------------------------------------------------------------------------
    def run_case(self, case, ctx):
        op = case['op']
        ctx.note('op:' + op)
        if op == 'children':
            return self.children(ctx)
        sc = self.Context()
        try:
            if op == 'parallelize':
                impl = sc.parallelize(list(range(case['len'])), case['n']).glom().collect()
            else:
                layout = [[F.from_json(x) for x in p] for p in case['layout']]
                rdd = build_layout(sc, layout)
                got = rdd.glom().collect()
                if got != layout:
                    raise HarnessError('could not build layout %r (got %r)' % (layout, got))
                if op == 'coalesce':
                    impl = rdd.coalesce(case['m']).glom().collect()
                elif op == 'repartition':
                    impl = rdd.repartition(case['m']).glom().collect()
                elif op == 'partitionBy':
                    f = {'default': None, 'ident': lambda k: k, 'len': len, 'const': lambda k: 5, 'identz': lambda k: k,
                         'shift': lambda k: k - 3, 'negate': lambda k: -k,
                         'kind': lambda k: 1 if isinstance(k, bool) else 0 if isinstance(k, int) else 2 if isinstance(k, str)
                         else 3 if isinstance(k, tuple) else 4}[case['f']]
                    impl = rdd.partitionBy(case['n'], f).glom().collect()
                elif op == 'withIndex':
                    impl = rdd.mapPartitionsWithIndex(lambda i, it: [(i, list(it))]).glom().collect()
                elif op == 'uniqueId':
                    impl = rdd.zipWithUniqueId().glom().collect()
                else:
                    raise ValueError(op)
            impl = F.to_json(impl)
        except HarnessError:
            raise
        except Exception as e:  # pylint: disable=broad-except
            impl = {'exc': type(e).__name__}
        model = ctx.driver.ask(dict(case, p='C07'))['model']
        if canon(impl) != canon(model):
            return Mismatch('%s: partition layout differs from the layout contract (model)' % op, impl, model, 'layout:' + op)
        return None


PROP = C07()
