"""C13 — DataFrame joins on column names match relational join semantics."""
import sqlgen as G
from core import Mismatch, Prop, canon
from util import build_layout, exc, multiset, random_layout

HOWS = ['inner', 'left', 'right', 'full', 'leftsemi', 'leftanti', 'cross']


class C13(Prop):
    id = 'C13'
    extracted = True      # merge_schemas / get_on_fields regenerated from the current source (Extracted/EquivC13.lean)
    quick_cases = 5000
    thorough_cases = 40000
    quick_budget_s = 50
    rule = ('pairs of small tables (0..5 rows) with 1..2 shared key columns (non-null int / string keys, duplicate and missing '
            'keys on both sides), 0..2 further columns per side (nullable; the non-key columns may share NAMES across sides) x 7 join '
            'types x 1..3 partitions of each side. Collected rows compared as a multiset with the Lean model and the nested-loop '
            'reference, df.columns and the Row field names compared exactly. Non-trivial = both sides non-empty with a duplicate or '
            'shared key; distinct = distinct canonical case.')
    trusted = ('key values are non-null (the property\'s quantifier); Python tuple equality of keys (None == None) is not exercised',)

    def setup(self, ctx):
        from pysparkling import Context
        from pysparkling.sql.session import SparkSession
        self.sc = Context()
        self.spark = SparkSession(self.sc)

    def gen(self, rng, tier):
        nk = rng.choice([1, 1, 2])
        ktypes = [rng.choice(['int', 'str']) for _ in range(nk)]
        on = ['k%d' % i for i in range(nk)]

        def side(tag):
            extra = rng.randint(0, 2)
            names = list(on) + [rng.choice(['v', 'w', tag + str(i)]) + ('' if i == 0 else str(i)) for i in range(extra)]
            names = list(dict.fromkeys(names))
            types = ktypes + [rng.choice(G.TYPES) for _ in names[nk:]]
            # shuffle column positions (keys need not come first)
            perm = list(range(len(names)))
            rng.shuffle(perm)
            names = [names[i] for i in perm]
            types = [types[i] for i in perm]
            rows = []
            for _ in range(rng.choice([0, 1, 2, 3, 4, 5])):
                row = []
                for n, t in zip(names, types):
                    if n in on:
                        row.append(rng.choice([0, 1, 1, 2]) if t == 'int' else rng.choice(['a', 'b', 'b']))
                    else:
                        row.append(G.gen_val(rng, t))
                rows.append(row)
            return names, types, rows
        ln, lt, lrows = side('l')
        rn, rt, rrows = side('r')
        return {'how': rng.choice(HOWS), 'on': on, 'lnames': ln, 'ltypes': lt, 'rnames': rn, 'rtypes': rt,
                'l': [[[G.sv(v) for v in r] for r in p] for p in random_layout(rng, lrows, 3)],
                'r': [[[G.sv(v) for v in r] for r in p] for p in random_layout(rng, rrows, 3)]}

    def fixed_cases(self, tier):
        out = []
        for how in HOWS:
            out.append({'how': how, 'on': ['k'], 'lnames': ['k', 'a'], 'ltypes': ['int', 'str'], 'rnames': ['b', 'k'], 'rtypes': ['int', 'int'],
                        'l': [[[G.sv(1), G.sv('x')], [G.sv(1), G.sv('y')]], [[G.sv(2), None]]],
                        'r': [[[G.sv(10), G.sv(1)], [G.sv(11), G.sv(1)]], [[G.sv(12), G.sv(3)]]]})
        return out

    def nontrivial(self, case):
        return any(case['l']) and any(case['r'])

    def shrink(self, case):
        for side in ('l', 'r'):
            lay = case[side]
            for i in range(len(lay)):
                if len(lay) > 1:
                    yield dict(case, **{side: lay[:i] + lay[i + 1:]})
                for j in range(len(lay[i])):
                    yield dict(case, **{side: lay[:i] + [lay[i][:j] + lay[i][j + 1:]] + lay[i + 1:]})

    def make_df(self, names, types, layout):
        data = [[tuple(G.sv_back(v) for v in r) for r in p] for p in layout]
        return self.spark.createDataFrame(build_layout(self.sc, data), G.spark_schema(names, types))

    def run_case(self, case, ctx):
        how = case['how']
        ctx.note('how:' + how)
        try:
            ldf = self.make_df(case['lnames'], case['ltypes'], case['l'])
            rdf = self.make_df(case['rnames'], case['rtypes'], case['r'])
            if how == 'cross':
                df = ldf.crossJoin(rdf)
            else:
                df = ldf.join(rdf, on=list(case['on']), how=how)
            rows = df.collect()
            impl = {'names': list(df.columns), 'rows': [[G.sv(v) for v in r] for r in rows],
                    'fields': sorted({tuple(r.__fields__) for r in rows}), 'schema': list(df.schema.names)}
        except Exception as e:  # pylint: disable=broad-except
            impl = exc(e)
        r = ctx.driver.ask(dict(case, p='C13'))
        if multiset(r['rows']) != multiset(r['spec']):
            return Mismatch('Lean join model differs from the nested-loop reference', r['rows'], r['spec'], 'model-spec:' + how)
        if 'exc' in impl:
            return Mismatch('%s join raised' % how, impl, r['spec'], 'C13:exc:' + how)
        if impl['names'] != r['names'] or impl['schema'] != r['names']:
            return Mismatch('%s join: output columns (key columns once, left rest, right rest; none of the right for semi/anti)' % how,
                            {'columns': impl['names'], 'schema': impl['schema']}, r['names'], 'C13:columns:' + how, relation='spec')
        if any(list(f) != r['names'] for f in impl['fields']):
            return Mismatch('%s join: Row field names differ from df.columns' % how, [list(f) for f in impl['fields']], r['names'],
                            'C13:fields:' + how, relation='spec')
        if multiset(impl['rows']) != multiset(r['spec']):
            return Mismatch('%s join: rows differ from the nested-loop reference (as a multiset)' % how, impl['rows'], r['spec'],
                            'C13:rows:' + how, relation='multiset')
        return None


PROP = C13()
