"""C06 — Transformations are lazy and actions evaluate each element exactly once."""
import collections
import os

import funcs as F
from core import CaseTimeout, Mismatch, Prop, canon
from util import build_layout, exc, random_layout

SINGLE = ['collect', 'count', 'sum', 'reduce', 'fold', 'aggregate', 'foreach', 'countByValue', 'stats', 'saveAsTextFile']
LAZY = ['take', 'take', 'take', 'first', 'isEmpty']


def gen_ops(rng, k, depth):
    ops = []
    for _ in range(depth):
        cands = []
        for name in F.MAP:
            o = F.map_out_kind(name, k)
            if o is not None and not (F.is_pair(o) and F.is_pair(k)):
                cands.append(('map', name, o))
        for name in F.PRED:
            if F.pred_applies(name, k):
                cands.append(('filter', name, k))
        for name in F.FLAT:
            o = F.flat_out_kind(name, k)
            if o is not None:
                cands.append(('flatMap', name, o))
        if F.is_pair(k):
            for name in F.MAP:
                o = F.map_out_kind(name, k[2])
                if o is not None and not F.is_pair(o):
                    cands.append(('mapValues', name, ('P', k[1], o)))
            for name in F.FLAT:
                o = F.flat_out_kind(name, k[2])
                if o is not None:
                    cands.append(('flatMapValues', name, ('P', k[1], o)))
        else:
            for name in ('mod3', 'id', 'const0'):
                o = F.map_out_kind(name, k)
                if o is not None and F.hashable(o):
                    cands.append(('keyBy', name, ('P', o, k)))
        cls = rng.choice(sorted({c[0] for c in cands}))
        op, name, k = rng.choice([c for c in cands if c[0] == cls])
        ops.append({'op': op, 'f': name})
    return ops, k


class C06(Prop):
    id = 'C06'
    extracted = True      # generator expressions / islice over chain.from_iterable regenerated from the current source (Extracted/EquivC06.lean)
    quick_cases = 6000
    thorough_cases = 40000
    quick_budget_s = 45
    rule = ('element-wise pipelines (map / filter / flatMap / mapValues / flatMapValues / keyBy, depth 1..4) over the function '
            'library with every user function instrumented to log (stage, argument) x inputs of length 0..8 x 1..5 partitions '
            '(empty ones included) x every single-pass action (collect, count, sum, reduce, fold, aggregate, foreach, '
            'countByValue, stats, saveAsTextFile) and take(n) for n in 0..len+1, first(), isEmpty(). Checked: no call while '
            'the pipeline (plus sample()/persist()) is only defined; single pass: per stage the multiset of logged arguments '
            'equals the stage inputs computed by the Lean lazy model (each exactly once); take/first/isEmpty: the log is a '
            'sub-multiset of the calls belonging to partitions up to the one holding the last returned element (nothing '
            'later, nothing twice), and take(0) calls nothing. Non-trivial = non-empty input; distinct = distinct canonical case.')
    trusted = ('Python generator expressions evaluate on demand — the runtime fact this campaign samples',
               'how far INSIDE the last touched partition take() evaluates is not fixed by the property (the model\'s exact lazy '
               'log is reported for information only)')

    def setup(self, ctx):
        from pysparkling import Context
        self.Context = Context
        self.n = 0

    def gen(self, rng, tier):
        k = F.gen_kind(rng)
        xs = [F.gen_value(rng, k) for _ in range(rng.choice([0, 1, 2, 3, 4, 5, 6, 8]))]
        ops, k2 = gen_ops(rng, k, rng.randint(1, 4))
        parts = [[F.to_json(x) for x in p] for p in random_layout(rng, xs, 5)]
        if rng.random() < .2:
            # a sampling step with fraction 0 or 1 (deterministic): it must still pull - hence evaluate - everything upstream
            ops.insert(rng.randint(0, len(ops)), {'op': 'sample', 'all': rng.random() < .5})
        r = rng.random()
        if r < .5:
            acts = ['collect', 'count', 'foreach', 'reduce', 'saveAsTextFile', 'aggregate']
            if k2 == 'I':
                acts += ['sum', 'stats', 'fold']
            if F.hashable(k2):
                acts += ['countByValue']
            return {'parts': parts, 'ops': ops, 'action': rng.choice(acts)}
        act = rng.choice(LAZY)
        if rng.random() < .12:
            # elements that are None (and falsy ones): an emptiness / first-element test must not mistake them for "nothing here"
            vals = [None, None, 0, '', False, 1]
            parts = [[rng.choice(vals) for _ in range(rng.choice([0, 1, 1, 2]))] for _ in range(rng.randint(2, 4))]
            ops = [{'op': 'map', 'f': rng.choice(['id', 'wrap', 'toList', 'pairSelf'])} for _ in range(rng.randint(1, 2))]
            if ops[-1]['f'] != 'id' or rng.random() < .7:
                ops = [{'op': 'map', 'f': 'id'}]
            return {'parts': parts, 'ops': ops, 'action': act, 'n': rng.randint(0, 3) if act == 'take' else 1}
        if rng.random() < .35:
            # a persisted step in the lineage: a touched partition is materialised as a whole, untouched ones not at all
            for _ in range(rng.choice([1, 1, 2])):
                ops.insert(rng.randint(0, len(ops)), {'op': 'persist'})
        return {'parts': parts, 'ops': ops, 'action': act, 'n': rng.randint(0, len(xs) + 3) if act == 'take' else 1}

    def fixed_cases(self, tier):
        out = []
        parts = [[1, 2], [], [3, 4, 5], [6]]
        ops = [{'op': 'filter', 'f': 'even'}, {'op': 'map', 'f': 'add1'}]
        for n in range(0, 8):
            out.append({'parts': parts, 'ops': ops, 'action': 'take', 'n': n})
        pops = [ops[0], {'op': 'persist'}, ops[1]]
        for n in range(0, 8):
            out.append({'parts': parts, 'ops': pops, 'action': 'take', 'n': n})
        out.append({'parts': parts, 'ops': pops, 'action': 'isEmpty', 'n': 1})
        for allf in (False, True):
            sops = [ops[1], {'op': 'sample', 'all': allf}, ops[0]]
            for a in ('collect', 'count', 'foreach', 'reduce', 'aggregate'):
                out.append({'parts': parts, 'ops': sops, 'action': a})
            for n in (0, 1, 3):
                out.append({'parts': parts, 'ops': sops, 'action': 'take', 'n': n})
        for a in ('first', 'isEmpty', 'collect', 'count', 'foreach'):
            out.append({'parts': parts, 'ops': ops, 'action': a, 'n': 1})
        out.append({'parts': [[1, 3], [5]], 'ops': ops, 'action': 'isEmpty', 'n': 1})
        out.append({'parts': [[], []], 'ops': ops, 'action': 'take', 'n': 2})
        for head in (None, 0, '', False):
            for a in ('isEmpty', 'first', 'take'):
                out.append({'parts': [[], [head], [1], [2]], 'ops': [{'op': 'map', 'f': 'id'}], 'action': a, 'n': 1})
        return out

    def nontrivial(self, case):
        return sum(len(p) for p in case['parts']) > 0

    def shrink(self, case):
        ops = case['ops']
        for i in range(len(ops)):
            yield dict(case, ops=ops[:i] + ops[i + 1:])
        ps = case['parts']
        for i in range(len(ps)):
            if len(ps) > 1:
                yield dict(case, parts=ps[:i] + ps[i + 1:])
            for j in range(len(ps[i])):
                yield dict(case, parts=ps[:i] + [ps[i][:j] + ps[i][j + 1:]] + ps[i + 1:])

    def run_case(self, case, ctx):
        self.n += 1
        act = case['action']
        ctx.note('action:' + act)
        log = []

        def wrap(stage, fn):
            def logged(x):
                log.append([stage, F.to_json(x)])
                return fn(x)
            return logged

        sc = self.Context()
        layout = [[F.from_json(x) for x in p] for p in case['parts']]
        try:
            rdd = build_layout(sc, layout)
            for i, o in enumerate(case['ops']):
                ctx.note('op:' + o['op'])
                if o['op'] == 'map':
                    rdd = rdd.map(wrap(i, F.MAP[o['f']]))
                elif o['op'] == 'filter':
                    rdd = rdd.filter(wrap(i, F.PRED[o['f']]))
                elif o['op'] == 'flatMap':
                    rdd = rdd.flatMap(wrap(i, F.FLAT[o['f']]))
                elif o['op'] == 'mapValues':
                    rdd = rdd.mapValues(wrap(i, F.MAP[o['f']]))
                elif o['op'] == 'flatMapValues':
                    rdd = rdd.flatMapValues(wrap(i, F.FLAT[o['f']]))
                elif o['op'] == 'keyBy':
                    rdd = rdd.keyBy(wrap(i, F.MAP[o['f']]))
                elif o['op'] == 'persist':
                    rdd = rdd.persist() if i % 2 else rdd.cache()
                elif o['op'] == 'sample':
                    rdd = rdd.sample(False, 1.0 if o['all'] else 0.0, 5 + i)
                else:
                    raise ValueError(o['op'])
            # (a) definition time: also defining sampling and persistence on top must not call anything
            extra = rdd.sample(False, 0.5, 7).persist().cache()
            extra2 = rdd.sample(True, 1.5, 7)
            del extra, extra2
            if log:
                return Mismatch('user functions were invoked while the pipeline was only being defined', log[:6], [], 'C06:define',
                                relation='spec')
            if act == 'collect':
                rdd.collect()
            elif act == 'count':
                rdd.count()
            elif act == 'sum':
                rdd.sum()
            elif act == 'reduce':
                try:
                    rdd.reduce(lambda a, b: a)
                except ValueError:
                    pass
            elif act == 'fold':
                rdd.fold(0, lambda a, b: a + b)
            elif act == 'aggregate':
                rdd.aggregate(0, lambda a, x: a + 1, lambda a, b: a + b)
            elif act == 'foreach':
                rdd.foreach(lambda x: None)
            elif act == 'countByValue':
                rdd.countByValue()
            elif act == 'stats':
                rdd.stats()
            elif act == 'saveAsTextFile':
                rdd.saveAsTextFile(os.path.join(ctx.scratch, 'lazy%d' % self.n))
            elif act == 'take':
                rdd.take(case['n'])
            elif act == 'first':
                try:
                    rdd.first()
                except CaseTimeout:
                    raise
                except BaseException:  # noqa: B036  empty dataset
                    pass
            elif act == 'isEmpty':
                rdd.isEmpty()
            else:
                raise ValueError(act)
        except Exception as e:  # pylint: disable=broad-except
            return Mismatch('pipeline raised', exc(e), None, 'C06:exc')
        req = {'p': 'C06', 'parts': case['parts'], 'ops': case['ops']}
        lazy = act in ('take', 'first', 'isEmpty')
        if lazy:
            req['take'] = case['n'] if act == 'take' else 1
        r = ctx.driver.ask(req)
        got = collections.Counter(canon(e) for e in log)
        if not lazy:
            want = collections.Counter(canon(e) for part in r['full'] for e in part)
            if got != want:
                extra = sorted((got - want).elements())[:5]
                missing = sorted((want - got).elements())[:5]
                return Mismatch('%s: user functions were not invoked exactly once per element they apply to' % act,
                                {'extra_calls': extra, 'missing_calls': missing}, 'each stage input exactly once',
                                'C06:single-pass:' + ('twice' if extra else 'missing'), relation='multiset')
            return None
        allowed = collections.Counter(canon(e) for e in r['allowed'])
        over = got - allowed
        if over:
            n = req['take']
            what = ('%s(%s) evaluated something outside the partitions up to the one holding its last returned element, '
                    'or evaluated an element twice' % (act, n))
            return Mismatch(what, {'offending_calls': sorted(over.elements())[:6]}, {'last_partition': r['plast']},
                            'C06:lazy:' + ('zero' if n == 0 else 'overreach'), relation='sub-multiset')
        return None


PROP = C06()
