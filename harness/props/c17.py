"""C17 — Statistical summaries agree with two-pass formulas for any partitioning."""
import itertools
import math
from fractions import Fraction

from core import Mismatch, Prop, canon
from util import build_layout, exc, random_layout


def q(x):
    f = Fraction(x)
    return [f.numerator, f.denominator]


def fr(j):
    return None if j is None else Fraction(j[0], j[1])


def compositions(items, max_parts):
    """all ways to cut `items` (in order) into 1..max_parts contiguous partitions, empty allowed only as
    produced by repeated cut points"""
    n = len(items)
    for k in range(1, max_parts + 1):
        for cuts in itertools.combinations_with_replacement(range(n + 1), k - 1):
            out, prev = [], 0
            for c in list(cuts) + [n]:
                out.append(items[prev:c])
                prev = c
            yield out


def close(impl, want, tol):
    if want is None:
        return isinstance(impl, float) and math.isnan(impl)
    if impl is None or (isinstance(impl, float) and (math.isnan(impl) or math.isinf(impl))):
        return False          # an infinite statistic of finite data is simply wrong (not a harness problem)
    if isinstance(impl, bool) or not isinstance(impl, (int, float, Fraction)):
        return False
    return abs(Fraction(impl) - want) <= tol


class C17(Prop):
    id = 'C17'
    _leaves = None
    _sc = None
    extracted = True      # arithmetic kernels regenerated from the current source (harness/extract.py, Extracted/Equiv*.lean)
    quick_cases = 1500
    thorough_cases = 30000
    quick_budget_s = 50
    rule = ('numeric lists from graded domains: small ints exhaustively (all lists over {-2..2} of length <= 3 quick / <= 5 '
            'thorough x all compositions into <= 4 partitions incl. empty ones), mixed-magnitude floats sampled, size ratios '
            'straddling 10 for the mean-update branches, random merge trees incl. self-merge and empty partials, DataFrame '
            'cov/corr over random partitionings (one case in eight with a constant column of a non-dyadic value, where corr must be NaN '
            'for every split; one in ten with partitions whose partial means agree exactly in one column only). The model runs on the exact rational value of every input double; the '
            'implementation\'s floats must lie within 1e-9 x magnitude of the two-pass value (= model value, exactly equal '
            'in Lean). Non-trivial = at least two values and two partitions/partials; distinct = distinct canonical case.')
    trusted = ('IEEE-754 rounding: theorems are exact-arithmetic; the 1e-9 claim for doubles is measured, not proved',
               'math.sqrt for stdev / corr')

    def setup(self, ctx):
        from pysparkling import Context
        from pysparkling.sql.session import SparkSession
        from pysparkling.stat_counter import StatCounter
        self.Context = Context
        self.SparkSession = SparkSession
        self.StatCounter = StatCounter
        self.worst = 0.0

    # ---- generation -----------------------------------------------------------------------------
    def fixed_cases(self, tier):
        out = []
        maxlen = 3 if tier == 'quick' else 5
        dom = [-2, -1, 0, 1, 2]
        for ln in range(0, maxlen + 1):
            for xs in itertools.product(dom, repeat=ln):
                if tier == 'quick' and ln == 3 and (xs[0] > 0):
                    continue
                for parts in compositions(list(xs), 4 if ln <= 3 else 3):
                    out.append({'op': 'stats', 'parts': parts})
        # size ratios straddling 10 for the three mean-update branches
        for a, b in [(1, 9), (1, 10), (1, 11), (1, 12), (2, 19), (2, 20), (2, 21), (11, 1), (10, 1), (21, 2), (30, 2)]:
            out.append({'op': 'tree', 'tree': {'l': [float(i) * 1.5 for i in range(a)], 'r': [100.0 + i for i in range(b)]}})
        out.append({'op': 'tree', 'tree': {'self': [1.0, 2.0, 4.0]}})
        out.append({'op': 'tree', 'tree': {'l': [1.0, 2.0], 'r': {'self': [5.0, 7.0, 9.0]}}, 'via': 'rdd'})
        out.append({'op': 'tree', 'tree': {'l': [], 'r': {'self': []}}})
        out.append({'op': 'stats', 'parts': [[], [], []]})
        # a constant column of a value that is not a dyadic rational: corr is 0/0 = NaN for EVERY split (third hunt; the merge of
        # the covariance counters recomputed the mean with rounding, 0.1 * 3 / 3 != 0.1; repaired in 0615c20)
        rows = [[0.1, 1.0], [0.1, 2.0], [0.1, 4.0], [0.1, 3.0]]
        for cut in ([4], [3, 1], [3, 0, 1], [0, 3, 1, 0], [2, 1, 1], [1, 1, 1, 1]):
            parts, i = [], 0
            for n in cut:
                parts.append(rows[i:i + n])
                i += n
            out.append({'op': 'cov', 'parts': parts})
            out.append({'op': 'cov', 'parts': [[[y, x] for x, y in p] for p in parts]})
        # equal partial means in one column only (seeded change C17-m20: one guard for the corrections of both columns)
        out.append({'op': 'cov', 'parts': [[[0.0, 0.0], [1.0, 1.0]], [[2.0, 0.0], [3.0, 1.0]]]})
        out.append({'op': 'cov', 'parts': [[[0.0, 0.0], [2.0, 5.0]], [], [[1.0, 1.0], [1.0, 7.0]], [[2.0, 2.0], [0.0, 1.0]]]})
        return out

    def gen_num(self, rng, style):
        if style == 'int':
            return rng.randint(-50, 50)
        if style == 'mixed':
            return rng.choice([1e-3, 1.0, 1e3, 1e6]) * rng.uniform(-1, 1)
        if style == 'offset':
            return 1e6 + rng.uniform(-1, 1)
        return rng.uniform(-10, 10)

    def gen_tree(self, rng, style, depth):
        r = rng.random()
        if depth == 0 or r < .35:
            return [self.gen_num(rng, style) for _ in range(rng.choice([0, 0, 1, 2, 3, 5, 12, 25]))]
        if r < .45:
            return {'self': self.gen_tree(rng, style, depth - 1)}
        return {'l': self.gen_tree(rng, style, depth - 1), 'r': self.gen_tree(rng, style, depth - 1)}

    def gen(self, rng, tier):
        style = rng.choice(['int', 'unit', 'mixed', 'mixed', 'offset'])
        r = rng.random()
        if r < .45:
            xs = [self.gen_num(rng, style) for _ in range(rng.choice([0, 1, 2, 3, 5, 8, 20, 40]))]
            return {'op': 'stats', 'parts': random_layout(rng, xs, 6)}
        if r < .75:
            return dict({'op': 'tree', 'tree': self.gen_tree(rng, style, 3)}, **({'via': 'rdd'} if rng.random() < .4 else {}))
        n = rng.choice([0, 1, 2, 3, 5, 8, 20])
        rc = rng.random()
        if rc < .3:      # correlated data
            xs = [(x, 2 * x + self.gen_num(rng, 'unit')) for x in (self.gen_num(rng, style) for _ in range(n))]
        elif rc < .42:
            # one column constant (a value that is not a dyadic rational): the two-pass sum of squared deviations is exactly 0
            # and corr is 0/0 = NaN for EVERY split - also when a merged mean c*n/n would be off by one unit in the last place
            c = rng.choice([0.1, 0.3, 0.7, 1.1, 2.7, -0.1, 1e-3, 1 / 3, 123.456, 0.5, 3.0])
            n = rng.choice([2, 3, 4, 5, 6, 8, 12])
            xs = [(c, self.gen_num(rng, style)) if rc < .36 else (self.gen_num(rng, style), c) for _ in range(n)]
        elif rc < .52:
            # every partition holds the same x values (in another order), so the partial means of ONE column are exactly equal
            # while those of the other differ: the between-partition corrections of the two columns must not share a guard
            base = [self.gen_num(rng, rng.choice(['int', 'unit'])) for _ in range(rng.choice([1, 2, 3]))]
            parts = []
            for _ in range(rng.choice([2, 3, 4])):
                b = list(base)
                rng.shuffle(b)
                parts.append([[v, self.gen_num(rng, style)] if rc < .47 else [self.gen_num(rng, style), v] for v in b])
                if rng.random() < .2:
                    parts.append([])
            return {'op': 'cov', 'parts': parts}
        else:
            xs = [(self.gen_num(rng, style), self.gen_num(rng, style)) for _ in range(n)]
        return {'op': 'cov', 'parts': [[list(p) for p in part] for part in random_layout(rng, xs, 4)]}

    def nontrivial(self, case):
        if case['op'] in ('stats', 'cov'):
            return len(case['parts']) > 1 and sum(len(p) for p in case['parts']) > 1
        return isinstance(case['tree'], dict)

    def shrink(self, case):
        if case['op'] in ('stats', 'cov'):
            ps = case['parts']
            for i in range(len(ps)):
                if len(ps) > 1:
                    yield dict(case, parts=ps[:i] + ps[i + 1:])
                for j in range(len(ps[i])):
                    yield dict(case, parts=ps[:i] + [ps[i][:j] + ps[i][j + 1:]] + ps[i + 1:])

    # ---- execution -----------------------------------------------------------------------------------
    def impl_tree(self, t):
        if isinstance(t, list):
            if self._leaves is not None:
                # the partial summary is the one a dataset hands out; the dataset is kept to be asked again afterwards
                rdd = self._sc.parallelize(list(t), 1 + len(self._leaves) % 3)
                self._leaves.append((rdd, list(t)))
                return rdd.stats()
            return self.StatCounter(t)
        if 'self' in t:
            s = self.impl_tree(t['self'])
            return s.mergeStats(s)
        return self.impl_tree(t['l']).mergeStats(self.impl_tree(t['r']))

    @staticmethod
    def tree_q(t):
        if isinstance(t, list):
            return [q(x) for x in t]
        if 'self' in t:
            return {'self': C17.tree_q(t['self'])}
        return {'l': C17.tree_q(t['l']), 'r': C17.tree_q(t['r'])}

    @staticmethod
    def tree_vals(t):
        if isinstance(t, list):
            return list(t)
        if 'self' in t:
            return C17.tree_vals(t['self']) * 2
        return C17.tree_vals(t['l']) + C17.tree_vals(t['r'])

    def run_case(self, case, ctx):
        op = case['op']
        ctx.note('op:' + op)
        if op == 'cov':
            return self.run_cov(case, ctx)
        try:
            if op == 'stats':
                sc = self.Context()
                rdd = build_layout(sc, case['parts'])
                vals = [x for p in case['parts'] for x in p]
                if vals:
                    s = rdd.stats()
                    got = {'n': s.count(), 'mean': s.mean(), 'sum': s.sum(), 'variance': s.variance(),
                           'sampleVariance': s.sampleVariance(), 'max': s.max(), 'min': s.min(),
                           'stdev': s.stdev(), 'sampleStdev': s.sampleStdev(),
                           # the RDD-level shortcuts
                           'rdd': {'count': rdd.count(), 'sum': rdd.sum(), 'mean': rdd.mean(), 'min': rdd.min(),
                                   'max': rdd.max(), 'variance': rdd.variance(), 'stdev': rdd.stdev(),
                                   'sampleVariance': rdd.sampleVariance(), 'sampleStdev': rdd.sampleStdev()}}
                else:
                    s = rdd.stats()
                    got = {'n': s.count(), 'mean': s.mean(), 'sum': s.sum(), 'variance': s.variance(),
                           'sampleVariance': s.sampleVariance(), 'max': None, 'min': None,
                           'stdev': s.stdev(), 'sampleStdev': s.sampleStdev(), 'rdd': None}
                    # "Summaries of an empty dataset report count 0 and NaN variance instead of failing": also through the
                    # RDD-level shortcuts (an exception here is reported by the handler below); the mean of nothing may be
                    # 0.0 or NaN, min / max of nothing are not summaries of anything and are not asked for
                    short = {'count': rdd.count(), 'sum': rdd.sum(), 'mean': rdd.mean(), 'variance': rdd.variance(), 'stdev': rdd.stdev(),
                             'sampleVariance': rdd.sampleVariance(), 'sampleStdev': rdd.sampleStdev(), 'meanApprox': rdd.meanApprox()}
                    bad = [k for k in ('variance', 'stdev', 'sampleVariance', 'sampleStdev')
                           if not (isinstance(short[k], float) and math.isnan(short[k]))]
                    if short['count'] != 0 or short['sum'] != 0 or bad:
                        return Mismatch('the shortcuts of an empty dataset do not report count 0 / sum 0 / NaN variances', short, None,
                                        'C17:empty-shortcuts', relation='spec')
                req = {'p': 'C17', 'op': 'stats', 'parts': [[q(x) for x in p] for p in case['parts']]}
            else:
                vals = self.tree_vals(case['tree'])
                self._leaves = [] if case.get('via') == 'rdd' else None
                self._sc = self.Context() if case.get('via') == 'rdd' else None
                s = self.impl_tree(case['tree'])
                for rdd, own in (self._leaves or []):
                    # merging the summaries a dataset handed out must not change what the dataset itself reports
                    again = rdd.stats()
                    want_n, want_sum = len(own), math.fsum(own)
                    if again.count() != want_n or rdd.count() != want_n or \
                            abs(again.sum() - want_sum) > 1e-9 * max([1.0] + [abs(v) for v in own]) * max(1, want_n):
                        return Mismatch('after its summary was merged with others, a dataset reports another count / sum than its '
                                        'own elements have', {'count': again.count(), 'sum': again.sum()},
                                        {'count': want_n, 'sum': want_sum}, 'C17:summary-of-dataset-changed', relation='spec')
                self._leaves = None
                got = {'n': s.count(), 'mean': s.mean(), 'sum': s.sum(), 'variance': s.variance(),
                       'sampleVariance': s.sampleVariance(), 'max': s.max() if vals else None,
                       'min': s.min() if vals else None, 'stdev': s.stdev(), 'sampleStdev': s.sampleStdev(), 'rdd': None}
                req = {'p': 'C17', 'op': 'tree', 'tree': self.tree_q(case['tree'])}
        except Exception as e:  # pylint: disable=broad-except
            return Mismatch('summary raised instead of reporting', exc(e), None, 'C17:exc')
        r = ctx.driver.ask(req)
        if canon(r['model']) != canon(r['spec']):
            return Mismatch('Lean model differs from two-pass SPEC (exact)', r['model'], r['spec'], 'model-spec')
        spec = r['spec']
        mag = max([1.0] + [abs(v) for v in vals])
        n = spec['n']
        tol = Fraction(1e-9) * Fraction(mag)
        tol2 = Fraction(1e-9) * Fraction(mag) ** 2
        checks = [('n', got['n'], n, None)]
        if n > 0:
            checks += [('mean', got['mean'], fr(spec['mean']), tol), ('sum', got['sum'], fr(spec['sum']), tol * max(1, n)),
                       ('max', got['max'], fr(spec['max']), tol), ('min', got['min'], fr(spec['min']), tol)]
        checks += [('variance', got['variance'], fr(spec['variance']), tol2),
                   ('sampleVariance', got['sampleVariance'], fr(spec['sampleVariance']), tol2)]
        for name, impl, want, t in checks:
            if t is None:
                if impl != want or isinstance(impl, bool):
                    return Mismatch('%s differs' % name, impl, want, 'C17:' + name)
                continue
            if not close(impl, want, t):
                return Mismatch('%s outside 1e-9 x magnitude of the two-pass value' % name, impl,
                                None if want is None else float(want), 'C17:' + name, relation='tolerance')
            if want is not None and want != 0:
                self.worst = max(self.worst, float(abs(Fraction(impl) - want) / t) * 1e-9)
        for name, var in (('stdev', 'variance'), ('sampleStdev', 'sampleVariance')):
            want = fr(spec[var])
            if want is None:
                if not (isinstance(got[name], float) and math.isnan(got[name])):
                    return Mismatch('%s of a dataset without variance should be NaN' % name, got[name], None, 'C17:' + name)
            elif abs(got[name] - math.sqrt(want)) > 1e-9 * mag:
                return Mismatch('%s differs from sqrt of the two-pass variance' % name, got[name], math.sqrt(want), 'C17:' + name)
        if got['rdd']:
            g = got['rdd']
            for name, key in (('count', 'n'), ('sum', 'sum'), ('mean', 'mean'), ('min', 'min'), ('max', 'max'),
                              ('variance', 'variance'), ('sampleVariance', 'sampleVariance')):
                want = spec[key] if key == 'n' else fr(spec[key])
                t = tol2 if 'ariance' in name else tol * max(1, n)
                ok = (g[name] == want) if key == 'n' else close(g[name], want, t)
                if not ok:
                    return Mismatch('rdd.%s() differs from the two-pass value' % name, g[name],
                                    want if key == 'n' else (None if want is None else float(want)), 'C17:rdd.' + name)
        return None

    def run_cov(self, case, ctx):
        from pysparkling.sql.types import DoubleType, StructField, StructType
        rows = [[tuple(float(v) for v in xy) for xy in p] for p in case['parts']]
        flat = [xy for p in rows for xy in p]
        r = ctx.driver.ask({'p': 'C17', 'op': 'cov', 'parts': [[[q(x), q(y)] for x, y in p] for p in rows]})
        if canon(r['model']) != canon(r['spec']):
            return Mismatch('Lean Cov model differs from two-pass SPEC (exact)', r['model'], r['spec'], 'model-spec:cov')
        spec = r['spec']
        sc = self.Context()
        spark = self.SparkSession(sc)
        schema = StructType([StructField('a', DoubleType(), True), StructField('b', DoubleType(), True)])
        try:
            df = spark.createDataFrame(build_layout(sc, rows), schema)
            cov = df.cov('a', 'b')
        except Exception as e:  # pylint: disable=broad-except
            return Mismatch('cov raised', exc(e), spec, 'C17:cov:exc')
        mag = max([1.0] + [abs(v) for xy in flat for v in xy])
        want = fr(spec['covarSamp'])
        if want is None:
            if cov is not None and not (isinstance(cov, float) and math.isnan(cov)):
                return Mismatch('cov of fewer than two rows should be null/NaN', cov, None, 'C17:cov')
        elif cov is None or abs(Fraction(cov) - want) > Fraction(1e-9) * Fraction(mag) ** 2:
            return Mismatch('cov outside tolerance of the two-pass sample covariance', cov, float(want), 'C17:cov')
        # the aggregate spelling of the same summaries (df.agg(corr / covar_samp / covar_pop)) must agree with df.cov / df.corr
        try:
            from pysparkling.sql import functions as Fn
            row = df.agg(Fn.covar_samp('a', 'b'), Fn.covar_pop('a', 'b')).collect()
            agg_samp, agg_pop = (row[0][0], row[0][1]) if row else (None, None)
        except Exception as e:  # pylint: disable=broad-except
            return Mismatch('df.agg(covar_samp, covar_pop) raised', exc(e), spec, 'C17:agg-cov:exc', relation='spec')
        ctx.note('agg_cov_checked')
        for nm, got_, want_ in (('covar_samp', agg_samp, fr(spec['covarSamp'])), ('covar_pop', agg_pop, fr(spec['covarPop']))):
            if want_ is None:
                if got_ is not None and not (isinstance(got_, float) and math.isnan(got_)):
                    return Mismatch('df.agg(%s) of too few rows should be null/NaN' % nm, got_, None, 'C17:agg-cov')
            elif got_ is None or abs(Fraction(got_) - want_) > Fraction(1e-9) * Fraction(mag) ** 2:
                return Mismatch('df.agg(%s) outside tolerance of the two-pass value' % nm, got_, float(want_), 'C17:agg-cov')
        mx, my, ck = fr(spec['mkX']), fr(spec['mkY']), fr(spec['ck'])
        if spec['n'] >= 2 and mx > 0 and my > 0:
            try:
                corr = df.corr('a', 'b')
            except Exception as e:  # pylint: disable=broad-except
                return Mismatch('corr raised', exc(e), None, 'C17:corr:exc')
            wantc = float(ck) / math.sqrt(float(mx) * float(my))
            ctx.note('corr_checked')
            # 1e-9 x magnitude^2 absolute error on the co-moments, propagated through the normalisation
            tolc = 1e-9 * max(1.0, mag * mag / math.sqrt(float(mx) * float(my)))
            if corr is None or abs(corr - wantc) > tolc:
                return Mismatch('corr differs from Pearson r of the two-pass moments', corr, wantc, 'C17:corr')
            wsq = fr(r['model']['corrSq'])
            if wsq is None or abs(corr * corr - float(wsq)) > 4 * tolc:
                return Mismatch('corr squared differs from the model\'s corrSq', corr * corr, None if wsq is None else float(wsq),
                                'C17:corrSq')
        else:
            # degenerate: no row, one row, or a constant column - the textbook value is 0/0: NaN (or null), not a failure
            try:
                corr = df.corr('a', 'b')
            except Exception as e:  # pylint: disable=broad-except
                return Mismatch('corr of a degenerate dataset (%d rows; sums of squared deviations %s, %s) raised instead of '
                                'reporting NaN' % (spec['n'], float(mx), float(my)), exc(e), 'NaN', 'C17:corr:degenerate:exc',
                                relation='spec')
            ctx.note('corr_degenerate')
            if r['model']['corrSq'] is not None:
                return Mismatch('Lean: corrSq of a degenerate dataset is not NaN', r['model'], None, 'model-spec:corrSq')
            if corr is not None and not (isinstance(corr, float) and math.isnan(corr)):
                return Mismatch('corr of a degenerate dataset should be NaN', corr, 'NaN', 'C17:corr:degenerate', relation='spec')
        return None

    def teardown(self, ctx):
        ctx.hist['worst_relative_error_x1e-9_units'] = self.worst


PROP = C17()
