"""C16 — Sampling is seed-deterministic and returns only existing elements."""
import random
from fractions import Fraction

import funcs as F
from core import Mismatch, Prop, canon
from util import build_layout, exc, multiset, random_layout


def q(x):
    f = Fraction(x)
    return [f.numerator, f.denominator]


def draws_for(seed, sizes):
    """the streams the real code consumes: partition i is seeded with seed + i, one draw per element"""
    out = []
    for i, n in enumerate(sizes):
        r = random.Random(seed + i)
        out.append([r.random() for _ in range(n)])
    return out


class C16(Prop):
    id = 'C16'
    extracted = True      # sampling kernels regenerated from the current source (harness/extract.py, Extracted/EquivC16.lean)
    quick_cases = 6000
    thorough_cases = 40000
    quick_budget_s = 45
    rule = ('seeds 0..49 (and large ones) x fractions {0, .05, .3, .5, .9, 1, 2.5 with replacement} x lists with duplicates '
            '(ints, strings, pairs) x 1..5 partitions incl. empty ones x sample sizes 0..len+3 x weight vectors. For '
            'sample(False)/sampleByKey(False)/randomSplit/takeSample(False) the harness regenerates the real draw streams '
            '(random.Random(seed + i)) and the model output must equal the implementation EXACTLY (per-partition layout '
            'included); for the with-replacement variants the Lean side decides "order-preserving repetition of input '
            'elements" / "n elements, all members"; each case is run twice for determinism. The hypothesis of '
            'randomSplit_partition (max draw < last boundary) is evaluated on every case. Non-trivial = non-empty data and '
            '0 < fraction; distinct = distinct canonical case.')
    trusted = ('CPython\'s Mersenne Twister: random.seed(s); random.random()… equals random.Random(s).random()…',
               'termination of takeSample(True)\'s oversampling loop',
               'float cumulative boundaries of randomSplit are recomputed by the harness exactly as documented '
               '(b[i+1] = b[i] + w/sum) and handed to the model as exact rationals')

    def setup(self, ctx):
        from pysparkling import Context
        self.Context = Context
        self.below_last = 0

    def gen_data(self, rng):
        kind = rng.choice(['I', 'I', 'S', ('P', 'I', 'S')])
        return [F.gen_value(rng, kind) for _ in range(rng.choice([0, 1, 2, 4, 6, 9, 14]))], kind

    def gen(self, rng, tier):
        op = rng.choice(['sample', 'sample', 'sampleByKey', 'sampleRepl', 'sampleByKeyRepl', 'takeSample', 'takeSample',
                         'takeSampleRepl', 'randomSplit', 'randomSplit', 'randomSplitNoSeed'])
        seed = rng.choice([rng.randint(0, 49), rng.randint(0, 49), rng.getrandbits(31)])
        if op in ('sampleByKey', 'sampleByKeyRepl'):
            xs = [(rng.choice([0, 1, 2, 'a', None]), rng.randint(0, 5)) for _ in range(rng.choice([0, 2, 5, 9, 14]))]
            keys = [0, 1, 2, 'a', None]
            fr = [[F.to_json(k), rng.choice([0.0, 0.0, 0.3, 0.5, 1.0, 0.9])] for k in keys if rng.random() < .7]
            if rng.random() < .3:
                # only fractions >= 1 (or no fraction at all) next to keys that are not listed: unlisted keys never appear
                fr = [[F.to_json(k), 1.0] for k in keys if rng.random() < .4]
            return {'op': op, 'seed': seed, 'parts': [[F.to_json(x) for x in p] for p in random_layout(rng, xs, 5)], 'fractions': fr}
        xs, _ = self.gen_data(rng)
        parts = [[F.to_json(x) for x in p] for p in random_layout(rng, xs, 5)]
        if op == 'sample':
            return {'op': op, 'seed': seed, 'parts': parts, 'f': rng.choice([0.0, 0.05, 0.3, 0.5, 0.9, 1.0])}
        if op == 'sampleRepl':
            return {'op': op, 'seed': seed, 'parts': parts, 'f': rng.choice([0.0, 0.3, 1.0, 2.5])}
        if op in ('takeSample', 'takeSampleRepl'):
            return {'op': op, 'seed': seed, 'parts': parts, 'num': rng.randint(0, len(xs) + 3)}
        ws = [rng.choice([1, 1, 2, 3, 0.5, 0.1, 7, 0]) for _ in range(rng.randint(1, 4))]
        if sum(ws) == 0:
            ws[0] = 1
        return {'op': op, 'seed': seed, 'parts': parts, 'weights': ws}

    def fixed_cases(self, tier):
        out = []
        data = [[1, 2, 2], [], [3, 1, 4, 1], [5]]
        for seed in range(0, 50 if tier == 'quick' else 200):
            for f in (0.0, 0.5, 1.0):
                out.append({'op': 'sample', 'seed': seed, 'parts': data, 'f': f})
            out.append({'op': 'randomSplit', 'seed': seed, 'parts': data, 'weights': [1, 2, 1]})
            out.append({'op': 'takeSample', 'seed': seed, 'parts': data, 'num': seed % 12})
        for i in range(12):
            out.append({'op': 'randomSplitNoSeed', 'seed': i, 'parts': [list(range(12)), [], list(range(12, 20))], 'weights': [1, 2, 1][:2 + i % 2]})
        return out

    def nontrivial(self, case):
        return sum(len(p) for p in case['parts']) > 0 and case.get('f', 1) != 0 and case.get('num', 1) != 0

    def shrink(self, case):
        ps = case['parts']
        for i in range(len(ps)):
            if len(ps) > 1:
                yield dict(case, parts=ps[:i] + ps[i + 1:])
            for j in range(len(ps[i])):
                yield dict(case, parts=ps[:i] + [ps[i][:j] + ps[i][j + 1:]] + ps[i + 1:])

    def run_case(self, case, ctx):
        op = case['op']
        ctx.note('op:' + op)
        sc = self.Context()
        layout = [[F.from_json(x) for x in p] for p in case['parts']]
        flat = [x for p in layout for x in p]
        seed = case['seed']

        reeval = []

        def twice(fn):
            a = fn()
            b = fn()
            return a, b

        def sampled(r):
            # the SAME sampled dataset object evaluated again (count, then glom): it must be the same sample
            first = r.glom().collect()
            reeval.append((r.count(), sum(len(p) for p in first), r.glom().collect(), first))
            return first
        if op == 'randomSplitNoSeed':
            # no seed given: nothing to replay, but the splits must still partition the data (every element in exactly one
            # split, order kept) - whatever generator(s) the implementation draws from
            try:
                splits = [r.collect() for r in build_layout(sc, layout).randomSplit(case['weights'])]
            except Exception as e:  # pylint: disable=broad-except
                return Mismatch('randomSplit raised', exc(e), None, 'C16:randomSplit:exc')
            impl = F.to_json(splits)
            if multiset([x for sp in impl for x in sp]) != multiset([x for p in case['parts'] for x in p]):
                return Mismatch('randomSplit (unseeded) does not assign every element to exactly one split', impl, case['parts'],
                                'C16:randomSplit:partition', relation='spec')
            want = [canon(x) for p in case['parts'] for x in p]
            for sp in impl:
                it = iter(want)
                if not all(any(canon(x) == y for y in it) for x in sp):
                    return Mismatch('randomSplit (unseeded): a split does not keep the input order', impl, case['parts'],
                                    'C16:randomSplit:order', relation='spec')
            return None
        try:
            rdd = build_layout(sc, layout)
            if op == 'sample':
                a, b = twice(lambda: sampled(rdd.sample(False, case['f'], seed)))
            elif op == 'sampleRepl':
                a, b = twice(lambda: sampled(rdd.sample(True, case['f'], seed)))
            elif op in ('sampleByKey', 'sampleByKeyRepl'):
                fr = {F.from_json(k): v for k, v in case['fractions']}
                a, b = twice(lambda: sampled(rdd.sampleByKey(op.endswith('Repl'), fr, seed)))
            elif op == 'takeSample':
                a, b = twice(lambda: rdd.takeSample(False, case['num'], seed))
            elif op == 'takeSampleRepl':
                a, b = twice(lambda: rdd.takeSample(True, case['num'], seed))
            elif op == 'randomSplit':
                a, b = twice(lambda: [r.collect() for r in rdd.randomSplit(case['weights'], seed)])
            else:
                raise ValueError(op)
        except Exception as e:  # pylint: disable=broad-except
            return Mismatch('%s raised' % op, exc(e), None, 'C16:%s:exc' % op)
        if canon(F.to_json(a)) != canon(F.to_json(b)):
            return Mismatch('%s with the same seed and partitioning gave two different results' % op, F.to_json(a), F.to_json(b),
                            'C16:%s:nondeterministic' % op, relation='spec')
        for cnt, n1, again, first in reeval:
            if cnt != n1 or canon(F.to_json(again)) != canon(F.to_json(first)):
                return Mismatch('%s: evaluating the same sampled dataset again (count / collect) gives a different sample' % op,
                                {'count': cnt, 'second': F.to_json(again)}, F.to_json(first), 'C16:%s:reevaluation' % op, relation='spec')
        impl = F.to_json(a)
        sizes = [len(p) for p in layout]
        if op == 'sample':
            d = draws_for(seed, sizes)
            m = ctx.driver.ask({'p': 'C16', 'op': 'sample', 'f': q(case['f']), 'parts': case['parts'],
                                'draws': [[q(x) for x in s] for s in d]})['model']
            if canon(impl) != canon(m):
                return Mismatch('sample(False, %r, %d) differs from the model on the regenerated draw stream' % (case['f'], seed),
                                impl, m, 'C16:sample')
            if case['f'] == 0.0 and any(impl):
                return Mismatch('sample with fraction 0 is not empty', impl, [], 'C16:sample:zero', relation='spec')
            if case['f'] == 1.0 and canon(impl) != canon(case['parts']):
                return Mismatch('sample with fraction 1 is not complete', impl, case['parts'], 'C16:sample:one', relation='spec')
        elif op == 'sampleByKey':
            d = draws_for(seed, sizes)
            m = ctx.driver.ask({'p': 'C16', 'op': 'sampleByKey', 'parts': case['parts'],
                                'fractions': [[k, q(v)] for k, v in case['fractions']],
                                'draws': [[q(x) for x in s] for s in d]})['model']
            if canon(impl) != canon(m):
                return Mismatch('sampleByKey(False) differs from the model on the regenerated draw stream', impl, m, 'C16:sampleByKey')
        elif op in ('sampleRepl', 'sampleByKeyRepl'):
            ok = ctx.driver.ask({'p': 'C16', 'op': 'expansion', 'parts': case['parts'], 'out': impl})['model']
            if not ok:
                return Mismatch('%s returned something that is not an order-preserving repetition of input elements' % op,
                                impl, case['parts'], 'C16:%s:members' % op, relation='spec')
            if op == 'sampleByKeyRepl':
                fr = {canon(k): v for k, v in case['fractions']}
                for p in impl:
                    for e in p:
                        if fr.get(canon(e['t'][0]), 0.0) == 0.0:
                            return Mismatch('a key whose fraction is 0 or missing appears in the sample', e, case['fractions'],
                                            'C16:sampleByKeyRepl:zero-key', relation='spec')
            if op == 'sampleRepl' and case['f'] == 0.0 and any(impl):
                return Mismatch('sample(True, 0) is not empty', impl, [], 'C16:sampleRepl:zero', relation='spec')
        elif op == 'takeSample':
            n = min(case['num'], len(flat))
            idx = list(range(n))
            random.Random(seed).shuffle(idx)
            m = ctx.driver.ask({'p': 'C16', 'op': 'takeSampleNoRepl', 'parts': case['parts'], 'num': case['num'], 'perm0': idx})['model']
            if canon(impl) != canon(m):
                return Mismatch('takeSample(False, %d, %d) differs from the model' % (case['num'], seed), impl, m, 'C16:takeSample')
            mm = ctx.driver.ask({'p': 'C16', 'op': 'members', 'xs': [x for p in case['parts'] for x in p], 'out': impl})
            if len(impl) != n or not mm['submultiset']:
                return Mismatch('takeSample(False, n) must return exactly min(n, size) elements forming a sub-multiset', impl,
                                {'size': n}, 'C16:takeSample:spec', relation='spec')
        elif op == 'takeSampleRepl':
            want = case['num'] if flat else 0
            mm = ctx.driver.ask({'p': 'C16', 'op': 'members', 'xs': [x for p in case['parts'] for x in p], 'out': impl})
            if len(impl) != want or not mm['model']:
                return Mismatch('takeSample(True, n) must return exactly n elements of a non-empty dataset, all of them members',
                                impl, {'size': want}, 'C16:takeSampleRepl:spec', relation='spec')
        elif op == 'randomSplit':
            ws = case['weights']
            s = sum(ws)
            bounds = [0]
            for w in ws:
                bounds.append(bounds[-1] + w / s)
            r = random.Random(seed)
            d = [r.random() for _ in flat]
            if all(x < bounds[-1] for x in d):
                self.below_last += 1
            else:
                ctx.note('randomSplit:draw>=last_boundary')
                return None     # outside the theorem's hypothesis (probability ~ 2^-53 per element)
            m = ctx.driver.ask({'p': 'C16', 'op': 'split', 'bounds': [q(x) for x in bounds], 'draws': [q(x) for x in d],
                                'xs': [x for p in case['parts'] for x in p]})['model']
            if canon(impl) != canon(m):
                return Mismatch('randomSplit differs from the model on the regenerated draw stream', impl, m, 'C16:randomSplit')
            if multiset([x for sp in impl for x in sp]) != multiset([x for p in case['parts'] for x in p]):
                return Mismatch('randomSplit does not assign every element to exactly one split', impl, case['parts'],
                                'C16:randomSplit:partition', relation='spec')
        return None

    def teardown(self, ctx):
        ctx.hist['randomSplit:cases_with_all_draws_below_last_boundary'] = self.below_last


PROP = C16()
