"""C01 — RDD pipelines compute plain-list semantics for every partitioning."""
import json

import funcs as F
from core import Mismatch, Prop, canon


def rdd_exc(e):
    return {'exc': type(e).__name__}


def gen_ops(rng, k, depth, cur_parts_hint=3):
    """type-directed random transformation chain; returns (ops, final kind)"""
    ops = []
    for _ in range(depth):
        cands = []
        isg = isinstance(k, tuple) and k[0] == 'G'
        if isg:
            cands = [('map', 'len'), ('flatMap', 'explode'), ('map', 'id'), ('filter', 'true'), ('repartition', None)]
        else:
            for name in F.MAP:
                if F.map_out_kind(name, k) is not None:
                    cands.append(('map', name))
            for name in F.PRED:
                if F.pred_applies(name, k):
                    cands.append(('filter', name))
            for name in F.FLAT:
                if F.flat_out_kind(name, k) is not None:
                    cands.append(('flatMap', name))
            for name in F.PART:
                if name in ('twicep', 'nextlen') and ops and ops[-1]['op'] == 'mapPartitions':
                    # after another partition function the argument is whatever that function returned (a list stays a
                    # list - as in Spark's pipelined functions): only the framework's own iterators are pinned down
                    continue
                if F.part_out_kind(name, k) is not None:
                    cands.append(('mapPartitions', name))
            if F.is_pair(k):
                for name in F.MAP:
                    o = F.map_out_kind(name, k[2])
                    if o is not None and not F.is_pair(o):
                        cands.append(('mapValues', name))
                for name in F.FLAT:
                    o = F.flat_out_kind(name, k[2])
                    if o is not None:
                        cands.append(('flatMapValues', name))
                cands += [('keys', None), ('values', None)] * 2
            else:
                for name in ('mod3', 'id', 'len', 'const0'):
                    o = F.map_out_kind(name, k)
                    if o is not None and F.hashable(o):
                        cands.append(('keyBy', name))
                cands += [('zip', None), ('zipWithIndex', None)]
                cands += [('glom', None)]
            cands += [('union', None)] * 2
            for name in F.MAP:
                o = F.map_out_kind(name, k)
                if o is not None and F.comparable(o) and name not in ('toList',):
                    cands.append(('sortBy', name))
            cands += [('coalesce', None)] * 3 + [('repartition', None)] * 3
        # weight the structural ops up: pick the op class first
        classes = sorted({c[0] for c in cands})
        cls = rng.choice(classes)
        op, name = rng.choice([c for c in cands if c[0] == cls])
        if op == 'map':
            ops.append({'op': 'map', 'f': name})
            k = F.map_out_kind(name, k) if not isg else ('I' if name == 'len' else k)
        elif op == 'filter':
            ops.append({'op': 'filter', 'f': name})
        elif op == 'flatMap':
            ops.append({'op': 'flatMap', 'f': name})
            k = k[1] if isg else F.flat_out_kind(name, k)
        elif op == 'mapPartitions':
            ops.append({'op': 'mapPartitions', 'f': name})
            k = F.part_out_kind(name, k)
        elif op == 'mapValues':
            ops.append({'op': 'mapValues', 'f': name})
            k = ('P', k[1], F.map_out_kind(name, k[2]))
        elif op == 'flatMapValues':
            ops.append({'op': 'flatMapValues', 'f': name})
            k = ('P', k[1], F.flat_out_kind(name, k[2]))
        elif op == 'keys':
            ops.append({'op': 'keys'})
            k = k[1]
        elif op == 'values':
            ops.append({'op': 'values'})
            k = k[2]
        elif op == 'keyBy':
            ops.append({'op': 'keyBy', 'f': name})
            k = ('P', F.map_out_kind(name, k), k)
            if F.is_pair(k[2]):
                k = ('P', k[1], 'I')  # unreachable: keyBy only on non-pairs
        elif op == 'zip':
            k2 = F.gen_kind(rng, allow_pair=False)
            m = rng.randint(0, 6)
            ops.append({'op': 'zip', 'xs': [F.to_json(F.gen_value(rng, k2)) for _ in range(m)], 'n': rng.randint(1, 3)})
            k = ('P', k, k2)
        elif op == 'zipWithIndex':
            ops.append({'op': 'zipWithIndex'})
            k = ('P', k, 'I')
        elif op == 'glom':
            ops.append({'op': 'glom'})
            k = ('G', k)
        elif op == 'union':
            m = rng.randint(0, 4)
            ops.append({'op': 'union', 'xs': [F.to_json(F.gen_value(rng, k)) for _ in range(m)], 'n': rng.randint(1, 3)})
        elif op == 'sortBy':
            ops.append({'op': 'sortBy', 'f': name, 'asc': rng.random() < .6,
                        'm': rng.choice([None, None, 1, 2, 3, 5])})
        elif op == 'coalesce':
            ops.append({'op': 'coalesce', 'm': rng.randint(1, 5)})
        elif op == 'repartition':
            ops.append({'op': 'repartition', 'm': rng.randint(1, 6)})
    return ops, k


def gen_action(rng, k, approx_len):
    isg = isinstance(k, tuple) and k[0] == 'G'
    acts = ['collect', 'count', 'first', 'take', 'toLocalIterator']
    if not isg:
        acts += ['reduce', 'fold', 'aggregate'] * 2
        if k == 'I':
            acts += ['sum', 'min', 'max', 'mean', 'sum']
        if F.hashable(k):
            acts += ['countByValue'] * 2
        if F.comparable(k):
            acts += ['top', 'takeOrdered'] * 2
        if F.is_pair(k):
            acts += ['lookup'] * 2
            if F.hashable(k[1]):
                acts += ['collectAsMap'] * 2
    a = rng.choice(acts)
    if a in ('count', 'sum', 'mean', 'reduce', 'aggregate') and rng.random() < .15:
        # the library's other spellings of the same action (countApprox, sumApprox, meanApprox, treeReduce, treeAggregate)
        act = gen_action(rng, k, approx_len)
        if act['name'] == a:
            return dict(act, via='alias')
    if a == 'take':
        return {'name': 'take', 'n': rng.randint(0, approx_len + 1)}
    if a == 'reduce':
        fs = ['first', 'last', 'pairUp']
        if k in ('I', 'S', 'T', 'L'):
            fs += ['add'] * 3
        if k == 'I':
            fs += ['mul', 'sub', 'sub', 'max', 'min']
        if k in ('S', 'T'):
            fs += ['max', 'min']
        if k in ('I', 'N', 'S', 'T'):
            fs += ['maxOpt']
        return {'name': 'reduce', 'f': rng.choice(fs)}
    if a == 'fold':
        opts = []
        if k == 'I':
            opts += [(0, 'add'), (1, 'mul'), (0, 'add'), (5, 'add'), (0, 'sub'), (2, 'mul'), (0, 'max')]
        if k == 'S':
            opts += [('', 'add'), ('x', 'add')]
        if k == 'T':
            opts += [((), 'add'), ((9,), 'add')]
        if k == 'L':
            opts += [([], 'add'), ([], 'extend'), ([], 'extend'), ([7], 'extend')]
        if k in ('I', 'N', 'S', 'T'):
            opts += [(None, 'maxOpt')]
        if not opts:
            return {'name': 'collect'}
        z, f = rng.choice(opts)
        return {'name': 'fold', 'z': F.to_json(z), 'f': f}
    if a == 'aggregate':
        names = [n for n in F.AGG if F.agg_applies(n, k)]
        return {'name': 'aggregate', 'agg': rng.choice(names)}
    if a in ('top', 'takeOrdered'):
        keys = ['id'] * 2
        if k == 'I':
            keys += ['neg', 'mod3']
        return {'name': a, 'n': rng.randint(0, approx_len + 1), 'key': rng.choice(keys)}
    if a == 'lookup':
        return {'name': 'lookup', 'k': F.to_json(F.gen_value(rng, k[1]))}
    return {'name': a}


def apply_ops(sc, rdd, ops):
    for o in ops:
        op = o['op']
        if op == 'map':
            rdd = rdd.map(F.MAP[o['f']])
        elif op == 'filter':
            rdd = rdd.filter(F.PRED[o['f']])
        elif op == 'flatMap':
            rdd = rdd.flatMap(F.FLAT[o['f']])
        elif op == 'mapValues':
            rdd = rdd.mapValues(F.MAP[o['f']])
        elif op == 'flatMapValues':
            rdd = rdd.flatMapValues(F.FLAT[o['f']])
        elif op == 'keyBy':
            rdd = rdd.keyBy(F.MAP[o['f']])
        elif op == 'keys':
            rdd = rdd.keys()
        elif op == 'values':
            rdd = rdd.values()
        elif op == 'mapPartitions':
            rdd = rdd.mapPartitions(F.PART[o['f']][0])
        elif op == 'glom':
            rdd = rdd.glom()
        elif op == 'union':
            other = sc.parallelize([F.from_json(x) for x in o['xs']], o['n'])
            if o.get('via') == 'ctx-list':
                rdd = sc.union([rdd, other])
            elif o.get('via') == 'ctx-gen':
                rdd = sc.union(r for r in (rdd, other))      # "Iterable of RDDs": a one-shot iterable too
            else:
                rdd = rdd.union(other)
        elif op == 'zip':
            rdd = rdd.zip(sc.parallelize([F.from_json(x) for x in o['xs']], o['n']))
        elif op == 'zipWithIndex':
            rdd = rdd.zipWithIndex()
        elif op == 'sortBy':
            rdd = rdd.sortBy(F.MAP[o['f']], ascending=o['asc'], numPartitions=o['m'])
        elif op == 'coalesce':
            rdd = rdd.coalesce(o['m'])
        elif op == 'repartition':
            rdd = rdd.repartition(o['m'])
        else:
            raise ValueError(op)
    return rdd


def sorted_pairs(pairs):
    return sorted(([F.to_json(k), F.to_json(v)] for k, v in pairs), key=canon)


def run_action(rdd, a):
    name = a['name']
    if name == 'collect':
        return F.to_json(rdd.collect())
    if name == 'toLocalIterator':
        return F.to_json(list(rdd.toLocalIterator()))
    alias = a.get('via')
    if name == 'count':
        return rdd.countApprox() if alias else rdd.count()
    if name == 'first':
        return F.to_json(rdd.first())
    if name == 'take':
        return F.to_json(rdd.take(a['n']))
    if name == 'sum':
        return rdd.sumApprox() if alias else rdd.sum()
    if name == 'reduce':
        return F.to_json(rdd.treeReduce(F.BIN[a['f']]) if alias else rdd.reduce(F.BIN[a['f']]))
    if name == 'fold':
        zero = F.from_json(a['z'])
        res = F.to_json(rdd.fold(zero, F.BIN[a['f']]))
        if F.to_json(zero) != a['z']:
            return {'caller_zero_mutated': F.to_json(zero), 'result': res}
        return res
    if name == 'aggregate':
        z, s, c = F.AGG[a['agg']]
        zero = z()
        res = F.to_json(rdd.treeAggregate(zero, F.BIN[s], F.BIN[c]) if alias else rdd.aggregate(zero, F.BIN[s], F.BIN[c]))
        if F.to_json(zero) != F.to_json(z()):
            return {'caller_zero_mutated': F.to_json(zero), 'result': res}
        return res
    if name == 'countByValue':
        return sorted_pairs(rdd.countByValue().items())
    if name == 'top':
        return F.to_json(rdd.top(a['n'], key=F.MAP[a['key']]))
    if name == 'takeOrdered':
        return F.to_json(rdd.takeOrdered(a['n'], key=F.MAP[a['key']]))
    if name == 'lookup':
        return F.to_json(rdd.lookup(F.from_json(a['k'])))
    if name == 'collectAsMap':
        return sorted_pairs(rdd.collectAsMap().items())
    if name == 'min':
        return rdd.min()
    if name == 'max':
        return rdd.max()
    if name == 'mean':
        return rdd.meanApprox() if alias else rdd.mean()
    raise ValueError(name)


def norm_model(a, m):
    """bring the model's answer to the harness' canonical form"""
    if isinstance(m, dict) and 'exc' in m:
        return m
    if a['name'] in ('countByValue', 'collectAsMap'):
        return sorted(m, key=canon)
    return m


def same(a, impl, model):
    name = a['name']
    if isinstance(model, dict) and 'exc' in model:
        if model['exc'] == 'empty':       # min/max/mean of an empty dataset: outside the property
            if name == 'first':
                # first() of an empty dataset raises - and not StopIteration, which a caller that happens to run inside a
                # generator or map() would take for the end of ITS input (as for reduce: ValueError)
                return isinstance(impl, dict) and impl.get('exc') not in (None, 'StopIteration')
            return True if name in ('min', 'max', 'mean') else (isinstance(impl, dict) and 'exc' in impl)
        return impl == model
    if name == 'mean':
        if not isinstance(impl, float):
            return False
        want = model[0] / model[1]
        return abs(impl - want) <= 1e-9 * max(1.0, abs(want))
    if name in ('min', 'max', 'sum', 'count'):
        return impl == model and not isinstance(impl, bool)
    return canon(impl) == canon(model)


class C01(Prop):
    id = 'C01'
    extracted = True      # the actions regenerated from the current source (harness/extract_m.py TrF, Extracted/EquivC01.lean)
    quick_cases = 6000
    thorough_cases = 40000
    quick_budget_s = 60
    thorough_budget_s = 600
    rule = ('type-directed random pipelines (depth 0..4 quick / 0..6 thorough) over the function library '
            '(harness/funcs.py = Model/FuncLib.lean) x input lists of length 0..8 over ints / strings / None-mix / '
            'tuples / unhashable lists / pairs x slice counts 0..len+2, 17, 1000 x every listed action; impl result '
            'compared exactly with the partitioned Lean model and, where the algebraic side conditions hold, with the '
            'plain-list SPEC evaluated in Lean. Non-trivial = non-empty input and at least one transformation or a '
            'slice count > 1; distinct = distinct canonical case.')
    trusted = ('user functions are the total functions of the library; functions that raise are C04\'s subject',
               'Python generators evaluate on demand (C06 samples it)',
               'min/max/mean/first of an EMPTY dataset are outside the statement (list semantics raise)')

    def setup(self, ctx):
        from pysparkling import Context
        self.Context = Context

    def gen(self, rng, tier):
        k = F.gen_kind(rng)
        n_el = rng.choice([0, 1, 2, 3, 3, 4, 5, 6, 7, 8])
        xs = [F.gen_value(rng, k) for _ in range(n_el)]
        r = rng.random()
        if r < .06:
            n = rng.choice([17, 1000])
        elif r < .16:
            n = rng.randint(9, 64)
        else:
            n = rng.randint(0, n_el + 2)
        depth = rng.randint(0, 4 if tier == 'quick' else 6)
        ops, k2 = gen_ops(rng, k, depth)
        action = gen_action(rng, k2, n_el + 2)
        return {'xs': [F.to_json(x) for x in xs], 'n': n, 'ops': ops, 'action': action}

    def fixed_cases(self, tier):
        out = []
        # every slice count for small lengths, plain collect / glom layouts / reduce on empty
        for ln in range(0, 7):
            for n in list(range(0, ln + 3)) + [17]:
                xs = list(range(ln))
                out.append({'xs': xs, 'n': n, 'ops': [], 'action': {'name': 'collect'}})
                out.append({'xs': xs, 'n': n, 'ops': [{'op': 'glom'}], 'action': {'name': 'collect'}})
                out.append({'xs': xs, 'n': n, 'ops': [], 'action': {'name': 'reduce', 'f': 'add'}})
                out.append({'xs': [[x] for x in xs], 'n': n, 'ops': [], 'action': {'name': 'fold', 'z': [], 'f': 'extend'}})
                for agg in ('appendExtend', 'tupMut', 'nestMut'):
                    out.append({'xs': xs, 'n': n, 'ops': [], 'action': {'name': 'aggregate', 'agg': agg}})
                out.append({'xs': xs, 'n': n, 'ops': [{'op': 'filter', 'f': 'false'}], 'action': {'name': 'reduce', 'f': 'add'}})
        # slice counts at which a hoisted quotient rounds: n * (len / n) < len in IEEE doubles (49 * (1 / 49) = 0.99999…), so that
        # boundaries computed as int(i * (len / n)) lose the last element - the first such n for each small length (four seeded
        # changes of this kind were reported by C07's exhaustive sweep for every seed, by this campaign only for some)
        for ln in (1, 2, 3, 5, 6, 7, 10, 11, 13, 15):
            hostile = [n for n in range(1, 130) if n * (ln / n) < ln][:2]
            for n in hostile:
                out.append({'xs': list(range(ln)), 'n': n, 'ops': [], 'action': {'name': 'collect'}})
                out.append({'xs': list(range(ln)), 'n': n, 'ops': [], 'action': {'name': 'count'}})
        # re-partitioning after a size-changing step, also to the partition count the dataset already has: the layout
        # seen by glom / the partition-wise steps is the even re-split, not the old uneven contents
        for ln in (4, 6, 7):
            for n in (2, 3, 4):
                for m in (1, 2, 3, 4, 5):
                    for pre in ({'op': 'filter', 'f': 'even'}, {'op': 'flatMap', 'f': 'dup'}):
                        for repart in ('repartition', 'coalesce'):
                            out.append({'xs': list(range(ln)), 'n': n, 'ops': [pre, {'op': repart, 'm': m}, {'op': 'glom'}],
                                        'action': {'name': 'collect'}})
        # Context.union over a list and over a one-shot iterable of datasets (contents only: it re-slices)
        for via in ('ctx-list', 'ctx-gen'):
            for n in (1, 2, 3):
                out.append({'xs': [1, 2, 3], 'n': n, 'ops': [{'op': 'union', 'xs': [4, 5], 'n': 2, 'via': via}], 'action': {'name': 'collect'}})
                out.append({'xs': [], 'n': n, 'ops': [{'op': 'union', 'xs': [4, 5], 'n': 2, 'via': via}], 'action': {'name': 'count'}})
        for n in (1, 2, 3):
            out.append({'xs': [], 'n': n, 'ops': [], 'action': {'name': 'first'}})
            out.append({'xs': [1, 3], 'n': n, 'ops': [{'op': 'filter', 'f': 'even'}], 'action': {'name': 'first'}})
        # a partition function right after glom (a step of the library, not a user's partition function): it gets an iterator
        for pf in ('twicep', 'nextlen'):
            for n in (1, 2, 3):
                out.append({'xs': [1, 2, 3, 4], 'n': n, 'ops': [{'op': 'glom'}, {'op': 'mapPartitions', 'f': pf}], 'action': {'name': 'collect'}})
        return out

    def nontrivial(self, case):
        return len(case['xs']) > 0 and (len(case['ops']) > 0 or case['n'] > 1)

    def shrink(self, case):
        ops = case['ops']
        for i in range(len(ops)):
            yield dict(case, ops=ops[:i] + ops[i + 1:])
        xs = case['xs']
        for i in range(len(xs)):
            yield dict(case, xs=xs[:i] + xs[i + 1:])
        if case['n'] > 1:
            yield dict(case, n=case['n'] - 1)
            yield dict(case, n=2)
        if case['action']['name'] != 'collect':
            yield dict(case, action={'name': 'collect'})

    def run_case(self, case, ctx):
        sc = self.Context()
        a = case['action']
        for o in case['ops']:
            ctx.note('op:' + o['op'])
        ctx.note('action:' + a['name'])
        ctx.note('n>len' if case['n'] > len(case['xs']) else 'n<=len')
        try:
            rdd = sc.parallelize([F.from_json(x) for x in case['xs']], case['n'])
            rdd = apply_ops(sc, rdd, case['ops'])
            impl = run_action(rdd, a)
        except Exception as e:  # pylint: disable=broad-except
            impl = rdd_exc(e)
        r = ctx.driver.ask(dict(case, p='C01'))
        model = norm_model(a, r['model'])
        sig = 'C01:%s' % a['name']
        if r['spec_applies']:
            ctx.note('spec_applies')
            spec = norm_model(a, r['spec'])
            if canon(spec) != canon(model):
                return Mismatch('Lean model (partitioned) differs from Lean list SPEC — theorem hypothesis violated?',
                                model, spec, 'model-spec:' + a['name'])
            if not same(a, impl, spec):
                return Mismatch('result differs from plain-list semantics', impl, spec, sig, relation='spec')
        if not same(a, impl, model):
            return Mismatch('result differs from the partitioned model (same slicing)', impl, model, sig + ':model')
        return None


PROP = C01()
