"""Second tie: regenerate Lean definitions of straight-line arithmetic kernels from the CURRENT source text.

`python extract.py [--repo DIR] [Cxx ...]` rewrites lean/PysparklingVerif/Extracted/GenCxx.lean. The hand-written
files Extracted/EquivCxx.lean prove the generated definitions equal to the models the property theorems are about,
so a semantic change to one of these fragments breaks a proof obligation for all inputs at once.

Supported Python subset (anything else raises NotTranslatable and the tie is reported as lost): assignments to
locals and to `self.<field>`, augmented assignment, tuple assignment of names, `if/elif/else`, early `return`,
conditional expressions, `+ - * / // %`, unary minus, chained comparisons, `and/or/not`, `int(x)` (identity on the
model's exact numbers; `int(a / b)` is floor division of naturals), comprehension `[p for p in range(..) for _ in
range(..)]`, list `+`.
"""
import ast
import os
import sys
import textwrap

VERIF = os.path.dirname(os.path.dirname(os.path.abspath(__file__)))
OUT_DIR = os.path.join(VERIF, 'lean', 'PysparklingVerif', 'Extracted')


from extract_base import NotTranslatable, find_class, find_def, parse  # noqa: E402  pylint: disable=wrong-import-position

class Tr:
    """state-passing translation of a method body into a Lean term that builds the final record"""

    def __init__(self, num, fields=(), ignore=(), selfname='self', others=(), derived=None):
        self.num = num                  # 'Rat' | 'Int' | 'Nat'
        self.fields = list(fields)
        self.ignore = set(ignore)
        self.selfname = selfname
        self.others = set(others)
        self.derived = derived or {}    # attribute name -> python expression source over `X.<field>`
        self.cnt = 0

    # ---- expressions ------------------------------------------------------------------------
    def const(self, v):
        if isinstance(v, bool):
            return 'true' if v else 'false'
        if isinstance(v, int):
            return '(%d : %s)' % (v, self.num)
        if isinstance(v, float) and v == int(v):
            return '(%d : %s)' % (int(v), self.num)
        raise NotTranslatable('constant %r' % (v,))

    def attr(self, base, name, env):
        if name in self.derived:
            tree = ast.parse(self.derived[name].replace('X', base), mode='eval').body
            return self.expr(tree, env)
        if base == self.selfname:
            if name not in env['@self']:
                raise NotTranslatable('field self.%s' % name)
            return env['@self'][name]
        if base in self.others:
            if name not in self.fields:
                raise NotTranslatable('field %s.%s' % (base, name))
            return '%s.%s' % (base, name)
        raise NotTranslatable('attribute %s.%s' % (base, name))

    def expr(self, e, env):
        if isinstance(e, ast.Constant):
            return self.const(e.value)
        if isinstance(e, ast.Name):
            if e.id in env:
                return env[e.id]
            raise NotTranslatable('free name ' + e.id)
        if isinstance(e, ast.Attribute) and isinstance(e.value, ast.Name):
            return self.attr(e.value.id, e.attr, env)
        if isinstance(e, ast.UnaryOp):
            if isinstance(e.op, ast.USub):
                if isinstance(e.operand, ast.Constant):
                    return self.const(-e.operand.value)
                return '(-%s)' % self.expr(e.operand, env)
            if isinstance(e.op, ast.Not):
                return '(¬ %s)' % self.expr(e.operand, env)
        if isinstance(e, ast.BinOp):
            a, b = e.left, e.right
            if isinstance(e.op, ast.Add) and (isinstance(a, (ast.ListComp, ast.List)) or isinstance(b, (ast.ListComp, ast.List))):
                return '(%s ++ %s)' % (self.expr(a, env), self.expr(b, env))
            ops = {ast.Add: '+', ast.Sub: '-', ast.Mult: '*'}
            if type(e.op) in ops:
                return '(%s %s %s)' % (self.expr(a, env), ops[type(e.op)], self.expr(b, env))
            if isinstance(e.op, ast.Div):
                if self.num != 'Rat':
                    raise NotTranslatable('true division outside Rat (only int(a / b) is accepted)')
                return '(%s / %s)' % (self.expr(a, env), self.expr(b, env))
            if isinstance(e.op, ast.FloorDiv):
                if self.num == 'Nat':
                    return '(%s / %s)' % (self.expr(a, env), self.expr(b, env))
                if self.num == 'Int':
                    return '(Int.fdiv %s %s)' % (self.expr(a, env), self.expr(b, env))
            if isinstance(e.op, ast.Mod):
                if self.num == 'Nat':
                    return '(%s %% %s)' % (self.expr(a, env), self.expr(b, env))
                if self.num == 'Int':
                    return '(Int.fmod %s %s)' % (self.expr(a, env), self.expr(b, env))
            raise NotTranslatable('operator ' + type(e.op).__name__)
        if isinstance(e, ast.Compare):
            ops = {ast.Lt: '<', ast.LtE: '≤', ast.Gt: '>', ast.GtE: '≥', ast.Eq: '=', ast.NotEq: '≠'}
            parts, left = [], e.left
            for op, right in zip(e.ops, e.comparators):
                if type(op) not in ops:
                    raise NotTranslatable('comparison ' + type(op).__name__)
                parts.append('%s %s %s' % (self.expr(left, env), ops[type(op)], self.expr(right, env)))
                left = right
            return '(' + ' ∧ '.join(parts) + ')'
        if isinstance(e, ast.BoolOp):
            j = ' ∧ ' if isinstance(e.op, ast.And) else ' ∨ '
            return '(' + j.join(self.expr(v, env) for v in e.values) + ')'
        if isinstance(e, ast.IfExp) and isinstance(e.orelse, ast.Constant) and e.orelse.value is None:
            return '(if %s then some %s else none)' % (self.expr(e.test, env), self.expr(e.body, env))
        if isinstance(e, ast.IfExp):
            return '(if %s then %s else %s)' % (self.expr(e.test, env), self.expr(e.body, env), self.expr(e.orelse, env))
        if isinstance(e, ast.Call) and isinstance(e.func, ast.Name) and e.func.id == 'int' and len(e.args) == 1:
            a = e.args[0]
            if isinstance(a, ast.BinOp) and isinstance(a.op, ast.Div):
                if self.num != 'Nat':
                    raise NotTranslatable('int(a / b) outside Nat')
                return '(%s / %s)' % (self.expr(a.left, env), self.expr(a.right, env))     # floor of a non-negative quotient
            return self.expr(a, env)                                                     # int() of an exact integer
        if isinstance(e, ast.ListComp):
            return self.listcomp(e, env)
        raise NotTranslatable(ast.dump(e)[:120])

    def range_(self, call, env):
        if not (isinstance(call, ast.Call) and isinstance(call.func, ast.Name) and call.func.id == 'range'):
            raise NotTranslatable('comprehension source')
        if len(call.args) == 1:
            return '(List.range %s)' % self.expr(call.args[0], env)
        if len(call.args) == 2:
            a, b = self.expr(call.args[0], env), self.expr(call.args[1], env)
            return '((List.range (%s - %s)).map (· + %s))' % (b, a, a)
        raise NotTranslatable('range with step')

    def listcomp(self, e, env):
        if len(e.generators) == 2 and all(not g.ifs and isinstance(g.target, ast.Name) for g in e.generators) \
                and isinstance(e.elt, ast.Name) and e.elt.id == e.generators[0].target.id:
            g0, g1 = e.generators
            v = g0.target.id
            env2 = dict(env)
            env2[v] = v
            return '(%s.flatMap fun %s => List.replicate %s %s)' % (self.range_(g0.iter, env), v, self.expr(g1.iter.args[0], env2)
                                                                    if len(g1.iter.args) == 1 else self.bad(), v)
        raise NotTranslatable('list comprehension shape')

    @staticmethod
    def bad():
        raise NotTranslatable('inner range')

    # ---- statements ---------------------------------------------------------------------------
    def fresh(self, base):
        self.cnt += 1
        return '%s_%d' % (base, self.cnt)

    def block(self, stmts, env, ind, result):
        """`result(env, value_ast_or_None)` renders what the block finally yields"""
        if not stmts:
            return result(env, None)
        s, rest = stmts[0], stmts[1:]
        pad = ' ' * ind
        if isinstance(s, ast.Expr) and isinstance(s.value, ast.Constant):       # docstring
            return self.block(rest, env, ind, result)
        if isinstance(s, ast.Return):
            return result(env, s.value)
        if isinstance(s, (ast.Assign, ast.AugAssign)):
            tgt = s.targets[0] if isinstance(s, ast.Assign) else s.target
            val = ast.BinOp(left=tgt, op=s.op, right=s.value) if isinstance(s, ast.AugAssign) else s.value
            if isinstance(tgt, ast.Tuple) and isinstance(val, ast.Tuple) and len(tgt.elts) == len(val.elts):
                seq = [ast.Assign(targets=[t], value=v) for t, v in zip(tgt.elts, val.elts)]
                return self.block(seq + rest, env, ind, result)
            if isinstance(tgt, ast.Attribute) and isinstance(tgt.value, ast.Name) and tgt.value.id == self.selfname:
                if tgt.attr in self.ignore:
                    return self.block(rest, env, ind, result)
                if tgt.attr not in self.fields:
                    raise NotTranslatable('assignment to self.%s' % tgt.attr)
                v = self.expr(val, env)
                nm = self.fresh(tgt.attr)
                env2 = dict(env)
                env2['@self'] = dict(env['@self'])
                env2['@self'][tgt.attr] = nm
                return 'let %s := %s\n%s' % (nm, v, pad) + self.block(rest, env2, ind, result)
            if isinstance(tgt, ast.Name):
                v = self.expr(val, env)
                nm = self.fresh(tgt.id)
                env2 = dict(env)
                env2[tgt.id] = nm
                return 'let %s := %s\n%s' % (nm, v, pad) + self.block(rest, env2, ind, result)
            raise NotTranslatable('assignment target')
        if isinstance(s, ast.If):
            if isinstance(s.test, ast.Compare) and isinstance(s.test.ops[0], (ast.Is, ast.IsNot)):
                # `other is self`: the aliasing guard re-enters with a copy, i.e. with an equal record
                return self.block(rest, env, ind, result)
            c = self.expr(s.test, env)
            a = self.block(list(s.body) + rest, dict(env), ind + 2, result)
            b = self.block(list(s.orelse) + rest, dict(env), ind + 2, result)
            return 'if %s then\n%s  %s\n%selse\n%s  %s' % (c, pad, a, pad, pad, b)
        raise NotTranslatable('statement ' + type(s).__name__)

    def record(self, env, _value):
        return '{ ' + ', '.join('%s := %s' % (f, env['@self'][f]) for f in self.fields) + ' }'

    def method(self, fn, leanname, struct, params):
        env = {'@self': {f: 'self.%s' % f for f in self.fields}}
        for p, _ in params:
            env[p] = p
        ps = ''.join(' (%s : %s)' % (p, ty) for p, ty in params)
        body = self.block(fn.body, env, 2, self.record)
        return 'def %s (self : %s)%s : %s :=\n  %s\n' % (leanname, struct, ps, struct, body)

    def function(self, stmts, leanname, params, rettype, env=None, wrap=None):
        env = dict(env or {})
        for p, _ in params:
            env[p] = p
        ps = ''.join(' (%s : %s)' % (p, ty) for p, ty in params)

        def result(env2, value):
            if value is None:
                raise NotTranslatable('function falls off the end')
            r = self.expr(value, env2)
            return wrap(r) if wrap else r
        return 'def %s%s : %s :=\n  %s\n' % (leanname, ps, rettype, self.block(stmts, env, 2, result))


# ---- locating fragments -------------------------------------------------------------------------

def structure(name, fields, num):
    return 'structure %s where\n%s\n  deriving Repr, DecidableEq\n' % (name, '\n'.join('  %s : %s' % (f, num) for f in fields))


HEADER = '''/-
  GENERATED by harness/extract.py from the current text of %s — do not edit.
  Regenerated on every run of the checks that use it; the theorems of Extracted/Equiv%s.lean are
  re-checked against this text.
-/
namespace PysparklingVerif.Gen.%s

'''


def gen_c17(repo):
    tree = parse(repo, 'pysparkling/stat_counter.py')
    sc = find_class(tree, 'StatCounter')
    cov = find_class(tree, 'CovarianceCounter')
    t = Tr('Rat', fields=['n', 'mu', 'm2'], ignore=['maxValue', 'minValue'], others=['other'])
    out = structure('SC', t.fields, 'Rat') + '\n'
    out += t.method(find_def(sc, 'merge'), 'scMerge', 'SC', [('value', 'Rat')]) + '\n'
    out += t.method(find_def(sc, 'mergeStats'), 'scMergeStats', 'SC', [('other', 'SC')]) + '\n'
    t2 = Tr('Rat', fields=['count', 'xAvg', 'yAvg', 'Ck', 'MkX', 'MkY'], others=['other'])
    out += structure('Cov', t2.fields, 'Rat') + '\n'
    out += t2.method(find_def(cov, 'add'), 'covAdd', 'Cov', [('x', 'Rat'), ('y', 'Rat')]) + '\n'
    out += t2.method(find_def(cov, 'merge'), 'covMerge', 'Cov', [('other', 'Cov')]) + '\n'
    return 'pysparkling/stat_counter.py (StatCounter.merge / mergeStats, CovarianceCounter.add / merge)', out


EXPECTED_MEAN = "If(test=BoolOp(op=Or(), values=[Compare(left=Attribute(value=Name(id='self', ctx=Load()), attr='count', ctx=Load()), " \
    "ops=[Eq()], comparators=[Constant(value=0)]), Compare(left=Attribute(value=Name(id='self', ctx=Load()), attr='sum_of_values', " \
    "ctx=Load()), ops=[Is()], comparators=[Constant(value=None)])]), body=[Return(value=Constant(value=None))], orelse=[])|" \
    "Return(value=BinOp(left=Attribute(value=Name(id='self', ctx=Load()), attr='sum_of_values', ctx=Load()), op=Div(), " \
    "right=Attribute(value=Name(id='self', ctx=Load()), attr='count', ctx=Load())))"


def gen_c14(repo):
    tree = parse(repo, 'pysparkling/stat_counter.py')
    c = find_class(tree, 'ColumnStatHelper')
    mean = [n for n in c.body if isinstance(n, ast.FunctionDef) and n.name == 'mean'][0]
    got = '|'.join(ast.dump(s) for s in mean.body if not (isinstance(s, ast.Expr) and isinstance(s.value, ast.Constant)))
    if got != EXPECTED_MEAN:
        raise NotTranslatable('ColumnStatHelper.mean is no longer `sum_of_values / count` guarded by count == 0')
    t = Tr('Rat', fields=['count', 'sum_of_values', 'm2', 'm3', 'm4'], others=['other'], derived={'mean': '(X.sum_of_values / X.count)'})
    out = structure('Mom', t.fields, 'Rat') + '\n'
    out += t.method(find_def(c, 'update_moments'), 'updateMoments', 'Mom', [('value', 'Rat')]) + '\n'
    out += t.method(find_def(c, 'merge_moments'), 'mergeMoments', 'Mom', [('other', 'Mom')]) + '\n'
    return 'pysparkling/stat_counter.py (ColumnStatHelper.update_moments / merge_moments)', out


def gen_c18(repo):
    tree = parse(repo, 'pysparkling/sql/casts.py')
    fn = find_def(tree, '_cast_to_bounded_type')
    size = [s for s in fn.body if isinstance(s, ast.Assign) and isinstance(s.targets[0], ast.Name) and s.targets[0].id == 'size']
    if len(size) != 1:
        raise NotTranslatable('`size = …` not found')

    def branch(typename):
        for s in fn.body:
            if isinstance(s, ast.If) and typename in ast.dump(s.test) and 'isinstance' in ast.dump(s.test):
                return s.body
        raise NotTranslatable('branch on %s not found' % typename)
    t = Tr('Int')
    out = t.function(size + branch('NumericType'), 'castBoundedNumeric', [('min_value', 'Int'), ('max_value', 'Int'), ('value', 'Int')], 'Int') + '\n'
    # string branch: `casted_value = int(value)` — the parse is modelled separately; here `value` is the parsed integer
    t = Tr('Int')
    body = branch('StringType')
    rendered = t.function(body, 'castBoundedParsed', [('min_value', 'Int'), ('max_value', 'Int'), ('value', 'Int')], 'Option Int')
    out += rendered + '\n'
    for w in ('byte', 'short', 'int', 'long'):
        f = find_def(tree, 'cast_to_' + w)
        asg = [s for s in f.body if isinstance(s, ast.Assign) and isinstance(s.targets[0], ast.Tuple)]
        if len(asg) != 1 or [e.id for e in asg[0].targets[0].elts] != ['min_value', 'max_value']:
            raise NotTranslatable('bounds of cast_to_' + w)
        lo, hi = (Tr('Int').expr(v, {}) for v in asg[0].value.elts)
        out += 'def %sBounds : Int × Int := (%s, %s)\n' % (w, lo, hi)
    return 'pysparkling/sql/casts.py (_cast_to_bounded_type, cast_to_byte/short/int/long)', out


class NoneAsOption(ast.NodeTransformer):
    def visit_Constant(self, node):
        return node


def gen_c07(repo):
    tree = parse(repo, 'pysparkling/context.py')
    par = find_def(find_class(tree, 'Context'), 'parallelize')
    inner = find_def(par, 'partitioned')
    loop = [s for s in inner.body if isinstance(s, ast.For)]
    if len(loop) != 1:
        raise NotTranslatable('parallelize loop')
    asg = {s.targets[0].id: s for s in loop[0].body if isinstance(s, ast.Assign) and isinstance(s.targets[0], ast.Name)}
    t = Tr('Nat')
    params = [('i', 'Nat'), ('len_x', 'Nat'), ('numSlices', 'Nat')]
    out = t.function([ast.Return(value=asg['start'].value)], 'sliceStart', params, 'Nat') + '\n'
    out += t.function([ast.Return(value=asg['end'].value)], 'sliceEnd', params, 'Nat') + '\n'
    rdd = parse(repo, 'pysparkling/rdd.py')
    co = find_def(find_class(rdd, 'RDD'), 'coalesce')
    want = ['new_num_partitions', 'small_group_size', 'big_group_size', 'number_of_big_groups', 'number_of_small_groups', 'partition_mapping']
    stmts = [s for s in co.body if isinstance(s, ast.Assign) and isinstance(s.targets[0], ast.Name) and s.targets[0].id in want]
    if [s.targets[0].id for s in stmts] != want:
        raise NotTranslatable('coalesce group-size assignments: ' + str([s.targets[0].id for s in stmts]))
    # `min(numPartitions, current_num_partitions)`
    first = stmts[0].value
    if not (isinstance(first, ast.Call) and getattr(first.func, 'id', None) == 'min' and [getattr(a, 'id', None) for a in first.args] ==
            ['numPartitions', 'current_num_partitions']):
        raise NotTranslatable('new_num_partitions')
    t = Tr('Nat')
    env = {'new_num_partitions': '(min numPartitions current_num_partitions)'}
    body = stmts[1:] + [ast.Return(value=ast.Name(id='partition_mapping', ctx=ast.Load()))]
    out += t.function(body, 'coalesceMapping', [('current_num_partitions', 'Nat'), ('numPartitions', 'Nat')], 'List Nat', env=env) + '\n'
    zw = find_def(find_class(rdd, 'RDD'), 'zipWithUniqueId')
    lam = [n for n in ast.walk(zw) if isinstance(n, ast.Lambda)]
    ids = [n for l in lam for n in ast.walk(l) if isinstance(n, ast.BinOp) and isinstance(n.op, ast.Add) and 'partition_id' in ast.dump(n)]
    if len(ids) != 1:
        raise NotTranslatable('zipWithUniqueId id expression')
    e = ids[0]
    t = Tr('Nat')
    env = {'e': 'e', 'num_p': 'num_p'}

    class Sub(ast.NodeTransformer):
        def visit_Attribute(self, node):
            if node.attr == 'partition_id':
                return ast.Name(id='partition_id', ctx=ast.Load())
            return node
    e = Sub().visit(e)
    out += t.function([ast.Return(value=e)], 'uniqueId', [('e', 'Nat'), ('num_p', 'Nat'), ('partition_id', 'Nat')], 'Nat', env=env) + '\n'
    return 'pysparkling/context.py (Context.parallelize), pysparkling/rdd.py (RDD.coalesce, RDD.zipWithUniqueId)', out


class _RandomCallToDraw(ast.NodeTransformer):
    """`rng.random()` (the task's generator) becomes the parameter `draw`"""

    def visit_Call(self, node):
        self.generic_visit(node)
        if isinstance(node.func, ast.Attribute) and node.func.attr == 'random' and not node.args:
            return ast.Name(id='draw', ctx=ast.Load())
        return node


def gen_c16(repo):
    tree = parse(repo, 'pysparkling/samplers.py')
    call = find_def(find_class(tree, 'BernoulliSampler'), '__call__')
    body = [_RandomCallToDraw().visit(s) for s in call.body]
    t = Tr('Rat', fields=['expectation'], selfname='self')
    env = {'@self': {'expectation': 'expectation'}, 'draw': 'draw'}

    def nat_result(env2, value):
        if not (isinstance(value, ast.IfExp) and isinstance(value.body, ast.Constant) and isinstance(value.orelse, ast.Constant)):
            raise NotTranslatable('BernoulliSampler.__call__ is not `a if cond else b`')
        return '(if %s then (%d : Nat) else (%d : Nat))' % (t.expr(value.test, env2), value.body.value, value.orelse.value)
    out = 'def bernoulliCount (draw : Rat) (expectation : Rat) : Nat :=\n  %s\n\n' % t.block(body, env, 2, nat_result)
    rdd = parse(repo, 'pysparkling/rdd.py')
    comp = find_def(find_class(rdd, 'PartitionwiseSampledRDD'), 'compute')
    seeds = [n for n in ast.walk(comp) if isinstance(n, ast.Call) and getattr(n.func, 'id', None) == 'TaskRandom']
    if len(seeds) != 1 or len(seeds[0].args) != 1:
        raise NotTranslatable('TaskRandom(seed expression) not found in PartitionwiseSampledRDD.compute')

    class Sub(ast.NodeTransformer):
        def visit_Attribute(self, node):
            if isinstance(node.value, ast.Name) and node.value.id == 'self' and node.attr == 'seed':
                return ast.Name(id='seed', ctx=ast.Load())
            if isinstance(node.value, ast.Name) and node.value.id == 'split' and node.attr == 'index':
                return ast.Name(id='index', ctx=ast.Load())
            return node
    t2 = Tr('Nat')
    out += t2.function([ast.Return(value=Sub().visit(seeds[0].args[0]))], 'taskSeed', [('seed', 'Nat'), ('index', 'Nat')], 'Nat') + '\n'
    rs = find_def(find_class(rdd, 'RDD'), 'randomSplit')
    tests = [n for n in ast.walk(rs) if isinstance(n, ast.If) and isinstance(n.test, ast.Compare) and len(n.test.ops) == 2]
    if len(tests) != 1:
        raise NotTranslatable('randomSplit membership test')
    t3 = Tr('Rat')
    out += 'def inSplit (lb : Rat) (ub : Rat) (r : Rat) : Prop :=\n  %s\n\ninstance (lb ub r : Rat) : Decidable (inSplit lb ub r) := by unfold inSplit; infer_instance\n\n' % \
        t3.expr(tests[0].test, {'lb': 'lb', 'ub': 'ub', 'r': 'r'})
    app = [n for n in ast.walk(rs) if isinstance(n, ast.Call) and isinstance(n.func, ast.Attribute) and n.func.attr == 'append'
           and isinstance(n.func.value, ast.Name) and n.func.value.id == 'boundaries']
    if len(app) != 1:
        raise NotTranslatable('randomSplit boundaries.append(...)')

    class Sub2(ast.NodeTransformer):
        def visit_Subscript(self, node):
            if isinstance(node.value, ast.Name) and node.value.id == 'boundaries':
                return ast.Name(id='last', ctx=ast.Load())
            return node
    out += t3.function([ast.Return(value=Sub2().visit(app[0].args[0]))], 'nextBoundary',
                       [('last', 'Rat'), ('w', 'Rat'), ('sum_weights', 'Rat')], 'Rat') + '\n'
    return 'pysparkling/samplers.py (BernoulliSampler.__call__), pysparkling/rdd.py (PartitionwiseSampledRDD.compute seed, randomSplit)', out


GENERATORS = {'C16': gen_c16, 'C07': gen_c07, 'C14': gen_c14, 'C17': gen_c17, 'C18': gen_c18}

from extract_m import GENERATORS_M  # noqa: E402  pylint: disable=wrong-import-position
GENERATORS.update(GENERATORS_M)
USES_PRELUDE = set(GENERATORS_M)
EXTRA_IMPORTS = {'C12': ('PysparklingVerif.Model.Sql',), 'C01': ('PysparklingVerif.Model.Rdd',), 'C19': ('PysparklingVerif.Model.Types',), 'C06': ('PysparklingVerif.Model.Lazy',)}      # the value universe `SV` and Python truthiness come from the model


def generate(prop, repo):
    """-> (path, text); raises NotTranslatable"""
    src, body = GENERATORS[prop](repo)
    head = HEADER % (src, prop, prop)
    if prop in USES_PRELUDE:
        more = ''.join('import %s\n' % m for m in EXTRA_IMPORTS.get(prop, ()))
        head = head.replace('namespace PysparklingVerif', 'import PysparklingVerif.Extracted.Prelude\n' + more +
                            'set_option linter.unusedVariables false\nnamespace PysparklingVerif', 1)
    text = head + body + '\nend PysparklingVerif.Gen.%s\n' % prop
    os.makedirs(OUT_DIR, exist_ok=True)
    path = os.path.join(OUT_DIR, 'Gen%s.lean' % prop)
    old = open(path).read() if os.path.exists(path) else None
    if old != text:
        with open(path, 'w') as f:
            f.write(text)
    return path, text


if __name__ == '__main__':
    args = sys.argv[1:]
    repo = os.environ.get('VERIF_REPO', '/repo')
    if args and args[0] == '--repo':
        repo, args = args[1], args[2:]
    lost = 0
    for p in (args or sorted(GENERATORS)):
        try:
            path, text = generate(p, repo)
            print('%s -> %s (%d lines)' % (p, os.path.relpath(path, VERIF), text.count('\n')))
        except NotTranslatable as e:
            print('%s NOT TRANSLATABLE: %s' % (p, e))
            lost += 1
        except Exception as e:  # pylint: disable=broad-except
            print('%s EXTRACTOR FAILED: %r' % (p, e))
            lost += 1
    sys.exit(3 if lost else 0)
