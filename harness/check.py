"""./check <Cxx> [--tier quick|thorough] [--replay file]"""
import argparse
import importlib
import logging
import os
import sys
import traceback

HERE = os.path.dirname(os.path.abspath(__file__))
sys.path.insert(0, HERE)
REPO = os.environ.get('VERIF_REPO', '/repo')
sys.path.insert(0, REPO)
sys.dont_write_bytecode = True
os.environ.setdefault('PYSPARKLING_VERIF', '1')
logging.disable(logging.CRITICAL)


def main():
    ap = argparse.ArgumentParser()
    ap.add_argument('prop')
    ap.add_argument('--tier', default=os.environ.get('VERIF_TIER', 'quick'), choices=['quick', 'thorough'])
    ap.add_argument('--replay')
    a = ap.parse_args()
    seed = int(os.environ.get('VERIF_SEED', '0'))
    import core
    try:
        mod = importlib.import_module('props.' + a.prop.lower())
        prop = mod.PROP
        rc = core.run_check(prop, tier=a.tier, seed=seed, replay=a.replay)
    except Exception:  # pylint: disable=broad-except
        traceback.print_exc()
        print('HARNESS-ERROR property=%s' % a.prop)
        sys.exit(2)
    sys.exit(rc)


if __name__ == '__main__':
    main()
