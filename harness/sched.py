"""Deterministic thread scheduler for `Context(pool=…)`: an object with `map(func, iterable)` that runs
one real thread per task but lets exactly one of them run at a time, yielding to the scheduler at every
source line executed inside pysparkling (the granularity the property quantifies over). A schedule is
data: the order in which tasks are started and a list of pre-emption points (global step number ->
task to switch to); everything else is "run the current task until it finishes, then the next in order".
"""
import os
import sys
import threading


class SchedPool:
    def __init__(self, order=None, preempt=(), repo=None):
        self.order = list(order) if order is not None else None
        self.preempt = dict(preempt)            # global step -> task index
        self.prefix = os.path.join(repo or os.environ.get('VERIF_REPO', '/repo'), 'pysparkling') + os.sep
        self.steps = 0                          # line events seen in this map() call
        self.trace = []                         # (task, file, line) for the first few hundred steps
        self.switches = 0
        self.jobs = 0
        self.only_job = None                    # apply the schedule to this map() call only (None: to the first)

    # the contract Context asks for -------------------------------------------------------------
    def map(self, func, iterable):
        items = list(iterable)
        n = len(items)
        job = self.jobs
        self.jobs += 1
        scheduled = (job == (self.only_job or 0))
        if n == 0:
            return []
        results = [None] * n
        errors = [None] * n
        done = [False] * n
        go = [threading.Semaphore(0) for _ in range(n)]
        back = threading.Semaphore(0)
        pool = self
        prefix = self.prefix
        state = {'want_switch': False}

        def tracer_for(i):
            def local(frame, event, arg):
                if event == 'line':
                    pool.steps += 1
                    if len(pool.trace) < 400:
                        pool.trace.append((i, frame.f_code.co_filename[len(prefix):], frame.f_lineno))
                    if scheduled and pool.steps in pool.preempt:
                        state['want_switch'] = True
                        back.release()
                        go[i].acquire()
                return local

            def glob(frame, event, arg):
                if frame.f_code.co_filename.startswith(prefix):
                    return local
                return None
            return glob

        def worker(i):
            go[i].acquire()
            sys.settrace(tracer_for(i))
            try:
                results[i] = func(items[i])
            except BaseException as e:  # pylint: disable=broad-except
                errors[i] = e
            finally:
                sys.settrace(None)
                done[i] = True
                back.release()

        threads = [threading.Thread(target=worker, args=(i,), daemon=True) for i in range(n)]
        for t in threads:
            t.start()
        order = [i for i in (self.order if (self.order is not None and scheduled) else range(n)) if i < n]
        order += [i for i in range(n) if i not in order]
        current = None
        while not all(done):
            if state['want_switch']:
                state['want_switch'] = False
                want = self.preempt.get(self.steps)
                if want is not None and want < n and not done[want] and want != current:
                    current = want
                    self.switches += 1
                # else: keep running the pre-empted task
            elif current is None or done[current]:
                current = next(i for i in order if not done[i])
            go[current].release()
            back.acquire()
        for t in threads:
            t.join(timeout=5)
        for e in errors:
            if e is not None:
                raise e
        return results


class OrderPool:
    """a generic pool: runs the tasks one after the other in a given order, returns results in input order"""

    def __init__(self, order_fn):
        self.order_fn = order_fn

    def map(self, func, iterable):
        items = list(iterable)
        results = [None] * len(items)
        for i in self.order_fn(len(items)):
            results[i] = func(items[i])
        return results
