"""Function library of the correspondence campaigns (same definitions as
lean/PysparklingVerif/Model/FuncLib.lean) plus value <-> JSON conversion and kinds.

Kinds (for type-directed generation):
  'I' int, 'S' str, 'N' None-or-int, 'T' tuple of ints, 'L' list of ints (unhashable),
  ('P', k, v) pair; hashable(k) / comparable(k) decide which ops apply.
"""


# ---- values <-> JSON (wire format of Val) -------------------------------------------------
def to_json(v):
    if v is None or isinstance(v, (bool, int, str)):
        return v
    if isinstance(v, tuple):
        return {'t': [to_json(x) for x in v]}
    if isinstance(v, list):
        return [to_json(x) for x in v]
    raise TypeError('not a Val: %r' % (v,))


def from_json(j):
    if isinstance(j, dict):
        return tuple(from_json(x) for x in j['t'])
    if isinstance(j, list):
        return [from_json(x) for x in j]
    return j


# ---- kinds ------------------------------------------------------------------------------------
def is_pair(k):
    return isinstance(k, tuple) and k[0] == 'P'


def hashable(k):
    if is_pair(k):
        return hashable(k[1]) and hashable(k[2])
    return k in ('I', 'S', 'N', 'T')


def comparable(k):
    if is_pair(k):
        return comparable(k[1]) and comparable(k[2])
    return k in ('I', 'S', 'T', 'L')


def gen_value(rng, k):
    if k == 'I':
        return rng.choice([-3, -1, 0, 0, 1, 1, 2, 3, 4, 5, 7])
    if k == 'S':
        return rng.choice(['', 'a', 'a', 'b', 'ab', 'ba', 'é'])
    if k == 'N':
        return rng.choice([None, None, 0, 1, 2])
    if k == 'T':
        return tuple(rng.choice([0, 1, 2]) for _ in range(rng.choice([0, 1, 2, 2])))
    if k == 'L':
        return [rng.choice([0, 1, 2]) for _ in range(rng.choice([0, 1, 2]))]
    if is_pair(k):
        return (gen_value(rng, k[1]), gen_value(rng, k[2]))
    raise ValueError(k)


def gen_kind(rng, allow_pair=True):
    r = rng.random()
    if r < .4:
        return 'I'
    if r < .5:
        return 'S'
    if r < .58:
        return 'N'
    if r < .66:
        return 'T'
    if r < .72:
        return 'L'
    if not allow_pair:
        return 'I'
    return ('P', rng.choice(['I', 'I', 'S', 'N', 'T']), rng.choice(['I', 'I', 'S', 'N', 'L', 'T']))


# ---- the library ------------------------------------------------------------------------------
def _dbl(x):
    return x * 2


MAP = {
    'id': lambda x: x,
    'add1': lambda x: x + 1,
    'dbl': _dbl,
    'neg': lambda x: -x,
    'mod3': lambda x: x % 3,
    'pairMod': lambda x: (x % 3, x),
    'pairSelf': lambda x: (x, x),
    'swap': lambda x: (x[1], x[0]),
    'fst': lambda x: x[0],
    'snd': lambda x: x[1],
    'wrap': lambda x: (x,),
    'toList': lambda x: [x],
    'const0': lambda x: 0,
    'len': len,
}


def map_out_kind(name, k):
    """kind of f(x) for x of kind k, or None if f does not apply to k"""
    if name == 'id':
        return k
    if name in ('add1', 'neg', 'mod3'):
        return 'I' if k == 'I' else None
    if name == 'dbl':
        return k if k in ('I', 'S', 'T', 'L') else None
    if name == 'pairMod':
        return ('P', 'I', 'I') if k == 'I' else None
    if name == 'pairSelf':
        return ('P', k, k) if not is_pair(k) else None
    if name == 'swap':
        return ('P', k[2], k[1]) if is_pair(k) and not is_pair(k[1]) and not is_pair(k[2]) else None
    if name == 'fst':
        return k[1] if is_pair(k) else None
    if name == 'snd':
        return k[2] if is_pair(k) else None
    if name == 'wrap':
        return 'T' if k == 'I' else None
    if name == 'toList':
        return 'L' if k == 'I' else None
    if name == 'const0':
        return 'I'
    if name == 'len':
        return 'I' if k in ('S', 'T', 'L') else None
    raise KeyError(name)


PRED = {
    'even': lambda x: x % 2 == 0,
    'pos': lambda x: x > 0,
    'notNone': lambda x: x is not None,
    'true': lambda x: True,
    'false': lambda x: False,
    'keyEven': lambda x: x[0] % 2 == 0,
    'nonEmpty': lambda x: len(x) > 0,
}


def pred_applies(name, k):
    if name in ('even', 'pos'):
        return k == 'I'
    if name in ('notNone', 'true', 'false'):
        return True
    if name == 'keyEven':
        return is_pair(k) and k[1] == 'I'
    if name == 'nonEmpty':
        return k in ('S', 'T', 'L')
    raise KeyError(name)


FLAT = {
    'dup': lambda x: [x, x],
    'nil': lambda x: [],
    'one': lambda x: [x],
    'rng': lambda x: list(range(x % 3)),
    'withNone': lambda x: [x, None],
    'explode': list,
}


def flat_out_kind(name, k):
    if name in ('dup', 'nil', 'one'):
        return k
    if name == 'rng':
        return 'I' if k == 'I' else None
    if name == 'withNone':
        return 'N' if k in ('I', 'N') else None
    if name == 'explode':
        return 'I' if k in ('T', 'L') else None
    raise KeyError(name)


_NOTHING = object()


def _nextlen(it):
    first = next(it, _NOTHING)
    return [0] if first is _NOTHING else [1 + sum(1 for _ in it)]


def _sump(it):
    return [sum(it)]


PART = {  # name -> (function on an iterator, homomorphic?, applies(kind), out kind)
    'idp': (list, True),
    'incp': (lambda it: [x + 1 for x in it], True),
    'evensp': (lambda it: (x for x in it if x % 2 == 0), True),
    'dupp': (lambda it: (y for x in it for y in (x, x)), True),
    'rev': (lambda it: reversed(list(it)), False),
    'countp': (lambda it: [sum(1 for _ in it)], False),
    # a partition function receives an ITERATOR (as in Spark): a second pass over it sees nothing, next() works on it
    'twicep': (lambda it: [sum(1 for _ in it), sum(1 for _ in it)], False),
    'nextlen': (_nextlen, False),
    'firstp': (lambda it: list(it)[:1], False),
    'sump': (_sump, False),
}


def part_out_kind(name, k):
    if name in ('idp', 'dupp', 'rev', 'firstp'):
        return k
    if name in ('incp', 'evensp', 'sump'):
        return 'I' if k == 'I' else None
    if name in ('countp', 'twicep', 'nextlen'):
        return 'I'
    raise KeyError(name)


def _append(acc, x):
    acc.append(x)          # mutates its first argument in place
    return acc


def _extend(a, b):
    a.extend(b)            # mutates its first argument in place
    return a


def _max_opt(a, b):
    if a is None:
        return b
    if b is None:
        return a
    return a if b <= a else b


def _tup_append(acc, x):
    acc[0].append(x)       # mutates the list INSIDE the (immutable) tuple
    return acc


def _tup_extend(a, b):
    a[0].extend(b[0])
    return a


def _nest_append(acc, x):
    acc[0].append(x)
    acc[1] += 1
    return acc


def _nest_extend(a, b):
    a[0].extend(b[0])
    a[1] += b[1]
    return a


BIN = {
    'add': lambda a, b: a + b,
    'mul': lambda a, b: a * b,
    'sub': lambda a, b: a - b,
    'max': max,
    'min': min,
    'first': lambda a, b: a,
    'last': lambda a, b: b,
    'pairUp': lambda a, b: (a, b),
    'append': _append,
    'extend': _extend,
    'sumCountSeq': lambda a, x: (a[0] + x, a[1] + 1),
    'sumCountComb': lambda a, b: (a[0] + b[0], a[1] + b[1]),
    'maxOpt': _max_opt,
    'tupAppend': _tup_append,
    'tupExtend': _tup_extend,
    'nestAppend': _nest_append,
    'nestExtend': _nest_extend,
}

AGG = {  # name -> (zero factory, seq, comb, applies(kind))
    'sumCount': (lambda: (0, 0), 'sumCountSeq', 'sumCountComb'),
    'appendExtend': (lambda: [], 'append', 'extend'),
    'addAdd': (lambda: 0, 'add', 'add'),
    'maxOpt': (lambda: None, 'maxOpt', 'maxOpt'),
    'tupMut': (lambda: ([],), 'tupAppend', 'tupExtend'),
    'nestMut': (lambda: [[], 0], 'nestAppend', 'nestExtend'),
}


def agg_applies(name, k):
    if name in ('sumCount', 'addAdd'):
        return k == 'I'
    if name in ('appendExtend', 'tupMut', 'nestMut'):
        return True
    if name == 'maxOpt':
        return k in ('I', 'N', 'S', 'T')
    raise KeyError(name)
