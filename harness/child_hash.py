"""Child interpreter for C07: run with PYTHONHASHSEED set; reads one JSON document
{"cases": [{"pairs": [...], "n": k}, ...]} on stdin, prints the glom() layouts of
partitionBy(n) with the DEFAULT partitioner and portable_hash of every key."""
import json
import logging
import os
import sys

sys.path.insert(0, os.environ.get('VERIF_REPO', '/repo'))
sys.path.insert(0, os.path.dirname(os.path.abspath(__file__)))
logging.disable(logging.CRITICAL)

import funcs as F  # noqa: E402
from pysparkling import Context  # noqa: E402
from pysparkling.utils import portable_hash  # noqa: E402


def dec(j):
    if isinstance(j, dict) and 'f' in j:
        return float(j['f'])
    if isinstance(j, dict) and 'dec' in j:
        import decimal
        return decimal.Decimal(j['dec'])
    if isinstance(j, dict) and 'b' in j:
        return j['b'].encode('latin-1')
    if isinstance(j, dict):
        return tuple(dec(x) for x in j['t'])
    if isinstance(j, list):
        return [dec(x) for x in j]
    return j


def enc(v):
    if isinstance(v, float):
        return {'f': repr(v)}
    if isinstance(v, bytes):
        return {'b': v.decode('latin-1')}
    if type(v).__name__ == 'Decimal':
        return {'dec': str(v)}
    if isinstance(v, tuple):
        return {'t': [enc(x) for x in v]}
    if isinstance(v, list):
        return [enc(x) for x in v]
    return v


doc = json.load(sys.stdin)
out = []
sc = Context()
for c in doc['cases']:
    pairs = [(dec(k), v) for k, v in c['pairs']]
    lay = sc.parallelize(pairs, c.get('slices', 2)).partitionBy(c['n']).glom().collect()
    out.append({'layout': [[[enc(k), v] for k, v in p] for p in lay],
                'hashes': [portable_hash(k) for k, _ in pairs]})
json.dump({'seed': os.environ.get('PYTHONHASHSEED'), 'out': out}, sys.stdout)
