#!/bin/sh
# tools/prep_benign.sh Cxx : scratch worktree + prompt for behaviour-preserving changes (false-alarm evaluation)
P="$1"
git -C /repo worktree remove --force /tmp/ben_$P 2>/dev/null
rm -rf /tmp/ben_${P}_out
git -C /repo worktree add -q --detach /tmp/ben_$P HEAD || exit 1
python3 - "$P" <<'PY'
import json, sys
P = sys.argv[1]
for l in open('/verif/properties.jsonl'):
    p = json.loads(l)
    if p['id'] == P:
        prop = "%s — %s\n\nStatement: %s\n\nQuantified over: %s\n\nAnchored in files: %s\n" % (
            p['id'], p['title'], p['statement'], p['quantifier']['text'], ', '.join(p['anchors']['files']))
t = open('/verif/tools/benign_prompt.txt').read()
open('/tmp/ben_%s.prompt' % P, 'w').write(t.replace('__WT__', '/tmp/ben_%s' % P).replace('__OUT__', '/tmp/ben_%s_out' % P).replace('__PROP__', prop))
PY
echo "/tmp/ben_$P.prompt"
