#!/bin/sh
# tools/try_seeded.sh <dir with patch.diff + demo.py> <Cxx> [--tests]
# Confirms a seeded change in a scratch worktree outside /repo and /verif: demo passes on the clean tree,
# fails with the change, (optionally) the repository's suite still passes, and runs ./check <Cxx> against it.
D="$1"; P="$2"; TESTS="$3"
WT=/tmp/seedwt_$$
git -C /repo worktree add -q --detach "$WT" HEAD || exit 2
trap 'git -C /repo worktree remove --force "$WT" >/dev/null 2>&1' EXIT
cd "$WT" || exit 2
PYTHONPATH="$WT" /venv/bin/python "$D/demo.py" >/dev/null 2>&1; echo "demo-on-clean exit=$?"
git apply "$D/patch.diff" || { echo "PATCH DOES NOT APPLY"; exit 2; }
PYTHONPATH="$WT" /venv/bin/python "$D/demo.py" >/dev/null 2>&1; echo "demo-on-changed exit=$?"
if [ "$TESTS" = "--tests" ]; then
  PYTHONPATH="$WT" /venv/bin/python -m pytest -q -p no:cacheprovider --timeout=900 --continue-on-collection-errors 2>&1 | tail -1
fi
cd /verif
VERIF_REPO="$WT" ./check "$P" > /tmp/seedrun_$$.log 2>&1; rc=$?
echo "check $P exit=$rc"
grep -E "VIOLATION|mismatch|HARNESS" /tmp/seedrun_$$.log | head -4
rm -f /tmp/seedrun_$$.log
