#!/bin/sh
# tools/seed_corpus.sh : for every adopted seeded change, run the property's check against a scratch worktree with the
# change applied and keep the (shrunk) failing case as a corpus entry, so that it runs first in every later check.
cd /verif
for d in seeded/*/; do
  name=$(basename "$d"); P=${name%%-*}
  [ -f "corpus/$P/$name.json" ] && continue
  WT=/tmp/corpwt_$$
  git -C /repo worktree add -q --detach "$WT" HEAD || exit 2
  ( cd "$WT" && git apply "/verif/$d/patch.diff" ) || { echo "$name: patch does not apply"; git -C /repo worktree remove --force "$WT"; continue; }
  VERIF_REPO="$WT" ./check "$P" > /tmp/corp_$$.log 2>&1
  # the first reported replay of this run (runs against a scratch copy write replays/scratch-<pid>-...)
  f=$(grep -m1 -oE 'replay=[^ ]+' /tmp/corp_$$.log | sed 's/^replay=//')
  [ -n "$f" ] && [ ! -f "$f" ] && f=""
  if [ -n "$f" ]; then
    mkdir -p "corpus/$P"
    python3 - "$f" "corpus/$P/$name.json" "$name" <<'PY'
import json, sys
r = json.load(open(sys.argv[1]))
if r.get('case') is not None:
    json.dump({'origin': 'seeded change %s (see seeded/%s)' % (sys.argv[3], sys.argv[3]), 'what': r.get('what'), 'case': r['case']},
              open(sys.argv[2], 'w'), indent=1)
    print(sys.argv[3], 'corpus entry written')
else:
    print(sys.argv[3], 'no concrete case in replay')
PY
  else
    echo "$name: no replay produced (exit $(grep -c VIOLATION /tmp/corp_$$.log) violations)"
  fi
  git -C /repo worktree remove --force "$WT"
done
rm -f /tmp/corp_$$.log
