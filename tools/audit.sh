#!/bin/sh
# tools/audit.sh [workdir] : check the Lean side as a stranger would, in a scratch copy (default /var/tmp/verif-audit):
# clean build of everything, forbidden-construct scan, `#print axioms` of every obligation, leanchecker on every
# property / equivalence module. Prints a summary; exit 0 only if everything is clean.
set -e
W=${1:-/var/tmp/verif-audit}
rm -rf "$W"; mkdir -p "$W"
cd "$(dirname "$0")/.."
/venv/bin/python harness/extract.py >/dev/null
rsync -a --exclude .lake lean/ "$W/lean/"
cd "$W/lean"
echo "== clean build"; /usr/bin/time -f "build: %es, %MKB" lake build PysparklingVerif driver \
  $(ls PysparklingVerif/Extracted/Equiv*.lean | sed 's/\.lean$//; s#/#.#g') PysparklingVerif.Properties.NonVacuity 2>&1 | tail -3
echo "== every obligation accounted for in Properties/NonVacuity.lean"
python3 "$OLDPWD/tools/nonvacuity_check.py" || exit 1
echo "== forbidden constructs (outside comments)"
if grep -rnE 'sorry|admit|^axiom |native_decide|bv_decide|implemented_by|unsafe |maxHeartbeats 0' --include=*.lean PysparklingVerif Driver \
   | grep -vE '^\S+:[0-9]+:\s*(--|/-)' | grep -vE -- '-- .*(sorry|admit|axiom)' ; then echo "FOUND"; exit 1; else echo "none"; fi
echo "== axioms of every obligation"
( echo "import PysparklingVerif"; for m in $(ls PysparklingVerif/Extracted/Equiv*.lean | sed 's/\.lean$//; s#/#.#g'); do echo "import $m"; done
  grep -rhoE -- '-- OBLIGATION: \S+' PysparklingVerif | sed 's/-- OBLIGATION: /#print axioms /' ) > Audit.lean
lake env lean Audit.lean > audit.out 2>&1 || { tail -5 audit.out; exit 1; }
python3 - <<'PY'
import re
t=open('audit.out').read().replace('\n  ',' ')
ok=bad=0
for line in t.splitlines():
    m=re.match(r"'([^']+)' depends on axioms: \[(.*)\]", line)
    if m:
        ax={a.strip() for a in m.group(2).split(',')}
        if ax <= {'propext','Classical.choice','Quot.sound'}: ok+=1
        else: bad+=1; print('NON-STANDARD AXIOMS', m.group(1), ax)
    elif 'does not depend on any axioms' in line: ok+=1
    elif line.strip(): print('??', line[:200]); bad+=1
print('obligations with standard axioms only: %d, others: %d' % (ok, bad))
raise SystemExit(1 if bad else 0)
PY
echo "== leanchecker"
mods=$(ls PysparklingVerif/Properties/*.lean PysparklingVerif/Extracted/Equiv*.lean | sed 's/\.lean$//; s#/#.#g')
/usr/bin/time -f "leanchecker: %es, %MKB" lake env leanchecker $mods && echo "leanchecker ok"
