#!/bin/sh
# tools/prep_mut2.sh Cxx : seventh-round scratch worktree + prompt (same prompt; separate paths)
P="$1"
git -C /repo worktree remove --force /tmp/mut7_$P 2>/dev/null
rm -rf /tmp/mut7_${P}_out
git -C /repo worktree add -q --detach /tmp/mut7_$P HEAD || exit 1
python3 - "$P" <<'PY'
import json, sys
P = sys.argv[1]
for l in open('/verif/properties.jsonl'):
    p = json.loads(l)
    if p['id'] == P:
        prop = "%s — %s\n\nStatement: %s\n\nQuantified over: %s\n\nAnchored in files: %s\n" % (
            p['id'], p['title'], p['statement'], p['quantifier']['text'], ', '.join(p['anchors']['files']))
t = open('/verif/tools/mut_prompt.txt').read()
open('/tmp/mut7_%s.prompt' % P, 'w').write(t.replace('__WT__', '/tmp/mut7_%s' % P).replace('__OUT__', '/tmp/mut7_%s_out' % P).replace('__PROP__', prop))
PY
echo "/tmp/mut7_$P.prompt"
