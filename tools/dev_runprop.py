# quick dev runner: campaign only (no lean build), prints mismatches
import sys, os, logging, json, time
sys.path.insert(0,'/verif/harness'); sys.path.insert(0, os.environ.get('VERIF_REPO','/repo'))
logging.disable(logging.CRITICAL)
import importlib, core
mod = importlib.import_module('props.'+sys.argv[1].lower()); prop = mod.PROP
N = int(sys.argv[2]) if len(sys.argv)>2 else 300
tier = sys.argv[3] if len(sys.argv)>3 else 'quick'
ctx = core.Ctx(prop, tier, 0); ctx.driver = core.Driver()
import tempfile; ctx.scratch = tempfile.mkdtemp(dir='/var/tmp')
ctx.known_sigs={f['signature']:f for f in core.load_known()['findings'] if f['property']==prop.id}
prop.setup(ctx)
bad=0; t=time.time(); n=0
cases = list(prop.fixed_cases(tier)) if '--nofixed' not in sys.argv else []
for i in range(N): cases.append(None)
for i,c in enumerate(cases):
    if c is None: c = prop.gen(core.case_rng(int(os.environ.get('VERIF_SEED','0')), prop.id, i), tier)
    n+=1
    mm = core.guarded_run(prop, c, ctx)
    if mm and not ctx.is_known(mm.signature):
        bad+=1
        print('MISMATCH', mm.what, mm.signature); print(' case', core.canon(c)[:1200]); print(' impl ', core.canon(mm.impl)[:600]); print(' model', core.canon(mm.model)[:600])
        if bad>=int(os.environ.get('MAXBAD','5')): break
prop.teardown(ctx)
print('cases',n,'bad',bad,'time %.1f'%(time.time()-t), 'known', ctx.known_hit)
print(json.dumps(dict(sorted(ctx.hist.items())))[:1500])
import shutil; shutil.rmtree(ctx.scratch, ignore_errors=True)
