#!/bin/sh
# tools/try_benign.sh <dir with patch.diff> [Cxx ...] : apply a behaviour-preserving change in a scratch worktree and run the
# given checks against it (default: every check whose property is anchored in a file the patch touches); every check
# must exit 0 (anything else is a false alarm to be explained).
D="$1"; shift
PROPS="$*"
if [ -z "$PROPS" ]; then
  PROPS=$(python3 - "$D/patch.diff" <<'PY'
import json, re, sys
files = set(re.findall(r'^\+\+\+ b/(\S+)', open(sys.argv[1]).read(), re.M))
out = []
for l in open('/verif/properties.jsonl'):
    p = json.loads(l)
    if files & set(p['anchors']['files']):
        out.append(p['id'])
print(' '.join(out))
PY
)
fi
WT=/tmp/benwt_$$
git -C /repo worktree add -q --detach "$WT" HEAD || exit 2
trap 'git -C /repo worktree remove --force "$WT" >/dev/null 2>&1' EXIT
cd "$WT" && git apply "$D/patch.diff" || { echo "PATCH DOES NOT APPLY"; exit 2; }
cd /verif
echo "checks: $PROPS"
for P in $PROPS; do
  VERIF_REPO="$WT" ./check "$P" > /tmp/benrun_$$.log 2>&1; rc=$?
  echo "$P exit=$rc $(grep -E 'extraction=' /tmp/benrun_$$.log | sed 's/.*tier=\([a-z]*\).*extraction=\([a-z]*\).*/tier=\1 extraction=\2/' | head -1)"
  [ $rc -ne 0 ] && grep -E "VIOLATION|mismatch|HARNESS|Error" /tmp/benrun_$$.log | head -4 | cut -c1-250
done
rm -f /tmp/benrun_$$.log
