#!/bin/sh
# tools/try_benign.sh <dir with patch.diff> [Cxx ...] : apply a behaviour-preserving change in a scratch worktree and run the
# given checks (default: all 20) against it; every check must exit 0 (anything else is a false alarm to be explained).
D="$1"; shift
PROPS="$*"; [ -z "$PROPS" ] && PROPS="C01 C02 C03 C04 C05 C06 C07 C08 C09 C10 C11 C12 C13 C14 C15 C16 C17 C18 C19 C20"
WT=/tmp/benwt_$$
git -C /repo worktree add -q --detach "$WT" HEAD || exit 2
trap 'git -C /repo worktree remove --force "$WT" >/dev/null 2>&1' EXIT
cd "$WT" && git apply "$D/patch.diff" || { echo "PATCH DOES NOT APPLY"; exit 2; }
cd /verif
for P in $PROPS; do
  VERIF_REPO="$WT" ./check "$P" > /tmp/benrun_$$.log 2>&1; rc=$?
  echo "$P exit=$rc $(grep -E 'extraction=' /tmp/benrun_$$.log | sed 's/.*extraction=/extraction=/' | head -1)"
  [ $rc -ne 0 ] && grep -E "VIOLATION|mismatch|HARNESS|Error" /tmp/benrun_$$.log | head -4 | cut -c1-250
done
rm -f /tmp/benrun_$$.log
