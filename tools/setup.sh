#!/bin/sh
# MANIFEST.setup_cmd: regenerate the extracted kernels from /repo, build the Lean library and the native model driver
# (these must succeed), then - best effort - the equivalence modules of the extraction tie and the non-vacuity examples.
# A source fragment that no longer translates, or an equivalence proof that no longer checks, is NOT a set-up failure:
# the check of that property detects it, reports the tie as lost and searches for a failing input (offline; no fetches).
cd "$(dirname "$0")/.."
/venv/bin/python harness/extract.py || echo "setup: some kernels are not translatable from the current source (the checks report it)"
cd lean
lake build PysparklingVerif driver || exit 1
EQUIV=$(ls PysparklingVerif/Extracted/Equiv*.lean | sed 's/\.lean$//; s#/#.#g')
lake build $EQUIV PysparklingVerif.Properties.NonVacuity \
  || echo "setup: an equivalence module or the non-vacuity file does not build against the current source (the checks report it)"
exit 0
