#!/bin/sh
# MANIFEST.setup_cmd: regenerate the extracted kernels from /repo, build the Lean library, the
# equivalence modules of the extraction tie and the native model driver (offline; no fetches).
set -e
cd "$(dirname "$0")/.."
/venv/bin/python harness/extract.py
cd lean
lake build PysparklingVerif driver \
  PysparklingVerif.Extracted.EquivC04 PysparklingVerif.Extracted.EquivC05 PysparklingVerif.Extracted.EquivC10 PysparklingVerif.Extracted.EquivC11 \
  PysparklingVerif.Extracted.EquivC07 PysparklingVerif.Extracted.EquivC14 \
  PysparklingVerif.Extracted.EquivC16 PysparklingVerif.Extracted.EquivC17 PysparklingVerif.Extracted.EquivC18
