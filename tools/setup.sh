#!/bin/sh
# MANIFEST.setup_cmd: build the Lean project (models, lemmas, property theorems) and the native
# model driver from files on disk only; offline.
set -e
cd "$(dirname "$0")/.."
cd lean
lake build PysparklingVerif driver
cd ..
/venv/bin/python -m compileall -q harness >/dev/null 2>&1 || true
echo setup-ok
