#!/bin/sh
# tools/round2.sh Cxx : rename the second-round changes m1..m3 -> m4..m6 and try each against the check
P="$1"; O=/tmp/mut7_${P}_out
for k in 1 2 3; do [ -d $O/m$k ] && mv $O/m$k $O/m$((k+18)); done
for m in m19 m20 m21; do
  [ -f $O/$m/patch.diff ] || continue
  echo "== $P $m: $(grep -v '^\s*$' $O/$m/notes.txt | head -1 | cut -c1-160)"
  sh /verif/tools/try_seeded.sh $O/$m $P 2>&1 | tail -3 | cut -c1-220
done
