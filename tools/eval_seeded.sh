#!/bin/sh
# tools/eval_seeded.sh [seed] : how strong are the campaigns WITHOUT the corpus? Runs every adopted seeded change's check
# (VERIF_NO_CORPUS=1, the given VERIF_SEED, quick tier) against a scratch worktree with the change applied and prints
# one line per change: caught / MISSED. (The checks it was recorded as caught by, from meta.json.)
SEED=${1:-7}
cd /verif
for d in seeded/*/; do
  name=$(basename "$d")
  props=$(python3 -c "import json,sys; m=json.load(open('$d/meta.json')); print(' '.join(p for p,r in m.get('checks',{}).items() if r.get('exit')==1))")
  WT=/tmp/evalwt_$$
  git -C /repo worktree add -q --detach "$WT" HEAD || exit 2
  if ( cd "$WT" && git apply "/verif/$d/patch.diff" 2>/dev/null ); then
    res=""
    for P in $props; do
      VERIF_NO_CORPUS=1 VERIF_SEED=$SEED VERIF_REPO="$WT" ./check "$P" > /tmp/eval_$$.log 2>&1; rc=$?
      if [ $rc -eq 1 ]; then res="$res $P:caught"; else res="$res $P:MISSED(rc=$rc)"; fi
    done
    echo "$name$res"
  else
    echo "$name PATCH-DOES-NOT-APPLY"
  fi
  git -C /repo worktree remove --force "$WT"
done
rm -f /tmp/eval_$$.log
