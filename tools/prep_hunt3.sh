#!/bin/sh
# tools/prep_hunt2.sh Cxx : second hunt on the (repaired) tree; /verif/tools/hunt_known.json lists, per property, what an
# earlier hunt already reported and how it was judged, so that the sub-agent looks elsewhere
P="$1"
git -C /repo worktree remove --force /tmp/hunt3_$P 2>/dev/null
rm -rf /tmp/hunt3_${P}_out; mkdir -p /tmp/hunt3_${P}_out
git -C /repo worktree add -q --detach /tmp/hunt3_$P HEAD || exit 1
python3 - "$P" <<'PY'
import json, sys
P = sys.argv[1]
for l in open('/verif/properties.jsonl'):
    p = json.loads(l)
    if p['id'] == P:
        prop = "%s — %s\n\nStatement: %s\n\nQuantified over: %s\n\nAnchored in files: %s\n" % (
            p['id'], p['title'], p['statement'], p['quantifier']['text'], ', '.join(p['anchors']['files']))
known = json.load(open('/verif/tools/hunt_known.json')).get(P, '')
t = open('/verif/tools/hunt_prompt.txt').read()
t = t.replace('__WT__', '/tmp/hunt3_%s' % P).replace('__OUT__', '/tmp/hunt3_%s_out' % P).replace('__PROP__', prop)
if known:
    t = t.replace('How to work:', 'An earlier search already reported the following; these are either repaired in your checkout or were judged to be '
                  'outside the property - do NOT report them again, look elsewhere (other clauses, other argument forms, other histories):\n' + known + '\n\nHow to work:', 1)
open('/tmp/hunt3_%s.prompt' % P, 'w').write(t)
PY
echo "/tmp/hunt3_$P.prompt"
