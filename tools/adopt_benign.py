#!/usr/bin/env python3
"""tools/adopt_benign.py <log of tools/try_benign.sh runs> <Cxx> : keep the behaviour-preserving changes of /tmp/ben_<Cxx>_out
under /verif/benign/<Cxx>-b<k>/ (patch.diff, equiv.py, notes.txt, meta.json with the outcome of every check run against it)."""
import json
import os
import re
import shutil
import sys

log, prop = sys.argv[1], sys.argv[2]
VERIF = os.path.dirname(os.path.dirname(os.path.abspath(__file__)))
cur, res = None, {}
for line in open(log):
    m = re.match(r'=== (C\d\d) (b\d)', line)
    if m:
        cur = m.group(2)
        res[cur] = {}
        continue
    m = re.match(r'(C\d\d) exit=(\d+)(?: tier=(\w*))?(?: extraction=(\w*))?', line)
    if m and cur:
        res[cur][m.group(1)] = {'exit': int(m.group(2)), 'extraction': m.group(4) or None}
for b, checks in sorted(res.items()):
    src = '/tmp/ben_%s_out/%s' % (prop, b)
    if not os.path.exists(os.path.join(src, 'patch.diff')) or not checks:
        continue
    dst = os.path.join(VERIF, 'benign', '%s-%s' % (prop, b))
    os.makedirs(dst, exist_ok=True)
    for f in ('patch.diff', 'equiv.py', 'notes.txt'):
        if os.path.exists(os.path.join(src, f)):
            shutil.copy(os.path.join(src, f), os.path.join(dst, f))
    head = os.popen('git -C /repo rev-parse --short HEAD').read().strip()
    meta = {'property': prop, 'repo_head': head, 'checks': checks,
            'false_alarms': sorted(c for c, r in checks.items() if r['exit'] != 0),
            'extraction_lost': sorted(c for c, r in checks.items() if r['extraction'] == 'lost')}
    json.dump(meta, open(os.path.join(dst, 'meta.json'), 'w'), indent=1)
    print(prop, b, 'checks', len(checks), 'false alarms', meta['false_alarms'], 'extraction lost', meta['extraction_lost'])
