#!/usr/bin/env python3
"""Fill the generated regions of DESIGN.md (between <!-- BEGIN:x --> / <!-- END:x -->) from the repository's
own data: obligation markers, tools/manifest_table.json, seeded/*/meta.json + notes.txt, known_findings.json."""
import glob
import json
import os
import re

V = os.path.dirname(os.path.dirname(os.path.abspath(__file__)))


def obligations(path):
    out = []
    if os.path.exists(path):
        for line in open(path, encoding='utf-8'):
            m = re.match(r'\s*--\s*OBLIGATION:\s*(\S+)', line)
            if m:
                out.append(m.group(1).rsplit('.', 1)[-1])
    return out


def titles():
    t = {}
    for line in open(os.path.join(V, 'properties.jsonl')):
        p = json.loads(line)
        t[p['id']] = p['title']
    return t


def per_property():
    table = json.load(open(os.path.join(V, 'tools', 'manifest_table.json')))['checks']
    tt = titles()
    out = []
    for pid in sorted(tt):
        c = table.get(pid)
        out.append('### %s — %s\n' % (pid, tt[pid]))
        if not c:
            out.append('not claimed in this revision.\n')
            continue
        obl = obligations(os.path.join(V, 'lean', 'PysparklingVerif', 'Properties', pid + '.lean'))
        ext = obligations(os.path.join(V, 'lean', 'PysparklingVerif', 'Extracted', 'Equiv%s.lean' % pid))
        out.append('**Theorems (%d obligations%s):** %s.\n' % (
            len(obl), (' + %d on the regenerated kernels' % len(ext)) if ext else '', ', '.join('`%s`' % o for o in obl)))
        if ext:
            out.append('**On the regenerated source text:** %s.\n' % ', '.join('`%s`' % o for o in ext))
        out.append('**What they say and how the model is tied to the code.** %s\n' % c['text'])
        out.append('**Trusted / partial.** %s\n' % c['note'])
        out.append('**Technique.** %s\n' % c['technique'])
    return '\n'.join(out)


def seeded():
    rows = ['| Change | What was changed (first line of the sub-agent\'s notes) | Suite with the change | Caught by |', '|---|---|---|---|']
    for d in sorted(glob.glob(os.path.join(V, 'seeded', '*', 'meta.json'))):
        m = json.load(open(d))
        name = os.path.basename(os.path.dirname(d))
        notes = os.path.join(os.path.dirname(d), 'notes.txt')
        first = ''
        if os.path.exists(notes):
            for line in open(notes, encoding='utf-8'):
                if line.strip():
                    first = line.strip()
                    break
        first = re.sub(r'^(Change|CHANGE|Site|Mutation)\s*[:\-]\s*', '', first).replace('|', '\\|')
        if len(first) > 230:
            first = first[:227] + '…'
        caught = []
        for cid, r in sorted(m.get('checks', {}).items()):
            if r.get('exit') == 1:
                caught.append('%s: %s' % (cid, (r.get('first_mismatch') or '').replace('mismatch: ', '').replace('|', '\\|')[:110]))
            else:
                caught.append('%s: not caught (exit %s)' % (cid, r.get('exit')))
        suite = re.sub(r' in [\d.]+s$', '', m.get('suite', ''))
        rows.append('| %s | %s | %s | %s |' % (name, first, suite, '; '.join(caught)))
    return '\n'.join(rows)


def benign():
    rows = ['| Change | What was rewritten (first line of the sub-agent\'s notes) | Checks run against it | Outcome |', '|---|---|---|---|']
    for d in sorted(glob.glob(os.path.join(V, 'benign', '*', 'meta.json'))):
        m = json.load(open(d))
        name = os.path.basename(os.path.dirname(d))
        notes = os.path.join(os.path.dirname(d), 'notes.txt')
        first = ''
        if os.path.exists(notes):
            for line in open(notes, encoding='utf-8'):
                if line.strip():
                    first = line.strip()
                    break
        first = re.sub(r'^(Change|CHANGE|Site)\s*[:\-]\s*', '', first).replace('|', '\\|')
        if len(first) > 230:
            first = first[:227] + '…'
        fa = m.get('false_alarms') or []
        lost = m.get('extraction_lost') or []
        outcome = 'all exit 0' if not fa else 'FALSE ALARM: ' + ', '.join(fa)
        if m.get('first_run_false_alarm'):
            outcome += ' (re-run; in the first, heavily parallel evaluation %s reported it: the wall-clock case guard, §11)' % m['first_run_false_alarm']['check']
        if lost:
            outcome += '; extraction tie lost (reported in the evidence, not an alarm): ' + ', '.join(lost)
        rows.append('| %s | %s | %s | %s |' % (name, first, ' '.join(sorted(m.get('checks', {}))), outcome))
    return '\n'.join(rows)


def fixed_and_known():
    k = json.load(open(os.path.join(V, 'known_findings.json')))
    rows = ['| Property | Commit | What failed |', '|---|---|---|']
    for f in k.get('fixed', []):
        text = re.sub(r'^fixed: property=\S+ \S+ ', '', f['text']).replace('|', '\\|')
        rows.append('| %s | `%s` | %s |' % (f['property'], f['commit'], text))
    known = ['| Property | Signature | What fails, and why it is not repaired | Example |', '|---|---|---|---|']
    for f in k.get('findings', []):
        known.append('| %s | `%s` | %s | %s |' % (f['property'], f['signature'], f.get('description', '').replace('|', '\\|'),
                                                  str(f.get('example', '')).replace('|', '\\|')[:200]))
    return '\n'.join(rows), '\n'.join(known)


def main():
    path = os.path.join(V, 'DESIGN.md')
    s = open(path, encoding='utf-8').read()
    fx, kn = fixed_and_known()
    for key, body in (('PER_PROPERTY', per_property()), ('SEEDED', seeded()), ('BENIGN', benign()), ('FIXED', fx), ('KNOWN', kn)):
        s, n = re.subn(r'(<!-- BEGIN:%s -->\n).*?(<!-- END:%s -->)' % (key, key), lambda m: m.group(1) + body + '\n' + m.group(2), s, flags=re.S)
        if n != 1:
            raise SystemExit('marker %s not found' % key)
    open(path, 'w', encoding='utf-8').write(s)
    print('DESIGN.md regenerated: %d lines' % s.count('\n'))


if __name__ == '__main__':
    main()
