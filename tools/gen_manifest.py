#!/usr/bin/env python3
"""Regenerate /verif/MANIFEST.json from tools/manifest_table.json (one entry per built check)."""
import json
import os

HERE = os.path.dirname(os.path.abspath(__file__))
VERIF = os.path.dirname(HERE)
table = json.load(open(os.path.join(HERE, 'manifest_table.json')))
props = [json.loads(l) for l in open(os.path.join(VERIF, 'properties.jsonl'))]

checks, na = [], []
for p in props:
    pid = p['id']
    t = table['checks'].get(pid)
    if not t:
        na.append({'property_id': pid, 'reason': table['not_applicable'].get(pid, 'check not built yet in this revision')})
        continue
    checks.append({
        'property_id': pid,
        'quick_cmd': './check %s --tier quick' % pid,
        'thorough_cmd': './check %s --tier thorough' % pid,
        'evidence_file': 'evidence/%s.json' % pid,
        'replay_cmd_template': './check %s --replay {path}' % pid,
        'engine': 'lean-proof+correspondence',
        'level_claimed': {'category': 'proof', 'text': t['text'], 'design_ref': 'DESIGN.md section 6, ' + pid},
        'level_note': t['note'],
        'technique': t['technique'],
    })

manifest = {
    'version': 1,
    'setup_cmd': 'sh tools/setup.sh',
    'hooks': {
        'guard': 'PYSPARKLING_VERIF',
        'enable': 'no source hooks: the harness imports /repo in-process and observes through the public API, '
                  'instrumented user functions and monkey-patching from the harness process; checks set PYSPARKLING_VERIF=1 for symmetry only',
        'baseline_off_cmd': 'cd /repo && env -u PYSPARKLING_VERIF /venv/bin/python -m pytest -ra -q -p no:cacheprovider --timeout=900 --continue-on-collection-errors',
        'source_commits': [],
        'add_only': True,
    },
    'engines': table['engines'],
    'checks': checks,
    'notes': table['notes'],
    'not_applicable': na,
}
with open(os.path.join(VERIF, 'MANIFEST.json'), 'w') as f:
    json.dump(manifest, f, indent=1)
    f.write('\n')
print('checks:', [c['property_id'] for c in checks], 'not claimed:', [n['property_id'] for n in na])
