#!/usr/bin/env python3
"""Compare theorem statements (text between `theorem NAME` and the first top-level `:=`) of two Lean files."""
import re, sys
def stmts(path):
    src = open(path, encoding='utf-8').read()
    out = {}
    for m in re.finditer(r'^theorem\s+(\S+)(.*?):=', src, re.S | re.M):
        out[m.group(1)] = ' '.join(m.group(2).split())
    return out
a, b = stmts(sys.argv[1]), stmts(sys.argv[2])
bad = 0
for k in a:
    if k not in b:
        print('MISSING', k); bad += 1
    elif a[k] != b[k]:
        print('CHANGED', k, '\n  was:', a[k], '\n  now:', b[k]); bad += 1
print('compared', len(a), 'statements;', bad, 'differences;', len(set(b) - set(a)), 'new')
sys.exit(1 if bad else 0)
