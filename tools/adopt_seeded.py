#!/usr/bin/env python3
"""tools/adopt_seeded.py <agent out dir> <Cxx> [more props to run...]
For every m*/ in the out dir: confirm (demo passes clean / fails changed / suite unchanged), run the checks,
and store it as /verif/seeded/<Cxx>-<name>/ with meta.json."""
import json, os, re, shutil, subprocess, sys, tempfile
out, prop = sys.argv[1], sys.argv[2]
props = [prop] + sys.argv[3:]
VERIF = '/verif'
for m in sorted(os.listdir(out)):
    d = os.path.join(out, m)
    if not os.path.exists(os.path.join(d, 'patch.diff')):
        continue
    dest = os.path.join(VERIF, 'seeded', '%s-%s' % (prop, m))
    os.makedirs(dest, exist_ok=True)
    for f in ('patch.diff', 'demo.py', 'notes.txt'):
        if os.path.exists(os.path.join(d, f)):
            shutil.copy(os.path.join(d, f), dest)
    wt = tempfile.mkdtemp(prefix='seedwt_', dir='/tmp'); os.rmdir(wt)
    subprocess.run(['git', '-C', '/repo', 'worktree', 'add', '-q', '--detach', wt, 'HEAD'], check=True)
    meta = {'property': prop, 'name': m, 'ran': []}
    try:
        env = dict(os.environ, PYTHONPATH=wt)
        def run(cmd, **kw):
            p = subprocess.run(cmd, cwd=kw.get('cwd', wt), env=kw.get('env', env), stdout=subprocess.PIPE, stderr=subprocess.STDOUT, text=True)
            return p.returncode, p.stdout
        rc0, _ = run(['/venv/bin/python', os.path.join(dest, 'demo.py')])
        ap = subprocess.run(['git', 'apply', os.path.join(dest, 'patch.diff')], cwd=wt)
        rc1, _ = run(['/venv/bin/python', os.path.join(dest, 'demo.py')])
        rct, tout = run(['/venv/bin/python', '-m', 'pytest', '-q', '-p', 'no:cacheprovider', '--timeout=900', '--continue-on-collection-errors'])
        tail = [l for l in tout.splitlines() if re.search(r'\d+ passed', l)]
        meta.update({'demo_exit_clean': rc0, 'patch_applies': ap.returncode == 0, 'demo_exit_changed': rc1,
                     'suite': tail[-1].strip() if tail else tout[-200:]})
        meta['ran'] += ['demo.py on clean worktree', 'git apply patch.diff', 'demo.py on changed worktree', 'full pytest suite on changed worktree']
        caught = {}
        for pr in props:
            env2 = dict(os.environ, VERIF_REPO=wt)
            rc, o = run(['./check', pr], cwd=VERIF, env=env2)
            viol = [l for l in o.splitlines() if l.startswith('VIOLATION')]
            mm = [l.strip() for l in o.splitlines() if 'mismatch:' in l]
            caught[pr] = {'exit': rc, 'violation_lines': len(viol), 'first_mismatch': mm[0] if mm else None}
            meta['ran'].append('VERIF_REPO=<changed worktree> ./check %s' % pr)
        meta['checks'] = caught
        notes = open(os.path.join(dest, 'notes.txt')).read() if os.path.exists(os.path.join(dest, 'notes.txt')) else ''
        meta['needs_to_manifest'] = notes.strip()[:1500]
    finally:
        subprocess.run(['git', '-C', '/repo', 'worktree', 'remove', '--force', wt])
    json.dump(meta, open(os.path.join(dest, 'meta.json'), 'w'), indent=1)
    print(prop, m, 'clean=%s changed=%s suite=%s' % (meta.get('demo_exit_clean'), meta.get('demo_exit_changed'), meta.get('suite')),
          {k: v['exit'] for k, v in meta.get('checks', {}).items()})
