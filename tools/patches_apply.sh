#!/bin/sh
# tools/patches_apply.sh : after a change to /repo, report every kept seeded / harmless change whose patch does not apply any more
cd /repo
for d in /verif/seeded/*/ /verif/benign/*/; do
  [ -f "$d/patch.diff" ] || continue
  git apply --check "$d/patch.diff" 2>/dev/null || echo "DOES NOT APPLY: $d"
done
