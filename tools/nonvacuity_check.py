#!/usr/bin/env python3
"""Every `-- OBLIGATION:` of the property and equivalence files must be accounted for exactly once in
Properties/NonVacuity.lean: `-- NONVACUOUS:` (an example instantiates all its hypotheses with concrete non-degenerate
arguments), `-- NO-HYPOTHESES:` or `-- VACUOUS?:` (a finding). Exit 1 on a gap or on a flagged theorem."""
import collections
import glob
import os
import re
import sys

LEAN = os.path.join(os.path.dirname(os.path.dirname(os.path.abspath(__file__))), 'lean', 'PysparklingVerif')
obl = []
for f in sorted(glob.glob(os.path.join(LEAN, 'Properties', 'C*.lean')) + glob.glob(os.path.join(LEAN, 'Extracted', 'Equiv*.lean'))):
    obl += re.findall(r'^-- OBLIGATION: (\S+)', open(f).read(), re.M)
text = open(os.path.join(LEAN, 'Properties', 'NonVacuity.lean')).read()


def strip_block_comments(t):
    """remove (nested) block comments: an example inside one is not checked by Lean and must not count as a witness.
    (Three sections once sat inside the header comment of the audit file - found 2026-10-01 and moved out.)"""
    out, depth, i = [], 0, 0
    while i < len(t):
        if t.startswith('/-', i):
            depth += 1
            i += 2
        elif t.startswith('-/', i) and depth:
            depth -= 1
            i += 2
        else:
            if depth == 0:
                out.append(t[i])
            i += 1
    return ''.join(out)


text = strip_block_comments(text)
tags = collections.Counter()
seen = collections.Counter()
for kind, name in re.findall(r'^-- (NONVACUOUS|NO-HYPOTHESES|VACUOUS\?): (\S+)', text, re.M):
    tags[kind] += 1
    seen[name] += 1
missing = [o for o in obl if o not in seen]
twice = [n for n, c in seen.items() if c > 1]
extra = [n for n in seen if n not in obl]
print('obligations: %d; tagged: %s' % (len(obl), dict(tags)))
for label, xs in (('missing', missing), ('tagged more than once', twice), ('tagged but not an obligation', extra)):
    if xs:
        print(label + ':', xs)
sys.exit(1 if (missing or twice or extra or tags.get('VACUOUS?')) else 0)
