#!/bin/sh
# tools/prep_hunt.sh Cxx : scratch worktree + prompt for a sub-agent that hunts for violations of the property on the unchanged tree
P="$1"
git -C /repo worktree remove --force /tmp/hunt_$P 2>/dev/null
rm -rf /tmp/hunt_${P}_out; mkdir -p /tmp/hunt_${P}_out
git -C /repo worktree add -q --detach /tmp/hunt_$P HEAD || exit 1
python3 - "$P" <<'PY'
import json, sys
P = sys.argv[1]
for l in open('/verif/properties.jsonl'):
    p = json.loads(l)
    if p['id'] == P:
        prop = "%s — %s\n\nStatement: %s\n\nQuantified over: %s\n\nAnchored in files: %s\n" % (
            p['id'], p['title'], p['statement'], p['quantifier']['text'], ', '.join(p['anchors']['files']))
t = open('/verif/tools/hunt_prompt.txt').read()
open('/tmp/hunt_%s.prompt' % P, 'w').write(t.replace('__WT__', '/tmp/hunt_%s' % P).replace('__OUT__', '/tmp/hunt_%s_out' % P).replace('__PROP__', prop))
PY
echo "/tmp/hunt_$P.prompt"
