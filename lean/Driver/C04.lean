import Driver.Util
import PysparklingVerif.Model.Retry
open Lean PysparklingVerif.Retry

namespace Driver.C04

/-- partition plan: {"fails": k, "v": value} fails its first k attempts, attempt i (0-based) of
partition p raising code p*100+i+1; {"nested": true} is a task that tries to start a job on the
(locked) context on every attempt -/
def planOf (p : Nat) (j : Json) : Except String (Nat → Outcome Int) := do
  match j.getObjValAs? Bool "nested" with
  | .ok true => return fun _ => nestedAttempt ⟨true⟩ (.ok 0)
  | _ =>
    let k ← getNat j "fails"
    let v ← getInt j "v"
    return fun i => if i < k then .fail (p * 100 + i + 1) else .ok v

def resJson : JobResult Int → Json
  | .done vs => Json.mkObj [("done", toJson vs)]
  | .raised e => Json.mkObj [("raised", toJson e)]
  | .refused => Json.str "refused"

def handle (j : Json) : Json := run do
  let maxR ← getNat j "max"
  if maxR = 0 then throw "max_retries = 0 is outside the model (unbounded retry)"
  let jobs ← getArr j "jobs"
  let mut c : Ctx := ⟨false⟩
  let mut outs : Array Json := #[]
  for job in jobs do
    let items ← getArr job "plan"
    let plan ← (items.zipIdx).mapM fun (it, p) => planOf p it
    let lazy := (job.getObjValAs? Bool "lazy").toOption.getD false
    if lazy then
      -- take/first/isEmpty: evaluated outside `_run_task`: the first attempt's error surfaces directly
      let consume := (job.getObjValAs? Nat "consume").toOption.getD items.length
      let firstBad := ((items.zipIdx).take consume).find? fun (it, _) =>
        ((it.getObjValAs? Nat "fails").toOption.getD 0) > 0 || ((it.getObjValAs? Bool "nested").toOption.getD false)
      match firstBad with
      | some (it, p) =>
        let nested := (it.getObjValAs? Bool "nested").toOption.getD false
        outs := outs.push (Json.mkObj [("result", resJson (.raised (if nested then ctxLocked else p * 100 + 1))),
          ("attempts", toJson ((List.replicate (p + 1) 1))), ("locked", false)])
      | none =>
        let r := runJob c maxR (plan.take consume)
        outs := outs.push (Json.mkObj [("result", resJson r.result), ("attempts", toJson r.attempts), ("locked", r.ctx.locked)])
    else
      let r := runJob c maxR plan
      c := r.ctx
      outs := outs.push (Json.mkObj [("result", resJson r.result), ("attempts", toJson r.attempts), ("locked", r.ctx.locked)])
  return Json.mkObj [("model", Json.arr outs)]

end Driver.C04
