import Driver.Util
import PysparklingVerif.Model.Sql
open Lean PysparklingVerif.Sql

namespace Driver.C12

def svOf (j : Json) : Except String SV :=
  match j with
  | .null => .ok .null
  | .bool b => .ok (.bool b)
  | _ =>
    match j.getObjVal? "i", j.getObjVal? "d", j.getObjVal? "s" with
    | .ok v, _, _ => do let i ← (fromJson? v : Except String Int); return .int i
    | _, .ok v, _ => do
        let a ← (fromJson? v : Except String (Array Json))
        match a.toList with
        | [n, d] => do
            let n ← (fromJson? n : Except String Int); let d ← (fromJson? d : Except String Nat)
            if d = 0 then throw "den" else return .dbl (mkRat n d)
        | _ => throw "dbl"
    | _, _, .ok (.str s) => .ok (.str s)
    | _, _, _ => .error "sv"

def svTo : SV → Json
  | .null => .null
  | .bool b => .bool b
  | .int i => Json.mkObj [("i", toJson i)]
  | .dbl q => Json.mkObj [("d", Json.arr #[toJson q.num, toJson q.den])]
  | .str s => Json.mkObj [("s", s)]

partial def exprOf (j : Json) : Except String Expr := do
  let op ← getStr j "op"
  let sub := fun (k : String) => do exprOf (← j.getObjVal? k)
  match op with
  | "col" => return .col (← getNat j "i")
  | "lit" => return .lit (← svOf (← j.getObjVal? "v"))
  | "neg" => return .neg (← sub "e")
  | "not" => return .not (← sub "e")
  | "isNull" => return .isNull (← sub "e")
  | "isNotNull" => return .isNotNull (← sub "e")
  | "add" => return .add (← sub "a") (← sub "b")
  | "sub" => return .sub (← sub "a") (← sub "b")
  | "mul" => return .mul (← sub "a") (← sub "b")
  | "div" => return .div (← sub "a") (← sub "b")
  | "mod" => return .mod (← sub "a") (← sub "b")
  | "eq" => return .eq (← sub "a") (← sub "b")
  | "ne" => return .ne (← sub "a") (← sub "b")
  | "lt" => return .lt (← sub "a") (← sub "b")
  | "le" => return .le (← sub "a") (← sub "b")
  | "gt" => return .gt (← sub "a") (← sub "b")
  | "ge" => return .ge (← sub "a") (← sub "b")
  | "and" => return .and (← sub "a") (← sub "b")
  | "or" => return .or (← sub "a") (← sub "b")
  | "between" => return .between (← sub "e") (← sub "lo") (← sub "hi")
  | "coalesce" => return .coalesce (← sub "a") (← sub "b")
  | "case" => return .caseWhen (← sub "c") (← sub "t") (← sub "e")
  | _ => throw ("expr " ++ op)

def rowsOf (j : Json) (k : String) : Except String (List Row) := do
  let a ← getArr j k
  a.mapM fun r => do
    let arr ← (fromJson? r : Except String (Array Json))
    arr.toList.mapM svOf

def strList (j : Json) (k : String) : Except String (List String) := do
  fromJson? (← j.getObjVal? k)

def liftE {α} (x : Except Err α) : Except String α :=
  match x with | .ok a => .ok a | .error _ => .error "model: type mismatch (ill-typed case)"

def keysOf (j : Json) : Except String (List SortKey) := do
  (← getArr j "keys").mapM fun k => do
    return ⟨← exprOf (← k.getObjVal? "e"), ← getBool k "asc", ← getBool k "nullsFirst"⟩

/-- one relational operation on (names, rows, specRows); the spec side uses evalS / filterS / sortS -/
def applyOp (names : List String) (rows spec : List Row) (o : Json) :
    Except String (List String × List Row × List Row) := do
  let op ← getStr o "op"
  match op with
  | "select" =>
    let cols ← (← getArr o "cols").mapM fun c => do return ((← exprOf (← c.getObjVal? "e")), (← getStr c "name"))
    let es := cols.map (·.1)
    return (cols.map (·.2), ← liftE (selectM es rows), spec.map fun r => es.map (evalS r))
  | "withColumn" =>
    let name ← getStr o "name"; let e ← exprOf (← o.getObjVal? "e")
    let (n', r') ← liftE (withColumnM names name e rows)
    -- spec: the same column surgery with the reference evaluator
    let s' := spec.map fun r =>
      if names.contains name then (r.zip names).map fun (x, n) => if n == name then evalS r e else x else r ++ [evalS r e]
    return (n', r', s')
  | "filter" =>
    let e ← exprOf (← o.getObjVal? "e")
    return (names, ← liftE (filterM e rows), filterS e spec)
  | "drop" =>
    let d ← strList o "names"
    let (n', r') := dropCols names d rows
    return (n', r', (dropCols names d spec).2)
  | "rename" =>
    let old ← getStr o "old"; let new ← getStr o "new"
    return (names.map fun n => if n == old then new else n, rows, spec)
  | "toDF" => return (← strList o "names", rows, spec)
  | "union" => let other ← rowsOf o "rows"; return (names, unionM rows other, unionM spec other)
  | "unionByName" =>
    let other ← rowsOf o "rows"; let on ← strList o "names"
    return (names, unionByNameM names on rows other, unionByNameM names on spec other)
  | "distinct" => return (names, dedupBy id rows, dedupBy id spec)
  | "dropDuplicates" =>
    let cs ← strList o "cols"
    let idx := cs.map names.idxOf
    let key : Row → Row := fun r => idx.map fun i => r.getD i .null
    return (names, dedupBy key rows, dedupBy key spec)
  | "orderBy" =>
    let ks ← keysOf o
    return (names, sortM ks rows, sortS ks spec)
  | "limit" => let n ← getNat o "n"; return (names, limitM n rows, limitM n spec)
  | _ => throw ("op " ++ op)

def handle (j : Json) : Json := run do
  let names ← strList j "names"
  let rows ← rowsOf j "rows"
  let ops ← getArr j "ops"
  let mut st : List String × List Row × List Row := (names, rows, rows)
  for o in ops do
    st ← applyOp st.1 st.2.1 st.2.2 o
  let out := fun (rs : List Row) => Json.arr (rs.map fun r => Json.arr (r.map svTo).toArray).toArray
  return Json.mkObj [("names", toJson st.1), ("rows", out st.2.1), ("spec", out st.2.2)]

end Driver.C12
