import Driver.Util
import PysparklingVerif.Model.Types
open Lean PysparklingVerif.Types

namespace Driver.C19

partial def jOf : Json → J
  | .null => .null
  | .bool b => .bool b
  | .num n => .num n.mantissa          -- only integers occur (metadata values)
  | .str s => .str s
  | .arr a => .arr (a.toList.map jOf)
  | .obj o => .obj (o.toList.map fun (k, v) => (k, jOf v))

partial def jTo : J → Json
  | .null => .null
  | .bool b => .bool b
  | .num n => toJson n
  | .str s => .str s
  | .arr xs => .arr (xs.map jTo).toArray
  | .obj kvs => Json.mkObj (kvs.map fun (k, v) => (k, jTo v))

/-- structural dump of a type tree (independent of the JSON description) -/
partial def dump : DType → Json
  | .atom a => Json.mkObj [("atom", a.name)]
  | .decimal p s => Json.mkObj [("decimal", toJson [(p : Int), s])]
  | .array e cn => Json.mkObj [("array", dump e), ("containsNull", cn)]
  | .map k v vcn => Json.mkObj [("mapKey", dump k), ("mapValue", dump v), ("valueContainsNull", vcn)]
  | .struct fs => Json.mkObj [("struct", Json.arr (fs.map fun (n, t, nu, md) =>
      Json.mkObj [("name", n), ("type", dump t), ("nullable", nu), ("metadata", jTo md)]).toArray)]

partial def pvOf (j : Json) : Except String PV :=
  match j with
  | .null => .ok .none
  | .str "float" => .ok .float
  | .str "str" => .ok .str
  | .str "bytes" => .ok .bytes
  | .str "decimal" => .ok .decimal
  | .str "date" => .ok .date
  | .str "datetime" => .ok .datetime
  | .obj _ =>
    match j.getObjVal? "bool", j.getObjVal? "int", j.getObjVal? "list", j.getObjVal? "dict", j.getObjVal? "row" with
    | .ok (.bool b), _, _, _, _ => .ok (.bool b)
    | _, .ok v, _, _, _ => do let i ← (fromJson? v : Except String Int); return .int i
    | _, _, .ok (.arr a), _, _ => do let xs ← a.toList.mapM pvOf; return .list xs
    | _, _, _, .ok (.arr a), _ => do
        let kvs ← a.toList.mapM fun e => do
          let p ← (fromJson? e : Except String (Array Json))
          match p.toList with
          | [k, v] => do return ((← pvOf k), (← pvOf v))
          | _ => throw "dict pair"
        return .dict kvs
    | _, _, _, _, .ok (.arr a) => do
        let fs ← a.toList.mapM fun e => do
          let p ← (fromJson? e : Except String (Array Json))
          match p.toList with
          | [.str n, v] => do return (n, (← pvOf v))
          | _ => throw "row field"
        return .row fs
    | _, _, _, _, _ => .error "pv object"
  | _ => .error "pv"

def errName : VErr → String
  | .nullability => "nullability" | .wrongType => "wrongType" | .outOfRange => "outOfRange" | .length => "length"

def handle (j : Json) : Json := run do
  let op ← getStr j "op"
  match op with
  | "parse" =>
    let jv := jOf (← j.getObjVal? "json")
    match ofJ 200 jv with
    | some t => return Json.mkObj [("dump", dump t), ("tojson", jTo (toJ t)), ("size", toJson t.size)]
    | none => return Json.mkObj [("dump", Json.null)]
  | "infer" =>
    let rows ← (← getArr j "rows").mapM pvOf
    match inferSchema rows with
    | some t => return Json.mkObj [("schema", jTo (toJ t))]
    | none => return Json.mkObj [("schema", Json.null)]
  | "verify" =>
    let jv := jOf (← j.getObjVal? "type")
    let nullable := (j.getObjValAs? Bool "nullable").toOption.getD true
    let v ← pvOf (← j.getObjVal? "value")
    match ofJ 200 jv with
    | none => throw "type"
    | some t =>
      match verify 200 t nullable v with
      | none => return Json.mkObj [("model", Json.null)]
      | some e => return Json.mkObj [("model", errName e)]
  | "asdict" =>
    let names ← (fromJson? (← j.getObjVal? "names") : Except String (List String))
    let vals ← (fromJson? (← j.getObjVal? "values") : Except String (List Int))
    return Json.mkObj [("model", toJson ((asDict names vals).map fun (k, v) => (Json.arr #[toJson k, toJson v])))]
  | _ => throw "op"

end Driver.C19
