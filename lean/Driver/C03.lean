import Driver.Util
import PysparklingVerif.Model.Sched
open Lean PysparklingVerif.Sched

namespace Driver.C03

def natList (j : Json) : Except String (List Nat) := do
  let a ← (fromJson? j : Except String (Array Nat))
  return a.toList

def cacheOf (j : Json) (k : String) : Except String Cache := do
  (← getArr j k).mapM fun e => do
    let a ← (fromJson? e : Except String (Array Json))
    match a.toList with
    | [key, d] =>
      match (← natList key) with
      | [id, idx] => return ((id, idx), ← natList d)
      | _ => throw "key"
    | _ => throw "entry"

def cacheTo (c : Cache) : Json :=
  Json.arr (c.map fun e => Json.arr #[Json.arr #[toJson e.1.1, toJson e.1.2], toJson e.2]).toArray

def outsTo (o : List (Option (List Nat))) : Json :=
  Json.arr (o.map fun x => match x with | some l => toJson l | none => Json.null).toArray

/-- the generator: `TaskRandom(seed + i)` is state `seed + i`; each draw adds a stride larger than the number of
partitions, so a state names (partition, draw number); `keep` looks the real generator's decision up in the
table the harness took from `random.Random(seed + i)` -/
def stride : Nat := 1000

def handle (j : Json) : Json := run do
  let rddId ← getNat j "rddId"; let seed ← getNat j "seed"
  let parts ← (← getArr j "parts").mapM natList
  let keeps ← (← getArr j "keeps").mapM fun k => do
    let a ← (fromJson? k : Except String (Array Bool)); return a.toList
  let driver ← cacheOf j "driver"
  let sched ← natList (← j.getObjVal? "sched")
  if parts.length ≥ stride then throw "too many partitions"
  let next : Nat → Nat := (· + stride)
  let keep : Nat → Bool := fun g =>
    let d := g - seed
    ((keeps.getD (d % stride) []).getD (d / stride - 1) false)
  let job : Job := ⟨rddId, seed, parts⟩
  let iso := runIsolated next keep job driver
  let thr := (runSched next keep job sched (initSys job driver ⟨none, 0⟩)).tasks
  let r1 := collectJob driver iso
  let r2 := collectJob r1.2 (runIsolated next keep job r1.2)
  let loc := runLocalJob next keep job driver
  -- a complete schedule for the comparison when the caller's is not: append enough steps for everyone
  let full := sched ++ (List.range parts.length).flatMap fun i => List.replicate ((parts.getD i []).length + 6) i
  let thrFull := (runSched next keep job full (initSys job driver ⟨none, 0⟩)).tasks
  return Json.mkObj [("outs", outsTo r1.1), ("cache", cacheTo r1.2), ("second", outsTo r2.1),
    ("second_cache_same", decide (r2.2 = r1.2)),
    ("threads_equal_isolated", decide (thrFull = iso)),
    ("partial_prefix_ok", decide (thr.length = iso.length)),
    ("local_outs", outsTo loc.1), ("local_cache", cacheTo loc.2)]

end Driver.C03
