import Driver.Util
import PysparklingVerif.Model.Lazy
import PysparklingVerif.Model.FuncLib
open Lean PysparklingVerif PysparklingVerif.Lazy PysparklingVerif.FuncLib

namespace Driver.C06

def need {α} (o : Option α) (what : String) : Except String α :=
  match o with | some a => .ok a | none => .error ("unknown " ++ what)

/-- parse an op; the Bool says "the user function sees only the VALUE of a pair" (mapValues / flatMapValues) -/
def parseOp (j : Json) : Except String (LOp Val × Bool) := do
  let op ← getStr j "op"
  match op with
  | "persist" => return (.map id, false)          -- no user function: its stage is silenced by the caller
  | "sample" => do
      -- sample(False, f, seed) with f = 0 or 1 is deterministic (`random() < 0.0` never, `< 1.0` always): a filter that
      -- still PULLS every upstream element; no user function of its own (silenced like persist)
      let keepAll ← getBool j "all"
      return (.filter fun _ => keepAll, false)
  | "map" => do let f ← need (mapFn (← getStr j "f")) "mapFn"; return (.map f, false)
  | "filter" => do let p ← need (predFn (← getStr j "f")) "predFn"; return (.filter p, false)
  | "flatMap" => do let f ← need (flatFn (← getStr j "f")) "flatFn"; return (.flatMap f, false)
  | "keyBy" => do let f ← need (mapFn (← getStr j "f")) "mapFn"; return (.map fun e => pair (f e) e, false)
  | "mapValues" => do
      let f ← need (mapFn (← getStr j "f")) "mapFn"
      return (.map fun | .tup [k, v] => .tup [k, f v] | _ => errV, true)
  | "flatMapValues" => do
      let f ← need (flatFn (← getStr j "f")) "flatFn"
      return (.flatMap fun | .tup [k, v] => (f v).map (pair k) | _ => [errV], true)
  | _ => throw ("op " ++ op)

def evJson (valueOnly : List Bool) (e : Ev Val) : Json :=
  let arg := if valueOnly.getD e.stage false then (match e.arg with | .tup [_, v] => v | v => v) else e.arg
  Json.arr #[toJson e.stage, toJson arg]

def handle (j : Json) : Json := run do
  let partsJ ← getArr j "parts"
  let parts ← partsJ.mapM fun p => do
    let arr ← (fromJson? p : Except String (Array Json))
    arr.toList.mapM Val.ofJson
  let opsJ ← getArr j "ops"
  let parsed ← opsJ.mapM parseOp
  let ops := parsed.map (·.1)
  let vo := parsed.map (·.2)
  -- stages without a user function (persist / cache) log nothing
  let silent : List Nat := opsJ.zipIdx.filterMap fun (o, i) =>
    match o.getObjValAs? String "op" with | .ok "persist" => some i | .ok "sample" => some i | _ => none
  let keep := fun (evs : List (Ev Val)) => evs.filter fun e => !silent.contains e.stage
  let streams := parts.map fun p => build ops 0 (source p)
  let full := streams.map fun s => let (e, v) := pullAll s; (keep e, v)
  let outCounts := full.map (·.2.length)
  let total := outCounts.sum
  if (full.any fun (_, vs) => vs.any hasErr) then throw "ill-typed pipeline"
  let fullJ := Json.arr (full.map fun (evs, _) => Json.arr (evs.map (evJson vo)).toArray).toArray
  match j.getObjValAs? Nat "take" with
  | .ok n =>
    let (evs0, vals) := takeChain n streams
    let evs := keep evs0
    -- index of the partition containing the last returned element
    let returned := min n total
    let rec findLast (cs : List Nat) (acc i : Nat) : Nat :=
      match cs with
      | [] => i
      | c :: rest => if acc + c ≥ returned then i else findLast rest (acc + c) (i + 1)
    let plast := findLast outCounts 0 0
    let allowed : List (Ev Val) :=
      if n = 0 then []
      else if total < n then full.flatMap (·.1)
      else (full.take (plast + 1)).flatMap (·.1)
    return Json.mkObj [("lazy", Json.arr (evs.map (evJson vo)).toArray), ("values", toJson vals),
      ("allowed", Json.arr (allowed.map (evJson vo)).toArray), ("plast", toJson plast), ("full", fullJ)]
  | .error _ =>
    return Json.mkObj [("full", fullJ), ("values", toJson (full.flatMap (·.2)))]

end Driver.C06
