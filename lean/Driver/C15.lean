import Driver.Util
import Driver.C12
import Driver.C13
import PysparklingVerif.Model.Frame
open Lean PysparklingVerif.Sql PysparklingVerif.Join PysparklingVerif.Frame

namespace Driver.C15
open Driver.C12 (svOf svTo exprOf strList rowsOf)

def dfOf (j : Json) : Except String DF := do
  return ⟨← strList j "names", ← rowsOf j "rows"⟩

def optStr (j : Json) (k : String) : Except String (Option String) :=
  match j.getObjVal? k with
  | .ok .null => .ok none
  | .ok (.str s) => .ok (some s)
  | .ok _ => .error ("string or null expected: " ++ k)
  | .error _ => .ok none

def fnOf (s : String) : Except String AggFn :=
  match s with
  | "count" => .ok .count | "countStar" => .ok .countStar | "sum" => .ok .sum | "min" => .ok .min | "max" => .ok .max
  | "avg" => .ok .avg | "first" => .ok .first | "last" => .ok .last | "countDistinct" => .ok .countDistinct
  | _ => .error ("agg fn " ++ s)

def aggsOf (j : Json) : Except String (List AggSpec) := do
  (← getArr j "aggs").mapM fun a => do
    return ⟨← fnOf (← getStr a "fn"), ← getStr a "col", ← optStr a "alias"⟩

def modeOf (s : String) : Except String GroupMode :=
  match s with
  | "groupby" => .ok .groupBy | "rollup" => .ok .rollup | "cube" => .ok .cube | _ => .error "mode"

def itemOf (j : Json) : Except String SelItem := do
  match ← getStr j "k" with
  | "star" => return .star
  | "col" => return .col (← getStr j "c")
  | "expr" => return .expr (← optStr j "alias") (← exprOf (← j.getObjVal? "e"))
  | k => throw ("item " ++ k)

def opOf (o : Json) : Except String Op := do
  match ← getStr o "op" with
  | "select" => return .select (← (← getArr o "items").mapM itemOf)
  | "withColumn" => return .withColumn (← getStr o "name") (← exprOf (← o.getObjVal? "e"))
  | "filter" => return .filter (← exprOf (← o.getObjVal? "e"))
  | "drop" => return .drop (← strList o "cols")
  | "rename" => return .rename (← getStr o "old") (← getStr o "new")
  | "join" => return .join (← Driver.C13.howOf (← getStr o "how")) (← strList o "on") (← dfOf (← o.getObjVal? "other"))
  | "crossJoin" => return .crossJoin (← dfOf (← o.getObjVal? "other"))
  | "joinOn" => return .joinOn (← Driver.C13.howOf (← getStr o "how")) (← exprOf (← o.getObjVal? "cond")) (← dfOf (← o.getObjVal? "other"))
  | "union" => return .union (← dfOf (← o.getObjVal? "other"))
  | "agg" => return .agg (← modeOf (← getStr o "mode")) (← strList o "keys") (← aggsOf o)
  | "pivot" =>
    let vals ← match o.getObjVal? "values" with
      | .ok .null => pure none
      | .ok _ => do pure (some (← strList o "values"))
      | .error _ => pure none
    return .pivot (← strList o "keys") (← getStr o "pcol") vals (← aggsOf o)
  | "sort" =>
    let ks ← (← getArr o "keys").mapM fun k => do return ((← getStr k "c"), (← getBool k "asc"))
    return .sort ks
  | "limit" => return .limit (← getNat o "n")
  | "distinct" => return .distinct
  | "sample" =>
    let keep ← (← getArr o "keep").mapM fun b => (fromJson? b : Except String Bool)
    return .sample keep
  | "repartition" => return .repartition (← getNat o "n")
  | op => throw ("op " ++ op)

def errName : RefErr → String
  | .missing => "missing" | .ambiguous => "ambiguous" | .typeError => "typeError" | .widthMismatch => "widthMismatch"

def handle (j : Json) : Json := run do
  let out := fun (d : DF) => Json.mkObj [("names", toJson d.names),
    ("rows", Json.arr (d.rows.map fun r => Json.arr (r.map svTo).toArray).toArray), ("consistent", decide d.Consistent)]
  if let .ok (.arr rs) := j.getObjVal? "fromRows" then
    -- createDataFrame over Row objects: every row is an array of [name, value] pairs in the Row's own field order
    let rows ← rs.toList.mapM fun r => do
      match r with
      | .arr kvs => kvs.toList.mapM fun kv => do
          match kv with
          | .arr #[.str n, v] => return (n, ← svOf v)
          | _ => throw "fromRows: [name, value] expected"
      | _ => throw "fromRows: row"
    return out (createFromRows rows)
  match j.getObjVal? "range" with
  | .ok r =>
    let a ← (fromJson? r : Except String (Array Int))
    match a.toList with
    | [start, stop, step] => return out (range start stop step.toNat)
    | _ => throw "range"
  | .error _ =>
    let d ← dfOf j
    let op ← opOf (← j.getObjVal? "op")
    match apply d op with
    | .ok d' => return out d'
    | .error e => return Json.mkObj [("refused", errName e)]

end Driver.C15
