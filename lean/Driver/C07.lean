import Driver.Util
import PysparklingVerif.Model.Rdd
import PysparklingVerif.Model.Hash
open Lean PysparklingVerif PysparklingVerif.Rdd PysparklingVerif.Hash

namespace Driver.C07

def getLayout (j : Json) (k : String) : Except String (Parts Val) := do
  let a ← getArr j k
  a.mapM fun p => do
    let arr ← (fromJson? p : Except String (Array Json))
    arr.toList.mapM Val.ofJson

def keyFn (name : String) : Except String (Val → Nat) :=
  match name with
  | "default" => .ok hash32
  | "ident" => .ok fun | .int i => i.toNat | _ => 0          -- ints ≥ 0 only (guarded by the harness)
  | "len" => .ok fun | .str s => s.length | .tup t => t.length | _ => 0
  | "const" => .ok fun _ => 5
  | "kind" => .ok fun | .bool _ => 1 | .int _ => 0 | .str _ => 2 | .tup _ => 3 | _ => 4   -- tells `1` from `True` (equal as dict keys)
  | _ => .error "keyFn"

/-- user partition functions that may return NEGATIVE numbers: `f(key) % n` is Python's floor-mod, whose result lies
in `[0, n)`; the model's partition function is the already reduced one -/
def keyFnInt (name : String) : Option (Val → Int) :=
  match name with
  | "identz" => some fun | .int i => i | _ => 0
  | "shift" => some fun | .int i => i - 3 | _ => -3
  | "negate" => some fun | .int i => -i | _ => 0
  | _ => none

def handle (j : Json) : Json := run do
  let op ← getStr j "op"
  match op with
  | "parallelize" =>
    let len ← getNat j "len"; let n ← getNat j "n"
    let ps := parallelize (List.range len) n
    return Json.mkObj [("model", toJson ps)]
  | "coalesce" =>
    let ps ← getLayout j "layout"; let m ← getNat j "m"
    if m = 0 then throw "coalesce 0"
    return Json.mkObj [("model", toJson (coalesce m ps))]
  | "repartition" =>
    let ps ← getLayout j "layout"; let m ← getNat j "m"
    return Json.mkObj [("model", toJson (repartition m ps))]
  | "partitionBy" =>
    let ps ← getLayout j "layout"; let n ← getNat j "n"
    if n = 0 then throw "partitionBy 0"
    let fname ← getStr j "f"
    let f ← match keyFnInt fname with
      | some fi => pure fun k => (Int.fmod (fi k) n).toNat
      | none => keyFn fname
    let pairs ← ps.mapM fun p => p.mapM fun
      | .tup [k, v] => Except.ok (k, v)
      | _ => .error "not a pair"
    let out := partitionBy n f pairs
    return Json.mkObj [("model", toJson (out.map fun p => p.map fun (k, v) => Val.tup [k, v]))]
  | "hash" =>
    let ks ← getArr j "keys"
    let vs ← ks.mapM Val.ofJson
    return Json.mkObj [("model", toJson (vs.map portableHash)), ("h32", toJson (vs.map hash32))]
  | "withIndex" =>
    let ps ← getLayout j "layout"
    let out := mapPartitionsWithIndex (fun i p => [Val.tup [.int i, .lst p]]) ps
    return Json.mkObj [("model", toJson out)]
  | "uniqueId" =>
    let ps ← getLayout j "layout"
    let out := zipWithUniqueId ps
    return Json.mkObj [("model", toJson (out.map fun p => p.map fun (x, i) => Val.tup [x, .int i]))]
  | _ => throw "op"

end Driver.C07
