/- Helpers shared by the per-property driver handlers. Core-only. -/
import Lean.Data.Json
import PysparklingVerif.Model.Val
open Lean

namespace Driver

def badOp : Json := Json.mkObj [("error", "bad-op")]

def err (msg : String) : Json := Json.mkObj [("error", msg)]

/-- Run a handler written in `Except String`; any decoding failure is reported, never defaulted. -/
def run (x : Except String Json) : Json :=
  match x with
  | .ok j => j
  | .error e => Json.mkObj [("error", "bad-op"), ("detail", e)]

def getInt (j : Json) (k : String) : Except String Int := j.getObjValAs? Int k
def getNat (j : Json) (k : String) : Except String Nat := j.getObjValAs? Nat k
def getStr (j : Json) (k : String) : Except String String := j.getObjValAs? String k
def getBool (j : Json) (k : String) : Except String Bool := j.getObjValAs? Bool k
def getArr (j : Json) (k : String) : Except String (List Json) := do
  let a ← j.getObjValAs? (Array Json) k
  return a.toList

def optInt : Option Int → Json
  | some i => toJson i
  | none => Json.null

end Driver
