/-
  Line protocol driver: one JSON request per line on stdin, one JSON answer per line on
  stdout. Requests carry "p" (property) and "op"; unknown ones answer {"error":"bad-op"}.
-/
import Lean.Data.Json
import Driver.Util
import Driver.C18
import Driver.C19
import Driver.C20
import Driver.C01
import Driver.C02
import Driver.C04
import Driver.C05
import Driver.C06
import Driver.C07
import Driver.C08
import Driver.C17
import Driver.C10
import Driver.C12
import Driver.C13
import Driver.C16
import Driver.C14
import Driver.C15
import Driver.C03
open Lean

namespace Driver

def handle (j : Json) : Json :=
  match j.getObjValAs? String "p" with
  | .ok "ping" => Json.mkObj [("pong", true)]
  | .ok "C18" => C18.handle j
  | .ok "C19" => C19.handle j
  | .ok "C20" => C20.handle j
  | .ok "C01" => C01.handle j
  | .ok "C02" => C02.handle j
  | .ok "C04" => C04.handle j
  | .ok "C05" => C05.handle j
  | .ok "C06" => C06.handle j
  | .ok "C07" => C07.handle j
  | .ok "C08" => C08.handle j
  | .ok "C09" => C08.handle j
  | .ok "C17" => C17.handle j
  | .ok "C10" => C10.handle j
  | .ok "C11" => C10.handle j
  | .ok "C12" => C12.handle j
  | .ok "C13" => C13.handle j
  | .ok "C16" => C16.handle j
  | .ok "C14" => C14.handle j
  | .ok "C15" => C15.handle j
  | .ok "C03" => C03.handle j
  | _ => badOp

partial def loop (hin hout : IO.FS.Stream) : IO Unit := do
  let line ← hin.getLine
  if line.isEmpty then return ()
  let out := match Json.parse line with
    | .ok j => (handle j).compress
    | .error e => (err ("parse: " ++ e)).compress
  hout.putStrLn out
  hout.flush
  loop hin hout

end Driver

def main : IO Unit := do Driver.loop (← IO.getStdin) (← IO.getStdout)
