import Driver.Util
import PysparklingVerif.Model.Cast
open Lean PysparklingVerif.Cast

namespace Driver.C18

def width (s : String) : Except String Width :=
  match s with
  | "byte" => .ok .byte | "short" => .ok .short | "int" => .ok .int | "long" => .ok .long
  | _ => .error "width"

def ty (s : String) : Except String Ty :=
  match s with
  | "null" => .ok .null | "string" => .ok .string | "boolean" => .ok .boolean | "byte" => .ok .byte
  | "short" => .ok .short | "int" => .ok .int | "long" => .ok .long | "float" => .ok .float
  | "double" => .ok .double | "date" => .ok .date | "timestamp" => .ok .timestamp
  | "binary" => .ok .binary | "decimal" => .ok .decimal | "arrayL" => .ok .arrayL | "arrayS" => .ok .arrayS
  | "mapL" => .ok .mapL | "mapS" => .ok .mapS | "structL" => .ok .structL | "structS" => .ok .structS
  | _ => .error "type"

def handle (j : Json) : Json := run do
  let op ← getStr j "op"
  match op with
  | "int" =>
    let w ← width (← getStr j "w"); let v ← getInt j "v"
    return Json.mkObj [("model", toJson (castIntTo w v)), ("spec", toJson (wrap w.bits v))]
  | "float" =>
    let w ← width (← getStr j "w"); let n ← getInt j "num"; let d ← getNat j "den"
    if d = 0 then throw "den"
    return Json.mkObj [("model", toJson (castFloatTo w n d)), ("spec", toJson (wrap w.bits (Int.tdiv n d)))]
  | "bool" =>
    let w ← width (← getStr j "w"); let b ← getBool j "b"
    return Json.mkObj [("model", toJson (castBoolTo w b)), ("spec", toJson (wrap w.bits (if b then 1 else 0)))]
  | "str2int" =>
    let w ← width (← getStr j "w"); let s ← getStr j "s"
    match castStrTo w s.toList with
    | none => return Json.mkObj [("model", Json.mkObj [("exc", "ValueError")])]
    | some r => return Json.mkObj [("model", optInt r)]
  | "str2bool" =>
    let s ← getStr j "s"
    -- `cast_to_boolean` answers None for "" before looking at the type
    let r := castStrBool s.toList
    return Json.mkObj [("model", match r with | some b => Json.bool b | none => Json.null)]
  | "str2date" =>
    let s ← getStr j "s"
    match castStrDate s.toList with
    | some (y, m, d) => return Json.mkObj [("model", toJson [y, m, d])]
    | none => return Json.mkObj [("model", Json.null)]
  | "render" =>
    let v ← getInt j "v"
    return Json.mkObj [("model", String.ofList (renderInt v))]
  | "renderBool" =>
    let b ← getBool j "b"
    return Json.mkObj [("model", String.ofList (renderBool b))]
  | "null" =>
    let f ← ty (← getStr j "from"); let t ← ty (← getStr j "to")
    match castNull f t with
    | some none => return Json.mkObj [("model", Json.null)]
    | some (some s) => return Json.mkObj [("model", Json.mkObj [("str", s)])]
    | none => return Json.mkObj [("model", Json.mkObj [("refused", true)])]
  | _ => throw "op"

end Driver.C18
