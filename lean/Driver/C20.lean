import Driver.Util
import PysparklingVerif.Model.Glob
open Lean PysparklingVerif.Glob

namespace Driver.C20

def handle (j : Json) : Json := run do
  let op ← getStr j "op"
  match op with
  | "match" =>
    let p ← getStr j "pattern"; let s ← getStr j "s"
    return Json.mkObj [("model", globMatch p.toList s.toList)]
  | "resolve" =>
    let rel ← (← getArr j "files_rel").mapM fun e => do let s ← (fromJson? e : Except String String); return s.toList
    let base := (← getStr j "base").toList
    let all := (← getStr j "expr").toList
    let dotrel := rel.map fun f => "./".toList ++ f
    let abs := rel.map fun f => base ++ ['/'] ++ f
    -- the rendering os.walk produces for the item: absolute, './'-anchored or plain relative
    let world : Str → List Str := fun e =>
      let e := stripScheme e
      if "/".toList.isPrefixOf e then abs
      else if "./".toList.isPrefixOf e || !(literalPrefix e).contains '/' then dotrel
      else rel
    let isFile : Str → Bool := fun e => rel.contains e || dotrel.contains e || abs.contains e
    let res := resolve world isFile all
    let spec := (splitComma all).flatMap fun it =>
      let it := strip it
      if isFile (stripScheme it) then [stripScheme it]
      else
        let e := (anchored (stripScheme it)).1
        ((world it).filter fun f => globMatch e f || globMatch (partsPattern e) f).map (unanchor (stripScheme it))
    return Json.mkObj [("model", toJson (res.map String.ofList)), ("spec", toJson (spec.map String.ofList)),
      ("reader", toJson ((readerOrder res).map String.ofList))]
  | _ => throw "op"

end Driver.C20
