import Driver.Util
import PysparklingVerif.Model.Keyed
import PysparklingVerif.Model.FuncLib
open Lean PysparklingVerif PysparklingVerif.Rdd PysparklingVerif.Keyed PysparklingVerif.FuncLib

namespace Driver.C02

def getPairs (j : Json) (k : String) : Except String (Parts (Val × Val)) := do
  let a ← getArr j k
  a.mapM fun p => do
    let arr ← (fromJson? p : Except String (Array Json))
    arr.toList.mapM fun e => do
      match (← Val.ofJson e) with
      | .tup [k, v] => pure (k, v)
      | _ => throw "not a pair"

def getVals (j : Json) (k : String) : Except String (Parts Val) := do
  let a ← getArr j k
  a.mapM fun p => do
    let arr ← (fromJson? p : Except String (Array Json))
    arr.toList.mapM Val.ofJson

def optNat (j : Json) (k : String) : Except String (Option Nat) :=
  match j.getObjVal? k with
  | .ok .null => .ok none
  | .ok v => do let n ← fromJson? v; return some n
  | .error _ => .ok none

def opt : Option Val → Val
  | some v => v
  | none => .none

def kv (k : Val) (v : Val) : Val := .tup [k, v]

def need {α} (o : Option α) (what : String) : Except String α :=
  match o with | some a => .ok a | none => .error ("unknown " ++ what)

def out (model : List Val) (spec : Option (List Val)) : Json :=
  Json.mkObj [("model", toJson model), ("spec", match spec with | some s => toJson s | none => Json.null)]

def aggTable : List (String × (Val × String × String)) :=
  [("sumCount", (.tup [.int 0, .int 0], "sumCountSeq", "sumCountComb")),
   ("appendExtend", (.lst [], "append", "extend")),
   ("addAdd", (.int 0, "add", "add")),
   ("maxOpt", (.none, "maxOpt", "maxOpt")),
   ("tupMut", (.tup [.lst []], "tupAppend", "tupExtend")),
   ("nestMut", (.lst [.lst [], .int 0], "nestAppend", "nestExtend"))]

def handle (j : Json) : Json := run do
  let op ← getStr j "op"
  let m ← optNat j "m"
  match op with
  | "groupByKey" =>
    let a ← getPairs j "a"
    let g := flat (groupByKey m a)
    return out (g.map fun e => kv e.1 (.lst e.2)) none
  | "reduceByKey" =>
    let a ← getPairs j "a"
    let f ← need (binFn (← getStr j "f")) "binFn"
    let g := flat (reduceByKey f m a)
    let vs ← g.mapM fun e => match e.2 with | some v => pure (kv e.1 v) | none => throw "empty group"
    return out vs none
  | "foldByKey" =>
    let a ← getPairs j "a"
    let f ← need (binFn (← getStr j "f")) "binFn"
    let z ← Val.ofJson (← j.getObjVal? "z")
    return out ((flat (foldByKey z f a)).map fun e => kv e.1 e.2) none
  | "aggregateByKey" =>
    let a ← getPairs j "a"
    let (z, s, c) ← need (aggTable.lookup (← getStr j "agg")) "agg"
    let seq ← need (binFn s) "binFn"; let comb ← need (binFn c) "binFn"
    let model := (flat (aggregateByKey z seq comb a)).map fun e => kv e.1 e.2
    -- SPEC: per key the sequential fold over that key's values in collect order
    let l := flat a
    let spec := (groupList l).map fun g => kv g.1 (g.2.foldl seq z)
    return out model (some spec)
  | "countByKey" =>
    let a ← getPairs j "a"
    return out ((countByKey a).map fun e => kv e.1 (.int e.2)) none
  | "cogroup" =>
    let a ← getPairs j "a"; let b ← getPairs j "b"
    return out ((flat (cogroup a b)).map fun e => kv e.1 (.lst [.lst e.2.1, .lst e.2.2])) none
  | "join" =>
    let a ← getPairs j "a"; let b ← getPairs j "b"
    let f := fun (e : Val × (Val × Val)) => kv e.1 (.tup [e.2.1, e.2.2])
    return out ((flat (join m a b)).map f) (some ((specJoin (flat a) (flat b)).map f))
  | "leftOuterJoin" =>
    let a ← getPairs j "a"; let b ← getPairs j "b"
    let f := fun (e : Val × (Val × Option Val)) => kv e.1 (.tup [e.2.1, opt e.2.2])
    return out ((flat (leftOuterJoin a b)).map f) (some ((specLeftOuter (flat a) (flat b)).map f))
  | "rightOuterJoin" =>
    let a ← getPairs j "a"; let b ← getPairs j "b"
    let f := fun (e : Val × (Option Val × Val)) => kv e.1 (.tup [opt e.2.1, e.2.2])
    return out ((flat (rightOuterJoin a b)).map f) (some ((specRightOuter (flat a) (flat b)).map f))
  | "fullOuterJoin" =>
    let a ← getPairs j "a"; let b ← getPairs j "b"
    let f := fun (e : Val × (Option Val × Option Val)) => kv e.1 (.tup [opt e.2.1, opt e.2.2])
    return out ((flat (fullOuterJoin a b)).map f) (some ((specFullOuter (flat a) (flat b)).map f))
  | "subtractByKey" =>
    let a ← getPairs j "a"; let b ← getPairs j "b"
    let f := fun (e : Val × Val) => kv e.1 e.2
    return out ((flat (subtractByKey a b)).map f) (some ((specSubtractByKey (flat a) (flat b)).map f))
  | "leftSemiJoin" =>
    let a ← getPairs j "a"; let b ← getPairs j "b"
    let f := fun (e : Val × Val) => kv e.1 e.2
    return out ((flat (leftSemiJoin a b)).map f) (some ((specSemi (flat a) (flat b)).map f))
  | "leftAntiJoin" =>
    let a ← getPairs j "a"; let b ← getPairs j "b"
    let f := fun (e : Val × Val) => kv e.1 e.2
    return out ((flat (leftAntiJoin a b)).map f) (some ((specSubtractByKey (flat a) (flat b)).map f))
  | "subtract" =>
    let a ← getVals j "a"; let b ← getVals j "b"
    return out (flat (subtract a b)) (some ((flat a).filter fun e => !((flat b).contains e)))
  | "distinct" =>
    let a ← getVals j "a"
    return out (flat (distinct m a)) none
  | "intersection" =>
    let a ← getVals j "a"; let b ← getVals j "b"
    return out (flat (intersection a b)) none
  | "cartesian" =>
    let a ← getVals j "a"; let b ← getVals j "b"
    return out ((flat (cartesian a b)).map fun e => .tup [e.1, e.2]) none
  | "sortByKey" =>
    let a ← getPairs j "a"
    let asc ← getBool j "asc"
    return out ((flat (sortByKey le asc m a)).map fun e => kv e.1 e.2) none
  | _ => throw "op"

end Driver.C02
