import Driver.Util
import PysparklingVerif.Model.Stats
open Lean PysparklingVerif.Stats

namespace Driver.C17

def ratOf (j : Json) : Except String Rat := do
  let a ← (fromJson? j : Except String (Array Json))
  match a.toList with
  | [n, d] => do
    let n ← (fromJson? n : Except String Int)
    let d ← (fromJson? d : Except String Nat)
    if d = 0 then throw "den" else return mkRat n d
  | _ => throw "rat"

def ratJ (r : Rat) : Json := Json.arr #[toJson r.num, toJson r.den]
def optRatJ : Option Rat → Json
  | some r => ratJ r
  | none => Json.null

def ratList (j : Json) : Except String (List Rat) := do
  let a ← (fromJson? j : Except String (Array Json))
  a.toList.mapM ratOf

/-- merge tree: a JSON array is a leaf (list of rationals); {"l":t,"r":t} merges; {"self":t} self-merges -/
partial def evalTree (j : Json) : Except String (SC × List Rat) :=
  match j with
  | .arr _ => do let xs ← ratList j; return (xs.foldl SC.add SC.init, xs)
  | _ =>
    match j.getObjVal? "self" with
    | .ok t => do let (s, xs) ← evalTree t; return (s.selfMerge, xs ++ xs)
    | .error _ => do
      let (a, xs) ← evalTree (← j.getObjVal? "l")
      let (b, ys) ← evalTree (← j.getObjVal? "r")
      return (a.merge b, xs ++ ys)

def scJson (s : SC) : Json :=
  Json.mkObj [("n", toJson s.count), ("mean", ratJ s.mean), ("sum", ratJ s.sum),
    ("variance", optRatJ s.variance), ("sampleVariance", optRatJ s.sampleVariance),
    ("max", optRatJ s.maxV), ("min", optRatJ s.minV), ("m2", ratJ s.m2)]

def specJson (xs : List Rat) : Json :=
  Json.mkObj [("n", toJson xs.length), ("mean", ratJ (mean xs)), ("sum", ratJ (lsum xs)),
    ("variance", if xs.isEmpty then Json.null else ratJ (ssd xs / xs.length)),
    ("sampleVariance", if xs.length ≤ 1 then Json.null else ratJ (ssd xs / ((xs.length : Rat) - 1))),
    ("max", optRatJ (lmax xs)), ("min", optRatJ (lmin xs)), ("m2", ratJ (ssd xs))]

def handle (j : Json) : Json := run do
  let op ← getStr j "op"
  match op with
  | "stats" =>
    let parts ← (← getArr j "parts").mapM ratList
    return Json.mkObj [("model", scJson (stats parts)), ("spec", specJson parts.flatten)]
  | "tree" =>
    let (s, xs) ← evalTree (← j.getObjVal? "tree")
    return Json.mkObj [("model", scJson s), ("spec", specJson xs)]
  | "cov" =>
    let parts ← (← getArr j "parts").mapM fun p => do
      let a ← (fromJson? p : Except String (Array Json))
      a.toList.mapM fun e => do
        let xy ← (fromJson? e : Except String (Array Json))
        match xy.toList with
        | [x, y] => do return ((← ratOf x), (← ratOf y))
        | _ => throw "pair"
    let c := cov parts
    let ps := parts.flatten
    let n := ps.length
    return Json.mkObj [
      ("model", Json.mkObj [("n", toJson c.count), ("covarSamp", optRatJ c.covarSamp), ("covarPop", optRatJ c.covarPop),
        ("ck", ratJ c.ck), ("mkX", ratJ c.mkX), ("mkY", ratJ c.mkY), ("corrSq", optRatJ c.corrSq)]),
      ("spec", Json.mkObj [("n", toJson n),
        ("covarSamp", if n ≤ 1 then Json.null else ratJ (scp ps / ((n : Rat) - 1))),
        ("covarPop", if n = 0 then Json.null else ratJ (scp ps / n)),
        ("ck", ratJ (scp ps)), ("mkX", ratJ (ssd (ps.map (·.1)))), ("mkY", ratJ (ssd (ps.map (·.2)))),
        ("corrSq", if ssd (ps.map (·.1)) * ssd (ps.map (·.2)) = 0 then Json.null
                   else ratJ (scp ps * scp ps / (ssd (ps.map (·.1)) * ssd (ps.map (·.2)))))])]
  | _ => throw "op"

end Driver.C17
