import Driver.Util
import PysparklingVerif.Model.Stream
import PysparklingVerif.Model.Keyed
import PysparklingVerif.Model.FuncLib
open Lean PysparklingVerif PysparklingVerif.Stream PysparklingVerif.FuncLib

/-! C10 / C11: the element type of the network is a PARTITION (`List Val`), so a batch is an RDD's
list of partitions (`[]` = EmptyRDD, `[[]]` = an RDD with one empty partition). -/
namespace Driver.C10

abbrev P := List Val                       -- a partition
abbrev R := Stream.Batch P                 -- an RDD = list of partitions

def need {α} (o : Option α) (what : String) : Except String α :=
  match o with | some a => .ok a | none => .error ("unknown " ++ what)

/-! An RDD value is encoded as a MARKER partition followed by its partitions: `[["#E"]]` is the EmptyRDD
*instance* (exhausted source without default, union of such, a window between slides), `["#R"] :: ps` any
other RDD with partitions `ps` (possibly none). `Context.union` and `repartition` test
`isinstance(…, EmptyRDD)`, so the two must be told apart; a window buffer flattened by the network model
stays decodable because every buffered RDD brings its marker. -/
def mE : P := [.str "#E"]
def mR : P := [.str "#R"]
def emptyInst : R := [mE]
def mk (ps : R) : R := mR :: ps
def isInst (r : R) : Bool := r.head? == some mE
/-- the partitions operations see (an EmptyRDD has none) -/
def norm (r : R) : R := r.drop 1
/-- `Context.union(rdds)`: EmptyRDD if all are, else ONE partition with everything collected -/
def ctxUnion (rs : List R) : R := if rs.all isInst then emptyInst else mk [ (rs.map fun r => (norm r).flatten).flatten ]

def toPairs (r : R) : Rdd.Parts (Val × Val) :=
  r.map fun p => p.map fun | .tup [k, v] => (k, v) | v => (errV, v)
def ofPairs (r : Rdd.Parts (Val × Val)) : R := r.map fun p => p.map fun (k, v) => Val.tup [k, v]
def opt : Option Val → Val | some v => v | none => .none

def updFn (name : String) : Option (List Val → Option Val → Val) :=
  match name with
  | "sum" => some fun vs st =>
      .int ((vs.foldl (fun a v => match v with | .int i => a + i | _ => a) 0) + (match st with | some (.int s) => s | _ => 0))
  | "last" => some fun vs st => match vs.getLast? with | some v => v | none => opt st
  | "count" => some fun vs st => .int (vs.length + (match st with | some (.int s) => s | _ => 0))
  | "append" | "extend" => some fun vs st => .lst ((match st with | some (.lst l) => l | _ => []) ++ vs)
  | _ => none

/-- one-input per-batch operations as functions on RDDs (mirroring dstream.py through the RDD models) -/
def unary (j : Json) (kind : String) : Except String (R → R) := do
  match kind with
  | "map" => do let f ← need (mapFn (← getStr j "f")) "mapFn"; return Rdd.map f
  | "filter" => do let p ← need (predFn (← getStr j "f")) "predFn"; return Rdd.filter p
  | "flatMap" => do let f ← need (flatFn (← getStr j "f")) "flatFn"; return Rdd.flatMap f
  | "mapValues" => do
      let f ← need (mapFn (← getStr j "f")) "mapFn"
      return Rdd.map fun | .tup [k, v] => .tup [k, f v] | _ => errV
  | "flatMapValues" => do
      let f ← need (flatFn (← getStr j "f")) "flatFn"
      return Rdd.flatMap fun | .tup [k, v] => (f v).map (pair k) | _ => [errV]
  | "transform" => do let (g, _) ← need (partFn (← getStr j "f")) "partFn"; return Rdd.mapPartitions g
  | "repartition" => do
      let n ← getNat j "n"
      -- (the code keeps an EmptyRDD *instance* as it is; the harness never repartitions a stream that can emit one)
      return fun r => Rdd.repartition n r
  | "groupByKey" =>
      return fun r => (Keyed.groupByKey none (toPairs r)).map fun p => p.map fun (k, vs) => Val.tup [k, .lst vs]
  | "reduceByKey" => do
      let f ← need (binFn (← getStr j "f")) "binFn"
      return fun r => (Keyed.reduceByKey f none (toPairs r)).map fun p => p.map fun (k, v) => Val.tup [k, opt v]
  | "reduce" => do
      let f ← need (binFn (← getStr j "f")) "binFn"
      return fun r =>
        let keyed : Rdd.Parts (Val × Val) := r.map fun p => p.map fun v => (Val.none, v)
        (Keyed.reduceByKey f none keyed).map fun p => p.map fun (_, v) => opt v
  | "count" =>
      return fun r =>
        let counts : Rdd.Parts (Val × Val) := r.map fun p => [(Val.none, Val.int p.length)]
        let add : Val → Val → Val := fun a b => match a, b with | .int x, .int y => .int (x + y) | _, _ => errV
        (Keyed.reduceByKey add none counts).map fun p => p.map fun (_, v) => opt v
  | "countByValue" =>
      return fun r => [(Rdd.countByValue r).map fun (v, c) => Val.tup [v, .int c]]
  | "out" => return id
  | _ => throw ("unary " ++ kind)

def binary (kind : String) : Except String (R → R → R) :=
  match kind with
  | "union" => .ok fun a b => if a.isEmpty && b.isEmpty then [] else Rdd.union a b   -- all EmptyRDD ↦ EmptyRDD
  | "join" => .ok fun a b =>
      (Keyed.join none (toPairs a) (toPairs b)).map fun p => p.map fun (k, (v, w)) => Val.tup [k, .tup [v, w]]
  | "leftOuterJoin" => .ok fun a b =>
      (Keyed.leftOuterJoin (toPairs a) (toPairs b)).map fun p => p.map fun (k, (v, w)) => Val.tup [k, .tup [v, opt w]]
  | "rightOuterJoin" => .ok fun a b =>
      (Keyed.rightOuterJoin (toPairs a) (toPairs b)).map fun p => p.map fun (k, (v, w)) => Val.tup [k, .tup [opt v, w]]
  | "fullOuterJoin" => .ok fun a b =>
      (Keyed.fullOuterJoin (toPairs a) (toPairs b)).map fun p => p.map fun (k, (v, w)) => Val.tup [k, .tup [opt v, opt w]]
  | "cogroup" => .ok fun a b =>
      (Keyed.cogroup (toPairs a) (toPairs b)).map fun p => p.map fun (k, (vs, ws)) => Val.tup [k, .lst [.lst vs, .lst ws]]
  | _ => .error ("binary " ++ kind)

/-- parse node number `i`; `rm` maps the harness' node numbers to model node numbers (a window node
becomes two model nodes: the WindowedDStream and the single-partition `context.union` of its buffer) -/
def unaryN (j : Json) (kind : String) : Except String (R → R) := do
  let f ← unary j kind
  if kind == "out" then return id
  if kind == "repartition" then
    let g : R → R := fun r => if isInst r then r else mk (f (norm r))
    return g
  return fun r => mk (f (norm r))

def binaryN (kind : String) : Except String (R → R → R) := do
  if kind == "union" then return fun a b => ctxUnion [a, b]
  let f ← binary kind
  return fun a b => mk (f (norm a) (norm b))

def parseNode (rm : Array Nat) (nModel : Nat) (j : Json) : Except String (List (Node P)) := do
  let kind ← getStr j "kind"
  let ref := fun (k : String) => do
    let i ← getNat j k
    match rm[i]? with | some x => pure x | none => throw "forward reference"
  match kind with
  | "src" => return [.src (← getNat j "q")]
  | "window" => do
      let p ← ref "prev"
      -- node k: the window; node k+1: `context.union(window)` = one partition (EmptyRDD if every batch is)
      let k := nModel
      -- the window buffer holds RDDs; its emission is `context.union(buffer)`; between slides an EmptyRDD
      return [.win p (← getNat j "w") (← getNat j "s"),
              .tr k fun r =>
                let markers := r.filter fun p => p == mE || p == mR
                if r.isEmpty then emptyInst                              -- between slides: EmptyRDD
                else if markers.all (· == mE) then emptyInst             -- union of EmptyRDDs only
                else mk [ (r.filter fun p => !(p == mE || p == mR)).flatten ]]   -- parallelize(all collected)
  | "state" => do
      let upd ← need (updFn (← getStr j "upd")) "updFn"
      return [.fold (← ref "prev") fun batch st =>
        let b := (toPairs (norm batch)).flatten
        let s := (toPairs (norm st)).flatten
        mk [ (stateStep upd b s).map fun (k, v) => Val.tup [k, v] ]]
  | "union" | "join" | "leftOuterJoin" | "rightOuterJoin" | "fullOuterJoin" | "cogroup" => do
      return [.tr2 (← ref "a") (← ref "b") (← binaryN kind)]
  | _ => do return [.tr (← ref "prev") (← unaryN j kind)]

/-- monitored-directory source: successive polls of `FileStream.get` -/
def handleFiles (j : Json) : Except String Json := do
  let done0 ← (fromJson? (← j.getObjVal? "done0") : Except String (List String))
  let ls ← (fromJson? (← j.getObjVal? "listings") : Except String (List (List String)))
  let rec go (f : FileSrc) : Nat → List Json
    | 0 => []
    | k + 1 => let (r, f') := f.get; (match r with | some xs => toJson xs | none => Json.null) :: go f' k
  return Json.mkObj [("model", Json.arr (go ⟨done0, ls⟩ ls.length).toArray)]

def handle (j : Json) : Json := run do
  if (j.getObjValAs? String "op").toOption == some "files" then return (← handleFiles j)
  let srcs ← (← getArr j "sources").mapM fun s => do
    let q ← (← getArr s "queue").mapM fun b => do
      let arr ← (fromJson? b : Except String (Array Json))
      let vs ← arr.toList.mapM Val.ofJson
      return (mk [vs] : R)                               -- queued data is parallelized into ONE partition
    let one ← getBool s "oneAtATime"
    let d ← match s.getObjVal? "default" with
      | .ok .null => pure (some emptyInst)              -- `None ↦ EmptyRDD(context)`
      | .ok v => do
          let arr ← (fromJson? v : Except String (Array Json))
          let vs ← arr.toList.mapM Val.ofJson
          pure (some (mk [vs] : R))
      | .error _ => pure (some emptyInst)
    -- with oneAtATime = false the queued python lists are concatenated BEFORE parallelize: one partition
    let q' : List R := if one then q else (match q with | [] => [] | _ => [mk [ (q.map fun r => (norm r).flatten).flatten ]])
    return ({ queue := q', oneAtATime := true, default := d } : QueueSrc P)
  let mut nodes : List (Node P) := []
  let mut rm : Array Nat := #[]
  for nj in (← getArr j "nodes") do
    let ns ← parseNode rm nodes.length nj
    nodes := nodes ++ ns
    rm := rm.push (nodes.length - 1)          -- the harness' node = the LAST model node it expands to
  let ticks ← getNat j "ticks"
  -- (harness index, model index) of the output actions
  let outs : List (Nat × Nat) := ((← getArr j "nodes").zipIdx.filterMap fun (nj, i) =>
    match nj.getObjValAs? String "kind" with | .ok "out" => some (i, rm[i]!) | _ => none)
  let mut net : Net P := ⟨nodes, List.replicate nodes.length NState.init, srcs, List.replicate srcs.length 0⟩
  let mut res : Array Json := #[]
  for t in List.range ticks do
    net := tick (t + 1) net
    let captured := outs.map fun (h, i) => Json.mkObj [("node", toJson h), ("batch", toJson (norm (net.getSt i).rdd).flatten)]
    if (outs.any fun (_, i) => (net.getSt i).rdd.any (·.any hasErr)) then throw "ill-typed network"
    res := res.push (Json.mkObj [("outs", Json.arr captured.toArray), ("polls", toJson net.polls),
      ("evals", toJson (net.st.map (·.evals)))])
  return Json.mkObj [("model", Json.arr res)]

end Driver.C10
