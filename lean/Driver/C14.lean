import Driver.Util
import Driver.C12
import PysparklingVerif.Model.Agg
open Lean PysparklingVerif.Sql PysparklingVerif.Agg

namespace Driver.C14
open Driver.C12 (svOf svTo)

def ratTo (q : Rat) : Json := Json.arr #[toJson q.num, toJson q.den]
def optSv : Option SV → Json
  | none => Json.mkObj [("has", false)]
  | some v => Json.mkObj [("has", true), ("v", svTo v)]
def optRat : Option Rat → Json
  | none => Json.null
  | some q => ratTo q

def stTo (s : St) : Json := Json.mkObj [
  ("rows", toJson s.rows), ("n", toJson s.n), ("sum", ratTo s.sum), ("m2", ratTo s.m2), ("m3", ratTo s.m3),
  ("m4", ratTo s.m4), ("min", optSv s.minV), ("max", optSv s.maxV), ("items", Json.arr (s.items.map svTo).toArray),
  ("distinct", Json.arr (s.distinct.map svTo).toArray),
  ("first", optSv s.first), ("firstNN", optSv s.firstNN), ("last", optSv s.last), ("lastNN", optSv s.lastNN),
  ("avg", optRat s.avg), ("varPop", optRat s.varPop), ("varSamp", optRat s.varSamp)]

def svList (j : Json) (k : String) : Except String (List SV) := do
  let a ← getArr j k
  a.mapM svOf

def keyTo (k : List (Option SV)) : Json :=
  Json.arr (k.map fun o => match o with | none => Json.mkObj [("g", true)] | some v => svTo v).toArray

def groupsTo (g : SubGroups) : Json :=
  Json.arr (g.map fun e => Json.mkObj [("k", keyTo e.1), ("st", Json.arr (e.2.map stTo).toArray)]).toArray

def plain (g : Groups) : SubGroups := g.map fun e => (e.1.map some, e.2)

def handle (j : Json) : Json := run do
  let ncols ← getNat j "ncols"
  let mode ← getStr j "mode"
  let partsJ ← getArr j "parts"
  let sub := fun (g : Groups) => match mode with
    | "groupby" => Except.ok (plain g)
    | "rollup" => .ok (addSubtotals rollupKeys g)
    | "cube" => .ok (addSubtotals cubeKeys g)
    | _ => .error "mode"
  match j.getObjVal? "pvs" with
  | .ok _ =>
    let pvsRaw ← svList j "pvs"
    let parts ← partsJ.mapM fun p => do
      let arr ← (fromJson? p : Except String (Array Json))
      arr.toList.mapM fun r => do
        let k ← svList r "k"; let v ← svList r "v"; let pv ← svOf (← r.getObjVal? "pv")
        if v.length ≠ ncols then throw "row width"
        return (k, pv, v)
    -- `auto`: the pivot values are the sorted distinct non-null values of the pivot column
    let auto ← getBool j "auto"
    let pvs := if auto then pivotValues (parts.flatten.map (·.2.1)) else pvsRaw
    let g := aggregatePivot ncols pvs parts
    let gs := aggregatePivotSpec ncols pvs parts.flatten
    return Json.mkObj [("groups", groupsTo (← sub g)), ("pvs", Json.arr (pvs.map svTo).toArray), ("spec_equal", decide (g = gs))]
  | .error _ =>
    let parts ← partsJ.mapM fun p => do
      let arr ← (fromJson? p : Except String (Array Json))
      arr.toList.mapM fun r => do
        let k ← svList r "k"; let v ← svList r "v"
        if v.length ≠ ncols then throw "row width"
        return (k, v)
    let g := aggregate ncols parts
    let gs := aggregateSpec ncols parts.flatten
    return Json.mkObj [("groups", groupsTo (← sub g)), ("spec_equal", decide (g = gs))]

end Driver.C14
