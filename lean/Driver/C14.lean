import Driver.Util
import Driver.C12
import PysparklingVerif.Model.Agg
open Lean PysparklingVerif.Sql PysparklingVerif.Agg

namespace Driver.C14
open Driver.C12 (svOf svTo)

def ratTo (q : Rat) : Json := Json.arr #[toJson q.num, toJson q.den]
def optSv : Option SV → Json
  | none => Json.mkObj [("has", false)]
  | some v => Json.mkObj [("has", true), ("v", svTo v)]
def optRat : Option Rat → Json
  | none => Json.null
  | some q => ratTo q

def stTo (s : St) : Json := Json.mkObj [
  ("rows", toJson s.rows), ("n", toJson s.n), ("sum", ratTo s.sum), ("m2", ratTo s.m2), ("m3", ratTo s.m3),
  ("m4", ratTo s.m4), ("min", optSv s.minV), ("max", optSv s.maxV), ("items", Json.arr (s.items.map svTo).toArray),
  ("distinct", Json.arr (s.distinct.map svTo).toArray),
  ("first", optSv s.first), ("firstNN", optSv s.firstNN), ("last", optSv s.last), ("lastNN", optSv s.lastNN),
  ("avg", optRat s.avg), ("varPop", optRat s.varPop), ("varSamp", optRat s.varSamp)]

def svList (j : Json) (k : String) : Except String (List SV) := do
  let a ← getArr j k
  a.mapM svOf

def keyTo (k : List (Option SV)) : Json :=
  Json.arr (k.map fun o => match o with | none => Json.mkObj [("g", true)] | some v => svTo v).toArray

def groupsTo (g : SubGroups) : Json :=
  Json.arr (g.map fun e => Json.mkObj [("k", keyTo e.1), ("st", Json.arr (e.2.map stTo).toArray)]).toArray

def keysOf (mode : String) : Except String (List SV → List (List (Option SV))) :=
  match mode with
  | "groupby" => .ok groupByKeys
  | "rollup" => .ok rollupKeys
  | "cube" => .ok cubeKeys
  | _ => .error "mode"

def handle (j : Json) : Json := run do
  let ncols ← getNat j "ncols"
  let ko ← keysOf (← getStr j "mode")
  let partsJ ← getArr j "parts"
  match j.getObjVal? "pvs" with
  | .ok _ =>
    let pvsRaw ← svList j "pvs"
    let parts ← partsJ.mapM fun p => do
      let arr ← (fromJson? p : Except String (Array Json))
      arr.toList.mapM fun r => do
        let k ← svList r "k"; let v ← svList r "v"; let pv ← svOf (← r.getObjVal? "pv")
        if v.length ≠ ncols then throw "row width"
        return (k, pv, v)
    -- `auto`: the pivot values are the sorted distinct non-null values of the pivot column
    let auto ← getBool j "auto"
    let pvs := if auto then pivotValues (parts.flatten.map (·.2.1)) else pvsRaw
    let g := aggregatePivot ncols pvs (parts.map (expandPivot ko))
    let gs := aggregatePivotSpec ncols pvs (expandPivot ko parts.flatten)
    return Json.mkObj [("groups", groupsTo g), ("pvs", Json.arr (pvs.map svTo).toArray), ("spec_equal", decide (g = gs))]
  | .error _ =>
    let parts ← partsJ.mapM fun p => do
      let arr ← (fromJson? p : Except String (Array Json))
      arr.toList.mapM fun r => do
        let k ← svList r "k"; let v ← svList r "v"
        if v.length ≠ ncols then throw "row width"
        return (k, v)
    let g := aggregateSub ko ncols parts
    let gs := aggregateSpec ncols (expand ko parts.flatten)
    -- SPEC of every subtotal: the rows whose key agrees with it on the columns that are not rolled up, in row order
    let direct := g.all fun e =>
      e.2 == (List.range ncols).map fun c => summarize ((parts.flatten.filter fun r => matchesKey e.1 r.1).map fun r => r.2.getD c .null)
    return Json.mkObj [("groups", groupsTo g), ("spec_equal", decide (g = gs) && direct)]

end Driver.C14
