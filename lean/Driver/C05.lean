import Driver.Util
import PysparklingVerif.Model.CacheTimed
import PysparklingVerif.Model.FuncLib
open Lean PysparklingVerif PysparklingVerif.Cache PysparklingVerif.FuncLib

namespace Driver.C05

def need {α} (o : Option α) (what : String) : Except String α :=
  match o with | some a => .ok a | none => .error ("unknown " ++ what)

structure Lineage where
  srcs : List (List Val)
  stages : List (Stage Val)        -- source side first (reversed before use)

/-- stage JSON: {"op":"map","f":..} / {"op":"filter"..} / {"op":"flatMap"..} / {"persist": id}; tag = given "tag" -/
def parseStage (j : Json) : Except String (Stage Val) := do
  match j.getObjValAs? Nat "persist" with
  | .ok id => return .persist id
  | .error _ =>
    let op ← getStr j "op"
    let tag ← getNat j "tag"
    match op with
    | "map" => do let f ← need (mapFn (← getStr j "f")) "mapFn"; return .op tag (·.map f)
    | "filter" => do let p ← need (predFn (← getStr j "f")) "predFn"; return .op tag (·.filter p)
    | "flatMap" => do let f ← need (flatFn (← getStr j "f")) "flatFn"; return .op tag (·.flatMap f)
    | _ => throw "stage"

/-- partitions pulled by take(m): in order until `m` outputs were obtained -/
def touchedBy (m : Nat) : List Nat → Nat → Nat → List Nat
  | [], _, _ => []
  | s :: rest, i, acc => if acc ≥ m then [] else i :: touchedBy m rest (i + 1) (acc + s)

def keysJson (c : Store Val) : Json := toJson (c.map fun (k, _) => [k.1, k.2])

def handle (j : Json) : Json := run do
  let lins ← (← getArr j "lineages").mapM fun l => do
    let srcs ← (← getArr l "src").mapM fun p => do
      let arr ← (fromJson? p : Except String (Array Json)); arr.toList.mapM Val.ofJson
    let st ← (← getArr l "stages").mapM parseStage
    return ({ srcs := srcs, stages := st } : Lineage)
  let timeout := (j.getObjValAs? Nat "timeout").toOption
  let mut t : Timed Val := ⟨[], [], timeout.getD 0⟩
  let mut now : Nat := 1000
  let mut outs : Array Json := #[]
  for step in (← getArr j "history") do
    let kind ← getStr step "kind"
    match kind with
    | "tick" => now := now + (← getNat step "dt"); outs := outs.push Json.null
    | "gc" =>
      if timeout.isSome then t := t.gc now
      outs := outs.push (Json.mkObj [("keys", keysJson t.store)])
    | "unpersist" =>
      let l ← need (lins[(← getNat step "lineage")]?) "lineage"
      let upto ← getNat step "upto"
      match (l.stages.take upto).reverse with
      | .persist id :: up =>
        t := t.unpersist id l.srcs.length
        -- contents of the dataset handed back by unpersist()
        let back := l.srcs.map fun s => plain s up
        outs := outs.push (Json.mkObj [("keys", keysJson t.store), ("contents", toJson back)])
      | _ => throw "unpersist: not a persist stage"
    | "collect" | "take" =>
      let l ← need (lins[(← getNat step "lineage")]?) "lineage"
      let upto ← getNat step "upto"
      let stages := (l.stages.take upto).reverse
      let n := l.srcs.length
      -- which partitions are touched: all (collect) or the minimal prefix holding `m` outputs (take)
      let touched : List Nat ←
        if kind == "collect" then pure (List.range n)
        else do
          let m ← getNat step "n"
          let sizes := l.srcs.map fun s => (plain s stages).length
          pure (touchedBy m sizes 0 0)
      let (ds, t', log) :=
        if timeout.isSome then runActionT now l.srcs stages touched t
        else
          let (ds, c', log) := runAction l.srcs stages touched t.store
          (ds, { t with store := c' }, log)
      t := t'
      let res := if kind == "collect" then toJson ds else toJson (ds.flatten.take ((step.getObjValAs? Nat "n").toOption.getD 0))
      if ds.any (·.any hasErr) then throw "ill-typed lineage"
      outs := outs.push (Json.mkObj [("result", res), ("log", toJson (log.map fun r => [r.tag, r.part])),
        ("keys", keysJson t.store), ("spec", toJson (touched.map fun i => plain (l.srcs.getD i []) stages))])
    | _ => throw "kind"
  return Json.mkObj [("model", Json.arr outs)]

end Driver.C05
