import Driver.Util
import Driver.C12
import PysparklingVerif.Model.Join
open Lean PysparklingVerif.Sql PysparklingVerif.Join

namespace Driver.C13

def howOf (s : String) : Except String How :=
  match s with
  | "inner" => .ok .inner | "left" => .ok .left | "right" => .ok .right | "full" => .ok .full
  | "leftsemi" => .ok .semi | "leftanti" => .ok .anti | _ => .error "how"

def partsOf (j : Json) (k : String) : Except String (List (List Row)) := do
  let a ← getArr j k
  a.mapM fun p => do
    let arr ← (fromJson? p : Except String (Array Json))
    arr.toList.mapM fun r => do
      let ra ← (fromJson? r : Except String (Array Json))
      ra.toList.mapM Driver.C12.svOf

def out (rs : List Row) : Json := Json.arr (rs.map fun r => Json.arr (r.map Driver.C12.svTo).toArray).toArray

def handle (j : Json) : Json := run do
  let ln ← Driver.C12.strList j "lnames"; let rn ← Driver.C12.strList j "rnames"
  let l ← partsOf j "l"; let r ← partsOf j "r"
  let h ← getStr j "how"
  if h == "cross" then
    let rows := crossJoin l r
    return Json.mkObj [("names", toJson (ln ++ rn)), ("rows", out rows), ("spec", out rows)]
  let how ← howOf h
  let on ← Driver.C12.strList j "on"
  return Json.mkObj [("names", toJson (joinNames how ln rn on)), ("rows", out (dfJoin how ln rn on l r)),
    ("spec", out (specJoin how ln rn on l.flatten r.flatten))]

end Driver.C13
