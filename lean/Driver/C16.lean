import Driver.Util
import Driver.C17
import PysparklingVerif.Model.Sample
import PysparklingVerif.Model.Val
open Lean PysparklingVerif PysparklingVerif.Rdd PysparklingVerif.Sample

namespace Driver.C16

def layout (j : Json) (k : String) : Except String (Parts Val) := do
  let a ← getArr j k
  a.mapM fun p => do
    let arr ← (fromJson? p : Except String (Array Json))
    arr.toList.mapM Val.ofJson

def drawsOf (j : Json) (k : String) : Except String (List (List Rat)) := do
  let a ← getArr j k
  a.mapM Driver.C17.ratList

/-- is `out` obtained from `xs` by repeating every element some number (≥ 0) of times, in order? -/
def isExpansion : List Val → List Val → Bool
  | [], out => out.isEmpty
  | x :: xs, out => isExpansion xs (out.dropWhile (· == x))

def isSubMultiset (a b : List Val) : Bool :=
  a.all fun x => a.count x ≤ b.count x

def handle (j : Json) : Json := run do
  let op ← getStr j "op"
  match op with
  | "sample" =>
    let f ← Driver.C17.ratOf (← j.getObjVal? "f")
    let ps ← layout j "parts"; let d ← drawsOf j "draws"
    return Json.mkObj [("model", toJson (sampleParts f d ps))]
  | "sampleByKey" =>
    let ps ← layout j "parts"; let d ← drawsOf j "draws"
    let frs ← (← getArr j "fractions").mapM fun e => do
      let a ← (fromJson? e : Except String (Array Json))
      match a.toList with
      | [k, q] => do return ((← Val.ofJson k), (← Driver.C17.ratOf q))
      | _ => throw "fraction"
    let fr : Val → Option Rat := fun k => frs.lookup k
    let pp ← ps.mapM fun p => p.mapM fun | .tup [k, v] => Except.ok (k, v) | _ => .error "pair"
    let out := sampleByKeyParts fr d pp
    return Json.mkObj [("model", toJson (out.map fun p => p.map fun (k, v) => Val.tup [k, v]))]
  | "split" =>
    let b ← Driver.C17.ratList (← j.getObjVal? "bounds")
    let d ← Driver.C17.ratList (← j.getObjVal? "draws")
    let xs ← (← getArr j "xs").mapM Val.ofJson
    return Json.mkObj [("model", toJson (randomSplit b d xs))]
  | "expansion" =>
    let ps ← layout j "parts"; let out ← layout j "out"
    let ok := ps.length == out.length && (ps.zip out).all fun (p, o) => isExpansion p o
    return Json.mkObj [("model", ok)]
  | "members" =>
    let xs ← (← getArr j "xs").mapM Val.ofJson
    let out ← (← getArr j "out").mapM Val.ofJson
    return Json.mkObj [("model", out.all (xs.contains ·)), ("submultiset", isSubMultiset out xs)]
  | "takeSampleNoRepl" =>
    let ps ← layout j "parts"; let num ← getNat j "num"
    let perm0 ← (fromJson? (← j.getObjVal? "perm0") : Except String (List Nat))
    match takeSample false num ps perm0 [] (fun _ => []) with
    | some r => return Json.mkObj [("model", toJson r)]
    | none => return Json.mkObj [("model", Json.null)]
  | _ => throw "op"

end Driver.C16
