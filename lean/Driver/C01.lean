import Driver.Util
import PysparklingVerif.Model.Pipeline
import PysparklingVerif.Model.FuncLib
open Lean PysparklingVerif PysparklingVerif.Rdd PysparklingVerif.FuncLib

namespace Driver.C01

def getVals (j : Json) (k : String) : Except String (List Val) := do
  let a ← getArr j k
  a.mapM Val.ofJson

def need {α} (o : Option α) (what : String) : Except String α :=
  match o with | some a => .ok a | none => .error ("unknown " ++ what)

def optNat (j : Json) (k : String) : Except String (Option Nat) :=
  match j.getObjVal? k with
  | .ok .null => .ok none
  | .ok v => do let n ← fromJson? v; return some n
  | .error _ => .ok none

/-- parse one transformation; Bool = partition-independent (`Op.Indep`, decided syntactically) -/
def parseOp (j : Json) : Except String (Op Val × Bool) := do
  let op ← getStr j "op"
  match op with
  | "map" => do let f ← need (mapFn (← getStr j "f")) "mapFn"; return (.map f, true)
  | "filter" => do let p ← need (predFn (← getStr j "f")) "predFn"; return (.filter p, true)
  | "flatMap" => do let f ← need (flatFn (← getStr j "f")) "flatFn"; return (.flatMap f, true)
  | "mapValues" => do
      let f ← need (mapFn (← getStr j "f")) "mapFn"
      return (.map fun | .tup [k, v] => .tup [k, f v] | _ => errV, true)
  | "flatMapValues" => do
      let f ← need (flatFn (← getStr j "f")) "flatFn"
      return (.flatMap fun | .tup [k, v] => (f v).map (pair k) | _ => [errV], true)
  | "keyBy" => do let f ← need (mapFn (← getStr j "f")) "mapFn"; return (.map fun e => pair (f e) e, true)
  | "keys" => return (.map fun | .tup [k, _] => k | _ => errV, true)
  | "values" => return (.map fun | .tup [_, v] => v | _ => errV, true)
  | "mapPartitions" => do
      let (g, hom) ← need (partFn (← getStr j "f")) "partFn"
      return (.mapPartitions g, hom)
  | "glom" => return (.glom Val.lst, false)
  | "union" => do
      let xs ← getVals j "xs"; let n ← getNat j "n"
      return (.union (parallelize xs n), true)
  | "zip" => do
      let xs ← getVals j "xs"; let n ← getNat j "n"
      return (.zip (parallelize xs n) pair, true)
  | "zipWithIndex" => return (.zipWithIndex fun x i => pair x (.int i), true)
  | "sortBy" => do
      let f ← need (mapFn (← getStr j "f")) "mapFn"
      let asc ← getBool j "asc"
      let m ← optNat j "m"
      return (.sortBy f le asc m, true)
  | "coalesce" => do
      let m ← getNat j "m"
      if m = 0 then throw "coalesce 0" else return (.coalesce m, true)
  | "repartition" => do let m ← getNat j "m"; return (.repartition m, true)
  | _ => throw ("op " ++ op)

def pairsJson (kvs : List (Val × Nat)) : Json :=
  Json.arr (kvs.map fun (v, c) => Json.arr #[toJson v, toJson c]).toArray

def asPair : Val → Except String (Val × Val)
  | .tup [k, v] => .ok (k, v)
  | _ => .error "not a pair"

def exc (s : String) : Json := Json.mkObj [("exc", s)]

def identityPairs : List (String × Val) :=
  [("add", .int 0), ("add", .str ""), ("add", .tup []), ("add", .lst []), ("mul", .int 1),
   ("extend", .lst []), ("maxOpt", .none)]

def aggTable : List (String × (Val × String × String)) :=
  [("sumCount", (.tup [.int 0, .int 0], "sumCountSeq", "sumCountComb")),
   ("appendExtend", (.lst [], "append", "extend")),
   ("addAdd", (.int 0, "add", "add")),
   ("maxOpt", (.none, "maxOpt", "maxOpt")),
   ("tupMut", (.tup [.lst []], "tupAppend", "tupExtend")),
   ("nestMut", (.lst [.lst [], .int 0], "nestAppend", "nestExtend"))]

/-- run an action on the partitioned model and on the plain list; third component: does the
list SPEC apply (algebraic side conditions of reduce/fold/aggregate)? -/
def runAction (a : Json) (ps : Parts Val) (xs : List Val) : Except String (Json × Json × Bool) := do
  let name ← getStr a "name"
  let one : Parts Val := [xs]
  match name with
  | "collect" => return (toJson (collect ps), toJson xs, true)
  | "toLocalIterator" => return (toJson (toLocalIterator ps), toJson xs, true)
  | "count" => return (toJson (count ps), toJson xs.length, true)
  | "first" =>
      let f := fun (o : Option Val) => match o with | some v => toJson v | none => exc "empty"
      return (f (first ps), f xs.head?, true)
  | "take" => do let n ← getNat a "n"; return (toJson (take n ps), toJson (xs.take n), true)
  | "sum" => do
      let ints := fun (l : List Val) => l.mapM fun | .int i => Except.ok i | _ => .error "sum: non-int"
      let pi ← ps.mapM ints; let li ← ints xs
      return (toJson (sumInt pi), toJson li.sum, true)
  | "reduce" => do
      let fname ← getStr a "f"
      let f ← need (binFn fname) "binFn"
      let r := fun (o : Option Val) => match o with | some v => toJson v | none => exc "ValueError"
      return (r (reduce f ps), r (reduce f one), binAssoc fname)
  | "fold" => do
      let fname ← getStr a "f"
      let f ← need (binFn fname) "binFn"
      let z ← Val.ofJson (← a.getObjVal? "z")
      return (toJson (fold z f ps), toJson (xs.foldl f z), binAssoc fname && identityPairs.contains (fname, z))
  | "aggregate" => do
      let (z, s, c) ← need (aggTable.lookup (← getStr a "agg")) "agg"
      let seq ← need (binFn s) "binFn"; let comb ← need (binFn c) "binFn"
      return (toJson (aggregate z seq comb ps), toJson (xs.foldl seq z), true)
  | "countByValue" =>
      return (pairsJson (countByValue ps), pairsJson (countByValue one), true)
  | "top" => do
      let n ← getNat a "n"
      let key ← need (mapFn (← getStr a "key")) "mapFn"
      return (toJson (top key le n ps), toJson ((pySorted key le false xs).take n), true)
  | "takeOrdered" => do
      let n ← getNat a "n"
      let key ← need (mapFn (← getStr a "key")) "mapFn"
      return (toJson (takeOrdered key le n ps), toJson ((pySorted key le true xs).take n), true)
  | "lookup" => do
      let k ← Val.ofJson (← a.getObjVal? "k")
      let pp ← ps.mapM (·.mapM asPair); let lp ← xs.mapM asPair
      return (toJson (lookup k pp), toJson (lp.filterMap fun kv => if kv.1 = k then some kv.2 else none), true)
  | "collectAsMap" => do
      let pp ← ps.mapM (·.mapM asPair); let lp ← xs.mapM asPair
      let out := fun (d : List (Val × Val)) => Json.arr (d.map fun (k, v) => Json.arr #[toJson k, toJson v]).toArray
      return (out (collectAsMap pp), out (pyDict lp), true)
  | "min" | "max" => do
      let ints := fun (l : List Val) => l.mapM fun | .int i => Except.ok i | _ => .error "min/max: non-int"
      let li ← ints (flat ps); let li' ← ints xs
      let pick := fun (l : List Int) => match l with
        | [] => exc "empty"
        | x :: r => toJson (r.foldl (fun a b => if name == "min" then (if b < a then b else a) else (if b > a then b else a)) x)
      return (pick li, pick li', true)
  | "mean" => do
      let ints := fun (l : List Val) => l.mapM fun | .int i => Except.ok i | _ => .error "mean: non-int"
      let li ← ints (flat ps); let li' ← ints xs
      let mean := fun (l : List Int) => if l.isEmpty then exc "empty" else Json.arr #[toJson l.sum, toJson l.length]
      return (mean li, mean li', true)
  | _ => throw ("action " ++ name)

def valsHaveErr (ps : Parts Val) : Bool := ps.any (·.any hasErr)

def handle (j : Json) : Json := run do
  let xs ← getVals j "xs"
  let n ← getNat j "n"
  let opsJ ← getArr j "ops"
  let parsed ← opsJ.mapM parseOp
  let ops := parsed.map (·.1)
  let indep := parsed.all (·.2)
  let ps := runAll ops (parallelize xs n)
  let ls := runListAll ops xs
  if valsHaveErr ps || ls.any hasErr then throw "ill-typed pipeline"
  let a ← j.getObjVal? "action"
  let (m, s, ok) ← runAction a ps ls
  return Json.mkObj [("model", m), ("spec", if indep && ok then s else Json.null),
    ("spec_applies", indep && ok), ("layout", toJson ps)]

end Driver.C01
