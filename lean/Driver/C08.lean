import Driver.Util
import PysparklingVerif.Model.Save
open Lean PysparklingVerif.TextIO PysparklingVerif.Save

namespace Driver.C08

def codecName : Codec → String
  | .base => "base" | .noCodec => "none" | .tar => "tar" | .targz => "tar.gz" | .tarbz2 => "tar.bz2"
  | .gz => "gz" | .zip => "zip" | .bz2 => "bz2" | .lzma => "lzma" | .sevenz => "7z"

def strs (j : Json) (k : String) : Except String (List Str) := do
  let a ← getArr j k
  a.mapM fun e => do let s ← (fromJson? e : Except String String); return s.toList

def getParts (j : Json) (k : String) : Except String (List (List Str)) := do
  let a ← getArr j k
  a.mapM fun p => do
    let arr ← (fromJson? p : Except String (Array Json))
    arr.toList.mapM fun e => do let s ← (fromJson? e : Except String String); return s.toList

def bytesOf (j : Json) (k : String) : Except String (List UInt8) := do
  let a ← getArr j k
  a.mapM fun e => do let n ← (fromJson? e : Except String Nat); return n.toUInt8

def bytesJ (b : List UInt8) : Json := toJson (b.map (·.toNat))

/-- struct.pack of an unsigned integer of `pl` bytes -/
def packN (pl : Nat) (little : Bool) (n : Nat) : List UInt8 :=
  let le := (List.range pl).map fun i => ((n >>> (8 * i)) % 256).toUInt8
  if little then le else le.reverse
def unpackN (little : Bool) (b : List UInt8) : Nat :=
  let le := if little then b else b.reverse
  (le.zipIdx.map fun (x, i) => x.toNat <<< (8 * i)).sum

def fsJson (fs : FS) : Json :=
  Json.arr (fs.files.map fun (n, c) =>
    Json.mkObj [("name", String.ofList n), ("codec", codecName c.codec), ("text", String.ofList c.text)]).toArray

def handle (j : Json) : Json := run do
  let op ← getStr j "op"
  match op with
  | "splitlines" =>
    let s ← getStr j "text"
    return Json.mkObj [("model", toJson ((splitlines s.toList).map String.ofList))]
  | "codec" =>
    let s ← getStr j "name"
    return Json.mkObj [("model", codecName (getCodec s.toList)), ("suffix", String.ofList (codecSuffix s.toList))]
  | "fixed" =>
    let L ← getNat j "L"; let d ← bytesOf j "data"
    if L = 0 then throw "L = 0"
    return Json.mkObj [("model", Json.arr ((fixedChunks L d (d.length + 1)).map bytesJ).toArray)]
  | "var" =>
    let pl ← getNat j "pl"; let little ← getBool j "little"; let d ← bytesOf j "data"
    return Json.mkObj [("model", Json.arr ((varChunks pl (unpackN little) d (d.length + 1)).map bytesJ).toArray)]
  | "frame" =>
    let pl ← getNat j "pl"; let little ← getBool j "little"
    let rs ← (← getArr j "records").mapM fun r => do
      let a ← (fromJson? r : Except String (Array Nat)); return a.toList.map (·.toUInt8)
    return Json.mkObj [("model", bytesJ (frame (packN pl little) rs))]
  | "save" =>
    -- C08 (fault-free) and C09 (fault plans)
    let path := (← getStr j "path").toList
    let parts ← getParts j "parts"
    let maxR ← getNat j "max"
    let preFiles ← strs j "pre_files"
    let preDirs ← strs j "pre_dirs"
    let wfails ← (fromJson? (← j.getObjVal? "wfail") : Except String (Array Nat))
    let wfrom := (j.getObjValAs? Nat "wfail_from").toOption
    let wfail : Nat → Bool := fun k => wfails.contains k || (match wfrom with | some f => k ≥ f | none => false)
    -- cfail: array of [partition, failing attempts] (attempt a fails iff a < count)
    let cf ← (fromJson? (← j.getObjVal? "cfail") : Except String (Array (Array Nat)))
    let cfail : Nat → Nat → Bool := fun i a => cf.any fun e => e.size == 2 && e[0]! == i && a < e[1]!
    let fs0 : FS := ⟨preFiles.map fun n => (n, ⟨.base, "old".toList⟩), preDirs⟩
    -- torn: the failing write attempts that leave a partially written file behind
    let torns := match j.getObjVal? "torn" with
      | .ok t => ((fromJson? t : Except String (Array Nat)).toOption.getD #[])
      | .error _ => #[]
    let torn : Nat → Bool := fun k => torns.contains k
    let (fs1, r) := saveTextT fs0 path parts maxR wfail torn cfail
    if torns.isEmpty && (fs1, r) != saveText fs0 path parts maxR wfail cfail then throw "saveTextT without torn writes differs from saveText"
    let resOf := fun (r : SaveResult) => match r with | .ok => "ok" | .alreadyExists => "FileAlreadyExists" | .failed => "failed"
    let res := resOf r
    -- an optional second, fault-free save of other data to the same path
    let second ← match j.getObjVal? "second" with
      | .ok _ => do
          let p2 ← getParts j "second"
          let (fs2, r2) := saveText fs1 path p2 maxR (fun _ => false) (fun _ _ => false)
          pure (Json.mkObj [("result", resOf r2), ("files", fsJson fs2), ("unchanged", decide (fs2 = fs1))])
      | .error _ => pure Json.null
    let rd := match readDir fs1 path with
      | some ls => toJson (ls.map String.ofList)
      | none => Json.null
    return Json.mkObj [("result", res), ("files", fsJson fs1), ("dirs", toJson (fs1.dirs.map String.ofList)),
      ("readDir", rd), ("unchanged", decide (fs1 = fs0)), ("second", second)]
  | _ => throw "op"

end Driver.C08
