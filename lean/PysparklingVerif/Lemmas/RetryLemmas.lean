/-
  Helper lemmas for C04 about the retry / context-lock model (Model/Retry.lean).
-/
import PysparklingVerif.Model.Retry
namespace PysparklingVerif.Retry

variable {α : Type}

/-- one step of `runTask` when the current attempt succeeds -/
theorem runTask_succ_ok (maxR : Nat) (outs : Nat → Outcome α) (fuel attempt : Nat) (v : α)
    (h : outs attempt = .ok v) :
    runTask maxR outs (fuel + 1) attempt = ⟨.ok v, attempt + 1⟩ := by
  simp [runTask, h]

/-- one step of `runTask` when the current attempt fails -/
theorem runTask_succ_fail (maxR : Nat) (outs : Nat → Outcome α) (fuel attempt : Nat) (e : Exc)
    (h : outs attempt = .fail e) :
    runTask maxR outs (fuel + 1) attempt =
      if attempt + 1 = maxR then ⟨.error e, attempt + 1⟩ else runTask maxR outs fuel (attempt + 1) := by
  simp [runTask, h]

/-- central lemma, success: the first successful attempt `j < maxR` decides the result -/
theorem runTask_first_ok (maxR : Nat) (outs : Nat → Outcome α) :
    ∀ (fuel attempt j : Nat) (v : α), j < maxR → attempt ≤ j → j < attempt + fuel →
      (∀ i, attempt ≤ i → i < j → ∃ e, outs i = .fail e) → outs j = .ok v →
      runTask maxR outs fuel attempt = ⟨.ok v, j + 1⟩ := by
  intro fuel
  induction fuel with
  | zero => intro attempt j v _ h1 h2; omega
  | succ fuel ih =>
    intro attempt j v hj hle hlt hfail hok
    by_cases hEq : attempt = j
    · subst hEq
      exact runTask_succ_ok maxR outs fuel attempt v hok
    · have hlt' : attempt < j := by omega
      obtain ⟨e, he⟩ := hfail attempt (Nat.le_refl _) hlt'
      rw [runTask_succ_fail maxR outs fuel attempt e he]
      have hne : attempt + 1 ≠ maxR := by omega
      rw [if_neg hne]
      exact ih (attempt + 1) j v hj (by omega) (by omega)
        (fun i h1 h2 => hfail i (by omega) h2) hok

/-- central lemma, exhaustion: if every remaining attempt fails, the last attempt's exception surfaces -/
theorem runTask_all_fail (maxR : Nat) (outs : Nat → Outcome α) :
    ∀ (fuel attempt : Nat), attempt < maxR → maxR ≤ attempt + fuel →
      (∀ i, attempt ≤ i → i < maxR → ∃ e, outs i = .fail e) →
      ∃ e, outs (maxR - 1) = .fail e ∧ runTask maxR outs fuel attempt = ⟨.error e, maxR⟩ := by
  intro fuel
  induction fuel with
  | zero => intro attempt h1 h2; omega
  | succ fuel ih =>
    intro attempt hlt hle hfail
    obtain ⟨e, he⟩ := hfail attempt (Nat.le_refl _) hlt
    rw [runTask_succ_fail maxR outs fuel attempt e he]
    by_cases hEq : attempt + 1 = maxR
    · rw [if_pos hEq]
      refine ⟨e, ?_, ?_⟩
      · have : maxR - 1 = attempt := by omega
        rw [this]; exact he
      · rw [hEq]
    · rw [if_neg hEq]
      exact ih (attempt + 1) (by omega) (by omega) (fun i h1 h2 => hfail i (by omega) h2)

theorem runTask_failsThenOk (maxR k : Nat) (e : Exc) (v : α) (hk : k < maxR) :
    runTask maxR (failsThenOk k e v) maxR 0 = ⟨.ok v, k + 1⟩ := by
  apply runTask_first_ok maxR _ maxR 0 k v hk (Nat.zero_le _) (by omega)
  · intro i _ hi
    exact ⟨e, by simp [failsThenOk, hi]⟩
  · simp [failsThenOk]

theorem runTask_alwaysFails (maxR : Nat) (hm : 1 ≤ maxR) (e : Nat → Exc) :
    runTask (α := α) maxR (alwaysFails e) maxR 0 = ⟨.error (e (maxR - 1)), maxR⟩ := by
  obtain ⟨e', h1, h2⟩ := runTask_all_fail (α := α) maxR (alwaysFails e) maxR 0 (by omega) (by omega)
    (fun i _ _ => ⟨e i, rfl⟩)
  simp only [alwaysFails, Outcome.fail.injEq] at h1
  rw [h2, h1]

theorem runTasks_cons_ok (maxR : Nat) (p : Nat → Outcome α) (ps : List (Nat → Outcome α))
    (v : α) (n : Nat) (h : runTask maxR p maxR 0 = ⟨.ok v, n⟩) :
    runTasks maxR (p :: ps) =
      ((runTasks maxR ps).1.map (v :: ·), n :: (runTasks maxR ps).2) := by
  simp [runTasks, h]

theorem runTasks_cons_error (maxR : Nat) (p : Nat → Outcome α) (ps : List (Nat → Outcome α))
    (e : Exc) (n : Nat) (h : runTask maxR p maxR 0 = ⟨.error e, n⟩) :
    runTasks maxR (p :: ps) = (.error e, [n]) := by
  simp [runTasks, h]

/-- all partitions eventually succeed -/
theorem runTasks_all_ok (maxR : Nat) (plan : List (Nat × Exc × α))
    (h : ∀ t ∈ plan, t.1 < maxR) :
    runTasks maxR (plan.map fun t => failsThenOk t.1 t.2.1 t.2.2) =
      (.ok (plan.map (·.2.2)), plan.map (·.1 + 1)) := by
  induction plan with
  | nil => rfl
  | cons t ts ih =>
    have ht : t.1 < maxR := h t (List.mem_cons_self ..)
    have hts : ∀ t ∈ ts, t.1 < maxR := fun t' h' => h t' (List.mem_cons_of_mem _ h')
    rw [List.map_cons, runTasks_cons_ok maxR _ _ t.2.2 (t.1 + 1) (runTask_failsThenOk maxR t.1 t.2.1 t.2.2 ht),
      ih hts]
    rfl

/-- partitions before the always-failing one succeed; the job aborts there -/
theorem runTasks_exhausted (maxR : Nat) (hm : 1 ≤ maxR) (pre : List (Nat × Exc × α))
    (hpre : ∀ t ∈ pre, t.1 < maxR) (e : Nat → Exc) (post : List (Nat → Outcome α)) :
    runTasks maxR ((pre.map fun t => failsThenOk t.1 t.2.1 t.2.2) ++ [alwaysFails e] ++ post) =
      (.error (e (maxR - 1)), pre.map (·.1 + 1) ++ [maxR]) := by
  induction pre with
  | nil =>
    simp only [List.map_nil, List.nil_append, List.cons_append]
    exact runTasks_cons_error maxR _ _ _ _ (runTask_alwaysFails maxR hm e)
  | cons t ts ih =>
    have ht : t.1 < maxR := hpre t (List.mem_cons_self ..)
    have hts : ∀ t ∈ ts, t.1 < maxR := fun t' h' => hpre t' (List.mem_cons_of_mem _ h')
    rw [List.map_cons, List.cons_append, List.cons_append,
      runTasks_cons_ok maxR _ _ t.2.2 (t.1 + 1) (runTask_failsThenOk maxR t.1 t.2.1 t.2.2 ht),
      ih hts]
    rfl

/-- shape of `runJob` on an unlocked context -/
theorem runJob_unlocked (maxR : Nat) (plan : List (Nat → Outcome α)) :
    runJob ⟨false⟩ maxR plan =
      match (runTasks maxR plan).1 with
      | .ok vs => ⟨⟨false⟩, .done vs, (runTasks maxR plan).2⟩
      | .error e => ⟨⟨false⟩, .raised e, (runTasks maxR plan).2⟩ := by
  unfold runJob
  simp only [Bool.false_eq_true, if_false]
  rcases hrt : runTasks maxR plan with ⟨r, att⟩
  cases r <;> rfl

theorem runJob_unlocked_ctx (maxR : Nat) (plan : List (Nat → Outcome α)) :
    (runJob ⟨false⟩ maxR plan).ctx = ⟨false⟩ := by
  rw [runJob_unlocked]
  split <;> rfl

end PysparklingVerif.Retry
