/-
  Helper lemmas for C12 (DataFrame expressions and relational operations vs SQL semantics).
-/
import PysparklingVerif.Model.Sql

namespace PysparklingVerif.Sql

/-! ### values that are null or of a given static type -/

/-- `v` is null or has type `t` -/
def Nul (t : Ty) (v : SV) : Prop := v = .null ∨ tyOf v = some t

@[simp] theorem tyOf_null : tyOf .null = none := rfl
@[simp] theorem tyOf_int (i : Int) : tyOf (.int i) = some .int := rfl
@[simp] theorem tyOf_dbl (q : Rat) : tyOf (.dbl q) = some .dbl := rfl
@[simp] theorem tyOf_str (s : String) : tyOf (.str s) = some .str := rfl
@[simp] theorem tyOf_bool (b : Bool) : tyOf (.bool b) = some .bool := rfl

@[simp] theorem tyOf_ite_null_dbl (c : Prop) [Decidable c] (x : Rat) :
    tyOf (if c then SV.null else SV.dbl x) = some .dbl ↔ ¬ c := by
  split <;> simp [*]

@[simp] theorem tyOf_ite_null_int (c : Prop) [Decidable c] (x : Int) :
    tyOf (if c then SV.null else SV.int x) = some .int ↔ ¬ c := by
  split <;> simp [*]

theorem rowOk_getD {cols : List Ty} {r : Row} (hr : RowOk cols r) {i : Nat} {t : Ty}
    (hc : cols[i]? = some t) : Nul t (r.getD i .null) := by
  rw [List.getD_eq_getElem?_getD]
  cases h : r[i]? with
  | none => left; rfl
  | some v => exact hr.2 i v t h hc

/-- `+ - * %` on numeric operands (`%` is null when the divisor is zero) -/
theorem arith_ok (op : Arith) (hop : op ≠ .div) (a b : SV) (ta tb : Ty)
    (hta : ta = .int ∨ ta = .dbl) (htb : tb = .int ∨ tb = .dbl) (ha : Nul ta a) (hb : Nul tb b) :
    arithM op a b = .ok (arithS op a b) ∧
      Nul (if ta = .int ∧ tb = .int then .int else .dbl) (arithS op a b) := by
  unfold Nul at *
  rcases hta with rfl | rfl <;> rcases htb with rfl | rfl <;>
    cases a <;> cases b <;> cases op <;>
    simp_all [arithM, arithS, ratArith, num?, Decidable.em]

theorem div_ok (a b : SV) (ta tb : Ty)
    (hta : ta = .int ∨ ta = .dbl) (htb : tb = .int ∨ tb = .dbl) (ha : Nul ta a) (hb : Nul tb b) :
    arithM .div a b = .ok (arithS .div a b) ∧ Nul .dbl (arithS .div a b) := by
  rcases hta with rfl | rfl <;> rcases htb with rfl | rfl <;>
    cases a <;> cases b <;>
    simp_all [Nul, arithM, arithS, ratArith, num?, Decidable.em]

/-! ### remainder -/

-- equality of evaluation results is decidable (core has no such instance; the concrete `example`s use it)
deriving instance DecidableEq for Except

/-- the integer remainder of the truncated division: `|r| < |y|`, sign of the dividend -/
theorem tmod_bounds (x y : Int) (hy : y ≠ 0) :
    x = y * Int.tdiv x y + Int.tmod x y ∧ (Int.tmod x y).natAbs < y.natAbs ∧
    (0 ≤ x → 0 ≤ Int.tmod x y) ∧ (x ≤ 0 → Int.tmod x y ≤ 0) := by
  refine ⟨(Int.mul_tdiv_add_tmod x y).symm, ?_, Int.tmod_nonneg y, ?_⟩
  · rw [Int.natAbs_tmod]; exact Nat.mod_lt _ (by omega)
  · intro hx
    have := Int.tmod_nonneg (a := -x) y (by omega)
    rw [Int.neg_tmod] at this; omega

/-- `truncR q` lies between `0` and `q`, less than one away from `q` -/
theorem truncR_bounds (q : Rat) :
    (0 ≤ q → 0 ≤ (truncR q : Rat) ∧ (truncR q : Rat) ≤ q ∧ q < (truncR q : Rat) + 1) ∧
    (q < 0 → (truncR q : Rat) ≤ 0 ∧ q ≤ (truncR q : Rat) ∧ (truncR q : Rat) - 1 < q) := by
  have h1 := Rat.floor_le q
  have h2 := Rat.lt_floor_add_one q
  have h3 := Rat.floor_le (-q)
  have h4 := Rat.lt_floor_add_one (-q)
  simp only [Rat.intCast_add] at h2 h4
  unfold truncR
  constructor
  · intro h
    have h0 : ((0 : Int) : Rat) ≤ (q.floor : Rat) :=
      Rat.intCast_le_intCast.2 (Rat.le_floor_iff.2 (by simpa using h))
    rw [if_pos h]; grind
  · intro h
    have h0 : ((0 : Int) : Rat) ≤ ((-q).floor : Rat) :=
      Rat.intCast_le_intCast.2 (Rat.le_floor_iff.2 (by simp; grind))
    rw [if_neg (by grind)]; simp only [Rat.intCast_neg]; grind

/-- multiplying by a positive factor keeps the strict comparisons with `0`, `1`, `-1` -/
theorem scale_pos (s q d : Rat) (hs : 0 < s) :
    (s * q < 0 ↔ q < 0) ∧ (0 < s * q ↔ 0 < q) ∧ (s * d < 0 ↔ d < 0) ∧ (0 < s * d ↔ 0 < d) ∧
    (s * d < s ↔ d < 1) ∧ (-s < s * d ↔ -1 < d) := by
  have h1 := Rat.mul_lt_mul_left (a := q) (b := 0) hs
  have h2 := Rat.mul_lt_mul_left (a := 0) (b := q) hs
  have h3 := Rat.mul_lt_mul_left (a := d) (b := 0) hs
  have h4 := Rat.mul_lt_mul_left (a := 0) (b := d) hs
  have h5 := Rat.mul_lt_mul_left (a := d) (b := 1) hs
  have h6 := Rat.mul_lt_mul_left (a := -1) (b := d) hs
  simp only [Rat.mul_zero, Rat.mul_one, Rat.mul_neg] at h1 h2 h3 h4 h5 h6
  exact ⟨h1, h2, h3, h4, h5, h6⟩

/-- the rational remainder `x - y * trunc(x / y)` has the sign of the dividend and `|r| < |y|` -/
theorem ratRem_bounds (x y : Rat) (hy : y ≠ 0) :
    (0 ≤ x → 0 ≤ ratRem x y) ∧ (x ≤ 0 → ratRem x y ≤ 0) ∧
    (ratRem x y < (if 0 ≤ y then y else -y)) ∧ ((if 0 ≤ y then -y else y) < ratRem x y) := by
  unfold ratRem
  have hx : x = y * (x / y) := by rw [Rat.mul_comm, Rat.div_mul_cancel hy]
  generalize x / y = q at hx
  subst hx
  obtain ⟨hp, hn⟩ := truncR_bounds q
  generalize (truncR q : Rat) = t at hp hn
  have hd : y * q - y * t = y * (q - t) := by grind
  rw [hd]
  have hp' : 0 ≤ q → 0 ≤ q - t ∧ q - t < 1 ∧ q - t ≤ q := by grind
  have hn' : q < 0 → -1 < q - t ∧ q - t ≤ 0 ∧ q ≤ q - t := by grind
  generalize q - t = d at hp' hn'
  have hcase : y < 0 ∨ 0 < y := by grind
  rcases hcase with hneg | hpos
  · obtain ⟨h1, h2, h3, h4, h5, h6⟩ := scale_pos (-y) q d (by grind)
    rw [if_neg (by grind), if_neg (by grind)]
    simp only [Rat.neg_mul] at h1 h2 h3 h4 h5 h6
    grind
  · obtain ⟨h1, h2, h3, h4, h5, h6⟩ := scale_pos y q d hpos
    rw [if_pos (by grind), if_pos (by grind)]
    grind

theorem cmpNum_ok (op : Cmp) (a b : SV) (ta tb : Ty)
    (hta : ta = .int ∨ ta = .dbl) (htb : tb = .int ∨ tb = .dbl) (ha : Nul ta a) (hb : Nul tb b) :
    cmpM op a b = .ok (cmpS op a b) ∧ Nul .bool (cmpS op a b) := by
  unfold Nul at *
  rcases hta with rfl | rfl <;> rcases htb with rfl | rfl <;>
    cases a <;> cases b <;> cases op <;>
    simp_all [cmpM, cmpS, cmpSame, castTo, typeOrder, num?, tyOf, Except.map, bind, Except.bind,
      Rat.intCast_le_intCast, Rat.intCast_lt_intCast]

theorem cmpSame_ok (op : Cmp) (a b : SV) (t : Ty)
    (ht : t = .str ∨ t = .bool) (ha : Nul t a) (hb : Nul t b) :
    cmpM op a b = .ok (cmpS op a b) ∧ Nul .bool (cmpS op a b) := by
  unfold Nul at *
  rcases ht with rfl | rfl <;>
    cases a <;> cases b <;> cases op <;>
    simp_all [cmpM, cmpS, cmpSame, typeOrder, tyOf, Except.map]

theorem nul_bool_cases {a : SV} (h : Nul .bool a) : a = .null ∨ a = .bool true ∨ a = .bool false := by
  cases a <;> simp_all [Nul, tyOf]

theorem and_ok (a b : SV) (ha : Nul .bool a) (hb : Nul .bool b) :
    andM a b = andS a b ∧ Nul .bool (andS a b) := by
  rcases nul_bool_cases ha with rfl | rfl | rfl <;> rcases nul_bool_cases hb with rfl | rfl | rfl <;>
    simp [andM, andS, truthy, tv, Nul, tyOf]

theorem or_ok (a b : SV) (ha : Nul .bool a) (hb : Nul .bool b) :
    orM a b = orS a b ∧ Nul .bool (orS a b) := by
  rcases nul_bool_cases ha with rfl | rfl | rfl <;> rcases nul_bool_cases hb with rfl | rfl | rfl <;>
    simp [orM, orS, truthy, tv, Nul, tyOf]

theorem not_ok (a : SV) (ha : Nul .bool a) :
    notM a = notS a ∧ Nul .bool (notS a) := by
  unfold Nul at *
  cases a <;> simp_all [notM, notS, truthy, tv, tyOf]

/-- reference negation (the `match` inside `evalS`) -/
def negS (a : SV) : SV := match a with | .int i => .int (-i) | .dbl q => .dbl (-q) | _ => .null

theorem neg_ok (a : SV) (t : Ty) (ht : t = .int ∨ t = .dbl) (ha : Nul t a) :
    negM a = .ok (negS a) ∧ Nul t (negS a) := by
  unfold Nul at *
  rcases ha with rfl | ha
  · simp [negM, negS]
  · rcases ht with rfl | rfl <;> cases a <;> simp at ha <;> simp [negM, negS]

theorem truthy_iff_tv (v : SV) (hv : Nul .bool v) : truthy v = true ↔ tv v = some true := by
  unfold Nul at *
  cases v <;> simp_all [truthy, tv, tyOf]

theorem nul_of_null (t : Ty) : Nul t .null := Or.inl rfl

/-- the implementation-shaped evaluator agrees with the reference on the typed fragment -/
theorem eval_ok (cols : List Ty) (e : Expr) (t : Ty) (r : Row)
    (ht : HasTy cols e t) (hr : RowOk cols r) :
    evalM r e = .ok (evalS r e) ∧ Nul t (evalS r e) := by
  induction ht with
  | col i t hc => exact ⟨rfl, rowOk_getD hr hc⟩
  | litInt i => exact ⟨rfl, Or.inr rfl⟩
  | litDbl q => exact ⟨rfl, Or.inr rfl⟩
  | litStr s => exact ⟨rfl, Or.inr rfl⟩
  | litBool b => exact ⟨rfl, Or.inr rfl⟩
  | litNull t => exact ⟨rfl, Or.inl rfl⟩
  | neg e t ht _ ih =>
    simp only [evalM, evalS, ih.1, bind, Except.bind]
    exact neg_ok _ t ht ih.2
  | arith mk a b ta tb hmk hta htb _ _ iha ihb =>
    rcases hmk with rfl | rfl | rfl | rfl <;>
      simp only [evalM, evalS, iha.1, ihb.1, bind, Except.bind] <;>
      exact arith_ok _ (by decide) _ _ ta tb hta htb iha.2 ihb.2
  | div a b ta tb hta htb _ _ iha ihb =>
    simp only [evalM, evalS, iha.1, ihb.1, bind, Except.bind]
    exact div_ok _ _ ta tb hta htb iha.2 ihb.2
  | cmpNum mk a b ta tb hmk hta htb _ _ iha ihb =>
    rcases hmk with rfl | rfl | rfl | rfl | rfl | rfl <;>
      simp only [evalM, evalS, iha.1, ihb.1, bind, Except.bind, pure, Except.pure]
    · exact cmpNum_ok _ _ _ ta tb hta htb iha.2 ihb.2
    · have h := cmpNum_ok .eq _ _ ta tb hta htb iha.2 ihb.2
      have h' := not_ok _ h.2
      simp only [h.1, h'.1]; exact ⟨trivial, h'.2⟩
    · exact cmpNum_ok _ _ _ ta tb hta htb iha.2 ihb.2
    · exact cmpNum_ok _ _ _ ta tb hta htb iha.2 ihb.2
    · exact cmpNum_ok _ _ _ ta tb hta htb iha.2 ihb.2
    · exact cmpNum_ok _ _ _ ta tb hta htb iha.2 ihb.2
  | cmpSame mk a b t hmk ht _ _ iha ihb =>
    rcases hmk with rfl | rfl | rfl | rfl | rfl | rfl <;>
      simp only [evalM, evalS, iha.1, ihb.1, bind, Except.bind, pure, Except.pure]
    · exact cmpSame_ok _ _ _ t ht iha.2 ihb.2
    · have h := cmpSame_ok .eq _ _ t ht iha.2 ihb.2
      have h' := not_ok _ h.2
      simp only [h.1, h'.1]; exact ⟨trivial, h'.2⟩
    · exact cmpSame_ok _ _ _ t ht iha.2 ihb.2
    · exact cmpSame_ok _ _ _ t ht iha.2 ihb.2
    · exact cmpSame_ok _ _ _ t ht iha.2 ihb.2
    · exact cmpSame_ok _ _ _ t ht iha.2 ihb.2
  | and a b _ _ iha ihb =>
    have h := and_ok _ _ iha.2 ihb.2
    simp only [evalM, evalS, iha.1, ihb.1, bind, Except.bind, pure, Except.pure, h.1]
    exact ⟨trivial, h.2⟩
  | or a b _ _ iha ihb =>
    have h := or_ok _ _ iha.2 ihb.2
    simp only [evalM, evalS, iha.1, ihb.1, bind, Except.bind, pure, Except.pure, h.1]
    exact ⟨trivial, h.2⟩
  | not e _ ih =>
    have h := not_ok _ ih.2
    simp only [evalM, evalS, ih.1, bind, Except.bind, pure, Except.pure, h.1]
    exact ⟨trivial, h.2⟩
  | isNull e t _ ih =>
    simp only [evalM, evalS, ih.1, bind, Except.bind, pure, Except.pure]
    exact ⟨trivial, Or.inr rfl⟩
  | isNotNull e t _ ih =>
    simp only [evalM, evalS, ih.1, bind, Except.bind, pure, Except.pure]
    exact ⟨trivial, Or.inr rfl⟩
  | betweenNum e lo hi t t1 t2 ht ht1 ht2 _ _ _ ihe ihlo ihhi =>
    have h1 := cmpNum_ok .ge _ _ t t1 ht ht1 ihe.2 ihlo.2
    have h2 := cmpNum_ok .le _ _ t t2 ht ht2 ihe.2 ihhi.2
    have h := and_ok _ _ h1.2 h2.2
    simp only [evalM, evalS, ihe.1, ihlo.1, ihhi.1, bind, Except.bind, pure, Except.pure, h1.1, h2.1, h.1]
    exact ⟨trivial, h.2⟩
  | betweenStr e lo hi _ _ _ ihe ihlo ihhi =>
    have h1 := cmpSame_ok .ge _ _ .str (Or.inl rfl) ihe.2 ihlo.2
    have h2 := cmpSame_ok .le _ _ .str (Or.inl rfl) ihe.2 ihhi.2
    have h := and_ok _ _ h1.2 h2.2
    simp only [evalM, evalS, ihe.1, ihlo.1, ihhi.1, bind, Except.bind, pure, Except.pure, h1.1, h2.1, h.1]
    exact ⟨trivial, h.2⟩
  | coalesce a b t _ _ iha ihb =>
    simp only [evalM, evalS, iha.1, bind, Except.bind, pure, Except.pure]
    by_cases h : evalS r a = .null
    · simp only [h, ne_eq, not_true_eq_false, if_false]; exact ⟨ihb.1, ihb.2⟩
    · simp only [h, ne_eq, not_false_eq_true, if_true]; exact ⟨trivial, iha.2⟩
  | caseWhen c t e ty _ _ _ ihc iht ihe =>
    simp only [evalM, evalS, ihc.1, bind, Except.bind]
    have h := truthy_iff_tv _ ihc.2
    by_cases h' : tv (evalS r c) = some true
    · simp only [h.2 h', h', if_true]; exact iht
    · have : truthy (evalS r c) = false := by
        cases hh : truthy (evalS r c) with
        | false => rfl
        | true => exact absurd (h.1 hh) h'
      simp only [this, h', if_false]; exact ihe

/-! ### filter -/

theorem ok_bind {α β : Type} (x : α) (f : α → Except Err β) : (Except.ok x >>= f) = f x := rfl


theorem filter_ok (cols : List Ty) (cond : Expr) (rows : List Row)
    (ht : HasTy cols cond .bool) (hr : ∀ r ∈ rows, RowOk cols r) :
    filterM cond rows = .ok (filterS cond rows) := by
  induction rows with
  | nil => rfl
  | cons r rs ih =>
    have h := eval_ok cols cond .bool r ht (hr r (by simp))
    have ih' := ih (fun x hx => hr x (by simp [hx]))
    have htv := truthy_iff_tv _ h.2
    unfold filterM filterS at *
    rw [List.filterMapM_cons, h.1]
    simp only [ok_bind, pure_bind]
    by_cases h' : tv (evalS r cond) = some true
    · rw [htv.2 h', ih']
      simp [ok_bind, h', pure, Except.pure]
    · have : truthy (evalS r cond) = false := by
        cases hh : truthy (evalS r cond) with
        | false => rfl
        | true => exact absurd (htv.1 hh) h'
      rw [this, ih']
      simp [h']

/-! ### dedup -/

/-- invariant of the `dedupBy` fold: `acc` is the result for the processed prefix `pre` -/
def DedupInv (key : Row → Row) (pre acc : List Row) : Prop :=
  (acc.map key).Nodup ∧ acc.Sublist pre ∧
  ∀ r ∈ pre, ∃ r' ∈ acc, key r' = key r ∧ pre.find? (fun x => key x == key r) = some r'

theorem dedupInv_step (key : Row → Row) (pre acc : List Row) (r : Row) (h : DedupInv key pre acc) :
    DedupInv key (pre ++ [r]) (if acc.any (fun x => key x == key r) then acc else acc ++ [r]) := by
  obtain ⟨hnd, hsub, hrep⟩ := h
  by_cases hany : acc.any (fun x => key x == key r) = true
  · rw [if_pos hany]
    refine ⟨hnd, hsub.trans (List.sublist_append_left _ _), ?_⟩
    intro r0 hr0
    rcases List.mem_append.1 hr0 with hr0 | hr0
    · obtain ⟨r', hr', hk, hf⟩ := hrep r0 hr0
      exact ⟨r', hr', hk, by rw [List.find?_append, hf]; rfl⟩
    · have : r0 = r := by simpa using hr0
      subst this
      obtain ⟨x, hx, hxk⟩ := List.any_eq_true.1 hany
      have hxk' : key x = key r0 := by simpa using hxk
      obtain ⟨r', hr', hk, hf⟩ := hrep x (hsub.subset hx)
      refine ⟨r', hr', hk.trans hxk', ?_⟩
      rw [List.find?_append, ← hxk', hf]; rfl
  · rw [if_neg hany]
    have hnone : ∀ x ∈ acc, key x ≠ key r := by
      intro x hx hk
      exact hany (List.any_eq_true.2 ⟨x, hx, by simp [hk]⟩)
    refine ⟨?_, hsub.append (List.Sublist.refl _), ?_⟩
    · rw [List.map_append, List.nodup_append]
      refine ⟨hnd, by simp, ?_⟩
      intro a ha b hb
      obtain ⟨x, hx, rfl⟩ := List.mem_map.1 ha
      have : b = key r := by simpa using hb
      subst this
      exact hnone x hx
    · intro r0 hr0
      rcases List.mem_append.1 hr0 with hr0 | hr0
      · obtain ⟨r', hr', hk, hf⟩ := hrep r0 hr0
        exact ⟨r', List.mem_append_left _ hr', hk, by rw [List.find?_append, hf]; rfl⟩
      · have : r0 = r := by simpa using hr0
        subst this
        refine ⟨r0, by simp, rfl, ?_⟩
        have hpre : pre.find? (fun x => key x == key r0) = none := by
          rw [List.find?_eq_none]
          intro x hx hk
          have hk' : key x = key r0 := by simpa using hk
          obtain ⟨r', hr', hk2, _⟩ := hrep x hx
          exact hnone r' hr' (hk2.trans hk')
        rw [List.find?_append, hpre]
        simp

theorem dedupInv_foldl (key : Row → Row) (rows pre acc : List Row) (h : DedupInv key pre acc) :
    DedupInv key (pre ++ rows)
      (rows.foldl (fun acc r => if acc.any (fun x => key x == key r) then acc else acc ++ [r]) acc) := by
  induction rows generalizing pre acc with
  | nil => simpa using h
  | cons r rs ih =>
    have := ih (pre ++ [r]) _ (dedupInv_step key pre acc r h)
    simpa [List.append_assoc] using this

theorem dedup_ok (key : Row → Row) (rows : List Row) : DedupInv key rows (dedupBy key rows) := by
  have := dedupInv_foldl key rows [] [] ⟨by simp, by simp, by simp⟩
  simpa [dedupBy] using this

/-! ### mapM in `Except` -/

theorem mapM_ok {α β : Type} (f : α → Except Err β) (l : List α) (h : ∀ a ∈ l, ∃ v, f a = .ok v) :
    ∃ vs : List β, l.mapM f = .ok vs ∧ vs.length = l.length ∧
      ∀ i (h1 : i < l.length) (h2 : i < vs.length), f l[i] = .ok vs[i] := by
  induction l with
  | nil => exact ⟨[], rfl, rfl, by simp⟩
  | cons a l ih =>
    obtain ⟨v, hv⟩ := h a (by simp)
    obtain ⟨vs, hvs, hlen, hget⟩ := ih (fun x hx => h x (by simp [hx]))
    refine ⟨v :: vs, ?_, by simp [hlen], ?_⟩
    · rw [List.mapM_cons, hv, hvs]; rfl
    · intro i h1 h2
      cases i with
      | zero => simpa using hv
      | succ i => simpa using hget i (by simpa using h1) (by simpa using h2)

/-! ### union / withColumn -/

theorem getD_map_idxOf (an : List String) (f : String → SV) (n : String) (hn : n ∈ an) :
    (an.map f).getD (an.idxOf n) .null = f n := by
  have hlt := List.idxOf_lt_length_of_mem hn
  simp [List.getD_eq_getElem?_getD, hlt, List.getElem_idxOf]

theorem getD_replace (r : Row) (names : List String) (name : String) (v : SV)
    (hlen : r.length = names.length) (n : String) (hn : n ∈ names) :
    ((r.zip names).map fun (x, m) => if m == name then v else x).getD (names.idxOf n) .null =
      if n = name then v else r.getD (names.idxOf n) .null := by
  have hlt := List.idxOf_lt_length_of_mem hn
  simp [List.getD_eq_getElem?_getD, hlt, hlen, List.getElem_idxOf]

theorem getD_append_new (r : Row) (names : List String) (name : String) (v : SV)
    (hlen : r.length = names.length) (hnot : name ∉ names) :
    (r ++ [v]).getD ((names ++ [name]).idxOf name) .null = v := by
  simp [List.idxOf_append, hnot, List.getD_eq_getElem?_getD, ← hlen]

theorem getD_append_old (r : Row) (names : List String) (name : String) (v : SV)
    (hlen : r.length = names.length) (n : String) (hn : n ∈ names) :
    (r ++ [v]).getD ((names ++ [name]).idxOf n) .null = r.getD (names.idxOf n) .null := by
  have hlt := List.idxOf_lt_length_of_mem hn
  simp [List.idxOf_append, hn, List.getD_eq_getElem?_getD, List.getElem?_append_left, hlen, hlt]

theorem withColumn_ok (names : List String) (name : String) (e : Expr) (rows : List Row)
    (hr : ∀ r ∈ rows, r.length = names.length)
    (he : ∀ r ∈ rows, ∃ v, evalM r e = .ok v) :
    ∃ names' rows', withColumnM names name e rows = .ok (names', rows') ∧
      names' = (if names.contains name then names else names ++ [name]) ∧ rows'.length = rows.length ∧
      ∀ i (h : i < rows.length) (h' : i < rows'.length),
        evalM rows[i] e = .ok ((rows'[i]).getD (names'.idxOf name) .null) ∧
        ∀ n ∈ names, n ≠ name → (rows'[i]).getD (names'.idxOf n) .null = (rows[i]).getD (names.idxOf n) .null := by
  obtain ⟨vals, hvals, hlen, hget⟩ := mapM_ok (fun r => evalM r e) rows he
  unfold withColumnM
  rw [hvals]
  simp only [ok_bind]
  by_cases hc : names.contains name = true
  · rw [if_pos hc, if_pos hc]
    refine ⟨names, _, rfl, rfl, by simp [hlen], ?_⟩
    intro i h h'
    have hmem : name ∈ names := by simpa using hc
    have hrl := hr rows[i] (List.getElem_mem h)
    simp only [List.getElem_map, List.getElem_zip]
    refine ⟨?_, ?_⟩
    · rw [getD_replace _ _ _ _ hrl name hmem, if_pos rfl]
      exact hget i h (by omega)
    · intro n hn hne
      rw [getD_replace _ _ _ _ hrl n hn, if_neg hne]
  · rw [if_neg hc, if_neg hc]
    refine ⟨names ++ [name], _, rfl, rfl, by simp [hlen], ?_⟩
    intro i h h'
    have hmem : name ∉ names := by simpa using hc
    have hrl := hr rows[i] (List.getElem_mem h)
    simp only [List.getElem_map, List.getElem_zip]
    refine ⟨?_, ?_⟩
    · rw [getD_append_new _ _ _ _ hrl hmem]
      exact hget i h (by omega)
    · intro n hn _
      rw [getD_append_old _ _ _ _ hrl n hn]

/-! ### `mergeSort` with an order that is total / transitive only on the elements of the list -/

section SortOn
variable {α : Type} [DecidableEq α]

def TotalOn (le : α → α → Bool) (l : List α) : Prop :=
  ∀ a ∈ l, ∀ b ∈ l, le a b = true ∨ le b a = true
def TransOn (le : α → α → Bool) (l : List α) : Prop :=
  ∀ a ∈ l, ∀ b ∈ l, ∀ c ∈ l, le a b = true → le b c = true → le a c = true

/-- extension of `le` on `S` to an order on the whole type: elements of `S` first, all others tied -/
def extLe (S : List α) (le : α → α → Bool) (a b : α) : Bool :=
  if a ∈ S then (if b ∈ S then le a b else true) else !decide (b ∈ S)

theorem extLe_of_mem {S : List α} {le : α → α → Bool} {a b : α} (ha : a ∈ S) (hb : b ∈ S) :
    extLe S le a b = le a b := by simp [extLe, ha, hb]

theorem extLe_total (S : List α) (le : α → α → Bool) (htot : TotalOn le S) (a b : α) :
    (extLe S le a b || extLe S le b a) = true := by
  by_cases ha : a ∈ S <;> by_cases hb : b ∈ S <;> simp [extLe, ha, hb]
  exact htot a ha b hb

theorem extLe_trans (S : List α) (le : α → α → Bool) (htr : TransOn le S) (a b c : α) :
    extLe S le a b = true → extLe S le b c = true → extLe S le a c = true := by
  by_cases ha : a ∈ S <;> by_cases hb : b ∈ S <;> by_cases hc : c ∈ S <;> simp [extLe, ha, hb, hc]
  exact htr a ha b hb c hc

theorem mergeSort_extLe (l : List α) (le : α → α → Bool) : l.mergeSort le = l.mergeSort (extLe l le) := by
  have := List.map_mergeSort (r := le) (s := extLe l le) (f := id) (l := l)
    (fun a ha b hb => by simp [extLe_of_mem ha hb])
  simpa using this

theorem pairwise_mergeSort_on (le : α → α → Bool) (l : List α) (htot : TotalOn le l) (htr : TransOn le l) :
    (l.mergeSort le).Pairwise (fun a b => le a b = true) := by
  have h := List.pairwise_mergeSort (le := extLe l le) (extLe_trans l le htr) (extLe_total l le htot) l
  rw [← mergeSort_extLe] at h
  refine h.imp_of_mem ?_
  intro a b ha hb hab
  rwa [extLe_of_mem (List.mem_mergeSort.1 ha) (List.mem_mergeSort.1 hb)] at hab

theorem sublist_mergeSort_on (le : α → α → Bool) (l : List α) (htot : TotalOn le l) (htr : TransOn le l)
    {ys : List α} (hpw : ys.Pairwise (fun a b => le a b = true)) (hsub : ys.Sublist l) :
    ys.Sublist (l.mergeSort le) := by
  rw [mergeSort_extLe]
  refine List.sublist_mergeSort (le := extLe l le) (extLe_trans l le htr) (extLe_total l le htot) ?_ hsub
  refine hpw.imp_of_mem ?_
  intro a b ha hb hab
  rwa [extLe_of_mem (hsub.subset ha) (hsub.subset hb)]

/-- stability: a class of mutually tied elements keeps its input order -/
theorem filter_mergeSort_tied (le : α → α → Bool) (l : List α) (htot : TotalOn le l) (htr : TransOn le l)
    (p : α → Bool) (hp : ∀ a ∈ l, ∀ b ∈ l, p a = true → p b = true → le a b = true) :
    (l.mergeSort le).filter p = l.filter p := by
  have h1 : (l.filter p).Sublist (l.mergeSort le) :=
    sublist_mergeSort_on le l htot htr
      (List.pairwise_of_forall_mem_list fun a ha b hb =>
        hp a (List.mem_filter.1 ha).1 b (List.mem_filter.1 hb).1 (List.mem_filter.1 ha).2 (List.mem_filter.1 hb).2)
      List.filter_sublist
  have h2 := h1.filter p
  have h3 : (l.filter p).filter p = l.filter p := by simp
  rw [h3] at h2
  exact (h2.eq_of_length ((List.mergeSort_perm l le).filter p).length_eq.symm).symm

theorem pair_sublist_or {l : List α} {a b : α} (ha : a ∈ l) (hb : b ∈ l) (hab : a ≠ b) :
    [a, b].Sublist l ∨ [b, a].Sublist l := by
  induction l with
  | nil => simp at ha
  | cons c l ih =>
    by_cases hac : a = c
    · subst hac
      have hb' : b ∈ l := by
        rcases List.mem_cons.1 hb with h | h
        · exact absurd h.symm hab
        · exact h
      exact Or.inl (List.Sublist.cons_cons a (List.singleton_sublist.2 hb'))
    · by_cases hbc : b = c
      · subst hbc
        have ha' : a ∈ l := by
          rcases List.mem_cons.1 ha with h | h
          · exact absurd h hac
          · exact h
        exact Or.inr (List.Sublist.cons_cons b (List.singleton_sublist.2 ha'))
      · have ha' : a ∈ l := by
          rcases List.mem_cons.1 ha with h | h
          · exact absurd h hac
          · exact h
        have hb' : b ∈ l := by
          rcases List.mem_cons.1 hb with h | h
          · exact absurd h hbc
          · exact h
        rcases ih ha' hb' with h | h
        · exact Or.inl (h.cons c)
        · exact Or.inr (h.cons c)

theorem pair_sublist_of_pairwise {R : α → α → Prop} {l : List α} (h : l.Pairwise R) {a b : α}
    (ha : a ∈ l) (hb : b ∈ l) (hab : a ≠ b) (hR : ¬ R b a) : [a, b].Sublist l := by
  rcases pair_sublist_or ha hb hab with h' | h'
  · exact h'
  · exact absurd (List.pairwise_iff_forall_sublist.1 h h') hR

end SortOn

/-! ### multi-pass stable sort -/

/-- the comparator of one pass, with the direction folded in -/
def leK (k : SortKey) (a b : Row) : Bool :=
  if k.asc then keyLe k.nullsSmaller (keyOf k a) (keyOf k b) else keyLe k.nullsSmaller (keyOf k b) (keyOf k a)

/-- same as `C12.KeyOrderOk` -/
def KeyOk (k : SortKey) (rows : List Row) : Prop :=
  (∀ a ∈ rows, ∀ b ∈ rows, keyLe k.nullsSmaller (keyOf k a) (keyOf k b) = true ∨
      keyLe k.nullsSmaller (keyOf k b) (keyOf k a) = true) ∧
  (∀ a ∈ rows, ∀ b ∈ rows, ∀ c ∈ rows, keyLe k.nullsSmaller (keyOf k a) (keyOf k b) = true →
      keyLe k.nullsSmaller (keyOf k b) (keyOf k c) = true → keyLe k.nullsSmaller (keyOf k a) (keyOf k c) = true)

theorem sortPass_eq (k : SortKey) (rows : List Row) : sortPass k rows = rows.mergeSort (leK k) := by
  unfold sortPass leK
  split <;> simp [*]

theorem lexLe_cons (k : SortKey) (ks : List SortKey) (a b : Row) :
    lexLe (k :: ks) a b = if leK k a b && leK k b a then lexLe ks a b else leK k a b := rfl

theorem sortM_cons (k : SortKey) (ks : List SortKey) (rows : List Row) :
    sortM (k :: ks) rows = sortPass k (sortM ks rows) := rfl

theorem leK_totalOn {k : SortKey} {rows l : List Row} (h : KeyOk k rows) (hl : ∀ x ∈ l, x ∈ rows) :
    TotalOn (leK k) l := by
  intro a ha b hb
  unfold leK
  cases k.asc
  · simpa using h.1 b (hl b hb) a (hl a ha)
  · simpa using h.1 a (hl a ha) b (hl b hb)

theorem leK_transOn {k : SortKey} {rows l : List Row} (h : KeyOk k rows) (hl : ∀ x ∈ l, x ∈ rows) :
    TransOn (leK k) l := by
  intro a ha b hb c hc
  unfold leK
  cases k.asc
  · simpa using fun h1 h2 => h.2 c (hl c hc) b (hl b hb) a (hl a ha) h2 h1
  · simpa using h.2 a (hl a ha) b (hl b hb) c (hl c hc)

theorem sortM_perm (keys : List SortKey) (rows : List Row) : (sortM keys rows).Perm rows := by
  induction keys with
  | nil => exact .refl _
  | cons k ks ih => rw [sortM_cons, sortPass_eq]; exact (List.mergeSort_perm _ _).trans ih

theorem sortM_sorted (keys : List SortKey) (rows : List Row) (hk : ∀ k ∈ keys, KeyOk k rows) :
    (sortM keys rows).Pairwise (fun a b => lexLe keys a b = true) := by
  induction keys with
  | nil => exact List.pairwise_of_forall (fun _ _ => rfl)
  | cons k ks ih =>
    have ih' := ih (fun k' hk' => hk k' (List.mem_cons_of_mem _ hk'))
    have hmem : ∀ x ∈ sortM ks rows, x ∈ rows := fun x hx => (sortM_perm ks rows).mem_iff.1 hx
    have htot := leK_totalOn (hk k (by simp)) hmem
    have htr := leK_transOn (hk k (by simp)) hmem
    rw [sortM_cons, sortPass_eq, List.pairwise_iff_forall_sublist]
    intro x y hxy
    have hpw := pairwise_mergeSort_on (leK k) _ htot htr
    have hle : leK k x y = true := List.pairwise_iff_forall_sublist.1 hpw hxy
    rw [lexLe_cons]
    by_cases hge : leK k y x = true
    · simp only [hle, hge, Bool.and_self, if_true]
      have hx : x ∈ sortM ks rows := List.mem_mergeSort.1 (hxy.subset (by simp))
      have hxx : leK k x x = true := by rcases htot x hx x hx with h | h <;> exact h
      have hfil := filter_mergeSort_tied (leK k) (sortM ks rows) htot htr
        (fun z => leK k x z && leK k z x) (by
          intro a ha b hb hpa hpb
          simp only [Bool.and_eq_true] at hpa hpb
          exact htr a ha x hx b hb hpa.2 hpb.1)
      have h1 := hxy.filter (fun z => leK k x z && leK k z x)
      rw [hfil] at h1
      have h2 : [x, y].filter (fun z => leK k x z && leK k z x) = [x, y] := by
        simp [hxx, hle, hge]
      rw [h2] at h1
      exact List.pairwise_iff_forall_sublist.1 ih' (h1.trans List.filter_sublist)
    · simp [hle, hge]

theorem sortM_stable (keys : List SortKey) (rows : List Row) (hk : ∀ k ∈ keys, KeyOk k rows)
    (a b : Row) (hab : [a, b].Sublist rows) (heq : lexLe keys a b = true) :
    [a, b].Sublist (sortM keys rows) := by
  induction keys with
  | nil => exact hab
  | cons k ks ih =>
    have ih' := ih (fun k' hk' => hk k' (List.mem_cons_of_mem _ hk'))
    have hmem : ∀ x ∈ sortM ks rows, x ∈ rows := fun x hx => (sortM_perm ks rows).mem_iff.1 hx
    have htot := leK_totalOn (hk k (by simp)) hmem
    have htr := leK_transOn (hk k (by simp)) hmem
    have ha : a ∈ sortM ks rows := (sortM_perm ks rows).mem_iff.2 (hab.subset (by simp))
    have hb : b ∈ sortM ks rows := (sortM_perm ks rows).mem_iff.2 (hab.subset (by simp))
    rw [sortM_cons, sortPass_eq]
    rw [lexLe_cons] at heq
    by_cases htie : (leK k a b && leK k b a) = true
    · rw [if_pos htie] at heq
      simp only [Bool.and_eq_true] at htie
      exact sublist_mergeSort_on (leK k) _ htot htr (List.pairwise_pair.2 htie.1) (ih' heq)
    · rw [if_neg htie] at heq
      have hba : ¬ leK k b a = true := fun h => htie (by simp [heq, h])
      have hne : a ≠ b := by
        rintro rfl
        exact hba heq
      exact pair_sublist_of_pairwise (pairwise_mergeSort_on (leK k) _ htot htr)
        (List.mem_mergeSort.2 ha) (List.mem_mergeSort.2 hb) hne hba

/-! ### row-wise operations are independent of the partitioning (C12 `partition_independent`) -/

section Generic
variable {ε α β γ : Type}

theorem filterMapM_append_except (f : α → Except ε (Option β)) (l₁ l₂ : List α) :
    (l₁ ++ l₂).filterMapM f = (do let a ← l₁.filterMapM f; let b ← l₂.filterMapM f; pure (a ++ b)) := by
  induction l₁ with
  | nil => simp
  | cons x l₁ ih =>
    simp only [List.cons_append, List.filterMapM_cons, ih]
    cases f x with
    | error e => rfl
    | ok o =>
      cases o with
      | none => rfl
      | some b =>
        cases l₁.filterMapM f with
        | error e => rfl
        | ok a =>
          cases l₂.filterMapM f with
          | error e => rfl
          | ok c => rfl

/-- `mapM` per partition then flatten = `mapM` on the flattened rows (also the error is the same) -/
theorem mapM_parts_flatten (f : α → Except ε β) (ps : List (List α)) :
    (ps.mapM (fun (p : List α) => p.mapM f)).map List.flatten = ps.flatten.mapM f := by
  induction ps with
  | nil => rfl
  | cons p ps ih =>
    simp only [List.flatten_cons, List.mapM_cons, List.mapM_append, ← ih]
    cases p.mapM f with
    | error e => rfl
    | ok a =>
      cases List.mapM (fun p => List.mapM f p) ps with
      | error e => rfl
      | ok c => rfl

theorem filterMapM_parts_flatten (f : α → Except ε (Option β)) (ps : List (List α)) :
    (ps.mapM (fun (p : List α) => p.filterMapM f)).map List.flatten = ps.flatten.filterMapM f := by
  induction ps with
  | nil => rfl
  | cons p ps ih =>
    simp only [List.flatten_cons, List.mapM_cons, filterMapM_append_except, ← ih]
    cases p.filterMapM f with
    | error e => rfl
    | ok a =>
      cases List.mapM (fun p => List.filterMapM f p) ps with
      | error e => rfl
      | ok c => rfl

theorem toOption_map (x : Except ε α) (g : α → β) : (x.map g).toOption = x.toOption.map g := by
  cases x <;> rfl

theorem mapM_zip_map (g : α → Except ε β) (h : α → β → γ) (rows : List α) :
    (rows.mapM g).map (fun vals => (rows.zip vals).map (fun rv => h rv.1 rv.2)) =
      rows.mapM (fun r => (g r).map (h r)) := by
  induction rows with
  | nil => rfl
  | cons r rows ih =>
    simp only [List.mapM_cons, ← ih]
    cases g r with
    | error e => rfl
    | ok v =>
      cases rows.mapM g with
      | error e => rfl
      | ok vs => rfl

end Generic

/-- the new row of `withColumn` for one input row and its value -/
def newRow (names : List String) (name : String) (r : Row) (v : SV) : Row :=
  if names.contains name then (r.zip names).map fun (x, n) => if n == name then v else x else r ++ [v]

/-- the rows of `withColumn` are computed row by row -/
theorem withColumnM_rows_eq_mapM (names : List String) (name : String) (e : Expr) (rows : List Row) :
    (withColumnM names name e rows).map (·.2) =
      rows.mapM (fun r => (evalM r e).map (newRow names name r)) := by
  rw [← mapM_zip_map]
  unfold withColumnM newRow
  by_cases hc : names.contains name = true
  · simp only [hc, if_true]
    cases List.mapM (fun r => evalM r e) rows with
    | error x => rfl
    | ok vals => rfl
  · simp only [hc]
    cases List.mapM (fun r => evalM r e) rows with
    | error x => rfl
    | ok vals => rfl

end PysparklingVerif.Sql
