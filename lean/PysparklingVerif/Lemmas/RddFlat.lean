/-
  Helper lemmas for C01: flattening commutes with the narrow transformations, the
  `Option`-lifted reduce monoid, counting dicts and `pyDict`.
-/
import PysparklingVerif.Model.Pipeline
namespace PysparklingVerif.Rdd

variable {α β κ ν : Type}

/-! ## flatten -/

theorem flat_nil : flat ([] : Parts α) = [] := rfl
theorem flat_cons (p : List α) (ps : Parts α) : flat (p :: ps) = p ++ flat ps := rfl
theorem flat_singleton (p : List α) : flat [p] = p := by simp [flat]

theorem flat_map_map (f : α → β) (ps : Parts α) : flat (ps.map (List.map f)) = (flat ps).map f := by
  induction ps with
  | nil => rfl
  | cons p ps ih => simp only [List.map_cons, flat_cons, List.map_append, ih]

theorem flat_map_filter (p : α → Bool) (ps : Parts α) :
    flat (ps.map (List.filter p)) = (flat ps).filter p := by
  induction ps with
  | nil => rfl
  | cons q ps ih => simp only [List.map_cons, flat_cons, List.filter_append, ih]

theorem flat_map_flatMap (f : α → List β) (ps : Parts α) :
    flat (ps.map (List.flatMap f)) = (flat ps).flatMap f := by
  induction ps with
  | nil => rfl
  | cons q ps ih => simp only [List.map_cons, flat_cons, List.flatMap_append, ih]

theorem hom_nil (g : List α → List β) (hg : ∀ a b, g (a ++ b) = g a ++ g b) : g [] = [] := by
  have h := hg [] []
  have hl := congrArg List.length h
  simp only [List.append_nil, List.length_append] at hl
  exact List.eq_nil_of_length_eq_zero (by omega)

theorem flat_map_hom (g : List α → List β) (hg : ∀ a b, g (a ++ b) = g a ++ g b) (ps : Parts α) :
    flat (ps.map g) = g (flat ps) := by
  induction ps with
  | nil => exact (hom_nil g hg).symm
  | cons q ps ih => simp only [List.map_cons, flat_cons, hg, ih]

theorem flat_glom (ps : Parts α) : flat (glom ps) = ps := by
  induction ps with
  | nil => rfl
  | cons q ps ih =>
    simp only [glom, List.map_cons, flat_cons, List.singleton_append] at ih ⊢
    rw [ih]

theorem count_eq_length (ps : Parts α) : count ps = (flat ps).length := by
  induction ps with
  | nil => rfl
  | cons q ps ih =>
    simp only [count, List.map_cons, List.sum_cons, flat_cons, List.length_append] at ih ⊢
    rw [ih]

theorem sumInt_eq_sum (ps : Parts Int) : sumInt ps = (flat ps).sum := by
  induction ps with
  | nil => rfl
  | cons q ps ih =>
    simp only [sumInt, List.map_cons, List.sum_cons, flat_cons, List.sum_append] at ih ⊢
    rw [ih]

/-! ## reduce: the `Option`-lifted operation is a monoid with identity `none` -/

/-- the combining function of `reducer` -/
def optOp (f : α → α → α) (a b : Option α) : Option α :=
  match a, b with
  | none, b => b
  | a, none => a
  | some a, some b => some (f a b)

theorem reducer_eq_foldl (f : α → α → α) (xs : List (Option α)) :
    reducer f xs = xs.foldl (optOp f) none := rfl

@[simp] theorem optOp_none_left (f : α → α → α) (b : Option α) : optOp f none b = b := by
  cases b <;> rfl
@[simp] theorem optOp_none_right (f : α → α → α) (a : Option α) : optOp f a none = a := by
  cases a <;> rfl
@[simp] theorem optOp_some_some (f : α → α → α) (a b : α) :
    optOp f (some a) (some b) = some (f a b) := rfl

theorem optOp_assoc (f : α → α → α) (hf : ∀ a b c, f (f a b) c = f a (f b c))
    (a b c : Option α) : optOp f (optOp f a b) c = optOp f a (optOp f b c) := by
  cases a <;> cases b <;> cases c <;> simp [hf]

/-- left fold from `a` = `a` combined with the left fold from the identity -/
theorem foldl_optOp (f : α → α → α) (hf : ∀ a b c, f (f a b) c = f a (f b c))
    (a : Option α) (xs : List (Option α)) :
    xs.foldl (optOp f) a = optOp f a (xs.foldl (optOp f) none) := by
  induction xs generalizing a with
  | nil => simp
  | cons x xs ih =>
    simp only [List.foldl_cons, optOp_none_left]
    rw [ih (optOp f a x), ih x, optOp_assoc f hf]

theorem foldl_optOp_some (f : α → α → α) (a : α) (xs : List α) :
    (xs.map some).foldl (optOp f) (some a) = some (xs.foldl f a) := by
  induction xs generalizing a with
  | nil => rfl
  | cons x xs ih => simp only [List.map_cons, List.foldl_cons, optOp_some_some, ih]

theorem reducer_map_some (f : α → α → α) (xs : List α) :
    reducer f (xs.map some) = match xs with
      | [] => none
      | x :: xs => some (xs.foldl f x) := by
  cases xs with
  | nil => rfl
  | cons x xs =>
    simp only [reducer_eq_foldl, List.map_cons, List.foldl_cons, optOp_none_left, foldl_optOp_some]

/-- combining the per-partition reductions = reducing the concatenation -/
theorem reducer_flatten (f : α → α → α) (hf : ∀ a b c, f (f a b) c = f a (f b c))
    (L : List (List (Option α))) :
    reducer f (L.map (reducer f)) = reducer f L.flatten := by
  induction L with
  | nil => rfl
  | cons l L ih =>
    simp only [List.map_cons, List.flatten_cons]
    rw [reducer_eq_foldl f (_ :: _), reducer_eq_foldl f (_ ++ _)]
    simp only [List.foldl_cons, optOp_none_left, List.foldl_append]
    rw [foldl_optOp f hf, ← reducer_eq_foldl, ih, reducer_eq_foldl f l, reducer_eq_foldl,
      ← foldl_optOp f hf]

theorem reduce_eq_reducer_flat (f : α → α → α) (hf : ∀ a b c, f (f a b) c = f a (f b c))
    (ps : Parts α) : reduce f ps = reducer f ((flat ps).map some) := by
  have h := reducer_flatten f hf (ps.map (List.map some))
  simp only [List.map_map] at h
  have h2 : (ps.map (List.map some)).flatten = (flat ps).map some := flat_map_map some ps
  rw [h2] at h
  exact h

/-- without associativity: reducing all-empty partitions gives `none` -/
theorem reducer_replicate_none (f : α → α → α) (n : Nat) :
    reducer f (List.replicate n none) = none := by
  induction n with
  | zero => rfl
  | succ n ih =>
    simp only [reducer_eq_foldl, List.replicate_succ, List.foldl_cons, optOp_none_left] at ih ⊢
    exact ih

theorem reduce_of_flat_nil (f : α → α → α) (ps : Parts α) (h : flat ps = []) :
    reduce f ps = none := by
  have hall : ∀ p ∈ ps, p = [] := by
    intro p hp
    have := List.flatten_eq_nil_iff.mp h
    exact this p hp
  have : (ps.map fun p => reducer f (p.map some)) = List.replicate ps.length none := by
    clear h
    induction ps with
    | nil => rfl
    | cons q ps ih =>
      have hq : q = [] := hall q (List.mem_cons_self)
      subst hq
      simp only [List.map_cons, List.length_cons, List.replicate_succ]
      rw [ih (fun p hp => hall p (List.mem_cons_of_mem _ hp))]
      rfl
  simp only [reduce, this, reducer_replicate_none]

/-! ## aggregate -/

theorem aggregate_foldl (z : β) (seq : β → α → β) (comb : β → β → β)
    (hc : ∀ (b : β) (xs : List α), comb b (xs.foldl seq z) = xs.foldl seq b)
    (ps : Parts α) (b : β) :
    (ps.map fun p => p.foldl seq z).foldl comb b = (flat ps).foldl seq b := by
  induction ps generalizing b with
  | nil => rfl
  | cons q ps ih =>
    simp only [List.map_cons, List.foldl_cons, flat_cons, List.foldl_append, hc, ih]

theorem foldl_assoc_id (z : α) (op : α → α → α) (hassoc : ∀ a b c, op (op a b) c = op a (op b c))
    (hl : ∀ a, op z a = a) (hr : ∀ a, op a z = a) (b : α) (xs : List α) :
    op b (xs.foldl op z) = xs.foldl op b := by
  induction xs generalizing b with
  | nil => exact hr b
  | cons x xs ih =>
    simp only [List.foldl_cons, hl]
    rw [← ih x, ← hassoc, ih (op b x)]

/-! ## counting dicts (`countByValue`) -/

/-- count of `x` in an association list of counts -/
def cnt [DecidableEq α] (x : α) (d : List (α × Nat)) : Nat :=
  ((d.filter (·.1 == x)).map (·.2)).sum

section Count
variable [DecidableEq α]

theorem cnt_nil (x : α) : cnt x [] = 0 := rfl

theorem cnt_cons (x : α) (e : α × Nat) (d : List (α × Nat)) :
    cnt x (e :: d) = (if e.1 = x then e.2 else 0) + cnt x d := by
  simp only [cnt, List.filter_cons]
  split <;> simp_all

theorem cnt_append (x : α) (a b : List (α × Nat)) : cnt x (a ++ b) = cnt x a + cnt x b := by
  simp only [cnt, List.filter_append, List.map_append, List.sum_append]

/-- the update branch of `countInto` -/
def bump (y : α) (c : Nat) (e : α × Nat) : α × Nat := if e.1 == y then (e.1, e.2 + c) else e

theorem bump_fst (y : α) (c : Nat) (e : α × Nat) : (bump y c e).1 = e.1 := by
  unfold bump; split <;> rfl

theorem keys_bump (y : α) (c : Nat) (acc : List (α × Nat)) :
    (acc.map (bump y c)).map (·.1) = acc.map (·.1) := by
  simp only [List.map_map]
  apply List.map_congr_left
  intro e _
  exact bump_fst y c e

theorem cnt_bump (x y : α) (c : Nat) (acc : List (α × Nat)) (hnd : (acc.map (·.1)).Nodup) :
    cnt x (acc.map (bump y c)) = cnt x acc + (if x = y ∧ y ∈ acc.map (·.1) then c else 0) := by
  induction acc with
  | nil => simp [cnt_nil]
  | cons e acc ih =>
    simp only [List.map_cons, List.nodup_cons] at hnd
    have ih := ih hnd.2
    simp only [List.map_cons, cnt_cons, ih, List.mem_cons]
    unfold bump
    grind

theorem countInto_eq (acc : List (α × Nat)) (y : α) (c : Nat) :
    countInto acc y c =
      if y ∈ acc.map (·.1) then acc.map (bump y c) else acc ++ [(y, c)] := by
  unfold countInto
  have : (acc.any (·.1 == y) = true) ↔ y ∈ acc.map (·.1) := by
    simp only [List.any_eq_true, List.mem_map, beq_iff_eq]
  by_cases h : y ∈ acc.map (·.1)
  · rw [if_pos (this.mpr h), if_pos h]; rfl
  · rw [if_neg (fun h' => h (this.mp h')), if_neg h]

theorem countInto_nodup (acc : List (α × Nat)) (y : α) (c : Nat) (hnd : (acc.map (·.1)).Nodup) :
    ((countInto acc y c).map (·.1)).Nodup := by
  rw [countInto_eq]
  split
  · rw [keys_bump]; exact hnd
  · rename_i h
    simp only [List.map_append, List.map_cons, List.map_nil]
    grind

theorem cnt_countInto (x : α) (acc : List (α × Nat)) (y : α) (c : Nat)
    (hnd : (acc.map (·.1)).Nodup) :
    cnt x (countInto acc y c) = cnt x acc + (if x = y then c else 0) := by
  rw [countInto_eq]
  split
  · rw [cnt_bump x y c acc hnd]; grind
  · rename_i h
    rw [cnt_append, cnt_cons, cnt_nil]
    grind

/-- counting one partition on top of `acc` -/
theorem count_partition (x : α) (p : List α) (acc : List (α × Nat)) (hnd : (acc.map (·.1)).Nodup) :
    ((p.foldl (fun acc x => countInto acc x 1) acc).map (·.1)).Nodup ∧
    cnt x (p.foldl (fun acc x => countInto acc x 1) acc) = cnt x acc + p.count x := by
  induction p generalizing acc with
  | nil => exact ⟨hnd, rfl⟩
  | cons y p ih =>
    have h := ih (countInto acc y 1) (countInto_nodup acc y 1 hnd)
    simp only [List.foldl_cons]
    refine ⟨h.1, ?_⟩
    rw [h.2, cnt_countInto x acc y 1 hnd, List.count_cons]
    grind

/-- merging one dict into `acc` (`sum_counts_by_keys`) -/
theorem merge_dict (x : α) (d acc : List (α × Nat)) (hnd : (acc.map (·.1)).Nodup) :
    ((d.foldl (fun acc e => countInto acc e.1 e.2) acc).map (·.1)).Nodup ∧
    cnt x (d.foldl (fun acc e => countInto acc e.1 e.2) acc) = cnt x acc + cnt x d := by
  induction d generalizing acc with
  | nil => exact ⟨hnd, rfl⟩
  | cons e d ih =>
    have h := ih (countInto acc e.1 e.2) (countInto_nodup acc e.1 e.2 hnd)
    simp only [List.foldl_cons]
    refine ⟨h.1, ?_⟩
    rw [h.2, cnt_countInto x acc e.1 e.2 hnd, cnt_cons]
    grind

theorem merge_all (x : α) (ps : Parts α) (acc : List (α × Nat)) (hnd : (acc.map (·.1)).Nodup) :
    (((ps.map fun p => p.foldl (fun acc x => countInto acc x 1) []).foldl
        (fun acc d => d.foldl (fun acc e => countInto acc e.1 e.2) acc) acc).map (·.1)).Nodup ∧
    cnt x ((ps.map fun p => p.foldl (fun acc x => countInto acc x 1) []).foldl
        (fun acc d => d.foldl (fun acc e => countInto acc e.1 e.2) acc) acc)
      = cnt x acc + (flat ps).count x := by
  induction ps generalizing acc with
  | nil => exact ⟨hnd, rfl⟩
  | cons p ps ih =>
    simp only [List.map_cons, List.foldl_cons, flat_cons, List.count_append]
    have hm := merge_dict x (p.foldl (fun acc x => countInto acc x 1) []) acc hnd
    have hp := count_partition x p [] List.nodup_nil
    have h := ih _ hm.1
    refine ⟨h.1, ?_⟩
    rw [h.2, hm.2, hp.2, cnt_nil]
    omega

theorem countByValue_spec (ps : Parts α) (x : α) :
    cnt x (countByValue ps) = (flat ps).count x ∧ ((countByValue ps).map (·.1)).Nodup := by
  have h := merge_all x ps [] List.nodup_nil
  rw [cnt_nil, Nat.zero_add] at h
  exact ⟨h.2, h.1⟩

end Count

/-! ## `pyDict` -/

section Dict
variable [DecidableEq κ]

/-- one `d[k] = v` step of `dict(pairs)` -/
def pyIns (acc : List (κ × ν)) (kv : κ × ν) : List (κ × ν) :=
  if acc.any (·.1 == kv.1) then acc.map (fun e => if e.1 == kv.1 then (e.1, kv.2) else e)
  else acc ++ [kv]

theorem pyDict_eq_foldl (kvs : List (κ × ν)) : pyDict kvs = kvs.foldl pyIns [] := rfl

theorem any_key_iff (acc : List (κ × ν)) (k : κ) :
    (acc.any (·.1 == k) = true) ↔ k ∈ acc.map (·.1) := by
  simp only [List.any_eq_true, List.mem_map, beq_iff_eq]

theorem keys_set (acc : List (κ × ν)) (kv : κ × ν) :
    (acc.map (fun e => if e.1 == kv.1 then (e.1, kv.2) else e)).map (·.1) = acc.map (·.1) := by
  simp only [List.map_map]
  apply List.map_congr_left
  intro e _
  simp only [Function.comp]
  split <;> rfl

theorem pyIns_nodup (acc : List (κ × ν)) (kv : κ × ν) (hnd : (acc.map (·.1)).Nodup) :
    ((pyIns acc kv).map (·.1)).Nodup := by
  unfold pyIns
  by_cases h : kv.1 ∈ acc.map (·.1)
  · rw [if_pos ((any_key_iff acc kv.1).mpr h), keys_set]; exact hnd
  · rw [if_neg (fun h' => h ((any_key_iff acc kv.1).mp h'))]
    simp only [List.map_append, List.map_cons, List.map_nil]
    grind

theorem lookup_set (k : κ) (acc : List (κ × ν)) (kv : κ × ν) :
    List.lookup k (acc.map (fun e => if e.1 == kv.1 then (e.1, kv.2) else e)) =
      if kv.1 = k ∧ kv.1 ∈ acc.map (·.1) then some kv.2 else List.lookup k acc := by
  induction acc with
  | nil => simp
  | cons e acc ih =>
    obtain ⟨a, b⟩ := e
    simp only [List.map_cons, List.mem_cons]
    by_cases h1 : a = kv.1
    · subst h1
      simp only [beq_self_eq_true, if_true, List.lookup_cons, ih]
      grind
    · have : (a == kv.1) = false := by simpa using h1
      simp only [this, List.lookup_cons]
      grind

theorem lookup_append_singleton (k : κ) (acc : List (κ × ν)) (kv : κ × ν)
    (h : kv.1 ∉ acc.map (·.1)) :
    List.lookup k (acc ++ [kv]) = if kv.1 = k then some kv.2 else List.lookup k acc := by
  induction acc with
  | nil => 
    obtain ⟨a, b⟩ := kv
    simp only [List.nil_append, List.lookup_cons, List.lookup_nil]
    grind
  | cons e acc ih => 
    obtain ⟨a, b⟩ := e
    simp only [List.map_cons, List.mem_cons, not_or] at h
    simp only [List.cons_append, List.lookup_cons, ih h.2]
    grind

theorem lookup_pyIns (k : κ) (acc : List (κ × ν)) (kv : κ × ν) :
    List.lookup k (pyIns acc kv) = if kv.1 = k then some kv.2 else List.lookup k acc := by
  unfold pyIns
  by_cases h : kv.1 ∈ acc.map (·.1)
  · rw [if_pos ((any_key_iff acc kv.1).mpr h), lookup_set]
    simp only [h, and_true]
  · rw [if_neg (fun h' => h ((any_key_iff acc kv.1).mp h')), lookup_append_singleton k acc kv h]

theorem foldl_pyIns_nodup (kvs acc : List (κ × ν)) (hnd : (acc.map (·.1)).Nodup) :
    ((kvs.foldl pyIns acc).map (·.1)).Nodup := by
  induction kvs generalizing acc with
  | nil => exact hnd
  | cons kv kvs ih => exact ih _ (pyIns_nodup acc kv hnd)

theorem lookup_foldl_pyIns (k : κ) (kvs acc : List (κ × ν)) :
    List.lookup k (kvs.foldl pyIns acc) =
      (((kvs.filter (·.1 == k)).getLast?).map (·.2)).or (List.lookup k acc) := by
  induction kvs generalizing acc with
  | nil => simp
  | cons kv kvs ih =>
    simp only [List.foldl_cons, ih, lookup_pyIns, List.filter_cons]
    by_cases h : kv.1 = k
    · simp only [h, beq_self_eq_true, if_true, List.getLast?_cons]
      cases (List.filter (fun x => x.1 == k) kvs).getLast? <;> simp
    · have : (kv.1 == k) = false := by simpa using h
      simp only [h, this, if_false]
      rfl

theorem pyDict_spec (kvs : List (κ × ν)) (k : κ) :
    ((pyDict kvs).map (·.1)).Nodup ∧
    List.lookup k (pyDict kvs) = ((kvs.filter (·.1 == k)).getLast?).map (·.2) := by
  rw [pyDict_eq_foldl]
  refine ⟨foldl_pyIns_nodup kvs [] List.nodup_nil, ?_⟩
  rw [lookup_foldl_pyIns]
  simp
end Dict

end PysparklingVerif.Rdd
