/-
  The sampling stage pulls everything upstream, whatever is drawn (helper lemmas + statements for Extracted/EquivC06.lean).
-/
import PysparklingVerif.Model.Lazy
namespace PysparklingVerif.Lazy

theorem replicate_nil_events {α : Type} (n : Nat) (v : α) :
    (List.replicate n (⟨[], v⟩ : Cell α)).flatMap (·.events) = [] := by
  induction n with
  | zero => rfl
  | succ n ih => simp [List.replicate_succ, ih]

theorem lsampleAux_events {α : Type} (ds : List Nat) (cells : List (Cell α)) (pending trailing : List (Ev α)) :
    (lsampleAux ds cells pending trailing).cells.flatMap (·.events) ++ (lsampleAux ds cells pending trailing).trailing
      = pending ++ cells.flatMap (·.events) ++ trailing := by
  induction cells generalizing ds pending with
  | nil => simp [lsampleAux]
  | cons c cs ih =>
    unfold lsampleAux
    cases h : ds.headD 0 with
    | zero => simp [ih]
    | succ n =>
      simp only [List.flatMap_cons, List.flatMap_append, replicate_nil_events, List.append_nil,
        List.append_assoc]
      have := ih ds.tail []
      simp only [List.nil_append] at this
      rw [this]

theorem lsampleAux_values {α : Type} (draws : List Nat) (cells : List (Cell α)) (k : Nat)
    (pending trailing : List (Ev α)) :
    (lsampleAux (draws.drop k) cells pending trailing).cells.map (·.value)
      = ((cells.map (·.value)).zipIdx k).flatMap fun (v, i) => List.replicate (draws.getD i 0) v := by
  induction cells generalizing k pending with
  | nil => simp [lsampleAux]
  | cons c cs ih =>
    unfold lsampleAux
    have hh : (draws.drop k).headD 0 = draws.getD k 0 := by
      simp [List.headD_eq_head?_getD, List.head?_drop, List.getD_eq_getElem?_getD]
    have ht : (draws.drop k).tail = draws.drop (k + 1) := by simp
    rw [hh, ht]
    cases h : draws.getD k 0 with
    | zero =>
      have h' : draws[k]?.getD 0 = 0 := by simpa [List.getD_eq_getElem?_getD] using h
      simp [ih, List.zipIdx_cons, h']
    | succ n =>
      have h' : draws[k]?.getD 0 = n + 1 := by simpa [List.getD_eq_getElem?_getD] using h
      simp [ih, List.zipIdx_cons, h', List.replicate_succ]

/-- a full pass over a sampled stream performs EXACTLY the calls of a full pass over its upstream, in the same order -
whatever the sampler draws, also when it draws 0 for every element -/
theorem pullAll_lsample_events {α : Type} (draws : List Nat) (s : LStream α) :
    (pullAll (lsample draws s)).1 = (pullAll s).1 := by
  simpa [pullAll, lsample] using lsampleAux_events draws s.cells [] s.trailing

/-- the values: every upstream output as often as drawn for it, in order -/
theorem pullAll_lsample_values {α : Type} (draws : List Nat) (s : LStream α) :
    (pullAll (lsample draws s)).2 =
      ((s.cells.map (·.value)).zipIdx.flatMap fun (v, i) => List.replicate (draws.getD i 0) v) := by
  simpa [pullAll, lsample] using lsampleAux_values draws s.cells 0 [] s.trailing

/-- nothing drawn at all: no output, and still every upstream call -/
theorem lsample_nothing {α : Type} (s : LStream α) :
    (pullAll (lsample [] s)).2 = [] ∧ (pullAll (lsample [] s)).1 = (pullAll s).1 := by
  refine ⟨?_, pullAll_lsample_events [] s⟩
  rw [pullAll_lsample_values]
  simp

end PysparklingVerif.Lazy
