/-
  Lemmas about the model of pysparkling/sql/types.py used by property C19.
-/
import PysparklingVerif.Model.Types
import PysparklingVerif.Lemmas.CastLemmas
namespace PysparklingVerif.Types
open PysparklingVerif.Cast

/-! ### strings -/

theorem decPrefix : "decimal(".toList = ['d','e','c','i','m','a','l','('] := by decide +kernel
theorem commaL : ",".toList = [','] := by decide +kernel
theorem parenL : ")".toList = [')'] := by decide +kernel

theorem decimalString_toList (p : Nat) (s : Int) :
    (decimalString p s).toList =
      ['d','e','c','i','m','a','l','('] ++ (renderNat p ++ ',' :: (renderInt s ++ [')'])) := by
  simp [decimalString, String.toList_append, String.toList_ofList, decPrefix, commaL, parenL]

theorem Atom.ofName_name (a : Atom) : Atom.ofName a.name = some a := by
  cases a <;> decide +kernel

theorem Atom.name_length (a : Atom) : a.name.length ≤ 9 := by cases a <;> decide +kernel

theorem decimalString_length (p : Nat) (s : Int) : 10 ≤ (decimalString p s).length := by
  rw [← String.length_toList, decimalString_toList]; simp; omega

theorem Atom.ofName_decimalString (p : Nat) (s : Int) : Atom.ofName (decimalString p s) = none := by
  unfold Atom.ofName
  rw [List.find?_eq_none]
  intro a _ h
  have h1 := Atom.name_length a
  have h2 := decimalString_length p s
  simp at h
  rw [h] at h1; omega

theorem decimalString_ne (p : Nat) (s : Int) : (decimalString p s == "decimal") = false := by
  have h2 := decimalString_length p s
  simp
  intro h
  rw [h] at h2
  revert h2; decide +kernel

/-! ### parsing `decimal(p,s)` -/

theorem takeWhile_append_stop {α} (p : α → Bool) (l : List α) (a : α) (r : List α)
    (hl : ∀ x ∈ l, p x = true) (ha : p a = false) : (l ++ a :: r).takeWhile p = l := by
  induction l with
  | nil => simp [ha]
  | cons x xs ih =>
    simp [hl x (by simp)]
    exact ih (fun y hy => hl y (by simp [hy]))

theorem dropWhile_append_stop {α} (p : α → Bool) (l : List α) (a : α) (r : List α)
    (hl : ∀ x ∈ l, p x = true) (ha : p a = false) : (l ++ a :: r).dropWhile p = a :: r := by
  induction l with
  | nil => simp [ha]
  | cons x xs ih =>
    simp [hl x (by simp)]
    exact ih (fun y hy => hl y (by simp [hy]))

theorem digitChar_plain (d : Nat) (h : d < 10) :
    digitChar d ≠ ',' ∧ digitChar d ≠ ')' ∧ digitChar d ≠ ' ' ∧ digitChar d ≠ '-' := by
  have : ∀ d : Fin 10, digitChar d ≠ ',' ∧ digitChar d ≠ ')' ∧ digitChar d ≠ ' ' ∧ digitChar d ≠ '-' := by decide
  exact this ⟨d, h⟩

theorem renderNat_plain (n : Nat) : ∀ c ∈ renderNat n, c ≠ ',' ∧ c ≠ ')' ∧ c ≠ ' ' ∧ c ≠ '-' := by
  intro c hc
  obtain ⟨d, hd, rfl⟩ := renderNat_digits n c hc
  exact digitChar_plain d hd

theorem renderInt_plain (z : Int) : ∀ c ∈ renderInt z, c ≠ ',' ∧ c ≠ ')' ∧ c ≠ ' ' := by
  intro c hc
  cases z with
  | ofNat n => have := renderNat_plain n c hc; exact ⟨this.1, this.2.1, this.2.2.1⟩
  | negSucc n =>
    simp [renderInt] at hc
    rcases hc with rfl | hc
    · decide
    · have := renderNat_plain _ c hc; exact ⟨this.1, this.2.1, this.2.2.1⟩

theorem parseSigned_renderInt (z : Int) :
    (match renderInt z with
      | '-' :: ds => (parseNat ds).map fun n => -(n : Int)
      | ds => (parseNat ds).map fun n => (n : Int)) = some z := by
  cases z with
  | ofNat n =>
    simp only [renderInt]
    cases hr : renderNat n with
    | nil => exact absurd hr (renderNat_ne_nil n)
    | cons c cs =>
      have hc := (renderNat_plain n c (by rw [hr]; simp)).2.2.2
      have : parseNat (c :: cs) = some n := by rw [← hr]; exact parseNat_renderNat n
      split
      · rename_i heq; simp at heq; exact absurd heq.1 hc
      · simp [this]
  | negSucc n =>
    simp [renderInt, parseNat_renderNat]
    omega

theorem parseSigned_match (z : Int) :
    parseDecimal.match_1 (fun _ => Option Int) (renderInt z)
      (fun ds => (parseNat ds).map fun n => -(n : Int)) (fun ds => (parseNat ds).map fun n => (n : Int)) = some z :=
  parseSigned_renderInt z

theorem parseDecimal_decimalString (p : Nat) (s : Int) :
    parseDecimal (decimalString p s) = some (p, s) := by
  unfold parseDecimal
  simp only [decimalString_toList, decPrefix]
  have h1 : ∀ x ∈ renderNat p, (x != ',') = true := fun x hx => by simpa using (renderNat_plain p x hx).1
  have h2 : ∀ x ∈ renderInt s, (x != ')') = true := fun x hx => by simpa using (renderInt_plain s x hx).2.1
  have e1 : List.drop 8 (['d','e','c','i','m','a','l','('] ++ (renderNat p ++ ',' :: (renderInt s ++ [')'])))
      = renderNat p ++ ',' :: (renderInt s ++ [')']) := by simp
  rw [e1, takeWhile_append_stop _ _ _ _ h1 (by decide), dropWhile_append_stop _ _ _ _ h1 (by decide)]
  simp only [List.drop_succ_cons, List.drop_zero]
  rw [takeWhile_append_stop _ _ _ _ h2 (by decide)]
  have f1 : (renderNat p).filter (· != ' ') = renderNat p :=
    List.filter_eq_self.2 fun x hx => by simpa using (renderNat_plain p x hx).2.2.1
  have f2 : (renderInt s).filter (· != ' ') = renderInt s :=
    List.filter_eq_self.2 fun x hx => by simpa using (renderInt_plain s x hx).2.2
  rw [f1, f2, parseNat_renderNat, parseSigned_match]
  simp
/-! ### JSON round trip -/

theorem DType.size_pos (t : DType) : 1 ≤ t.size := by cases t <;> simp [DType.size]
theorem sizeFields_pos (fs) : 1 ≤ sizeFields fs := by
  cases fs with
  | nil => simp [sizeFields]
  | cons f r => obtain ⟨n, t, nu, md⟩ := f; simp [sizeFields]

mutual
theorem ofJ_toJ : ∀ (t : DType) (fuel : Nat), t.size ≤ fuel → ofJ fuel (toJ t) = some t
  | .atom a, fuel, h => by
    obtain ⟨k, rfl⟩ : ∃ k, fuel = k + 1 := ⟨fuel - 1, by simp [DType.size] at h; omega⟩
    simp [toJ, ofJ, Atom.ofName_name]
  | .decimal p s, fuel, h => by
    obtain ⟨k, rfl⟩ : ∃ k, fuel = k + 1 := ⟨fuel - 1, by simp [DType.size] at h; omega⟩
    simp [toJ, ofJ, Atom.ofName_decimalString, decimalString_ne, parseDecimal_decimalString]
  | .array e cn, fuel, h => by
    obtain ⟨k, rfl⟩ : ∃ k, fuel = k + 1 := ⟨fuel - 1, by simp [DType.size] at h; omega⟩
    have ih := ofJ_toJ e k (by simp [DType.size] at h; omega)
    simp [toJ, ofJ, List.lookup, ih]
  | .map kt vt c, fuel, h => by
    obtain ⟨k, rfl⟩ : ∃ k, fuel = k + 1 := ⟨fuel - 1, by simp [DType.size] at h; omega⟩
    have ih1 := ofJ_toJ kt k (by simp [DType.size] at h; omega)
    have ih2 := ofJ_toJ vt k (by simp [DType.size] at h; omega)
    simp [toJ, ofJ, List.lookup, ih1, ih2]
  | .struct fs, fuel, h => by
    obtain ⟨k, rfl⟩ : ∃ k, fuel = k + 1 := ⟨fuel - 1, by simp [DType.size] at h; omega⟩
    have ih := ofJFields_toJFields fs k (by simp [DType.size] at h; omega)
    simp [toJ, ofJ, List.lookup, ih]
theorem ofJFields_toJFields : ∀ (fs : List (String × DType × Bool × J)) (fuel : Nat), sizeFields fs ≤ fuel →
    ofJFields fuel (toJFields fs) = some fs
  | [], fuel, h => by
    obtain ⟨k, rfl⟩ : ∃ k, fuel = k + 1 := ⟨fuel - 1, by simp [sizeFields] at h; omega⟩
    simp [toJFields, ofJFields]
  | (n, t, nu, md) :: r, fuel, h => by
    obtain ⟨k, rfl⟩ : ∃ k, fuel = k + 1 := ⟨fuel - 1, by simp [sizeFields] at h; omega⟩
    have ih1 := ofJ_toJ t k (by simp [sizeFields] at h; omega)
    have ih2 := ofJFields_toJFields r k (by simp [sizeFields] at h; omega)
    simp [toJFields, ofJFields, List.lookup, ih1, ih2]
end
/-! ### verify rejects; asDict -/

theorem verify_none_nonnullable (fuel : Nat) (t : DType) :
    verify (fuel + 1) t false .none = some .nullability := by
  simp [verify, PV.isNone]

theorem verify_outOfRange (fuel : Nat) (nullable : Bool) (a : Atom) (i : Int)
    (ha : a ∈ [Atom.byte, .short, .integer, .long]) (hr : rangeOk a i = false) :
    verify (fuel + 1) (.atom a) nullable (.int i) = some .outOfRange := by
  simp at ha
  rcases ha with rfl | rfl | rfl | rfl <;> simp [verify, PV.isNone, acceptsScalar, intOf, hr]

theorem verify_wrongType (fuel : Nat) (nullable : Bool) (a : Atom) (v : PV)
    (ha : a ≠ .string) (hv : v.isNone = false) (hs : acceptsScalar a v = false) :
    verify (fuel + 1) (.atom a) nullable v = some .wrongType := by
  cases a <;> simp_all [verify]

theorem verify_array_list (fuel : Nat) (nullable cn : Bool) (e : DType) (xs : List PV) :
    verify (fuel + 1) (.array e cn) nullable (.list xs) = xs.findSome? fun x => verify fuel e cn x := by
  simp [verify, PV.isNone]

theorem asDict_aux {α : Type} (l acc : List (String × α)) (hn : (l.map (·.1)).Nodup)
    (hd : ∀ kv ∈ l, ∀ e ∈ acc, e.1 ≠ kv.1) :
    l.foldl (fun acc kv =>
      if acc.any (·.1 == kv.1) then acc.map (fun e => if e.1 == kv.1 then kv else e) else acc ++ [kv]) acc
      = acc ++ l := by
  induction l generalizing acc with
  | nil => simp
  | cons kv l ih =>
    simp only [List.foldl_cons]
    have h1 : acc.any (·.1 == kv.1) = false := by
      rw [List.any_eq_false]
      intro e he
      simpa using hd kv (by simp) e he
    simp only [h1]
    simp at hn
    rw [ih]
    · simp
    · exact hn.2
    · intro kv' hkv' e he
      simp at he
      rcases he with he | rfl
      · exact hd kv' (by simp [hkv']) e he
      · intro heq
        exact hn.1 kv'.2 (by rw [heq]; exact hkv')

theorem map_fst_zip_nodup {α : Type} (names : List String) (values : List α) (hn : names.Nodup) :
    ((names.zip values).map (·.1)).Nodup := by
  induction names generalizing values with
  | nil => simp
  | cons n ns ih =>
    cases values with
    | nil => simp
    | cons v vs =>
      simp at hn ⊢
      refine ⟨?_, ih vs hn.2⟩
      intro x hx
      exact hn.1 (List.of_mem_zip hx).1

theorem asDict_nodup {α : Type} (names : List String) (values : List α) (hn : names.Nodup) :
    asDict names values = names.zip values := by
  unfold asDict
  rw [asDict_aux _ _ (map_fst_zip_nodup names values hn) (by simp)]
  simp
/-! ### depth; aligned lookup; verify on containers -/

theorem depth_le_depthList {x : PV} {xs : List PV} (h : x ∈ xs) : x.depth ≤ depthList xs := by
  induction xs with
  | nil => cases h
  | cons y ys ih =>
    simp only [depthList]
    rcases List.mem_cons.1 h with rfl | h
    · omega
    · have := ih h; omega

theorem depth_le_depthPairs {p : PV × PV} {kvs : List (PV × PV)} (h : p ∈ kvs) :
    p.1.depth ≤ depthPairs kvs ∧ p.2.depth ≤ depthPairs kvs := by
  induction kvs with
  | nil => cases h
  | cons y ys ih =>
    obtain ⟨a, b⟩ := y
    simp only [depthPairs]
    rcases List.mem_cons.1 h with rfl | h
    · simp; omega
    · have := ih h; omega

theorem depth_le_depthFields {p : String × PV} {fs : List (String × PV)} (h : p ∈ fs) :
    p.2.depth ≤ depthFields fs := by
  induction fs with
  | nil => cases h
  | cons y ys ih =>
    obtain ⟨a, b⟩ := y
    simp only [depthFields]
    rcases List.mem_cons.1 h with rfl | h
    · simp; omega
    · have := ih h; omega

theorem PV.depth_list (xs) : (PV.list xs).depth = depthList xs + 1 := by simp [PV.depth]
theorem PV.depth_dict (xs) : (PV.dict xs).depth = depthPairs xs + 1 := by simp [PV.depth]
theorem PV.depth_row (xs) : (PV.row xs).depth = depthFields xs + 1 := by simp [PV.depth]

/-- in two lists with the same distinct keys, looking up a key of the second list in the first finds the
entry at the same position -/
theorem lookup_aligned {α β : Type} : ∀ (vs : List (String × α)) (fs : List (String × β)),
    vs.map (·.1) = fs.map (·.1) → (fs.map (·.1)).Nodup →
    ∀ f ∈ fs, ∃ x, vs.lookup f.1 = some x ∧ ((f.1, x), f) ∈ vs.zip fs
  | [], [], _, _, f, hf => by cases hf
  | [], _ :: _, h, _, _, _ => by simp at h
  | _ :: _, [], h, _, _, _ => by simp at h
  | (n, x) :: vs, (m, y) :: fs, h, hn, f, hf => by
    simp at h hn
    obtain ⟨rfl, h⟩ := h
    rcases List.mem_cons.1 hf with rfl | hf
    · exact ⟨x, by simp [List.lookup], by simp⟩
    · obtain ⟨x', hx', hz⟩ := lookup_aligned vs fs h hn.2 f hf
      have hne : (f.1 == n) = false := by
        simp
        intro heq
        exact hn.1 f.2 (by rw [← heq]; exact hf)
      exact ⟨x', by simp [List.lookup, hne, hx'], by simp [hz]⟩

theorem verify_none_nullable (fuel : Nat) (t : DType) : verify (fuel + 1) t true .none = none := by
  simp [verify, PV.isNone]

theorem verify_map_dict (fuel : Nat) (nullable vcn : Bool) (k vt : DType) (kvs : List (PV × PV)) :
    verify (fuel + 1) (.map k vt vcn) nullable (.dict kvs) =
      kvs.findSome? fun (a, b) => (verify fuel k false a).or (verify fuel vt vcn b) := by
  simp [verify, PV.isNone]

theorem verify_struct_row_none (fuel : Nat) (nullable : Bool) (fs) (vs : List (String × PV))
    (h : ∀ f ∈ fs, ∃ x, vs.lookup f.1 = some x ∧ verify fuel f.2.1 f.2.2.1 x = none) :
    verify (fuel + 1) (.struct fs) nullable (.row vs) = none := by
  simp only [verify, PV.isNone]
  simp only [Bool.false_eq_true, if_false]
  rw [List.findSome?_eq_none_iff]
  intro f hf
  obtain ⟨x, hx, hv⟩ := h f hf
  simp [hx, hv]
/-! ### the `Below` relation; merge -/

abbrev Fields := List (String × DType × Bool × J)

mutual
/-- `t` is `T` with some subtrees replaced by the null type; every flag is `true`, no metadata, and the
field names of every struct of `T` met on the way are distinct -/
def Below : DType → DType → Prop
  | .atom a, T => a = .null ∨ T = .atom a
  | .decimal p s, T => T = .decimal p s
  | .array e cn, T => cn = true ∧ ∃ E, T = .array E true ∧ Below e E
  | .map k v c, T => c = true ∧ ∃ K V, T = .map K V true ∧ Below k K ∧ Below v V
  | .struct fs, T => ∃ Fs, T = .struct Fs ∧ (Fs.map (·.1)).Nodup ∧ BelowF fs Fs
def BelowF : Fields → Fields → Prop
  | [], Fs => Fs = []
  | (n, t, nu, md) :: r, Fs =>
      nu = true ∧ md = .obj [] ∧ ∃ T R, Fs = (n, T, true, .obj []) :: R ∧ Below t T ∧ BelowF r R
end

theorem Below.null (T : DType) : Below (.atom .null) T := by simp [Below]

theorem merge_null_left (b : DType) : merge (.atom .null) b = some b := by
  simp [merge, DType.isNull]
theorem merge_null_right (a : DType) : merge a (.atom .null) = some a := by
  unfold merge
  simp only [DType.isNull]
  split
  · simp
  · simp
theorem merge_atom (a : Atom) (h : a ≠ .null) : merge (.atom a) (.atom a) = some (.atom a) := by
  cases a <;> simp_all [merge, DType.isNull, sameClass]
theorem merge_decimal (p s) : merge (.decimal p s) (.decimal p s) = some (.decimal p s) := by
  simp [merge, DType.isNull, sameClass]
theorem merge_array (ea eb ca cb) : merge (.array ea ca) (.array eb cb) = (merge ea eb).map fun e => .array e true := by
  simp [merge, DType.isNull, sameClass]
theorem merge_map (ka kb va vb ca cb) : merge (.map ka va ca) (.map kb vb cb) =
    (merge ka kb).bind fun k => (merge va vb).map fun v => .map k v true := by
  simp [merge, DType.isNull, sameClass]
  cases merge ka kb <;> cases merge va vb <;> simp
theorem merge_struct (fa fb) : merge (.struct fa) (.struct fb) =
    (mergeFields fa fb).map fun fs => .struct (fs ++ fb.filter fun f => !(fa.any (·.1 == f.1))) := by
  simp [merge, DType.isNull, sameClass]
  cases mergeFields fa fb <;> simp

theorem BelowF.names : ∀ (fs Fs : Fields), BelowF fs Fs → fs.map (·.1) = Fs.map (·.1)
  | [], Fs, h => by simp [BelowF] at h; simp [h]
  | (n, t, nu, md) :: r, Fs, h => by
    simp only [BelowF] at h
    obtain ⟨_, _, T, R, rfl, _, hr⟩ := h
    simp [BelowF.names r R hr]

theorem BelowF.lookupField : ∀ (fb Fs : Fields), BelowF fb Fs → (Fs.map (·.1)).Nodup →
    ∀ F ∈ Fs, ∃ tb, lookupField fb F.1 = some tb ∧ Below tb F.2.1
  | [], Fs, h, _, F, hF => by simp [BelowF] at h; subst h; cases hF
  | (n, t, nu, md) :: r, Fs, h, hn, F, hF => by
    simp only [BelowF] at h
    obtain ⟨_, _, T, R, rfl, ht, hr⟩ := h
    simp only [List.map_cons, List.nodup_cons] at hn
    rcases List.mem_cons.1 hF with rfl | hF
    · exact ⟨t, by simp [Types.lookupField], ht⟩
    · obtain ⟨tb, h1, h2⟩ := BelowF.lookupField r R hr hn.2 F hF
      have hne : (n == F.1) = false := by
        simp
        intro heq
        exact hn.1 (List.mem_map.2 ⟨F, hF, heq.symm⟩)
      refine ⟨tb, ?_, h2⟩
      simp only [Types.lookupField] at h1 ⊢
      simp only [List.find?_cons, hne]
      exact h1

theorem BelowF.filter_nil (fa fb Fs : Fields) (ha : BelowF fa Fs) (hb : BelowF fb Fs) :
    fb.filter (fun f => !(fa.any (·.1 == f.1))) = [] := by
  rw [List.filter_eq_nil_iff]
  intro f hf
  have h1 : f.1 ∈ fb.map (·.1) := List.mem_map.2 ⟨f, hf, rfl⟩
  rw [BelowF.names fb Fs hb, ← BelowF.names fa Fs ha] at h1
  obtain ⟨g, hg, hgf⟩ := List.mem_map.1 h1
  have : fa.any (·.1 == f.1) = true := List.any_eq_true.2 ⟨g, hg, by simp [hgf]⟩
  simp only [this]; decide

/-! ### merging types below a common type; schema inference -/

mutual
theorem merge_below : ∀ (a b T : DType), Below a T → Below b T → ∃ c, merge a b = some c ∧ Below c T
  | .atom x, b, T, ha, hb => by
    by_cases hx : x = .null
    · subst hx; exact ⟨b, merge_null_left b, hb⟩
    · simp only [Below, hx, false_or] at ha
      subst ha
      cases b with
      | atom y =>
        simp only [Below] at hb
        rcases hb with rfl | hb
        · exact ⟨_, merge_null_right _, by simp [Below]⟩
        · cases hb; exact ⟨_, merge_atom _ hx, by simp [Below]⟩
      | decimal p s => simp [Below] at hb
      | array e c => simp [Below] at hb
      | map k v c => simp [Below] at hb
      | struct fs => simp [Below] at hb
  | .decimal p s, b, T, ha, hb => by
    simp only [Below] at ha
    subst ha
    cases b with
    | atom y =>
      simp only [Below] at hb
      rcases hb with rfl | hb
      · exact ⟨_, merge_null_right _, by simp [Below]⟩
      · cases hb
    | decimal p' s' =>
      simp only [Below] at hb; cases hb
      exact ⟨_, merge_decimal _ _, by simp [Below]⟩
    | array e c => simp [Below] at hb
    | map k v c => simp [Below] at hb
    | struct fs => simp [Below] at hb
  | .array ea ca, b, T, ha, hb => by
    have ha' := ha
    simp only [Below] at ha
    obtain ⟨rfl, E, rfl, hea⟩ := ha
    cases b with
    | atom y =>
      simp only [Below] at hb
      rcases hb with rfl | hb
      · exact ⟨_, merge_null_right _, ha'⟩
      · cases hb
    | decimal p' s' => simp [Below] at hb
    | array eb cb =>
      simp only [Below] at hb
      obtain ⟨rfl, E', hE, heb⟩ := hb
      cases hE
      obtain ⟨c, hc, hcE⟩ := merge_below ea eb E hea heb
      exact ⟨.array c true, by simp [merge_array, hc], by simp only [Below]; exact ⟨trivial, E, rfl, hcE⟩⟩
    | map k v c => simp [Below] at hb
    | struct fs => simp [Below] at hb
  | .map ka va ca, b, T, ha, hb => by
    have ha' := ha
    simp only [Below] at ha
    obtain ⟨rfl, K, V, rfl, hka, hva⟩ := ha
    cases b with
    | atom y =>
      simp only [Below] at hb
      rcases hb with rfl | hb
      · exact ⟨_, merge_null_right _, ha'⟩
      · cases hb
    | decimal p' s' => simp [Below] at hb
    | array eb cb => simp [Below] at hb
    | map kb vb cb =>
      simp only [Below] at hb
      obtain ⟨rfl, K', V', hE, hkb, hvb⟩ := hb
      cases hE
      obtain ⟨c, hc, hcK⟩ := merge_below ka kb K hka hkb
      obtain ⟨d, hd, hdV⟩ := merge_below va vb V hva hvb
      exact ⟨.map c d true, by simp [merge_map, hc, hd], by simp only [Below]; exact ⟨trivial, K, V, rfl, hcK, hdV⟩⟩
    | struct fs => simp [Below] at hb
  | .struct fa, b, T, ha, hb => by
    have ha' := ha
    simp only [Below] at ha
    obtain ⟨Fs, rfl, hn, hfa⟩ := ha
    cases b with
    | atom y =>
      simp only [Below] at hb
      rcases hb with rfl | hb
      · exact ⟨_, merge_null_right _, ha'⟩
      · cases hb
    | decimal p' s' => simp [Below] at hb
    | array eb cb => simp [Below] at hb
    | map kb vb cb => simp [Below] at hb
    | struct fb =>
      simp only [Below] at hb
      obtain ⟨Fs', hE, _, hfb⟩ := hb
      cases hE
      obtain ⟨r, hr, hrF⟩ := mergeFields_below fa fb Fs hfa (BelowF.lookupField fb Fs hfb hn)
      refine ⟨.struct r, ?_, ?_⟩
      · rw [merge_struct, hr, BelowF.filter_nil fa fb Fs hfa hfb]; simp
      · simp only [Below]; exact ⟨Fs, rfl, hn, hrF⟩
theorem mergeFields_below : ∀ (fa fb Fs : Fields), BelowF fa Fs →
    (∀ F ∈ Fs, ∃ tb, lookupField fb F.1 = some tb ∧ Below tb F.2.1) →
    ∃ r, mergeFields fa fb = some r ∧ BelowF r Fs
  | [], fb, Fs, ha, _ => by
    simp only [BelowF] at ha; subst ha
    exact ⟨[], by simp [mergeFields], by simp [BelowF]⟩
  | (n, t, nu, md) :: r, fb, Fs, ha, hl => by
    simp only [BelowF] at ha
    obtain ⟨_, _, T, R, rfl, ht, hr⟩ := ha
    obtain ⟨tb, h1, h2⟩ := hl _ (List.mem_cons_self)
    obtain ⟨c, hc, hcT⟩ := merge_below t tb T ht h2
    obtain ⟨r', hr', hrR⟩ := mergeFields_below r fb R hr (fun F hF => hl F (List.mem_cons_of_mem _ hF))
    refine ⟨(n, c, true, .obj []) :: r', ?_, ?_⟩
    · simp only [mergeFields]
      simp only [] at h1
      simp [h1, hc, hr']
    · simp only [BelowF]; exact ⟨trivial, trivial, T, R, rfl, hcT, hrR⟩
end

mutual
theorem below_eq : ∀ (t T : DType), Below t T → hasNull t = false → t = T
  | .atom a, T, h, hn => by
    simp [hasNull] at hn
    simp only [Below, hn, false_or] at h
    exact h.symm
  | .decimal p s, T, h, _ => by simp only [Below] at h; exact h.symm
  | .array e c, T, h, hn => by
    simp only [Below] at h
    obtain ⟨rfl, E, rfl, he⟩ := h
    simp only [hasNull] at hn
    rw [below_eq e E he hn]
  | .map k v c, T, h, hn => by
    simp only [Below] at h
    obtain ⟨rfl, K, V, rfl, hk, hv⟩ := h
    simp only [hasNull, Bool.or_eq_false_iff] at hn
    rw [below_eq k K hk hn.1, below_eq v V hv hn.2]
  | .struct fs, T, h, hn => by
    simp only [Below] at h
    obtain ⟨Fs, rfl, _, hf⟩ := h
    simp only [hasNull] at hn
    rw [belowF_eq fs Fs hf hn]
theorem belowF_eq : ∀ (fs Fs : Fields), BelowF fs Fs → hasNullFields fs = false → fs = Fs
  | [], Fs, h, _ => by simp only [BelowF] at h; exact h.symm
  | (n, t, nu, md) :: r, Fs, h, hn => by
    simp only [BelowF] at h
    obtain ⟨rfl, rfl, T, R, rfl, ht, hr⟩ := h
    simp only [hasNullFields, Bool.or_eq_false_iff] at hn
    rw [below_eq t T ht hn.1, belowF_eq r R hr hn.2]
end

theorem foldl_none (f : DType → PV → Option DType) (l : List PV) :
    l.foldl (fun acc x => acc.bind fun a => f a x) none = none := by
  induction l with
  | nil => rfl
  | cons x xs ih => simpa using ih

theorem foldl_merge_below (T : DType) : ∀ (rest : List PV) (a t : DType), Below a T →
    (∀ x ∈ rest, Below (infer x) T) →
    rest.foldl (fun acc x => acc.bind fun a => merge a (infer x)) (some a) = some t → Below t T
  | [], a, t, ha, _, h => by simp at h; subst h; exact ha
  | x :: xs, a, t, ha, hr, h => by
    obtain ⟨c, hc, hcT⟩ := merge_below a (infer x) T ha (hr x (by simp))
    simp only [List.foldl_cons, Option.bind_some, hc] at h
    exact foldl_merge_below T xs c t hcT (fun y hy => hr y (by simp [hy])) h

theorem inferSchema_below (T : DType) (rows : List PV) (t : DType)
    (hr : ∀ x ∈ rows, Below (infer x) T) (h : inferSchema rows = some t) : t = T := by
  cases rows with
  | nil => simp [inferSchema] at h
  | cons r rest =>
    simp only [inferSchema] at h
    split at h
    · rename_i t' ht'
      split at h
      · cases h
      · rename_i hnull
        cases h
        exact below_eq _ _ (foldl_merge_below T rest (infer r) _ (hr r (by simp))
          (fun y hy => hr y (by simp [hy])) ht') (by simpa using hnull)
    · cases h
end PysparklingVerif.Types
