/-
  Helper lemmas for C03 (schedule / backend independence) about the model in Model/Sched.lean.
-/
import PysparklingVerif.Model.Sched
namespace PysparklingVerif.Sched

/-! ### iteration -/

theorem iter_add {α : Type} (f : α → α) (m n : Nat) (a : α) :
    iter f (m + n) a = iter f n (iter f m a) := by
  induction m generalizing a with
  | zero => simp [iter]
  | succ m ih => rw [Nat.succ_add]; simp [iter, ih]

theorem iter_fixed {α : Type} (f : α → α) (n : Nat) (a : α) (h : f a = a) : iter f n a = a := by
  induction n with
  | zero => rfl
  | succ n ih => simp [iter, h, ih]

/-! ### cache -/

theorem get_put_self (c : Cache) (k : Key) (d : List Nat) : (c.put k d).get k = some d := by
  induction c with
  | nil => simp [Cache.put, Cache.get]
  | cons e c ih =>
    obtain ⟨ek, ed⟩ := e
    simp only [Cache.put, Cache.get] at ih ⊢
    by_cases h : ek = k
    · simpa [List.filter_cons, h] using ih
    · have h' : (k == ek) = false := by simpa using fun h2 => h h2.symm
      simpa [List.filter_cons, h, List.lookup_cons, h'] using ih

theorem get_put_other (c : Cache) (k k' : Key) (d : List Nat) (hk : k' ≠ k) :
    (c.put k d).get k' = c.get k' := by
  induction c with
  | nil =>
    have h' : (k' == k) = false := by simpa using hk
    simp [Cache.put, Cache.get, List.lookup, h']
  | cons e c ih =>
    obtain ⟨ek, ed⟩ := e
    simp only [Cache.put, Cache.get] at ih ⊢
    by_cases h : ek = k
    · subst h
      have h' : (k' == ek) = false := by simpa using hk
      simpa [List.filter_cons, List.lookup_cons, h'] using ih
    · by_cases h2 : k' = ek
      · simp [h, h2]
      · have h' : (k' == ek) = false := by simpa using h2
        simpa [List.filter_cons, h, List.lookup_cons, h'] using ih

theorem get_cloneFor (driver : Cache) (a i : Nat) : (cloneFor driver i).get (a, i) = driver.get (a, i) := by
  induction driver with
  | nil => rfl
  | cons e c ih =>
    obtain ⟨ek, ed⟩ := e
    simp only [cloneFor, Cache.get] at ih ⊢
    by_cases h : ek.2 = i
    · simp only [List.filter_cons, h, beq_self_eq_true, if_true, List.lookup_cons]
      rw [ih]
    · have h' : ((a, i) == ek) = false := by
        simp only [beq_eq_false_iff_ne, ne_eq]
        intro h2; exact h (by rw [← h2])
      simpa [List.filter_cons, h, List.lookup_cons, h'] using ih

/-! ### one task, run symbolically -/

section Programs
variable (next : Nat → Nat) (keep : Nat → Bool)

theorem stepLocal_done (j : Job) (i : Nat) (l : Local) (h : 6 ≤ l.pc) : stepLocal next keep j i l = l := by
  unfold stepLocal
  split <;> first | rfl | omega

/-- the sampling loop at pc 3: one draw per element, in order -/
theorem sample_loop (j : Job) (i : Nat) (cid : Option Key) (cache : Cache) (out : Option (List Nat))
    (todo : List Nat) (rng : Nat) (kept : List Nat) :
    ∃ g, iter (stepLocal next keep j i) todo.length ⟨3, cid, rng, todo, kept, cache, out⟩ =
      ⟨3, cid, g, [], kept ++ sampleSpec next keep rng todo, cache, out⟩ := by
  induction todo generalizing rng kept with
  | nil => exact ⟨rng, by simp [iter, sampleSpec]⟩
  | cons x rest ih =>
    obtain ⟨g, hg⟩ := ih (next rng) (if keep (next rng) then kept ++ [x] else kept)
    refine ⟨g, ?_⟩
    simp only [List.length_cons, iter, stepLocal, hg, sampleSpec]
    cases keep (next rng) <;> simp

theorem run_miss (j : Job) (i : Nat) (clone : Cache) (src : List Nat) (extra : Nat)
    (h : clone.get (j.rddId, i) = none) :
    ∃ g, iter (stepLocal next keep j i) (src.length + 6 + extra) (initLocal clone src) =
      ⟨6, some (j.rddId, i), g, [], sampleSpec next keep (j.seed + i) src,
        clone.put (j.rddId, i) (sampleSpec next keep (j.seed + i) src),
        some (sampleSpec next keep (j.seed + i) src)⟩ := by
  have e : src.length + 6 + extra = 3 + (src.length + (3 + extra)) := by omega
  obtain ⟨g, hg⟩ := sample_loop next keep j i (some (j.rddId, i)) clone none src (j.seed + i) []
  refine ⟨g, ?_⟩
  rw [e, iter_add, iter_add, iter_add]
  have h3 : iter (stepLocal next keep j i) 3 (initLocal clone src) =
      ⟨3, some (j.rddId, i), j.seed + i, src, [], clone, none⟩ := by
    simp [iter, initLocal, stepLocal, h]
  rw [h3, hg]
  rw [iter_fixed]
  · simp [iter, stepLocal, get_put_self]
  · apply stepLocal_done; simp [iter, stepLocal]

theorem run_hit (j : Job) (i : Nat) (clone : Cache) (src : List Nat) (extra : Nat) (d : List Nat)
    (h : clone.get (j.rddId, i) = some d) :
    iter (stepLocal next keep j i) (src.length + 6 + extra) (initLocal clone src) =
      ⟨6, some (j.rddId, i), 0, src, [], clone, some d⟩ := by
  have e : src.length + 6 + extra = 3 + (src.length + 3 + extra) := by omega
  rw [e, iter_add]
  rw [iter_fixed]
  · simp [iter, initLocal, stepLocal, h]
  · apply stepLocal_done; simp [iter, initLocal, stepLocal, h]

/-- a finished task ignores further steps -/
theorem run_extra (j : Job) (i : Nat) (clone : Cache) (src : List Nat) (extra : Nat) :
    iter (stepLocal next keep j i) (src.length + 6 + extra) (initLocal clone src) =
      iter (stepLocal next keep j i) (src.length + 6) (initLocal clone src) := by
  rw [iter_add]
  apply iter_fixed
  apply stepLocal_done
  cases h : clone.get (j.rddId, i) with
  | none => obtain ⟨g, hg⟩ := run_miss next keep j i clone src 0 h; rw [Nat.add_zero] at hg; rw [hg]; exact Nat.le_refl 6
  | some d => have hg := run_hit next keep j i clone src 0 d h; rw [Nat.add_zero] at hg; rw [hg]; exact Nat.le_refl 6

/-! ### a task as a function of its cache lookup -/

/-- the data task `i` returns, given the cache `look` it consults -/
def outSpec (j : Job) (look : Cache) (src : List Nat) (i : Nat) : List Nat :=
  match look.get (j.rddId, i) with
  | some d => d
  | none => sampleSpec next keep (j.seed + i) src

/-- the effect of task `i` on a cache `c`, given the cache `look` it consults -/
def cacheSpec (j : Job) (look : Cache) (c : Cache) (src : List Nat) (i : Nat) : Cache :=
  match look.get (j.rddId, i) with
  | some _ => c
  | none => c.put (j.rddId, i) (sampleSpec next keep (j.seed + i) src)

theorem runTask_eq (j : Job) (i : Nat) (c : Cache) (src : List Nat) :
    runTask next keep j i (initLocal c src) =
      iter (stepLocal next keep j i) (src.length + 6 + 0) (initLocal c src) := rfl

theorem runTask_out (j : Job) (i : Nat) (c : Cache) (src : List Nat) :
    (runTask next keep j i (initLocal c src)).out = some (outSpec next keep j c src i) := by
  rw [runTask_eq]; unfold outSpec
  cases h : c.get (j.rddId, i) with
  | none => obtain ⟨g, hg⟩ := run_miss next keep j i c src 0 h; rw [hg]
  | some d => rw [run_hit next keep j i c src 0 d h]

theorem runTask_cache (j : Job) (i : Nat) (c : Cache) (src : List Nat) :
    (runTask next keep j i (initLocal c src)).cache = cacheSpec next keep j c c src i := by
  rw [runTask_eq]; unfold cacheSpec
  cases h : c.get (j.rddId, i) with
  | none => obtain ⟨g, hg⟩ := run_miss next keep j i c src 0 h; rw [hg]
  | some d => rw [run_hit next keep j i c src 0 d h]

theorem outSpec_congr (j : Job) (look look' : Cache) (src : List Nat) (i : Nat)
    (h : look.get (j.rddId, i) = look'.get (j.rddId, i)) :
    outSpec next keep j look src i = outSpec next keep j look' src i := by
  unfold outSpec; rw [h]

theorem cacheSpec_congr (j : Job) (look look' c : Cache) (src : List Nat) (i : Nat)
    (h : look.get (j.rddId, i) = look'.get (j.rddId, i)) :
    cacheSpec next keep j look c src i = cacheSpec next keep j look' c src i := by
  unfold cacheSpec; rw [h]

theorem cacheSpec_get_other (j : Job) (look c : Cache) (src : List Nat) (i : Nat) (k : Key)
    (hk : k ≠ (j.rddId, i)) : (cacheSpec next keep j look c src i).get k = c.get k := by
  unfold cacheSpec
  cases look.get (j.rddId, i) with
  | none => exact get_put_other _ _ _ _ hk
  | some d => rfl

theorem cacheSpec_get_self (j : Job) (look c : Cache) (src : List Nat) (i : Nat)
    (h : c.get (j.rddId, i) = look.get (j.rddId, i)) :
    (cacheSpec next keep j look c src i).get (j.rddId, i) = some (outSpec next keep j look src i) := by
  unfold cacheSpec outSpec
  cases h' : look.get (j.rddId, i) with
  | none => exact get_put_self _ _ _
  | some d => simpa [h'] using h

/-- a hit: nothing drawn, nothing stored -/
theorem cacheSpec_hit (j : Job) (look c : Cache) (src : List Nat) (i : Nat) (d : List Nat)
    (h : look.get (j.rddId, i) = some d) :
    cacheSpec next keep j look c src i = c ∧ outSpec next keep j look src i = d := by
  unfold cacheSpec outSpec; rw [h]; exact ⟨rfl, rfl⟩

/-! ### new entries and the driver's join -/

theorem newEntries_self (c : Cache) : newEntries c c = [] := by
  unfold newEntries
  rw [List.filter_eq_nil_iff]
  intro a ha
  simp only [Bool.not_eq_true', Bool.not_eq_false, List.any_eq_true]
  exact ⟨a, ha, by simp⟩

theorem newEntries_put (c : Cache) (k : Key) (d : List Nat) (h : c.get k = none) :
    newEntries c (c.put k d) = [(k, d)] := by
  unfold Cache.get at h
  rw [List.lookup_eq_none_iff] at h
  unfold newEntries Cache.put
  rw [List.filter_append]
  have h1 : (c.filter (·.1 != k)).filter (fun e => !(c.any (·.1 == e.1))) = [] := by
    rw [List.filter_eq_nil_iff]
    intro a ha
    have ha' : a ∈ c := (List.mem_filter.mp ha).1
    simp only [Bool.not_eq_true', Bool.not_eq_false, List.any_eq_true]
    exact ⟨a, ha', by simp⟩
  have h2 : c.any (·.1 == k) = false := by
    rw [List.any_eq_false]
    intro p hp
    have := h p hp
    simp only [bne_iff_ne, ne_eq] at this
    simp only [beq_iff_eq]
    exact fun e => this e.symm
  rw [h1]
  simp [h2]

theorem join_step (j : Job) (driver c : Cache) (src : List Nat) (i : Nat) :
    c.join (newEntries (cloneFor driver i)
      (runTask next keep j i (initLocal (cloneFor driver i) src)).cache) =
      cacheSpec next keep j driver c src i := by
  rw [runTask_cache]
  unfold cacheSpec
  rw [get_cloneFor]
  cases h : driver.get (j.rddId, i) with
  | none =>
    have h' : (cloneFor driver i).get (j.rddId, i) = none := by rw [get_cloneFor]; exact h
    rw [newEntries_put _ _ _ h']
    simp [Cache.join]
  | some d => simp [newEntries_self, Cache.join]

theorem zipIdx_map_zipIdx {α β : Type} (l : List α) (g : α × Nat → β) :
    (l.zipIdx.map g).zipIdx = l.zipIdx.map (fun p => (g p, p.2)) := by
  apply List.ext_getElem?
  intro n
  simp only [List.getElem?_zipIdx, List.getElem?_map]
  cases l[n]? <;> simp

/-- the pool path, as a fold of the per-task specifications over the partitions -/
theorem collectJob_runIsolated (j : Job) (driver : Cache) :
    collectJob driver (runIsolated next keep j driver) =
      (j.parts.zipIdx.map (fun p => some (outSpec next keep j driver p.1 p.2)),
       j.parts.zipIdx.foldl (fun c p => cacheSpec next keep j driver c p.1 p.2) driver) := by
  unfold collectJob runIsolated
  refine Prod.ext ?_ ?_
  · simp only [List.map_map]
    apply List.map_congr_left
    intro p _
    simp only [Function.comp]
    rw [runTask_out]
    rw [outSpec_congr next keep j _ driver p.1 p.2 (get_cloneFor driver j.rddId p.2)]
  · simp only [zipIdx_map_zipIdx, List.foldl_map]
    congr 1
    funext c p
    exact join_step next keep j driver c p.1 p.2

/-! ### the fold over the partitions -/

/-- the in-process executor computes the same fold, provided the accumulated cache still agrees with the
driver on the keys of the partitions not yet run -/
theorem runLocal_fold (j : Job) (driver : Cache) (parts : List (List Nat)) (n : Nat)
    (acc : List (Option (List Nat)) × Cache)
    (hacc : ∀ i, n ≤ i → acc.2.get (j.rddId, i) = driver.get (j.rddId, i)) :
    (parts.zipIdx n).foldl (fun (acc : List (Option (List Nat)) × Cache) (p : List Nat × Nat) =>
        let l := runTask next keep j p.2 (initLocal acc.2 p.1)
        (acc.1 ++ [l.out], l.cache)) acc =
      (acc.1 ++ (parts.zipIdx n).map (fun p => some (outSpec next keep j driver p.1 p.2)),
       (parts.zipIdx n).foldl (fun c p => cacheSpec next keep j driver c p.1 p.2) acc.2) := by
  induction parts generalizing n acc with
  | nil => simp
  | cons x xs ih =>
    simp only [List.zipIdx_cons, List.foldl_cons, List.map_cons]
    rw [ih]
    · simp only [runTask_out, runTask_cache, List.append_assoc, List.singleton_append]
      rw [outSpec_congr next keep j _ driver x n (hacc n (Nat.le_refl n)),
        cacheSpec_congr next keep j _ driver acc.2 x n (hacc n (Nat.le_refl n))]
    · intro i hi
      simp only [runTask_cache]
      rw [cacheSpec_get_other]
      · exact hacc i (by omega)
      · intro e; injection e with _ e2; omega

theorem runLocalJob_eq (j : Job) (driver : Cache) :
    runLocalJob next keep j driver =
      (j.parts.zipIdx.map (fun p => some (outSpec next keep j driver p.1 p.2)),
       j.parts.zipIdx.foldl (fun c p => cacheSpec next keep j driver c p.1 p.2) driver) := by
  unfold runLocalJob
  have := runLocal_fold next keep j driver j.parts 0 ([], driver) (fun _ _ => rfl)
  simpa using this

/-- keys that belong to no partition being folded are untouched -/
theorem fold_get_other (j : Job) (look : Cache) (parts : List (List Nat)) (n : Nat) (c : Cache) (k : Key)
    (hk : ∀ i, n ≤ i → i < n + parts.length → k ≠ (j.rddId, i)) :
    ((parts.zipIdx n).foldl (fun c p => cacheSpec next keep j look c p.1 p.2) c).get k = c.get k := by
  induction parts generalizing n c with
  | nil => rfl
  | cons x xs ih =>
    simp only [List.zipIdx_cons, List.foldl_cons]
    rw [ih]
    · exact cacheSpec_get_other next keep j look c x n k
        (hk n (Nat.le_refl n) (by simp only [List.length_cons]; omega))
    · intro i h1 h2
      exact hk i (by omega) (by simp only [List.length_cons]; omega)

/-- after the fold, partition `n + i`'s key holds what its task returned -/
theorem fold_get_own (j : Job) (look : Cache) (parts : List (List Nat)) (n : Nat) (c : Cache)
    (hc : ∀ i, n ≤ i → c.get (j.rddId, i) = look.get (j.rddId, i))
    (i : Nat) (src : List Nat) (hi : parts[i]? = some src) :
    ((parts.zipIdx n).foldl (fun c p => cacheSpec next keep j look c p.1 p.2) c).get (j.rddId, n + i) =
      some (outSpec next keep j look src (n + i)) := by
  induction parts generalizing n c i with
  | nil => simp at hi
  | cons x xs ih =>
    simp only [List.zipIdx_cons, List.foldl_cons]
    cases i with
    | zero =>
      simp only [List.getElem?_cons_zero, Option.some.injEq] at hi
      subst hi
      rw [fold_get_other]
      · exact cacheSpec_get_self next keep j look c x n (hc n (Nat.le_refl n))
      · intro i h1 _ e; injection e with _ e2; omega
    | succ i =>
      simp only [List.getElem?_cons_succ] at hi
      have := ih (n + 1) (cacheSpec next keep j look c x n) (by
        intro i' hi'
        rw [cacheSpec_get_other]
        · exact hc i' (by omega)
        · intro e; injection e with _ e2; omega) i hi
      rw [show n + (i + 1) = n + 1 + i by omega]
      exact this

theorem foldl_id_of_mem {α β : Type} (f : β → α → β) (l : List α) (b : β)
    (h : ∀ a ∈ l, ∀ b, f b a = b) : l.foldl f b = b := by
  induction l generalizing b with
  | nil => rfl
  | cons x xs ih =>
    simp only [List.foldl_cons]
    rw [h x (by simp)]
    exact ih b (fun a ha => h a (by simp [ha]))

/-! ### one micro-step of the whole system -/

/-- one step of thread `i`: task `i` advances by its private step, nobody else moves, the shared generator is
untouched and the only possible write to the shared dataset object is the dead store of `(dataset id, i)` -/
theorem sys_stepNew (j : Job) (i : Nat) (s : Sys) :
    (Sys.stepNew next keep j i s).shared.rng = s.shared.rng ∧
    ((Sys.stepNew next keep j i s).shared.attrCid = s.shared.attrCid ∨
      (Sys.stepNew next keep j i s).shared.attrCid = some (j.rddId, i)) ∧
    (Sys.stepNew next keep j i s).tasks.length = s.tasks.length ∧
    ∀ k, (Sys.stepNew next keep j i s).tasks[k]? =
      if k = i then (s.tasks[k]?).map (stepLocal next keep j i) else s.tasks[k]? := by
  unfold Sys.stepNew
  cases h : s.tasks[i]? with
  | none =>
    refine ⟨rfl, Or.inl rfl, rfl, fun k => ?_⟩
    by_cases hk : k = i
    · subst hk; simp [h]
    · simp [hk]
  | some l =>
    simp only [stepNew]
    refine ⟨?_, ?_, by simp, fun k => ?_⟩
    · split <;> rfl
    · split
      · exact Or.inr rfl
      · exact Or.inl rfl
    · by_cases hk : k = i
      · subst hk
        obtain ⟨hlt, hl⟩ := List.getElem?_eq_some_iff.mp h
        simp [hlt, hl]
      · have hk' : i ≠ k := fun e => hk e.symm
        simp [hk, hk']

theorem iter_succ_map {α : Type} (f : α → α) (n : Nat) (o : Option α) :
    (o.map f).map (iter f n) = o.map (iter f (n + 1)) := by
  cases o <;> rfl

end Programs

/-! ### arbitrary private task programs -/

section Generic
variable {σ : Type}

theorem iter_succ' {α : Type} (f : α → α) (m : Nat) (a : α) : iter f (m + 1) a = f (iter f m a) := by
  induction m generalizing a with
  | zero => rfl
  | succ m ih =>
    show iter f (m + 1) (f a) = f (iter f m (f a))
    exact ih (f a)

theorem iter_quiescent {α : Type} (f : α → α) (n extra : Nat) (t : α)
    (h : f (iter f n t) = iter f n t) : iter f (n + extra) t = iter f n t := by
  rw [iter_add]
  exact iter_fixed f extra _ h

theorem runAny_cons (step : Nat → σ → σ) (a : Nat) (rest : List Nat) (s : List σ) :
    runAny step (a :: rest) s = runAny step rest (stepAt step a s) := rfl

theorem stepAt_length (step : Nat → σ → σ) (a : Nat) (s : List σ) : (stepAt step a s).length = s.length := by
  simp [stepAt, List.length_modify]

theorem stepAt_getElem? (step : Nat → σ → σ) (a i : Nat) (s : List σ) :
    (stepAt step a s)[i]? = if a = i then (s[i]?).map (step i) else s[i]? := by
  unfold stepAt
  rw [List.getElem?_modify]
  by_cases h : a = i
  · subst h; simp
  · simp [h]

theorem runEachAlone_getElem? (step : Nat → σ → σ) (n : Nat → Nat) (s : List σ) (i : Nat) :
    (runEachAlone step n s)[i]? = (s[i]?).map (iter (step i) (n i)) := by
  unfold runEachAlone
  rw [List.getElem?_map, List.getElem?_zipIdx]
  cases s[i]? <;> simp

end Generic

end PysparklingVerif.Sched
