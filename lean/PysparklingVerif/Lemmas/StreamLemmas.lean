/-
  Helper lemmas for C10 (stream network model, Model/Stream.lean).
-/
import PysparklingVerif.Model.Stream
namespace PysparklingVerif.Stream

variable {α : Type}

/-! ### queue sources -/

/-- `k` successive polls of a queue source (same function as `C10.pollN`) -/
def pollsQ : Nat → QueueSrc α → List (Batch α)
  | 0, _ => []
  | k + 1, q => let (b, q') := q.get; b :: pollsQ k q'

theorem pollsQ_nil (o : Bool) (d : Option (Batch α)) (k : Nat) :
    pollsQ k ⟨[], o, d⟩ = List.replicate k (d.getD []) := by
  induction k with
  | zero => rfl
  | succ k ih => simp [pollsQ, QueueSrc.get, ih, List.replicate_succ]

theorem pollsQ_one (bs : List (Batch α)) (d : Option (Batch α)) (k : Nat) :
    pollsQ k ⟨bs, true, d⟩ = bs.take k ++ List.replicate (k - bs.length) (d.getD []) := by
  induction k generalizing bs with
  | zero => simp [pollsQ]
  | succ k ih =>
    cases bs with
    | nil => simp [pollsQ_nil]
    | cons b rest => simp [pollsQ, QueueSrc.get, ih]

theorem pollsQ_all (bs : List (Batch α)) (hne : bs ≠ []) (d : Option (Batch α)) (k : Nat) :
    pollsQ (k + 1) ⟨bs, false, d⟩ = bs.flatten :: List.replicate k (d.getD []) := by
  cases bs with
  | nil => exact absurd rfl hne
  | cons b rest => simp [pollsQ, QueueSrc.get, pollsQ_nil]

/-! ### file sources -/

/-- successive polls of a monitored directory (same function as `C10.filePolls`) -/
def pollsF : Nat → FileSrc → List (Option (List String))
  | 0, _ => []
  | k + 1, f => let (r, f') := f.get; r :: pollsF k f'

/-- the report flags for `name` -/
def reportsF (name : String) (done0 : List String) (ls : List (List String)) : List Bool :=
  (pollsF ls.length ⟨done0, ls⟩).map fun r => (r.getD []).contains name

theorem FileSrc.get_cons_pos (done0 l : List String) (rest : List (List String))
    (h : (l.filter fun fn => !done0.contains fn).isEmpty = true) :
    FileSrc.get ⟨done0, l :: rest⟩ = (none, ⟨done0, rest⟩) := by
  show (if (l.filter fun fn => !done0.contains fn).isEmpty = true then _ else _) = _
  rw [if_pos h]

theorem FileSrc.get_cons_neg (done0 l : List String) (rest : List (List String))
    (h : ¬ (l.filter fun fn => !done0.contains fn).isEmpty = true) :
    FileSrc.get ⟨done0, l :: rest⟩ =
      (some (l.filter fun fn => !done0.contains fn), ⟨done0 ++ (l.filter fun fn => !done0.contains fn), rest⟩) := by
  show (if (l.filter fun fn => !done0.contains fn).isEmpty = true then _ else _) = _
  rw [if_neg h]

theorem reportsF_nil (name : String) (done0 : List String) : reportsF name done0 [] = [] := rfl

theorem reportsF_cons (name : String) (done0 l : List String) (rest : List (List String)) :
    ∃ (b : Bool) (done1 : List String),
      reportsF name done0 (l :: rest) = b :: reportsF name done1 rest ∧
      (b = true ↔ name ∈ l ∧ name ∉ done0) ∧
      (name ∈ done1 ↔ name ∈ done0 ∨ name ∈ l) := by
  by_cases hf : (l.filter fun fn => !done0.contains fn).isEmpty = true
  · refine ⟨false, done0, ?_, ?_, ?_⟩
    · simp [reportsF, pollsF, FileSrc.get_cons_pos _ _ _ hf]
    · have := hf
      simp [List.filter_eq_nil_iff] at this
      simp
      exact fun h => this name h
    · have := hf
      simp [List.filter_eq_nil_iff] at this
      constructor
      · exact Or.inl
      · rintro (h | h)
        · exact h
        · exact this name h
  · refine ⟨(l.filter fun fn => !done0.contains fn).contains name,
      done0 ++ (l.filter fun fn => !done0.contains fn), ?_, ?_, ?_⟩
    · simp [reportsF, pollsF, FileSrc.get_cons_neg _ _ _ hf]
    · simp [List.mem_filter]
    · simp [List.mem_filter]
      by_cases h : name ∈ done0 <;> simp [h]

theorem reportsF_done (name : String) (ls : List (List String)) (done0 : List String)
    (h : name ∈ done0) : (reportsF name done0 ls).count true = 0 := by
  induction ls generalizing done0 with
  | nil => rfl
  | cons l rest ih =>
    obtain ⟨b, done1, e, hb, hd⟩ := reportsF_cons name done0 l rest
    have hb' : b = false := by
      cases b with
      | false => rfl
      | true => exact absurd h (hb.mp rfl).2
    rw [e, hb', List.count_cons_of_ne (by decide)]
    exact ih done1 (hd.mpr (Or.inl h))

theorem reportsF_count_le (name : String) (ls : List (List String)) (done0 : List String) :
    (reportsF name done0 ls).count true ≤ 1 := by
  induction ls generalizing done0 with
  | nil => simp [reportsF_nil]
  | cons l rest ih =>
    obtain ⟨b, done1, e, hb, hd⟩ := reportsF_cons name done0 l rest
    rw [e]
    cases b with
    | false =>
      rw [List.count_cons_of_ne (by decide)]
      exact ih done1
    | true =>
      rw [List.count_cons_self, reportsF_done name rest done1 (hd.mpr (Or.inr (hb.mp rfl).1))]
      exact Nat.le_refl 1

theorem reportsF_first (name : String) (ls : List (List String)) (done0 : List String)
    (h : name ∉ done0) (j : Nat) (hj : j < ls.length) (hin : name ∈ ls[j]!)
    (hfirst : ∀ j', j' < j → name ∉ ls[j']!) : (reportsF name done0 ls)[j]! = true := by
  induction ls generalizing done0 j with
  | nil => simp at hj
  | cons l rest ih =>
    obtain ⟨b, done1, e, hb, hd⟩ := reportsF_cons name done0 l rest
    rw [e]
    cases j with
    | zero =>
      simp at hin
      simp
      exact hb.mpr ⟨hin, h⟩
    | succ j =>
      have h0 : name ∉ l := by
        have := hfirst 0 (Nat.succ_pos j)
        simpa using this
      have hd1 : name ∉ done1 := by
        intro hc
        rcases hd.mp hc with hc | hc
        · exact h hc
        · exact h0 hc
      have hj' : j < rest.length := by simpa using hj
      have hin' : name ∈ rest[j]! := by simpa [hj'] using hin
      have := ih done1 hd1 j hj' hin' (fun j' hj'' => by
        have hlt : j' < rest.length := Nat.lt_trans hj'' hj'
        have := hfirst (j' + 1) (Nat.succ_lt_succ hj'')
        simpa [hlt] using this)
      simpa using this

/-! ### the network: basic `getSt`/`setSt` facts -/

theorem getSt_setSt_self (n : Net α) (i : Nat) (s : NState α) (h : i < n.st.length) :
    (n.setSt i s).getSt i = s := by
  simp [Net.getSt, Net.setSt, h]

theorem getSt_setSt_ne (n : Net α) (i j : Nat) (s : NState α) (h : j ≠ i) :
    (n.setSt i s).getSt j = n.getSt j := by
  simp [Net.getSt, Net.setSt, List.getElem?_set_ne (Ne.symm h)]

theorem step_guard' (t fuel : Nat) (n : Net α) (i : Nat) (h : t ≤ (n.getSt i).time) :
    step t fuel n i = n := by
  cases fuel with
  | zero => rfl
  | succ fuel => simp [step, h]

/-- the parents of a node -/
def Node.parents : Node α → List Nat
  | .src _ => []
  | .tr p _ => [p]
  | .tr2 a b _ => [a, b]
  | .win p _ _ => [p]
  | .fold p _ => [p]

/-- the node equation: node `i` (of kind `nd`) in `n` holds its operation applied to the current values
of its parents in `n`; `n0` is the network before the tick -/
def NodeVal (n0 n : Net α) (i : Nat) : Node α → Prop
  | .src q => ∀ src, n0.sources[q]? = some src → (n.getSt i).rdd = src.get.1
  | .tr p f => (n.getSt i).rdd = f (n.getSt p).rdd
  | .tr2 a b f => (n.getSt i).rdd = f (n.getSt a).rdd (n.getSt b).rdd
  | .win p w s =>
      (n.getSt i).buf = pushWindow w (n0.getSt i).buf (n.getSt p).rdd ∧
      (n.getSt i).counter = ((n0.getSt i).counter + 1) % s
  | .fold p g => (n.getSt i).mem = g (n.getSt p).rdd (n0.getSt i).mem

theorem NodeVal_congr (n0 n n' : Net α) (i : Nat) (nd : Node α)
    (hi : n'.getSt i = n.getSt i) (hp : ∀ p, p ∈ nd.parents → n'.getSt p = n.getSt p)
    (h : NodeVal n0 n i nd) : NodeVal n0 n' i nd := by
  cases nd <;> simp [NodeVal, Node.parents] at * <;> simp_all

/-! ### the tick invariant -/

/-- well-formed network (same fields as `C10.WF`) -/
structure WFNet (n : Net α) : Prop where
  lenSt : n.st.length = n.nodes.length
  lenPolls : n.polls.length = n.sources.length
  parents : ∀ i (h : i < n.nodes.length), (n.nodes[i]).parentsBelow i
  srcOk : ∀ (i q : Nat), n.nodes[i]? = some (Node.src q) → q < n.sources.length
  srcUnique : ∀ (i j q : Nat), n.nodes[i]? = some (Node.src q) → n.nodes[j]? = some (Node.src q) → i = j

/-- state part of the invariant relating the net `n0` before the tick `t` to an intermediate net `n`:
every node is untouched or done; a done node ran once, satisfies its node equation w.r.t. the current
values of its parents, and its parents are done -/
structure GoodSt (t : Nat) (n0 n : Net α) : Prop where
  nodes : n.nodes = n0.nodes
  lenSt : n.st.length = n0.st.length
  fresh : ∀ j, j < n0.nodes.length → (n.getSt j).time ≠ t → n.getSt j = n0.getSt j
  done : ∀ j (h : j < n0.nodes.length), (n.getSt j).time = t →
    (n.getSt j).evals = (n0.getSt j).evals + 1 ∧ NodeVal n0 n j n0.nodes[j] ∧
    ∀ p, p ∈ (n0.nodes[j]).parents → (n.getSt p).time = t

/-- source part of the invariant: a source is polled exactly when its `src` node is done -/
structure GoodSrc (t : Nat) (n0 n : Net α) : Prop where
  lenPolls : n.polls.length = n0.polls.length
  lenSrc : n.sources.length = n0.sources.length
  srcFresh : ∀ j q, n0.nodes[j]? = some (.src q) → (n.getSt j).time ≠ t →
    n.sources[q]? = n0.sources[q]? ∧ n.polls.getD q 0 = n0.polls.getD q 0
  srcDone : ∀ j q, n0.nodes[j]? = some (.src q) → (n.getSt j).time = t →
    n.polls.getD q 0 = n0.polls.getD q 0 + 1

structure Good (t : Nat) (n0 n : Net α) : Prop where
  st : GoodSt t n0 n
  src : GoodSrc t n0 n

theorem getSt_of_st_set {n n' : Net α} {i : Nat} {s : NState α} (hst : n'.st = n.st.set i s) :
    (i < n.st.length → n'.getSt i = s) ∧ ∀ j, j ≠ i → n'.getSt j = n.getSt j := by
  constructor
  · intro h; simp [Net.getSt, hst, h]
  · intro j h; simp [Net.getSt, hst, List.getElem?_set_ne (Ne.symm h)]

theorem GoodSt.set {t : Nat} {n0 n n' : Net α} (hG : GoodSt t n0 n)
    (hlen0 : n0.st.length = n0.nodes.length) (i : Nat) (s : NState α) (hi : i < n0.nodes.length)
    (hnodes : n'.nodes = n.nodes) (hst : n'.st = n.st.set i s)
    (hnot : (n.getSt i).time ≠ t) (htime : s.time = t) (hev : s.evals = (n0.getSt i).evals + 1)
    (hval : NodeVal n0 n' i n0.nodes[i])
    (hpar : ∀ p, p ∈ (n0.nodes[i]).parents → (n.getSt p).time = t) : GoodSt t n0 n' := by
  have hilt : i < n.st.length := by rw [hG.lenSt, hlen0]; exact hi
  have hii : n'.getSt i = s := (getSt_of_st_set hst).1 hilt
  have hne : ∀ j, j ≠ i → n'.getSt j = n.getSt j := (getSt_of_st_set hst).2
  have hdne : ∀ p, (n.getSt p).time = t → p ≠ i := by
    intro p hp hpi; subst hpi; exact hnot hp
  refine ⟨hnodes.trans hG.nodes, ?_, ?_, ?_⟩
  · rw [hst, List.length_set]; exact hG.lenSt
  · intro j hj hjt
    have hji : j ≠ i := by
      intro h; subst h; rw [hii] at hjt; exact hjt htime
    rw [hne j hji] at hjt ⊢
    exact hG.fresh j hj hjt
  · intro j hj hjt
    by_cases hji : j = i
    · subst hji
      rw [hii]
      refine ⟨hev, hval, fun p hp => ?_⟩
      have := hpar p hp
      rw [hne p (hdne p this)]; exact this
    · rw [hne j hji] at hjt
      obtain ⟨e, v, ps⟩ := hG.done j hj hjt
      refine ⟨by rw [hne j hji]; exact e, ?_, fun p hp => ?_⟩
      · exact NodeVal_congr n0 n n' j _ (hne j hji) (fun p hp => hne p (hdne p (ps p hp))) v
      · rw [hne p (hdne p (ps p hp))]; exact ps p hp

theorem GoodSrc.set_nonsrc {t : Nat} {n0 n n' : Net α} (hG : GoodSrc t n0 n) (i : Nat) (s : NState α)
    (hnode : ∀ q, n0.nodes[i]? ≠ some (.src q))
    (hst : n'.st = n.st.set i s) (hsrc : n'.sources = n.sources) (hpolls : n'.polls = n.polls) :
    GoodSrc t n0 n' := by
  have hne : ∀ j, j ≠ i → n'.getSt j = n.getSt j := (getSt_of_st_set hst).2
  have hji : ∀ j q, n0.nodes[j]? = some (.src q) → j ≠ i := by
    intro j q h e; subst e; exact hnode q h
  refine ⟨by rw [hpolls]; exact hG.lenPolls, by rw [hsrc]; exact hG.lenSrc, ?_, ?_⟩
  · intro j q hj hjt
    rw [hne j (hji j q hj)] at hjt
    rw [hsrc, hpolls]; exact hG.srcFresh j q hj hjt
  · intro j q hj hjt
    rw [hne j (hji j q hj)] at hjt
    rw [hpolls]; exact hG.srcDone j q hj hjt

theorem GoodSrc.set_src {t : Nat} {n0 n n' : Net α} (hG : GoodSrc t n0 n) (i q : Nat) (s : NState α)
    (src' : QueueSrc α)
    (hnode : n0.nodes[i]? = some (.src q)) (hq : q < n0.sources.length)
    (hlp : n0.polls.length = n0.sources.length)
    (huniq : ∀ j, n0.nodes[j]? = some (.src q) → j = i)
    (hilt : i < n.st.length) (hnot : (n.getSt i).time ≠ t) (htime : s.time = t)
    (hst : n'.st = n.st.set i s) (hsrc : n'.sources = n.sources.set q src')
    (hpolls : n'.polls = n.polls.set q (n.polls.getD q 0 + 1)) : GoodSrc t n0 n' := by
  have hii : n'.getSt i = s := (getSt_of_st_set hst).1 hilt
  have hne : ∀ j, j ≠ i → n'.getSt j = n.getSt j := (getSt_of_st_set hst).2
  have hqp : q < n.polls.length := by rw [hG.lenPolls, hlp]; exact hq
  refine ⟨by rw [hpolls, List.length_set]; exact hG.lenPolls,
    by rw [hsrc, List.length_set]; exact hG.lenSrc, ?_, ?_⟩
  · intro j q' hj hjt
    have hji : j ≠ i := by
      intro h; subst h; rw [hii] at hjt; exact hjt htime
    have hqq : q ≠ q' := by
      intro h; subst h; exact hji (huniq j hj)
    rw [hne j hji] at hjt
    have := hG.srcFresh j q' hj hjt
    rw [hsrc, hpolls, List.getElem?_set_ne hqq, List.getD_eq_getElem?_getD, List.getElem?_set_ne hqq,
      ← List.getD_eq_getElem?_getD]
    exact this
  · intro j q' hj hjt
    by_cases hji : j = i
    · subst hji
      have hqq : q' = q := by
        rw [hnode] at hj; cases hj; rfl
      subst hqq
      rw [hpolls, List.getD_eq_getElem?_getD, List.getElem?_set_self hqp]
      simp only [Option.getD_some]
      rw [(hG.srcFresh j q' hnode hnot).2]
    · have hqq : q ≠ q' := by
        intro h; subst h; exact hji (huniq j hj)
      rw [hne j hji] at hjt
      rw [hpolls, List.getD_eq_getElem?_getD, List.getElem?_set_ne hqq, ← List.getD_eq_getElem?_getD]
      exact hG.srcDone j q' hj hjt

/-- what one `_step(t)` of node `i` achieves, from `n` to `n'` -/
structure StepRes (t : Nat) (n0 n n' : Net α) (i : Nat) : Prop where
  good : Good t n0 n'
  done : (n'.getSt i).time = t
  mono : ∀ j, (n.getSt j).time = t → (n'.getSt j).time = t
  frame : ∀ j, i < j → n'.getSt j = n.getSt j

theorem parents_good {t fuel : Nat} {n0 : Net α}
    (ih : ∀ (n : Net α) (p : Nat), Good t n0 n → p < n0.nodes.length → p < fuel →
      StepRes t n0 n (step t fuel n p) p)
    (i : Nat) (hi : i ≤ n0.nodes.length) (hf : i ≤ fuel) :
    ∀ (ps : List Nat) (n : Net α), Good t n0 n → (∀ p, p ∈ ps → p < i) →
      Good t n0 (ps.foldl (fun n p => step t fuel n p) n) ∧
      (∀ p, p ∈ ps → ((ps.foldl (fun n p => step t fuel n p) n).getSt p).time = t) ∧
      (∀ j, (n.getSt j).time = t → ((ps.foldl (fun n p => step t fuel n p) n).getSt j).time = t) ∧
      (∀ j, i ≤ j → (ps.foldl (fun n p => step t fuel n p) n).getSt j = n.getSt j) := by
  intro ps
  induction ps with
  | nil => intro n hG _; exact ⟨hG, fun p hp => by simp at hp, fun j h => h, fun j _ => rfl⟩
  | cons p ps ihps =>
    intro n hG hps
    have hpi : p < i := hps p (by simp)
    have R := ih n p hG (Nat.lt_of_lt_of_le hpi hi) (Nat.lt_of_lt_of_le hpi hf)
    obtain ⟨g, d, m, f⟩ := ihps (step t fuel n p) R.good (fun q hq => hps q (by simp [hq]))
    simp only [List.foldl_cons]
    refine ⟨g, ?_, fun j h => m j (R.mono j h), fun j hj => ?_⟩
    · intro q hq
      rcases List.mem_cons.mp hq with h | h
      · subst h; exact m q R.done
      · exact d q h
    · rw [f j hj]; exact R.frame j (Nat.lt_of_lt_of_le hpi hj)

theorem step_finish {t : Nat} {n0 n n' : Net α} (hlen0 : n0.st.length = n0.nodes.length)
    (i : Nat) (hi : i < n0.nodes.length) (hG : Good t n0 n')
    (hnotsrc : ∀ q, n0.nodes[i]? ≠ some (.src q))
    (hnot : (n'.getSt i).time ≠ t)
    (hpar : ∀ p, p ∈ (n0.nodes[i]).parents → (n'.getSt p).time = t)
    (hmono : ∀ j, (n.getSt j).time = t → (n'.getSt j).time = t)
    (hframe : ∀ j, i ≤ j → n'.getSt j = n.getSt j)
    (s : NState α) (htime : s.time = t) (hev : s.evals = (n0.getSt i).evals + 1)
    (hval : NodeVal n0 (n'.setSt i s) i n0.nodes[i]) : StepRes t n0 n (n'.setSt i s) i := by
  have hilt : i < n'.st.length := by rw [hG.st.lenSt, hlen0]; exact hi
  refine ⟨⟨?_, ?_⟩, ?_, ?_, ?_⟩
  · exact hG.st.set hlen0 i s hi rfl rfl hnot htime hev hval hpar
  · exact hG.src.set_nonsrc i s hnotsrc rfl rfl rfl
  · rw [getSt_setSt_self _ _ _ hilt]; exact htime
  · intro j hj
    have hj' := hmono j hj
    have hji : j ≠ i := by intro h; subst h; exact hnot hj'
    rw [getSt_setSt_ne _ _ _ _ hji]; exact hj'
  · intro j hj
    rw [getSt_setSt_ne _ _ _ _ (Nat.ne_of_gt hj)]; exact hframe j (Nat.le_of_lt hj)

theorem step_good {t : Nat} {n0 : Net α} (hwf : WFNet n0)
    (hfr : ∀ i, i < n0.nodes.length → (n0.getSt i).time < t) :
    ∀ (fuel : Nat) (n : Net α) (i : Nat), Good t n0 n → i < n0.nodes.length → i < fuel →
      StepRes t n0 n (step t fuel n i) i := by
  intro fuel
  induction fuel with
  | zero => intro n i _ _ h; exact absurd h (Nat.not_lt_zero _)
  | succ fuel ih =>
    intro n i hG hi hfuel
    by_cases hg : t ≤ (n.getSt i).time
    · rw [step_guard' t _ n i hg]
      have ht : (n.getSt i).time = t := by
        by_cases h : (n.getSt i).time = t
        · exact h
        · have h1 := hG.st.fresh i hi h
          rw [h1] at hg
          have := hfr i hi
          omega
      exact ⟨hG, ht, fun j h => h, fun j _ => rfl⟩
    · have hnot : (n.getSt i).time ≠ t := by omega
      have heq : n.getSt i = n0.getSt i := hG.st.fresh i hi hnot
      have hnode0 : n0.nodes[i]? = some n0.nodes[i] := by simp [hi]
      have hnode : n.nodes[i]? = some n0.nodes[i] := by rw [hG.st.nodes]; exact hnode0
      have hpb := hwf.parents i hi
      have hilt : i < n.st.length := by rw [hG.st.lenSt, hwf.lenSt]; exact hi
      have PG := parents_good ih i (Nat.le_of_lt hi) (Nat.le_of_lt_succ hfuel)
      cases hnd : n0.nodes[i] with
      | src q =>
        rw [hnd] at hnode hnode0
        have hq : q < n0.sources.length := hwf.srcOk i q hnode0
        have hq' : q < n.sources.length := by rw [hG.src.lenSrc]; exact hq
        have hsf := hG.src.srcFresh i q hnode0 hnot
        obtain ⟨src, hsrc⟩ : ∃ src, n.sources[q]? = some src := ⟨n.sources[q], by simp [hq']⟩
        have hstep : step t (fuel + 1) n i =
            Net.setSt { n with sources := n.sources.set q src.get.2,
                               polls := n.polls.set q (n.polls.getD q 0 + 1) } i
              { (n.getSt i) with time := t, rdd := src.get.1, evals := (n.getSt i).evals + 1 } := by
          simp [step, hg, hnode, hsrc]
        rw [hstep]
        refine ⟨⟨?_, ?_⟩, ?_, ?_, ?_⟩
        · refine hG.st.set hwf.lenSt i _ hi rfl rfl hnot rfl (by simp [heq]) ?_ ?_
          · rw [hnd]
            intro src0 h0
            rw [← hsf.1, hsrc] at h0
            cases h0
            simp [Net.getSt, Net.setSt, hilt]
          · rw [hnd]; intro p hp; simp [Node.parents] at hp
        · exact hG.src.set_src i q _ src.get.2 hnode0 hq hwf.lenPolls
            (fun j hj => hwf.srcUnique j i q hj hnode0) hilt hnot rfl rfl rfl rfl
        · simp [Net.getSt, Net.setSt, hilt]
        · intro j hj
          have hji : j ≠ i := by intro h; subst h; exact hnot hj
          simpa [Net.getSt, Net.setSt, List.getElem?_set_ne (Ne.symm hji)] using hj
        · intro j hj
          simp [Net.getSt, Net.setSt, List.getElem?_set_ne (Nat.ne_of_lt hj)]
      | tr p f =>
        rw [hnd] at hnode hnode0 hpb
        replace hpb : p < i := hpb
        have hstep : step t (fuel + 1) n i =
            (step t fuel n p).setSt i { ((step t fuel n p).getSt i) with
              time := t, rdd := f ((step t fuel n p).getSt p).rdd, evals := (n.getSt i).evals + 1 } := by
          simp [step, hg, hnode]
        obtain ⟨g, d, m, fr⟩ := PG [p] n hG (by simpa using hpb)
        simp only [List.foldl_cons, List.foldl_nil] at g d m fr
        have hi' : (step t fuel n p).getSt i = n.getSt i := fr i (Nat.le_refl i)
        have hilt' : i < (step t fuel n p).st.length := by rw [g.st.lenSt, hwf.lenSt]; exact hi
        have hpi : p ≠ i := Nat.ne_of_lt hpb
        rw [hstep]
        refine step_finish hwf.lenSt i hi g (by simp [hnode0]) (by rw [hi']; exact hnot)
          (by rw [hnd]; simpa [Node.parents] using d) m fr _ rfl (by simp [heq]) ?_
        rw [hnd]
        simp [NodeVal, getSt_setSt_self _ _ _ hilt', getSt_setSt_ne _ _ _ _ hpi]
      | tr2 a b f =>
        rw [hnd] at hnode hnode0 hpb
        replace hpb : a < i ∧ b < i := hpb
        have hstep : step t (fuel + 1) n i =
            (step t fuel (step t fuel n a) b).setSt i { ((step t fuel (step t fuel n a) b).getSt i) with
              time := t,
              rdd := f ((step t fuel (step t fuel n a) b).getSt a).rdd
                       ((step t fuel (step t fuel n a) b).getSt b).rdd,
              evals := (n.getSt i).evals + 1 } := by
          simp [step, hg, hnode]
        obtain ⟨g, d, m, fr⟩ := PG [a, b] n hG (by simpa using hpb)
        simp only [List.foldl_cons, List.foldl_nil] at g d m fr
        have hi' : (step t fuel (step t fuel n a) b).getSt i = n.getSt i := fr i (Nat.le_refl i)
        have hilt' : i < (step t fuel (step t fuel n a) b).st.length := by
          rw [g.st.lenSt, hwf.lenSt]; exact hi
        have hai : a ≠ i := Nat.ne_of_lt hpb.1
        have hbi : b ≠ i := Nat.ne_of_lt hpb.2
        rw [hstep]
        refine step_finish hwf.lenSt i hi g (by simp [hnode0]) (by rw [hi']; exact hnot)
          (by rw [hnd]; simpa [Node.parents] using d) m fr _ rfl (by simp [heq]) ?_
        rw [hnd]
        simp [NodeVal, getSt_setSt_self _ _ _ hilt', getSt_setSt_ne _ _ _ _ hai,
          getSt_setSt_ne _ _ _ _ hbi]
      | win p w sl =>
        rw [hnd] at hnode hnode0 hpb
        replace hpb : p < i ∧ 0 < sl := hpb
        have hstep : step t (fuel + 1) n i =
            (step t fuel n p).setSt i { ((step t fuel n p).getSt i) with
              time := t,
              buf := pushWindow w ((step t fuel n p).getSt i).buf ((step t fuel n p).getSt p).rdd,
              counter := (((step t fuel n p).getSt i).counter + 1) % sl,
              evals := ((step t fuel n p).getSt i).evals + 1,
              rdd := if (((step t fuel n p).getSt i).counter + 1) % sl = 0 then
                  (pushWindow w ((step t fuel n p).getSt i).buf ((step t fuel n p).getSt p).rdd).flatten
                else [] } := by
          simp [step, hg, hnode]
        obtain ⟨g, d, m, fr⟩ := PG [p] n hG (by simpa using hpb.1)
        simp only [List.foldl_cons, List.foldl_nil] at g d m fr
        have hi' : (step t fuel n p).getSt i = n.getSt i := fr i (Nat.le_refl i)
        have hilt' : i < (step t fuel n p).st.length := by rw [g.st.lenSt, hwf.lenSt]; exact hi
        have hpi : p ≠ i := Nat.ne_of_lt hpb.1
        rw [hstep]
        refine step_finish hwf.lenSt i hi g (by simp [hnode0]) (by rw [hi']; exact hnot)
          (by rw [hnd]; simpa [Node.parents] using d) m fr _ rfl (by simp [hi', heq]) ?_
        rw [hnd]
        simp [NodeVal, getSt_setSt_self _ _ _ hilt', getSt_setSt_ne _ _ _ _ hpi, hi', heq]
      | fold p gg =>
        rw [hnd] at hnode hnode0 hpb
        replace hpb : p < i := hpb
        have hstep : step t (fuel + 1) n i =
            (step t fuel n p).setSt i { ((step t fuel n p).getSt i) with
              time := t,
              mem := gg ((step t fuel n p).getSt p).rdd ((step t fuel n p).getSt i).mem,
              rdd := gg ((step t fuel n p).getSt p).rdd ((step t fuel n p).getSt i).mem,
              evals := ((step t fuel n p).getSt i).evals + 1 } := by
          simp [step, hg, hnode]
        obtain ⟨g, d, m, fr⟩ := PG [p] n hG (by simpa using hpb)
        simp only [List.foldl_cons, List.foldl_nil] at g d m fr
        have hi' : (step t fuel n p).getSt i = n.getSt i := fr i (Nat.le_refl i)
        have hilt' : i < (step t fuel n p).st.length := by rw [g.st.lenSt, hwf.lenSt]; exact hi
        have hpi : p ≠ i := Nat.ne_of_lt hpb
        rw [hstep]
        refine step_finish hwf.lenSt i hi g (by simp [hnode0]) (by rw [hi']; exact hnot)
          (by rw [hnd]; simpa [Node.parents] using d) m fr _ rfl (by simp [hi', heq]) ?_
        rw [hnd]
        simp [NodeVal, getSt_setSt_self _ _ _ hilt', getSt_setSt_ne _ _ _ _ hpi, hi', heq]

theorem good_refl {t : Nat} {n0 : Net α}
    (hfr : ∀ i, i < n0.nodes.length → (n0.getSt i).time < t) : Good t n0 n0 := by
  have hlt : ∀ j q, n0.nodes[j]? = some (Node.src q) → j < n0.nodes.length := by
    intro j q h
    exact (List.getElem?_eq_some_iff.mp h).1
  refine ⟨⟨rfl, rfl, fun _ _ _ => rfl, ?_⟩, ⟨rfl, rfl, fun _ _ _ _ => ⟨rfl, rfl⟩, ?_⟩⟩
  · intro j hj h; have := hfr j hj; omega
  · intro j q hj h; have := hfr j (hlt j q hj); omega

theorem tick_prefix_good {t : Nat} {n0 : Net α} (hwf : WFNet n0)
    (hfr : ∀ i, i < n0.nodes.length → (n0.getSt i).time < t) :
    ∀ k, k ≤ n0.nodes.length →
      Good t n0 ((List.range k).foldl (fun n i => step t (i + 1) n i) n0) ∧
      ∀ j, j < k → (((List.range k).foldl (fun n i => step t (i + 1) n i) n0).getSt j).time = t := by
  intro k
  induction k with
  | zero => intro _; exact ⟨good_refl hfr, fun j hj => absurd hj (Nat.not_lt_zero _)⟩
  | succ k ih =>
    intro hk
    obtain ⟨g, d⟩ := ih (Nat.le_of_succ_le hk)
    rw [List.range_succ, List.foldl_append]
    simp only [List.foldl_cons, List.foldl_nil]
    have R := step_good hwf hfr (k + 1) _ k g hk (Nat.lt_succ_self k)
    refine ⟨R.good, fun j hj => ?_⟩
    rcases Nat.lt_succ_iff_lt_or_eq.mp hj with h | h
    · exact R.mono j (d j h)
    · subst h; exact R.done

theorem tick_good {t : Nat} {n0 : Net α} (hwf : WFNet n0)
    (hfr : ∀ i, i < n0.nodes.length → (n0.getSt i).time < t) :
    Good t n0 (tick t n0) ∧ ∀ j, j < n0.nodes.length → ((tick t n0).getSt j).time = t :=
  tick_prefix_good hwf hfr n0.nodes.length (Nat.le_refl _)

end PysparklingVerif.Stream
