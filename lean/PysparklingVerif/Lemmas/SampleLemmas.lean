/-
  Helper lemmas for C16 (sampling): sublist facts for `filterMap` over a `zip`, the
  "exactly one interval" counting fact behind `randomSplit`, and `applyPerm`.
  Core-only (no Mathlib needed).
-/
import PysparklingVerif.Model.Sample
namespace PysparklingVerif.Sample
open PysparklingVerif.Rdd

variable {α β κ ν ι : Type}

/-! ## order facts on `Rat` (core only has `not_lt`, `not_le`, `le_trans`) -/

theorem rat_lt_of_lt_of_le {a b c : Rat} (h : a < b) (h2 : b ≤ c) : a < c := by
  apply Rat.not_le.mp
  intro hca
  exact (Rat.not_le.mpr h) (Rat.le_trans h2 hca)

theorem rat_lt_of_le_of_lt {a b c : Rat} (h : a ≤ b) (h2 : b < c) : a < c := by
  apply Rat.not_le.mp
  intro hca
  exact (Rat.not_le.mpr h2) (Rat.le_trans hca h)

/-! ## `filterMap` over a `zip` that only ever returns the first component -/

theorem ite_some_eq {c : Prop} [Decidable c] {x y : α} (h : (if c then some x else none) = some y) :
    y = x := by
  split at h
  · exact (Option.some.inj h).symm
  · cases h

theorem filterMap_zip_sublist (g : α × β → Option α) (hg : ∀ p y, g p = some y → y = p.1) :
    ∀ (xs : List α) (ds : List β), ((xs.zip ds).filterMap g).Sublist xs
  | [], _ => by simp
  | _ :: _, [] => by simp
  | x :: xs, d :: ds => by
    rw [List.zip_cons_cons, List.filterMap_cons]
    have ih := filterMap_zip_sublist g hg xs ds
    split
    · exact List.Sublist.cons _ ih
    · next y hy =>
      have := hg _ _ hy
      subst this
      exact List.Sublist.cons_cons _ ih

theorem bernoulli_sublist_part (f : Rat) (d : List Rat) (p : List α) : (bernoulli f d p).Sublist p := by
  unfold bernoulli
  apply filterMap_zip_sublist
  intro ⟨x, r⟩ y h
  exact ite_some_eq h

theorem flat_sampleParts_sublist (f : Rat) :
    ∀ (draws : List (List Rat)) (ps : Parts α), (flat (sampleParts f draws ps)).Sublist (flat ps)
  | _, [] => by simp [sampleParts, flat]
  | [], p :: ps => by simp [sampleParts, flat]
  | d :: draws, p :: ps => by
    have ih := flat_sampleParts_sublist f draws ps
    simp only [sampleParts, flat, List.zip_cons_cons, List.map_cons, List.flatten_cons] at ih ⊢
    exact List.Sublist.append (bernoulli_sublist_part f d p) ih

theorem bernoulli_zero (d : List Rat) (p : List α) (h0 : ∀ r ∈ d, 0 ≤ r) : bernoulli 0 d p = [] := by
  unfold bernoulli
  rw [List.filterMap_eq_nil_iff]
  intro q hq
  have hr : q.2 ∈ d := (List.of_mem_zip (a := q.1) (b := q.2) hq).2
  have : ¬ q.2 < 0 := Rat.not_lt.mpr (h0 _ hr)
  simp [this]

theorem bernoulli_one : ∀ (d : List Rat) (p : List α), (∀ r ∈ d, r < 1) → p.length ≤ d.length →
    bernoulli 1 d p = p
  | _, [], _, _ => by simp [bernoulli]
  | [], _ :: _, _, hl => by simp at hl
  | r :: d, x :: p, h1, hl => by
    have ih := bernoulli_one d p (fun r hr => h1 r (List.mem_cons_of_mem _ hr))
      (by simpa using hl)
    have hr : r < 1 := h1 r (List.mem_cons_self ..)
    unfold bernoulli at ih ⊢
    rw [List.zip_cons_cons, List.filterMap_cons]
    simp only [hr, if_true]
    rw [ih]

theorem bernoulliByKey_sublist [DecidableEq κ] (fr : κ → Option Rat) (d : List Rat)
    (xs : List (κ × ν)) : (bernoulliByKey fr d xs).Sublist xs := by
  unfold bernoulliByKey
  apply filterMap_zip_sublist
  intro ⟨x, r⟩ y h
  exact ite_some_eq h

/-! ## Poisson expansion -/

theorem poisson_counts : ∀ (counts : List Nat) (xs : List α),
    ∃ cs : List Nat, cs.length = xs.length ∧
      poissonExpand counts xs = (xs.zip cs).flatMap fun (x, c) => List.replicate c x
  | _, [] => ⟨[], rfl, by simp [poissonExpand]⟩
  | [], x :: xs => by
    obtain ⟨cs, hl, he⟩ := poisson_counts [] xs
    refine ⟨0 :: cs, by simp [hl], ?_⟩
    simp only [poissonExpand, List.zip_nil_right, List.flatMap_nil, List.zip_cons_cons,
      List.flatMap_cons, List.replicate_zero, List.nil_append] at he ⊢
    exact he
  | c :: counts, x :: xs => by
    obtain ⟨cs, hl, he⟩ := poisson_counts counts xs
    refine ⟨c :: cs, by simp [hl], ?_⟩
    simp only [poissonExpand, List.zip_cons_cons, List.flatMap_cons] at he ⊢
    rw [he]

/-! ## randomSplit -/

/-- membership test of a draw in a half-open interval -/
def inI (r : Rat) (I : Rat × Rat) : Bool := decide (I.1 ≤ r ∧ r < I.2)

/-- the split selected by interval `I` -/
def splitOf (I : Rat × Rat) (draws : List Rat) (xs : List α) : List α :=
  (xs.zip draws).filterMap fun p => if I.1 ≤ p.2 ∧ p.2 < I.2 then some p.1 else none

theorem randomSplit_eq (bounds draws : List Rat) (xs : List α) :
    randomSplit bounds draws xs = (bounds.zip bounds.tail).map fun I => splitOf I draws xs := rfl

theorem splitOf_sublist (I : Rat × Rat) (draws : List Rat) (xs : List α) :
    (splitOf I draws xs).Sublist xs := by
  unfold splitOf
  apply filterMap_zip_sublist
  intro ⟨x, r⟩ y h
  exact ite_some_eq h

theorem splitOf_nil (I : Rat × Rat) (draws : List Rat) : splitOf I draws ([] : List α) = [] := by
  simp [splitOf]

theorem splitOf_cons (I : Rat × Rat) (r : Rat) (draws : List Rat) (x : α) (xs : List α) :
    splitOf I (r :: draws) (x :: xs) = (if inI r I then [x] else []) ++ splitOf I draws xs := by
  unfold splitOf inI
  rw [List.zip_cons_cons, List.filterMap_cons]
  by_cases h : I.1 ≤ r ∧ r < I.2
  · simp [h]
  · simp [h]

/-- prepending `x` to the splits selected by `P` adds `countP P` copies of `x` -/
theorem flatten_insert_perm (P : ι → Bool) (S : ι → List α) (x : α) : ∀ (L : List ι),
    (L.map fun I => (if P I then [x] else []) ++ S I).flatten.Perm
      (List.replicate (L.countP P) x ++ (L.map S).flatten)
  | [] => by simp
  | I :: L => by
    have ih := flatten_insert_perm P S x L
    simp only [List.map_cons, List.flatten_cons, List.countP_cons]
    by_cases h : P I
    · simp only [h, if_true, List.replicate_succ, List.cons_append, List.nil_append]
      refine List.Perm.cons x ?_
      exact ((List.Perm.append_left (S I) ih).trans (List.perm_append_comm_assoc _ _ _))
    · simp only [h, Bool.false_eq_true, if_false, List.nil_append, Nat.add_zero]
      exact ((List.Perm.append_left (S I) ih).trans (List.perm_append_comm_assoc _ _ _))

/-- for monotone bounds starting at `b0` and ending at `last`, a draw in `[b0, last)` lies in
exactly one consecutive interval -/
theorem countP_interval : ∀ (bounds : List Rat) (b0 last r : Rat), bounds.Pairwise (· ≤ ·) →
    bounds.head? = some b0 → bounds.getLast? = some last → b0 ≤ r → r < last →
    (bounds.zip bounds.tail).countP (inI r) = 1
  | [], _, _, _, _, hh, _, _, _ => by simp at hh
  | [b], b0, last, r, _, hh, hl, h0, h1 => by
    simp only [List.head?_cons, Option.some.injEq, List.getLast?_singleton] at hh hl
    subst hh; subst hl
    exact absurd h1 (Rat.not_lt.mpr h0)
  | b :: b1 :: rest, b0, last, r, hm, hh, hl, h0, h1 => by
    simp only [List.head?_cons, Option.some.injEq] at hh
    subst hh
    have hm' : (b1 :: rest).Pairwise (· ≤ ·) := (List.pairwise_cons.mp hm).2
    have hl' : (b1 :: rest).getLast? = some last := by
      rw [List.getLast?_cons_cons] at hl; exact hl
    simp only [List.tail_cons, List.zip_cons_cons, List.countP_cons]
    by_cases hr : r < b1
    · -- first interval contains `r`, no later one does
      have hz : ((b1 :: rest).zip rest).countP (inI r) = 0 := by
        rw [List.countP_eq_zero]
        intro I hI
        have hmem : I.1 ∈ b1 :: rest := (List.of_mem_zip (a := I.1) (b := I.2) hI).1
        have hle : b1 ≤ I.1 := by
          rcases List.mem_cons.mp hmem with h | h
          · rw [h]; exact Rat.le_refl
          · exact (List.pairwise_cons.mp hm').1 _ h
        have : ¬ I.1 ≤ r := Rat.not_le.mpr (rat_lt_of_lt_of_le hr hle)
        simp [inI, this]
      rw [hz]
      simp [inI, h0, hr]
    · have hb1 : b1 ≤ r := Rat.not_lt.mp hr
      have ih := countP_interval (b1 :: rest) b1 last r hm' rfl hl' hb1 h1
      simp only [List.tail_cons] at ih
      rw [ih]
      simp [inI, hr]

theorem flatten_map_nil (L : List ι) : (L.map fun _ => ([] : List α)).flatten = [] := by
  induction L with
  | nil => rfl
  | cons _ _ ih => simp

theorem randomSplit_perm (bounds : List Rat)
    (hb0 : bounds.head? = some 0) (hmono : bounds.Pairwise (· ≤ ·)) :
    ∀ (draws : List Rat) (xs : List α),
    (∀ r ∈ draws, 0 ≤ r ∧ ∃ last, bounds.getLast? = some last ∧ r < last) →
    xs.length ≤ draws.length → (randomSplit bounds draws xs).flatten.Perm xs
  | _, [], _, _ => by
    rw [randomSplit_eq]
    simp only [splitOf_nil]
    rw [flatten_map_nil]
  | [], _ :: _, _, hl => by simp at hl
  | r :: draws, x :: xs, hd, hl => by
    have ih := randomSplit_perm bounds hb0 hmono draws xs
      (fun r hr => hd r (List.mem_cons_of_mem _ hr)) (by simpa using hl)
    obtain ⟨h0, last, hlast, h1⟩ := hd r (List.mem_cons_self ..)
    have hc := countP_interval bounds 0 last r hmono hb0 hlast h0 h1
    rw [randomSplit_eq] at ih ⊢
    simp only [splitOf_cons]
    have hp := flatten_insert_perm (inI r) (fun I => splitOf I draws xs) x (bounds.zip bounds.tail)
    rw [hc] at hp
    exact hp.trans (List.Perm.cons x ih)

/-! ## applyPerm -/

theorem range_filterMap_getElem? : ∀ (xs : List α),
    (List.range xs.length).filterMap (fun i => xs[i]?) = xs
  | [] => rfl
  | x :: xs => by
    have ih := range_filterMap_getElem? xs
    rw [List.length_cons, List.range_succ_eq_map, List.filterMap_cons]
    simp only [List.getElem?_cons_zero, List.filterMap_map]
    congr 1

theorem applyPerm_perm (perm : List Nat) (xs : List α) (h : perm.Perm (List.range xs.length)) :
    (applyPerm perm xs).Perm xs := by
  have := List.Perm.filterMap (fun i => xs[i]?) h
  rw [range_filterMap_getElem?] at this
  exact this

end PysparklingVerif.Sample
