/-
  Helper lemmas for the store-passing model of `fold` / `aggregate` (Model/ZeroCopy.lean): reads and writes of
  the heap, the effect of one task, of the sequence of tasks and of the driver's combining fold.
-/
import PysparklingVerif.Model.ZeroCopy
namespace PysparklingVerif.Zero

theorem length_write (h : Heap) (r : Nat) (v : Obj) : (h.write r v).length = h.length := by
  simp [Heap.write]

theorem read_write_same (h : Heap) (r : Nat) (v : Obj) (hr : r < h.length) : (h.write r v).read r = v := by
  simp [Heap.write, Heap.read, List.getD_eq_getElem?_getD, hr]

theorem read_write_ne (h : Heap) (r x : Nat) (v : Obj) (hx : x ≠ r) : (h.write r v).read x = h.read x := by
  simp [Heap.write, Heap.read, List.getD_eq_getElem?_getD, Ne.symm hx]

theorem read_append_lt (h : Heap) (o : Obj) (x : Nat) (hx : x < h.length) : Heap.read (h ++ [o]) x = h.read x := by
  simp [Heap.read, List.getD_eq_getElem?_getD, List.getElem?_append_left hx]

theorem read_append_length (h : Heap) (o : Obj) : Heap.read (h ++ [o]) h.length = o := by
  simp [Heap.read, List.getD_eq_getElem?_getD]

/-- folding a partition into the object `c` in place: only `c` changes, and it holds the pure fold -/
theorem foldl_seqStep (f : Obj → Int → Obj) (p : List Int) (h : Heap) (c : Nat) (hc : c < h.length) :
    (p.foldl (fun hh x => seqStep f hh c x) h).length = h.length ∧
    (p.foldl (fun hh x => seqStep f hh c x) h).read c = p.foldl f (h.read c) ∧
    ∀ x, x ≠ c → (p.foldl (fun hh x => seqStep f hh c x) h).read x = h.read x := by
  induction p generalizing h with
  | nil => simp
  | cons a p ih =>
    simp only [List.foldl_cons]
    have hl : (seqStep f h c a).length = h.length := length_write _ _ _
    obtain ⟨i1, i2, i3⟩ := ih (seqStep f h c a) (by omega)
    refine ⟨by omega, ?_, ?_⟩
    · rw [i2]; unfold seqStep; rw [read_write_same _ _ _ hc]
    · intro x hx; rw [i3 x hx]; exact read_write_ne _ _ _ _ hx

/-- one task allocates exactly one object (the next reference), leaves every older object alone and leaves the
pure fold of the partition from the CONTENTS of the zero in the new object -/
theorem runTask_spec (f : Obj → Int → Obj) (h : Heap) (z : Nat) (p : List Int) :
    (runTask f h z p).2 = h.length ∧ (runTask f h z p).1.length = h.length + 1 ∧
    (runTask f h z p).1.read (runTask f h z p).2 = p.foldl f (h.read z) ∧
    ∀ x, x < h.length → (runTask f h z p).1.read x = h.read x := by
  unfold runTask deepcopy
  obtain ⟨i1, i2, i3⟩ := foldl_seqStep f p (h ++ [h.read z]) h.length (by simp)
  refine ⟨rfl, by simpa using i1, ?_, ?_⟩
  · simp only; rw [i2, read_append_length]
  · intro x hx; simp only; rw [i3 x (by omega), read_append_lt _ _ _ hx]

/-- the step of the task loop of `aggregateCopy` -/
def taskStep (f : Obj → Int → Obj) (z : Nat) (st : Heap × List Nat) (p : List Int) : Heap × List Nat :=
  (runTask f st.1 z p |>.1, st.2 ++ [(runTask f st.1 z p).2])

/-- invariant of the task loop: the heap only grew, the old objects are untouched, the result references are new,
valid, and hold the pure partition folds -/
structure Inv (f : Obj → Int → Obj) (h : Heap) (z : Nat) (st : Heap × List Nat) (done : List (List Int)) : Prop where
  len : h.length ≤ st.1.length
  old : ∀ x, x < h.length → st.1.read x = h.read x
  refs : ∀ r ∈ st.2, h.length ≤ r ∧ r < st.1.length
  vals : st.2.map st.1.read = done.map (fun p => p.foldl f (h.read z))

theorem tasks_spec (f : Obj → Int → Obj) (h : Heap) (z : Nat) (hz : z < h.length) (parts : List (List Int))
    (st : Heap × List Nat) (done : List (List Int)) (hI : Inv f h z st done) :
    Inv f h z (parts.foldl (taskStep f z) st) (done ++ parts) := by
  induction parts generalizing st done with
  | nil => simpa using hI
  | cons p parts ih =>
    simp only [List.foldl_cons]
    have := ih (taskStep f z st p) (done ++ [p]) ?_
    · simpa using this
    · obtain ⟨t1, t2, t3, t4⟩ := runTask_spec f st.1 z p
      obtain ⟨l, o, r, v⟩ := hI
      refine ⟨?_, ?_, ?_, ?_⟩
      · simp only [taskStep]; omega
      · intro x hx; simp only [taskStep]; rw [t4 x (by omega), o x hx]
      · intro y hy
        simp only [taskStep, List.mem_append, List.mem_singleton] at hy ⊢
        rcases hy with hy | hy
        · have := r y hy; omega
        · rw [hy, t1, t2]; omega
      · simp only [taskStep, List.map_append, List.map_cons, List.map_nil]
        rw [t3, o z hz, ← v]
        congr 1
        apply List.map_congr_left
        intro y hy
        exact t4 y (r y hy).2

/-- the driver's fold of the result objects into the object `a` in place: only `a` changes, and it holds the pure
fold of the CONTENTS of the result objects -/
theorem foldl_combStep (g : Obj → Obj → Obj) (refs : List Nat) (H : Heap) (a : Nat) (ha : a < H.length)
    (hr : ∀ r ∈ refs, r ≠ a) :
    (refs.foldl (fun hh r => combStep g hh a r) H).read a = (refs.map H.read).foldl g (H.read a) ∧
    ∀ x, x ≠ a → (refs.foldl (fun hh r => combStep g hh a r) H).read x = H.read x := by
  induction refs generalizing H with
  | nil => simp
  | cons b refs ih =>
    simp only [List.foldl_cons, List.map_cons]
    have hl : (combStep g H a b).length = H.length := length_write _ _ _
    obtain ⟨i1, i2⟩ := ih (combStep g H a b) (by omega) (fun r hr' => hr r (by simp [hr']))
    have hb : b ≠ a := hr b (by simp)
    have hne : ∀ x, x ≠ a → (combStep g H a b).read x = H.read x := fun x hx => read_write_ne _ _ _ _ hx
    refine ⟨?_, ?_⟩
    · rw [i1]
      have h1 : (combStep g H a b).read a = g (H.read a) (H.read b) := read_write_same _ _ _ ha
      rw [h1]
      congr 1
      apply List.map_congr_left
      intro y hy
      exact hne y (hr y (by simp [hy]))
    · intro x hx; rw [i2 x hx, hne x hx]

theorem aggregateCopy_spec (f : Obj → Int → Obj) (g : Obj → Obj → Obj) (h : Heap) (z : Nat) (hz : z < h.length)
    (parts : List (List Int)) :
    (aggregateCopy f g h z parts).1.read (aggregateCopy f g h z parts).2 = aggregatePure f g (h.read z) parts ∧
    (∀ x, x < h.length → (aggregateCopy f g h z parts).1.read x = h.read x) ∧
    h.length ≤ (aggregateCopy f g h z parts).2 := by
  have hI : Inv f h z (parts.foldl (taskStep f z) (h, [])) ([] ++ parts) :=
    tasks_spec f h z hz parts (h, []) [] ⟨Nat.le_refl _, fun _ _ => rfl, by simp, by simp⟩
  have hagg : aggregateCopy f g h z parts =
      (((parts.foldl (taskStep f z) (h, [])).2.foldl
          (fun hh r => combStep g hh (parts.foldl (taskStep f z) (h, [])).1.length r)
          ((parts.foldl (taskStep f z) (h, [])).1 ++
            [(parts.foldl (taskStep f z) (h, [])).1.read z])),
        (parts.foldl (taskStep f z) (h, [])).1.length) := rfl
  rw [hagg]
  generalize parts.foldl (taskStep f z) (h, []) = st at hI
  obtain ⟨l, o, r, v⟩ := hI
  obtain ⟨d1, d2⟩ := foldl_combStep g st.2 (st.1 ++ [st.1.read z]) st.1.length (by simp)
    (fun y hy => by have := r y hy; omega)
  refine ⟨?_, ?_, l⟩
  · simp only
    rw [d1, read_append_length, o z hz]
    unfold aggregatePure
    congr 1
    rw [List.nil_append] at v
    rw [← v]
    apply List.map_congr_left
    intro y hy
    exact read_append_lt _ _ _ (r y hy).2
  · intro x hx
    simp only
    rw [d2 x (by omega), read_append_lt _ _ _ (by omega), o x hx]

end PysparklingVerif.Zero
