/-
  Helper lemmas for C08 (text IO / save models).
-/
import PysparklingVerif.Model.Save

namespace PysparklingVerif.TextIO

/-! ### splitlines / encodePart -/

theorem isLineBreak_cr : isLineBreak '\r' = true := by decide
theorem isLineBreak_nl : isLineBreak '\n' = true := by decide

theorem splitlinesAux_clean (l rest cur : Str) (h : ∀ c ∈ l, isLineBreak c = false) :
    splitlinesAux (l ++ '\n' :: rest) cur = (cur.reverse ++ l) :: splitlinesAux rest [] := by
  induction l generalizing cur with
  | nil =>
    simp only [List.nil_append, List.append_nil]
    conv => lhs; unfold splitlinesAux
    simp [isLineBreak_nl]
  | cons c l ih =>
    have hc : isLineBreak c = false := h c (by simp)
    have hcr : c ≠ '\r' := by
      intro e; rw [e, isLineBreak_cr] at hc; cases hc
    have hl : ∀ c ∈ l, isLineBreak c = false := fun d hd => h d (by simp [hd])
    have : splitlinesAux ((c :: l) ++ '\n' :: rest) cur
        = splitlinesAux (l ++ '\n' :: rest) (c :: cur) := by
      simp only [List.cons_append]
      conv => lhs; unfold splitlinesAux
      split
      · next heq => cases heq
      · next heq => simp at heq; exact absurd heq.1 hcr
      · next heq =>
        simp at heq
        obtain ⟨h1, h2⟩ := heq
        subst h1; subst h2
        simp [hc]
    rw [this, ih _ hl]
    simp

theorem encodePart_cons (l : Str) (ls : List Str) :
    encodePart (l :: ls) = l ++ '\n' :: encodePart ls := by
  simp [encodePart]

theorem splitlines_encodePart (ls : List Str) (h : ∀ l ∈ ls, ∀ c ∈ l, isLineBreak c = false) :
    splitlines (encodePart ls) = ls := by
  induction ls with
  | nil => simp [encodePart, splitlines, splitlinesAux]
  | cons l ls ih =>
    unfold splitlines at *
    rw [encodePart_cons, splitlinesAux_clean _ _ _ (h l (by simp))]
    rw [ih (fun l' hl' => h l' (by simp [hl']))]
    simp

/-! ### chunkers -/

theorem fixedChunks_flatten (L : Nat) (hL : 0 < L) (rs : List (List UInt8)) (h : ∀ r ∈ rs, r.length = L)
    (fuel : Nat) (hf : rs.length < fuel) : fixedChunks L rs.flatten fuel = rs := by
  induction rs generalizing fuel with
  | nil =>
    cases fuel with
    | zero => simp at hf
    | succ f => simp [fixedChunks]
  | cons r rs ih =>
    cases fuel with
    | zero => simp at hf
    | succ f =>
      have hr : r.length = L := h r (by simp)
      have hne : r ≠ [] := by intro e; subst e; simp at hr; omega
      simp only [fixedChunks, List.flatten_cons]
      rw [List.take_left' hr, List.drop_left' hr]
      rw [ih (fun r' hr' => h r' (by simp [hr'])) f (by simp at hf; omega)]
      simp [hne]

theorem frame_cons (pack : Nat → List UInt8) (r : List UInt8) (rs : List (List UInt8)) :
    frame pack (r :: rs) = pack r.length ++ (r ++ frame pack rs) := by
  simp [frame]

theorem varChunks_frame (pl : Nat) (hpl : 0 < pl) (B : Nat) (pack : Nat → List UInt8) (unpack : List UInt8 → Nat)
    (hlen : ∀ n, n < B → (pack n).length = pl) (hinv : ∀ n, n < B → unpack (pack n) = n)
    (rs : List (List UInt8)) (hr : ∀ r ∈ rs, r.length < B) (fuel : Nat) (hf : rs.length < fuel) :
    varChunks pl unpack (frame pack rs) fuel = rs := by
  induction rs generalizing fuel with
  | nil =>
    cases fuel with
    | zero => simp at hf
    | succ f => simp [varChunks, frame]
  | cons r rs ih =>
    cases fuel with
    | zero => simp at hf
    | succ f =>
      have hb : r.length < B := hr r (by simp)
      have hne : pack r.length ≠ [] := by
        intro e; have := hlen r.length hb; rw [e] at this; simp at this; omega
      rw [frame_cons]
      simp only [varChunks]
      rw [List.take_left' (hlen _ hb), List.drop_left' (hlen _ hb), hinv _ hb,
        List.take_left' rfl, List.drop_left' rfl,
        ih (fun r' hr' => hr r' (by simp [hr'])) f (by simp at hf; omega)]
      simp [hne]

/-! ### digits and zero padding -/

theorem ofNat_toNat_small : ∀ k, k < 10 → (Char.ofNat (48 + k)).toNat = 48 + k := by decide

theorem digitChar_toNat (d : Nat) : (digitChar d).toNat = 48 + d % 10 :=
  ofNat_toNat_small (d % 10) (Nat.mod_lt _ (by decide))

theorem digitChar_mod (d : Nat) : digitChar (d % 10) = digitChar d := by
  simp [digitChar]

theorem digitChar_zero : digitChar 0 = '0' := by decide

theorem digitChar_eq_iff (a b : Nat) : digitChar a = digitChar b ↔ a % 10 = b % 10 := by
  rw [← Char.toNat_inj, digitChar_toNat, digitChar_toNat]; omega

theorem natDigitsAux_fuel (f1 f2 n : Nat) (h1 : n ≤ f1) (h2 : n ≤ f2) :
    natDigitsAux f1 n = natDigitsAux f2 n := by
  induction f1 generalizing f2 n with
  | zero =>
    have : n = 0 := by omega
    subst this
    cases f2 <;> simp [natDigitsAux]
  | succ f1 ih =>
    cases f2 with
    | zero =>
      have : n = 0 := by omega
      subst this
      simp [natDigitsAux]
    | succ f2 =>
      simp only [natDigitsAux]
      split
      · rfl
      · rw [ih f2 (n / 10) (by omega) (by omega)]

theorem natDigits_eq (n : Nat) :
    natDigits n = if n < 10 then [digitChar n] else natDigits (n / 10) ++ [digitChar (n % 10)] := by
  unfold natDigits
  cases n with
  | zero => simp [natDigitsAux]
  | succ m =>
    simp only [natDigitsAux]
    split
    · rfl
    · rw [natDigitsAux_fuel m ((m + 1) / 10) ((m + 1) / 10) (by omega) (by omega)]

theorem natDigits_lt10 (n : Nat) (h : n < 10) : natDigits n = [digitChar n] := by
  rw [natDigits_eq]; simp [h]

theorem natDigits_ge10 (n : Nat) (h : 10 ≤ n) :
    natDigits n = natDigits (n / 10) ++ [digitChar n] := by
  rw [natDigits_eq, digitChar_mod]; simp [show ¬ n < 10 by omega]

/-- explicit five digits below 10^5 -/
theorem pad5_eq (i : Nat) (h : i < 100000) :
    pad5 i = [digitChar (i / 10000), digitChar (i / 1000), digitChar (i / 100), digitChar (i / 10),
      digitChar i] := by
  unfold pad5
  by_cases h1 : i < 10
  · have e4 : i / 10000 = 0 := by omega
    have e3 : i / 1000 = 0 := by omega
    have e2 : i / 100 = 0 := by omega
    have e1 : i / 10 = 0 := by omega
    simp [natDigits_lt10 i h1, e4, e3, e2, e1, digitChar_zero, List.replicate]
  by_cases h2 : i < 100
  · have e4 : i / 10000 = 0 := by omega
    have e3 : i / 1000 = 0 := by omega
    have e2 : i / 100 = 0 := by omega
    simp [natDigits_ge10 i (by omega), natDigits_lt10 (i / 10) (by omega), e4, e3, e2, digitChar_zero,
      List.replicate]
  have d2 : i / 10 / 10 = i / 100 := by omega
  have d3 : i / 100 / 10 = i / 1000 := by omega
  have d4 : i / 1000 / 10 = i / 10000 := by omega
  by_cases h3 : i < 1000
  · have e4 : i / 10000 = 0 := by omega
    have e3 : i / 1000 = 0 := by omega
    simp [natDigits_ge10 i (by omega), natDigits_ge10 (i / 10) (by omega),
      natDigits_lt10 (i / 100) (by omega), e4, e3, d2, digitChar_zero, List.replicate]
  by_cases h4 : i < 10000
  · have e4 : i / 10000 = 0 := by omega
    simp [natDigits_ge10 i (by omega), natDigits_ge10 (i / 10) (by omega),
      natDigits_ge10 (i / 100) (by omega),
      natDigits_lt10 (i / 1000) (by omega), e4, d2, d3, digitChar_zero]
  · simp [natDigits_ge10 i (by omega), natDigits_ge10 (i / 10) (by omega),
      natDigits_ge10 (i / 100) (by omega), natDigits_ge10 (i / 1000) (by omega),
      natDigits_lt10 (i / 10000) (by omega), d2, d3, d4]

end PysparklingVerif.TextIO

namespace PysparklingVerif.Save
open PysparklingVerif.TextIO

/-! ### string order -/

theorem strLe_refl (s : Str) : strLe s s = true := by
  induction s with
  | nil => rfl
  | cons a s ih => simp [strLe, ih]

theorem strLe_append_left (l a b : Str) : strLe (l ++ a) (l ++ b) = strLe a b := by
  induction l with
  | nil => rfl
  | cons c l ih => simp [strLe, ih]

theorem pad5_strLe (i j : Nat) (s : Str) (hij : i < j) (hj : j < 100000) :
    strLe (pad5 i ++ s) (pad5 j ++ s) = true ∧ strLe (pad5 j ++ s) (pad5 i ++ s) = false := by
  rw [pad5_eq i (by omega), pad5_eq j hj]
  simp only [List.cons_append, List.nil_append, strLe, digitChar_eq_iff, digitChar_toNat, strLe_refl]
  constructor
  · repeat' split
    all_goals simp
    all_goals omega
  · repeat' split
    all_goals simp
    all_goals omega

theorem partName_strLe (i j : Nat) (s : Str) (hij : i < j) (hj : j < 100000) :
    strLe (partName i s) (partName j s) = true ∧ strLe (partName j s) (partName i s) = false := by
  unfold partName
  simp only [List.append_assoc, strLe_append_left]
  exact pad5_strLe i j s hij hj

end PysparklingVerif.Save

namespace PysparklingVerif.TextIO

/-! ### rfind -/

theorem rfind_eq_none (s : Str) (c : Char) (h : c ∉ s) : rfind s c = none := by
  unfold rfind
  have : s.reverse.findIdx? (fun x => decide (x = c)) = none := by
    rw [List.findIdx?_eq_none_iff]
    intro x hx
    simp at hx
    simp
    intro e; subst e; exact h hx
  simp [this]

theorem rfind_append_notMem (s t : Str) (c : Char) (h : c ∉ t) : rfind (s ++ t) c = rfind s c := by
  unfold rfind
  have ht : t.reverse.findIdx? (fun x => decide (x = c)) = none := by
    rw [List.findIdx?_eq_none_iff]
    intro x hx
    simp at hx
    simp
    intro e; subst e; exact h hx
  simp only [List.reverse_append, List.findIdx?_append, ht, Option.none_or, List.length_reverse,
    List.length_append]
  cases s.reverse.findIdx? (fun x => decide (x = c)) with
  | none => rfl
  | some i => simp; omega

theorem rfind_snoc_self (s : Str) (c : Char) : rfind (s ++ [c]) c = some s.length := by
  unfold rfind
  simp [List.findIdx?_cons]

theorem rfind_append_cons (s t : Str) (c : Char) (h : c ∉ t) :
    rfind (s ++ c :: t) c = some s.length := by
  have : s ++ c :: t = (s ++ [c]) ++ t := by simp
  rw [this, rfind_append_notMem _ _ _ h, rfind_snoc_self]

theorem rfind_lt (s : Str) (c : Char) (k : Nat) (h : rfind s c = some k) : k < s.length := by
  unfold rfind at h
  cases s with
  | nil => simp at h
  | cons a s =>
    dsimp only at h
    split at h
    · next i hi =>
      simp only [Option.some.injEq] at h
      simp only [List.length_cons] at *
      omega
    · cases h

end PysparklingVerif.TextIO

namespace PysparklingVerif.TextIO
open PysparklingVerif.Save

/-! ### digits of pad5, codec selection -/

theorem digitChar_ne (k : Nat) (c : Char) (h : c.toNat < 48 ∨ 57 < c.toNat) : digitChar k ≠ c := by
  intro e
  have := digitChar_toNat k
  rw [e] at this
  omega

theorem natDigitsAux_digits (fuel n : Nat) : ∀ c ∈ natDigitsAux fuel n, ∃ k, c = digitChar k := by
  induction fuel generalizing n with
  | zero => intro c hc; simp [natDigitsAux] at hc; exact ⟨n, hc⟩
  | succ f ih =>
    intro c hc
    simp only [natDigitsAux] at hc
    split at hc
    · simp at hc; exact ⟨n, hc⟩
    · simp at hc
      rcases hc with hc | hc
      · exact ih _ c hc
      · exact ⟨_, hc⟩

theorem pad5_digits (i : Nat) : ∀ c ∈ pad5 i, ∃ k, c = digitChar k := by
  intro c hc
  simp only [pad5, List.mem_append, List.mem_replicate] at hc
  rcases hc with hc | hc
  · exact ⟨0, by rw [hc.2]; decide⟩
  · exact natDigitsAux_digits _ _ c hc

theorem natDigitsAux_last (fuel n : Nat) : ∃ q, natDigitsAux fuel n = q ++ [digitChar n] := by
  cases fuel with
  | zero => exact ⟨[], rfl⟩
  | succ f =>
    simp only [natDigitsAux]
    split
    · exact ⟨[], rfl⟩
    · exact ⟨_, by rw [digitChar_mod]⟩

theorem pad5_last (i : Nat) : ∃ q, pad5 i = q ++ [digitChar i] := by
  obtain ⟨q, hq⟩ := natDigitsAux_last i i
  refine ⟨List.replicate (5 - (q ++ [digitChar i]).length) '0' ++ q, ?_⟩
  simp only [pad5, natDigits, hq, List.append_assoc]

theorem pad5_notMem (i : Nat) (c : Char) (h : c.toNat < 48 ∨ 57 < c.toNat) : c ∉ pad5 i := by
  intro hc
  obtain ⟨k, hk⟩ := pad5_digits i c hc
  exact digitChar_ne k c h hk.symm

theorem getCodec_dot (Q rest : Str) (h1 : '/' ∉ rest) (h2 : '.' ∉ rest) :
    getCodec (Q ++ '.' :: rest) = getCodec.pick (Q ++ '.' :: rest) := by
  unfold getCodec
  rw [rfind_append_cons _ _ _ h2]
  have : rfind (Q ++ '.' :: rest) '/' = rfind Q '/' :=
    rfind_append_notMem _ _ _ (by simp [h1])
  rw [this]
  cases hq : rfind Q '/' with
  | none => rfl
  | some sl =>
    have := rfind_lt _ _ _ hq
    simp only
    rw [if_neg (by omega)]

theorem codecSuffix_dot (s rest : Str) (h : '.' ∉ rest)
    (hany : fileEndings.any (fun e => e.1.any (endsWith (s ++ '.' :: rest) ·)) = true) :
    codecSuffix (s ++ '.' :: rest) = '.' :: rest := by
  unfold codecSuffix
  rw [if_pos hany, rfind_append_cons _ _ _ h]
  simp



end PysparklingVerif.TextIO

namespace PysparklingVerif.TextIO
open PysparklingVerif.Save

theorem codecSuffix_case (stem pre rest ext : Str) (he : ext = pre ++ '.' :: rest) (h : '.' ∉ rest)
    (hany : ∀ s, fileEndings.any (fun e => e.1.any (endsWith (s ++ '.' :: rest) ·)) = true) :
    codecSuffix (stem ++ ext) = '.' :: rest := by
  subst he
  rw [← List.append_assoc]
  exact codecSuffix_dot _ _ h (hany _)

theorem getCodec_case (P : Str) (i : Nat) (rest : Str) (c : Codec) (h1 : '/' ∉ rest) (h2 : '.' ∉ rest)
    (hpick : ∀ Q d, 'r' ≠ d → getCodec.pick (Q ++ [d] ++ '.' :: rest) = c) :
    getCodec (joinPath P (partName i ('.' :: rest))) = c := by
  obtain ⟨q, hq⟩ := pad5_last i
  have hd : 'r' ≠ digitChar i := (digitChar_ne i 'r' (by decide)).symm
  have e : joinPath P (partName i ('.' :: rest))
      = (P ++ ['/'] ++ "part-".toList ++ q ++ [digitChar i]) ++ '.' :: rest := by
    simp [joinPath, partName, hq]
  rw [e, getCodec_dot _ _ h1 h2]
  exact hpick _ _ hd

theorem compressed_aux (stem : Str) (i : Nat) (ext suf : Str) (c : Codec)
    (h : (ext, suf, c) ∈ [(".gz".toList, ".gz".toList, Codec.gz), (".bz2".toList, ".bz2".toList, Codec.bz2),
      (".xz".toList, ".xz".toList, Codec.lzma), (".lzma".toList, ".lzma".toList, Codec.lzma),
      (".zip".toList, ".zip".toList, Codec.zip), (".tar".toList, ".tar".toList, Codec.tar),
      (".tar.gz".toList, ".gz".toList, Codec.gz), (".tar.bz2".toList, ".bz2".toList, Codec.bz2)]) :
    codecSuffix (stem ++ ext) = suf ∧
    getCodec (joinPath (stem ++ ext) (partName i suf)) = c := by
  simp only [List.mem_cons, Prod.mk.injEq, List.not_mem_nil, or_false] at h
  rcases h with ⟨rfl, rfl, rfl⟩ | ⟨rfl, rfl, rfl⟩ | ⟨rfl, rfl, rfl⟩ | ⟨rfl, rfl, rfl⟩ | ⟨rfl, rfl, rfl⟩ |
    ⟨rfl, rfl, rfl⟩ | ⟨rfl, rfl, rfl⟩ | ⟨rfl, rfl, rfl⟩
  · exact ⟨codecSuffix_case stem [] "gz".toList _ (by decide) (by decide)
        (fun s => by simp [fileEndings, endsWith]),
      getCodec_case _ i "gz".toList _ (by decide) (by decide) (fun Q d hd => by
        simp [getCodec.pick, fileEndings, endsWith, List.isPrefixOf_cons_cons, hd])⟩
  · exact ⟨codecSuffix_case stem [] "bz2".toList _ (by decide) (by decide)
        (fun s => by simp [fileEndings, endsWith]),
      getCodec_case _ i "bz2".toList _ (by decide) (by decide) (fun Q d hd => by
        simp [getCodec.pick, fileEndings, endsWith, List.isPrefixOf_cons_cons, hd])⟩
  · exact ⟨codecSuffix_case stem [] "xz".toList _ (by decide) (by decide)
        (fun s => by simp [fileEndings, endsWith]),
      getCodec_case _ i "xz".toList _ (by decide) (by decide) (fun Q d hd => by
        simp [getCodec.pick, fileEndings, endsWith, List.isPrefixOf_cons_cons])⟩
  · exact ⟨codecSuffix_case stem [] "lzma".toList _ (by decide) (by decide)
        (fun s => by simp [fileEndings, endsWith]),
      getCodec_case _ i "lzma".toList _ (by decide) (by decide) (fun Q d hd => by
        simp [getCodec.pick, fileEndings, endsWith, List.isPrefixOf_cons_cons])⟩
  · exact ⟨codecSuffix_case stem [] "zip".toList _ (by decide) (by decide)
        (fun s => by simp [fileEndings, endsWith]),
      getCodec_case _ i "zip".toList _ (by decide) (by decide) (fun Q d hd => by
        simp [getCodec.pick, fileEndings, endsWith, List.isPrefixOf_cons_cons])⟩
  · exact ⟨codecSuffix_case stem [] "tar".toList _ (by decide) (by decide)
        (fun s => by simp [fileEndings, endsWith]),
      getCodec_case _ i "tar".toList _ (by decide) (by decide) (fun Q d hd => by
        simp [getCodec.pick, fileEndings, endsWith])⟩
  · exact ⟨codecSuffix_case stem ".tar".toList "gz".toList _ (by decide) (by decide)
        (fun s => by simp [fileEndings, endsWith]),
      getCodec_case _ i "gz".toList _ (by decide) (by decide) (fun Q d hd => by
        simp [getCodec.pick, fileEndings, endsWith, List.isPrefixOf_cons_cons, hd])⟩
  · exact ⟨codecSuffix_case stem ".tar".toList "bz2".toList _ (by decide) (by decide)
        (fun s => by simp [fileEndings, endsWith]),
      getCodec_case _ i "bz2".toList _ (by decide) (by decide) (fun Q d hd => by
        simp [getCodec.pick, fileEndings, endsWith, List.isPrefixOf_cons_cons, hd])⟩


theorem compressed_parts (stem : Str) (i : Nat) (e : Str × Codec)
    (he : e ∈ [(".gz".toList, Codec.gz), (".bz2".toList, .bz2), (".xz".toList, .lzma), (".lzma".toList, .lzma),
      (".zip".toList, .zip), (".tar".toList, .tar), (".tar.gz".toList, .gz), (".tar.bz2".toList, .bz2)]) :
    codecSuffix (stem ++ e.1) ≠ [] ∧
    getCodec (joinPath (stem ++ e.1) (partName i (codecSuffix (stem ++ e.1)))) = e.2 := by
  obtain ⟨ext, c⟩ := e
  simp only [List.mem_cons, Prod.mk.injEq, List.not_mem_nil, or_false] at he
  rcases he with ⟨rfl, rfl⟩ | ⟨rfl, rfl⟩ | ⟨rfl, rfl⟩ | ⟨rfl, rfl⟩ | ⟨rfl, rfl⟩ | ⟨rfl, rfl⟩ | ⟨rfl, rfl⟩ |
    ⟨rfl, rfl⟩
  · obtain ⟨h1, h2⟩ := compressed_aux stem i ".gz".toList ".gz".toList .gz (by simp)
    rw [h1]; exact ⟨by decide, h2⟩
  · obtain ⟨h1, h2⟩ := compressed_aux stem i ".bz2".toList ".bz2".toList .bz2 (by simp)
    rw [h1]; exact ⟨by decide, h2⟩
  · obtain ⟨h1, h2⟩ := compressed_aux stem i ".xz".toList ".xz".toList .lzma (by simp)
    rw [h1]; exact ⟨by decide, h2⟩
  · obtain ⟨h1, h2⟩ := compressed_aux stem i ".lzma".toList ".lzma".toList .lzma (by simp)
    rw [h1]; exact ⟨by decide, h2⟩
  · obtain ⟨h1, h2⟩ := compressed_aux stem i ".zip".toList ".zip".toList .zip (by simp)
    rw [h1]; exact ⟨by decide, h2⟩
  · obtain ⟨h1, h2⟩ := compressed_aux stem i ".tar".toList ".tar".toList .tar (by simp)
    rw [h1]; exact ⟨by decide, h2⟩
  · obtain ⟨h1, h2⟩ := compressed_aux stem i ".tar.gz".toList ".gz".toList .gz (by simp)
    rw [h1]; exact ⟨by decide, h2⟩
  · obtain ⟨h1, h2⟩ := compressed_aux stem i ".tar.bz2".toList ".bz2".toList .bz2 (by simp)
    rw [h1]; exact ⟨by decide, h2⟩

theorem plain_parts (path : Str) (i : Nat) (h : '.' ∉ path) :
    codecSuffix path = [] ∧ getCodec (joinPath path (partName i [])) = .base := by
  constructor
  · unfold codecSuffix
    rw [rfind_eq_none _ _ h]
    split <;> rfl
  · unfold getCodec
    have hp := pad5_notMem i '.' (by decide)
    rw [rfind_eq_none _ _ (by simp [joinPath, partName, h, hp])]

end PysparklingVerif.TextIO

namespace PysparklingVerif.Save
open PysparklingVerif.TextIO

/-! ### fault-free save, reading back -/

/-- the (name, content) entries the fault-free run writes for partitions `i, i+1, …` -/
def partEntries (path suffix : Str) : List (List Str) → Nat → List (Str × FileC)
  | [], _ => []
  | p :: ps, i =>
    (joinPath path (partName i suffix), ⟨getCodec (joinPath path (partName i suffix)), encodePart p⟩) ::
      partEntries path suffix ps (i + 1)

def writeAll (fs : FS) (es : List (Str × FileC)) : FS := es.foldl (fun fs e => fs.write e.1 e.2) fs

theorem savePart_ok (maxR : Nat) (hm : 1 ≤ maxR) (name text : Str) (st : St) :
    savePart maxR (fun _ => false) (fun _ => false) name text maxR 0 st
      = (⟨st.fs.write name ⟨getCodec name, text⟩, st.w + 1⟩, true) := by
  cases maxR with
  | zero => omega
  | succ m => simp [savePart, tryWrite]

theorem saveParts_ok (maxR : Nat) (hm : 1 ≤ maxR) (path suffix : Str) (ps : List (List Str)) (i : Nat)
    (st : St) :
    saveParts maxR (fun _ => false) (fun _ _ => false) path suffix ps i st
      = (⟨writeAll st.fs (partEntries path suffix ps i), st.w + ps.length⟩, true) := by
  induction ps generalizing i st with
  | nil => simp [saveParts, partEntries, writeAll]
  | cons p ps ih =>
    simp only [saveParts, savePart_ok maxR hm, ih, partEntries, writeAll, List.foldl_cons, List.length_cons]
    simp
    omega

theorem filter_write (Pn : Str → Bool) (fs : FS) (n : Str) (c : FileC) :
    (fs.write n c).files.filter (fun e => Pn e.1)
      = ((fs.files.filter (fun e => Pn e.1)).filter (fun e => e.1 != n)) ++
          (if Pn n then [(n, c)] else []) := by
  simp only [FS.write, List.filter_append, List.filter_filter]
  congr 1
  · congr 1; funext e; exact Bool.and_comm _ _
  · by_cases h : Pn n <;> simp [h]

theorem filter_writeAll (Pn : Str → Bool) (es : List (Str × FileC)) (fs : FS)
    (hP : ∀ e ∈ es, Pn e.1 = true) (hnd : es.Pairwise (fun a b => a.1 ≠ b.1))
    (hfresh : ∀ e ∈ es, ∀ f ∈ fs.files.filter (fun e => Pn e.1), f.1 ≠ e.1) :
    (writeAll fs es).files.filter (fun e => Pn e.1) = fs.files.filter (fun e => Pn e.1) ++ es := by
  induction es generalizing fs with
  | nil => simp [writeAll]
  | cons e es ih =>
    have hw : (fs.write e.1 e.2).files.filter (fun e => Pn e.1)
        = fs.files.filter (fun e => Pn e.1) ++ [e] := by
      rw [filter_write, if_pos (hP e (by simp)), List.filter_eq_self.2]
      intro f hf
      simpa using hfresh e (by simp) f hf
    have hnd' := List.pairwise_cons.1 hnd
    show (writeAll (fs.write e.1 e.2) es).files.filter (fun e => Pn e.1) = _
    rw [ih (fs.write e.1 e.2) (fun e' he' => hP e' (by simp [he'])) hnd'.2 ?_, hw]
    · simp
    · intro e' he' f hf
      rw [hw, List.mem_append] at hf
      rcases hf with hf | hf
      · exact hfresh e' (by simp [he']) f hf
      · simp at hf; subst hf; exact hnd'.1 e' he'


theorem isPrefixOf_append_left (l a b : Str) : (l ++ a).isPrefixOf (l ++ b) = a.isPrefixOf b := by
  induction l with
  | nil => rfl
  | cons c l ih => simp [ih]

/-- the `dir/part*` name filter of `partFiles` -/
def isPartName (path : Str) (n : Str) : Bool := (joinPath path "part".toList).isPrefixOf n

theorem isPartName_part (path suffix : Str) (k : Nat) :
    isPartName path (joinPath path (partName k suffix)) = true := by
  simp only [isPartName, joinPath, partName, List.append_assoc, isPrefixOf_append_left]
  simp

theorem isPartName_marker (path : Str) : isPartName path (joinPath path marker) = false := by
  simp only [isPartName, joinPath, List.append_assoc, isPrefixOf_append_left]
  decide

theorem isUnder_of_isPartName (path n : Str) (h : isPartName path n = true) : isUnder path n = true := by
  unfold isPartName joinPath at h
  unfold isUnder
  rw [List.isPrefixOf_iff_prefix] at *
  exact (List.prefix_append _ _).trans h

theorem not_isUnder_of_free (fs : FS) (path : Str) (h : fs.pathExists path = false) :
    ∀ e ∈ fs.files, isUnder path e.1 = false := by
  intro e he
  simp only [FS.pathExists, Bool.or_eq_false_iff, List.any_eq_false] at h
  have := h.1 e he
  simpa using (by simpa using this : ¬ (e.1 = path) ∧ ¬ (isUnder path e.1 = true)).2

theorem mem_partEntries (path suffix : Str) (ps : List (List Str)) (i : Nat) (e : Str × FileC)
    (he : e ∈ partEntries path suffix ps i) :
    ∃ k, i ≤ k ∧ k < i + ps.length ∧ e.1 = joinPath path (partName k suffix) := by
  induction ps generalizing i with
  | nil => simp [partEntries] at he
  | cons p ps ih =>
    simp only [partEntries, List.mem_cons] at he
    rcases he with he | he
    · exact ⟨i, Nat.le_refl _, by simp, by rw [he]⟩
    · obtain ⟨k, h1, h2, h3⟩ := ih (i + 1) he
      exact ⟨k, by omega, by simp; omega, h3⟩

theorem partEntries_pairwise (path suffix : Str) (ps : List (List Str)) (i : Nat)
    (h : i + ps.length ≤ 100000) :
    (partEntries path suffix ps i).Pairwise (fun a b => strLe a.1 b.1 = true ∧ a.1 ≠ b.1) := by
  induction ps generalizing i with
  | nil => simp [partEntries]
  | cons p ps ih =>
    simp only [partEntries, List.pairwise_cons]
    refine ⟨?_, ih (i + 1) (by simp at h; omega)⟩
    intro e he
    obtain ⟨k, h1, h2, h3⟩ := mem_partEntries path suffix ps (i + 1) e he
    have hs := partName_strLe i k suffix (by omega) (by simp at h; omega)
    rw [h3]
    simp only [joinPath, strLe_append_left]
    refine ⟨hs.1, ?_⟩
    intro heq
    have := List.append_cancel_left heq
    rw [this, strLe_refl] at hs
    exact absurd hs.2 (by simp)

theorem readEntries (path suffix : Str) (ps : List (List Str)) (i : Nat)
    (hclean : ∀ p ∈ ps, ∀ l ∈ p, ∀ c ∈ l, isLineBreak c = false) :
    (partEntries path suffix ps i).foldr (fun e acc =>
      match acc with
      | none => none
      | some ls => if getCodec e.1 = e.2.codec then some (splitlines e.2.text ++ ls) else none) (some [])
      = some ps.flatten := by
  induction ps generalizing i with
  | nil => simp [partEntries]
  | cons p ps ih =>
    simp only [partEntries, List.foldr_cons]
    rw [ih (i + 1) (fun p' hp' => hclean p' (by simp [hp']))]
    simp [splitlines_encodePart p (hclean p (by simp))]


theorem saveText_ok (fs : FS) (path : Str) (parts : List (List Str)) (maxR : Nat) (hm : 1 ≤ maxR)
    (hfree : fs.pathExists path = false) (hn : 2 ≤ parts.length) :
    saveText fs path parts maxR (fun _ => false) (fun _ _ => false)
      = ((writeAll fs (partEntries path (codecSuffix path) parts 0)).write (joinPath path marker)
          ⟨getCodec (joinPath path marker), []⟩, .ok) := by
  match parts, hn with
  | p1 :: p2 :: rest, _ =>
    simp [saveText, hfree, saveParts_ok maxR hm, tryWrite]

theorem partFiles_saved (fs : FS) (path : Str) (parts : List (List Str)) (suffix : Str) (c : FileC)
    (hfree : fs.pathExists path = false) (hn' : parts.length ≤ 100000) :
    partFiles ((writeAll fs (partEntries path suffix parts 0)).write (joinPath path marker) c) path
      = partEntries path suffix parts 0 := by
  have hpw := partEntries_pairwise path suffix parts 0 (by omega)
  have hinit : fs.files.filter (fun e => isPartName path e.1) = [] := by
    rw [List.filter_eq_nil_iff]
    intro e he hp
    have := not_isUnder_of_free fs path hfree e he
    rw [isUnder_of_isPartName path e.1 hp] at this
    cases this
  have hP : ∀ e ∈ partEntries path suffix parts 0, isPartName path e.1 = true := by
    intro e he
    obtain ⟨k, _, _, h3⟩ := mem_partEntries path suffix parts 0 e he
    rw [h3]; exact isPartName_part path suffix k
  have hall := filter_writeAll (isPartName path) (partEntries path suffix parts 0) fs hP
    (hpw.imp (fun h => h.2)) (by rw [hinit]; simp)
  rw [hinit, List.nil_append] at hall
  have hfilt : ((writeAll fs (partEntries path suffix parts 0)).write (joinPath path marker) c).files.filter
      (fun e => isPartName path e.1) = partEntries path suffix parts 0 := by
    rw [filter_write, hall, isPartName_marker]
    simp only [Bool.false_eq_true, if_false, List.append_nil]
    rw [List.filter_eq_self]
    intro e he
    have h1 := hP e he
    simp only [bne_iff_ne, ne_eq]
    intro heq
    rw [heq, isPartName_marker] at h1
    cases h1
  unfold partFiles
  show (List.filter (fun (e : Str × FileC) => isPartName path e.1) _).mergeSort _ = _
  rw [hfilt]
  exact List.mergeSort_of_pairwise (hpw.imp (fun h => h.1))

theorem save_read (fs : FS) (path : Str) (parts : List (List Str)) (maxR : Nat) (hm : 1 ≤ maxR)
    (hfree : fs.pathExists path = false) (hn : 2 ≤ parts.length) (hn' : parts.length < 100000)
    (hclean : ∀ p ∈ parts, ∀ l ∈ p, ∀ c ∈ l, isLineBreak c = false) :
    (saveText fs path parts maxR (fun _ => false) (fun _ _ => false)).2 = .ok ∧
    readDir (saveText fs path parts maxR (fun _ => false) (fun _ _ => false)).1 path = some parts.flatten := by
  rw [saveText_ok fs path parts maxR hm hfree hn]
  refine ⟨rfl, ?_⟩
  unfold readDir
  simp only
  rw [partFiles_saved fs path parts _ _ hfree (by omega)]
  exact readEntries path _ parts 0 hclean

end PysparklingVerif.Save
