/-
  Helper lemmas for C02: insertion-ordered dict updates (`dictUpd`, `groupList`), first-occurrence
  `dedup`, and the permutation facts used by the join family.
-/
import PysparklingVerif.Model.Keyed
import PysparklingVerif.Lemmas.RddFlat
namespace PysparklingVerif.Keyed
open PysparklingVerif.Rdd

variable {κ ν ω β γ δ : Type} [DecidableEq κ]

/-! ## values of a key -/

/-- the values of key `k` in input order (local copy of `C02.kvals`) -/
def kvals (l : List (κ × ν)) (k : κ) : List ν := l.filterMap fun kv => if kv.1 = k then some kv.2 else none

theorem kvals_nil (k : κ) : kvals ([] : List (κ × ν)) k = [] := rfl

theorem kvals_cons (kv : κ × ν) (l : List (κ × ν)) (k : κ) :
    kvals (kv :: l) k = if kv.1 = k then kv.2 :: kvals l k else kvals l k := by
  unfold kvals
  by_cases h : kv.1 = k <;> simp [h]

theorem kvals_append (l₁ l₂ : List (κ × ν)) (k : κ) : kvals (l₁ ++ l₂) k = kvals l₁ k ++ kvals l₂ k := by
  unfold kvals; exact List.filterMap_append

theorem kvals_eq_nil_iff (l : List (κ × ν)) (k : κ) : kvals l k = [] ↔ k ∉ l.map (·.1) := by
  induction l with
  | nil => simp [kvals_nil]
  | cons kv l ih =>
    rw [kvals_cons]
    by_cases h : kv.1 = k
    · simp [h]
    · simp only [h, if_false, ih, List.map_cons, List.mem_cons, not_or]
      exact ⟨fun h' => ⟨fun e => h e.symm, h'⟩, fun h' => h'.2⟩

theorem filter_map_snd_eq_kvals (l : List (κ × ν)) (k : κ) :
    (l.filter (·.1 == k)).map (·.2) = kvals l k := by
  induction l with
  | nil => rfl
  | cons kv l ih =>
    rw [kvals_cons, List.filter_cons]
    by_cases h : kv.1 = k
    · simp [h, ih]
    · have : (kv.1 == k) = false := by simpa using h
      simp [h, this, ih]

theorem filter_key_eq_kvals_map (l : List (κ × ν)) (k : κ) :
    l.filter (·.1 == k) = (kvals l k).map fun v => (k, v) := by
  induction l with
  | nil => rfl
  | cons kv l ih =>
    rw [kvals_cons, List.filter_cons]
    by_cases h : kv.1 = k
    · subst h; simp [ih]
    · have : (kv.1 == k) = false := by simpa using h
      simp [h, this, ih]

theorem any_key_eq_false_iff (l : List (κ × ν)) (k : κ) :
    (l.any (·.1 == k)) = false ↔ k ∉ l.map (·.1) := by
  rw [← any_key_iff, Bool.not_eq_true]

/-! ## association lists with distinct keys -/

theorem lookup_of_mem_nodup (L : List (κ × β)) (hnd : (L.map (·.1)).Nodup) (e : κ × β) (he : e ∈ L) :
    L.lookup e.1 = some e.2 := by
  induction L with
  | nil => cases he
  | cons x L ih =>
    obtain ⟨a, b⟩ := x
    simp only [List.map_cons, List.nodup_cons] at hnd
    rcases List.mem_cons.mp he with rfl | h
    · simp
    · have hne : e.1 ≠ a := fun heq => hnd.1 (heq ▸ List.mem_map_of_mem h)
      have : (e.1 == a) = false := by simpa using hne
      simp only [List.lookup_cons, this]
      exact ih hnd.2 h

theorem lookup_eq_none_of_not_mem (L : List (κ × β)) (k : κ) (h : k ∉ L.map (·.1)) :
    L.lookup k = none := by
  rw [List.lookup_eq_none_iff]
  intro p hp
  simp only [bne_iff_ne, ne_eq]
  intro e
  exact h (e ▸ List.mem_map_of_mem hp)

theorem lookup_isSome_of_mem (L : List (κ × β)) (k : κ) (h : k ∈ L.map (·.1)) :
    ∃ b, L.lookup k = some b := by
  cases hl : L.lookup k with
  | some b => exact ⟨b, rfl⟩
  | none =>
    rw [List.lookup_eq_none_iff] at hl
    obtain ⟨p, hp, rfl⟩ := List.mem_map.mp h
    have := hl p hp
    simp at this

theorem lookup_isSome_iff_mem (L : List (κ × β)) (k : κ) :
    (L.lookup k).isSome = true ↔ k ∈ L.map (·.1) := by
  constructor
  · intro h
    apply Classical.byContradiction
    intro hn
    rw [lookup_eq_none_of_not_mem L k hn] at h
    cases h
  · intro h
    obtain ⟨b, hb⟩ := lookup_isSome_of_mem L k h
    rw [hb]; rfl

/-! ## one dict update -/

/-- the update branch of `dictUpd` -/
def updE (g : β → γ → β) (k : κ) (v : γ) (e : κ × β) : κ × β := if e.1 == k then (e.1, g e.2 v) else e

theorem updE_fst (g : β → γ → β) (k : κ) (v : γ) (e : κ × β) : (updE g k v e).1 = e.1 := by
  unfold updE; split <;> rfl

theorem keys_updE (g : β → γ → β) (k : κ) (v : γ) (acc : List (κ × β)) :
    (acc.map (updE g k v)).map (·.1) = acc.map (·.1) := by
  simp only [List.map_map]
  apply List.map_congr_left
  intro e _
  exact updE_fst g k v e

theorem dictUpd_eq (z : β) (g : β → γ → β) (acc : List (κ × β)) (k : κ) (v : γ) :
    dictUpd z g acc k v =
      if k ∈ acc.map (·.1) then acc.map (updE g k v) else acc ++ [(k, g z v)] := by
  unfold dictUpd
  by_cases h : k ∈ acc.map (·.1)
  · rw [if_pos ((any_key_iff acc k).mpr h), if_pos h]; rfl
  · rw [if_neg (fun h' => h ((any_key_iff acc k).mp h')), if_neg h]

theorem keys_dictUpd (z : β) (g : β → γ → β) (acc : List (κ × β)) (k : κ) (v : γ) :
    (dictUpd z g acc k v).map (·.1) =
      if k ∈ acc.map (·.1) then acc.map (·.1) else acc.map (·.1) ++ [k] := by
  rw [dictUpd_eq]
  split
  · exact keys_updE g k v acc
  · simp

theorem nodup_dictUpd (z : β) (g : β → γ → β) (acc : List (κ × β)) (k : κ) (v : γ)
    (hnd : (acc.map (·.1)).Nodup) : ((dictUpd z g acc k v).map (·.1)).Nodup := by
  rw [keys_dictUpd]
  split
  · exact hnd
  · rename_i h
    rw [List.nodup_append]
    refine ⟨hnd, by simp, ?_⟩
    intro a ha b hb
    simp only [List.mem_singleton] at hb
    subst hb
    intro e; exact h (e ▸ ha)

theorem mem_keys_dictUpd (z : β) (g : β → γ → β) (acc : List (κ × β)) (k : κ) (v : γ) (k' : κ) :
    k' ∈ (dictUpd z g acc k v).map (·.1) ↔ (k' ∈ acc.map (·.1) ∨ k' = k) := by
  rw [keys_dictUpd]
  split
  · rename_i h
    exact ⟨Or.inl, fun h' => h'.elim id (fun e => e ▸ h)⟩
  · simp

theorem lookup_map_updE (g : β → γ → β) (k : κ) (v : γ) (acc : List (κ × β)) (k' : κ) :
    List.lookup k' (acc.map (updE g k v)) =
      if k = k' then (acc.lookup k').map (fun b => g b v) else acc.lookup k' := by
  induction acc with
  | nil => simp
  | cons e acc ih =>
    obtain ⟨a, b⟩ := e
    simp only [List.map_cons, updE]
    by_cases h1 : a = k
    · subst h1
      simp only [beq_self_eq_true, if_true, List.lookup_cons, ih]
      by_cases h2 : a = k'
      · subst h2; simp
      · have : (k' == a) = false := by simpa using fun e : k' = a => h2 e.symm
        simp [this, h2]
    · have h1' : (a == k) = false := by simpa using h1
      simp only [h1', Bool.false_eq_true, if_false, List.lookup_cons, ih]
      by_cases h2 : k = k'
      · subst h2
        have : (k == a) = false := by simpa using fun e : k = a => h1 e.symm
        simp [this]
      · simp [h2]

theorem lookup_dictUpd (z : β) (g : β → γ → β) (acc : List (κ × β)) (k : κ) (v : γ) (k' : κ) :
    List.lookup k' (dictUpd z g acc k v) =
      if k = k' then some (g ((acc.lookup k').getD z) v) else acc.lookup k' := by
  rw [dictUpd_eq]
  by_cases h : k ∈ acc.map (·.1)
  · rw [if_pos h, lookup_map_updE]
    by_cases h2 : k = k'
    · subst h2
      obtain ⟨b, hb⟩ := lookup_isSome_of_mem acc k h
      simp [hb]
    · simp [h2]
  · rw [if_neg h, List.lookup_append]
    by_cases h2 : k = k'
    · subst h2
      simp [lookup_eq_none_of_not_mem acc k h]
    · have : (k' == k) = false := by simpa using fun e : k' = k => h2 e.symm
      simp [h2, List.lookup_cons, this]

/-! ## folding dict updates over a list of pairs -/

/-- `for k, v in l: r[k] = g(r[k], v)` starting from the dict `acc` -/
def updAll (z : β) (g : β → γ → β) (acc : List (κ × β)) (l : List (κ × γ)) : List (κ × β) :=
  l.foldl (fun acc kv => dictUpd z g acc kv.1 kv.2) acc

theorem updAll_nil (z : β) (g : β → γ → β) (acc : List (κ × β)) : updAll z g acc [] = acc := rfl

theorem updAll_cons (z : β) (g : β → γ → β) (acc : List (κ × β)) (kv : κ × γ) (l : List (κ × γ)) :
    updAll z g acc (kv :: l) = updAll z g (dictUpd z g acc kv.1 kv.2) l := rfl

theorem nodup_updAll (z : β) (g : β → γ → β) (acc : List (κ × β)) (l : List (κ × γ))
    (hnd : (acc.map (·.1)).Nodup) : ((updAll z g acc l).map (·.1)).Nodup := by
  induction l generalizing acc with
  | nil => exact hnd
  | cons kv l ih => exact ih _ (nodup_dictUpd z g acc kv.1 kv.2 hnd)

theorem mem_keys_updAll (z : β) (g : β → γ → β) (acc : List (κ × β)) (l : List (κ × γ)) (k : κ) :
    k ∈ (updAll z g acc l).map (·.1) ↔ (k ∈ acc.map (·.1) ∨ k ∈ l.map (·.1)) := by
  induction l generalizing acc with
  | nil => simp [updAll_nil]
  | cons kv l ih =>
    rw [updAll_cons, ih, mem_keys_dictUpd, List.map_cons, List.mem_cons, or_assoc]

/-- the dict value of a key after processing the values `vs` of that key -/
def aggOpt (z : β) (g : β → γ → β) (o : Option β) (vs : List γ) : Option β :=
  match vs with
  | [] => o
  | v :: vs => some ((v :: vs).foldl g (o.getD z))

theorem aggOpt_nil (z : β) (g : β → γ → β) (o : Option β) : aggOpt z g o [] = o := rfl

theorem aggOpt_cons (z : β) (g : β → γ → β) (o : Option β) (v : γ) (vs : List γ) :
    aggOpt z g o (v :: vs) = aggOpt z g (some (g (o.getD z) v)) vs := by
  cases vs <;> rfl

theorem aggOpt_of_ne_nil (z : β) (g : β → γ → β) (o : Option β) (vs : List γ) (h : vs ≠ []) :
    aggOpt z g o vs = some (vs.foldl g (o.getD z)) := by
  cases vs with
  | nil => exact absurd rfl h
  | cons v vs => rfl

theorem aggOpt_append (z : β) (g : β → γ → β) (o : Option β) (xs ys : List γ) :
    aggOpt z g o (xs ++ ys) = aggOpt z g (aggOpt z g o xs) ys := by
  induction xs generalizing o with
  | nil => rfl
  | cons x xs ih => rw [List.cons_append, aggOpt_cons, aggOpt_cons, ih]

theorem lookup_updAll (z : β) (g : β → γ → β) (acc : List (κ × β)) (l : List (κ × γ)) (k : κ) :
    List.lookup k (updAll z g acc l) = aggOpt z g (acc.lookup k) (kvals l k) := by
  induction l generalizing acc with
  | nil => rfl
  | cons kv l ih =>
    rw [updAll_cons, ih, lookup_dictUpd, kvals_cons]
    by_cases h : kv.1 = k
    · rw [if_pos h, if_pos h, aggOpt_cons]
    · rw [if_neg h, if_neg h]

/-! ## `groupList` -/

theorem groupList_eq (l : List (κ × ν)) :
    groupList l = updAll [] (fun vs v => vs ++ [v]) [] l := rfl

theorem foldl_snoc (init vs : List ν) : vs.foldl (fun l v => l ++ [v]) init = init ++ vs := by
  induction vs generalizing init with
  | nil => simp
  | cons v vs ih => rw [List.foldl_cons, ih, List.append_assoc]; rfl

theorem aggOpt_snoc (vs : List ν) :
    aggOpt [] (fun l v => l ++ [v]) none vs = if vs = [] then none else some vs := by
  cases vs with
  | nil => rfl
  | cons v vs =>
    rw [aggOpt_of_ne_nil _ _ _ _ (List.cons_ne_nil v vs), foldl_snoc, if_neg (List.cons_ne_nil v vs)]
    rfl

theorem groupList_nodup (l : List (κ × ν)) : ((groupList l).map (·.1)).Nodup := by
  rw [groupList_eq]; exact nodup_updAll _ _ [] l List.nodup_nil

theorem groupList_mem_keys (l : List (κ × ν)) (k : κ) :
    k ∈ (groupList l).map (·.1) ↔ k ∈ l.map (·.1) := by
  rw [groupList_eq, mem_keys_updAll]; simp

theorem groupList_lookup_eq (l : List (κ × ν)) (k : κ) :
    (groupList l).lookup k = if k ∈ l.map (·.1) then some (kvals l k) else none := by
  rw [groupList_eq, lookup_updAll, List.lookup_nil, aggOpt_snoc]
  by_cases h : k ∈ l.map (·.1)
  · rw [if_pos h, if_neg (fun e => (kvals_eq_nil_iff l k).mp e h)]
  · rw [if_neg h, if_pos ((kvals_eq_nil_iff l k).mpr h)]

theorem groupList_lookup (l : List (κ × ν)) (k : κ) :
    ((groupList l).lookup k).getD [] = kvals l k := by
  rw [groupList_lookup_eq]
  by_cases h : k ∈ l.map (·.1)
  · rw [if_pos h]; rfl
  · rw [if_neg h, (kvals_eq_nil_iff l k).mpr h]; rfl

theorem groupList_entry (l : List (κ × ν)) (g : κ × List ν) (hg : g ∈ groupList l) :
    g.2 = kvals l g.1 ∧ g.2 ≠ [] := by
  have h1 := lookup_of_mem_nodup (groupList l) (groupList_nodup l) g hg
  have hk : g.1 ∈ l.map (·.1) := (groupList_mem_keys l g.1).mp (List.mem_map_of_mem hg)
  rw [groupList_lookup_eq, if_pos hk] at h1
  have h2 : kvals l g.1 = g.2 := Option.some.inj h1
  refine ⟨h2.symm, ?_⟩
  rw [← h2]
  exact fun e => (kvals_eq_nil_iff l g.1).mp e hk

/-- a group list is determined by its keys -/
theorem groupList_eq_map_keys (l : List (κ × ν)) :
    groupList l = ((groupList l).map (·.1)).map fun k => (k, kvals l k) := by
  rw [List.map_map]
  conv => lhs; rw [← List.map_id (groupList l)]
  apply List.map_congr_left
  intro g hg
  have := (groupList_entry l g hg).1
  show g = (g.1, kvals l g.1)
  rw [← this]

/-- expanding a group back into pairs -/
def ungroup (g : κ × List ν) : List (κ × ν) := g.2.map fun v => (g.1, v)

theorem flatMap_map_updE_perm (acc : List (κ × List ν)) (k : κ) (v : ν)
    (hnd : (acc.map (·.1)).Nodup) (hk : k ∈ acc.map (·.1)) :
    ((acc.map (updE (fun vs v => vs ++ [v]) k v)).flatMap ungroup).Perm (acc.flatMap ungroup ++ [(k, v)]) := by
  induction acc with
  | nil => cases hk
  | cons e acc ih =>
    simp only [List.map_cons, List.nodup_cons] at hnd
    simp only [List.map_cons, List.flatMap_cons]
    by_cases h : e.1 = k
    · have hid : acc.map (updE (fun vs v => vs ++ [v]) k v) = acc := by
        conv => rhs; rw [← List.map_id acc]
        apply List.map_congr_left
        intro e' he'
        have hne : e'.1 ≠ k := fun heq => hnd.1 (h ▸ heq ▸ List.mem_map_of_mem he')
        have : (e'.1 == k) = false := by simpa using hne
        simp [updE, this]
      have hu : ungroup (updE (fun vs v => vs ++ [v]) k v e) = ungroup e ++ [(k, v)] := by
        have : (e.1 == k) = true := by simpa using h
        simp [updE, ungroup, h]
      rw [hid, hu, List.append_assoc, List.append_assoc]
      exact List.Perm.append_left _ List.perm_append_comm
    · have hu : updE (fun vs v => vs ++ [v]) k v e = e := by
        have : (e.1 == k) = false := by simpa using h
        simp [updE, this]
      have hk' : k ∈ acc.map (·.1) := by
        rcases List.mem_cons.mp hk with h' | h'
        · exact absurd h'.symm h
        · exact h'
      rw [hu, List.append_assoc]
      exact List.Perm.append_left _ (ih hnd.2 hk')

theorem flatMap_dictUpd_perm (acc : List (κ × List ν)) (k : κ) (v : ν)
    (hnd : (acc.map (·.1)).Nodup) :
    ((dictUpd [] (fun vs v => vs ++ [v]) acc k v).flatMap ungroup).Perm
      (acc.flatMap ungroup ++ [(k, v)]) := by
  rw [dictUpd_eq]
  split
  · rename_i h; exact flatMap_map_updE_perm acc k v hnd h
  · rw [List.flatMap_append]
    exact List.Perm.of_eq (by simp [ungroup])

theorem flatMap_updAll_perm (acc : List (κ × List ν)) (l : List (κ × ν))
    (hnd : (acc.map (·.1)).Nodup) :
    ((updAll [] (fun vs v => vs ++ [v]) acc l).flatMap ungroup).Perm (acc.flatMap ungroup ++ l) := by
  induction l generalizing acc with
  | nil => simp [updAll_nil]
  | cons kv l ih =>
    rw [updAll_cons]
    refine (ih _ (nodup_dictUpd _ _ acc kv.1 kv.2 hnd)).trans ?_
    have := (flatMap_dictUpd_perm acc kv.1 kv.2 hnd).append_right l
    rw [List.append_assoc] at this
    exact this

theorem groupList_ungroup_perm (l : List (κ × ν)) : ((groupList l).flatMap ungroup).Perm l := by
  have := flatMap_updAll_perm [] l List.nodup_nil
  rw [← groupList_eq] at this
  simpa using this

/-- MAIN tool for the join family: a per-group expansion that treats the values of a group
one by one is a permutation of the per-pair expansion of the input -/
theorem groupList_flatMap_perm (H : κ × ν → List δ) (l : List (κ × ν)) :
    ((groupList l).flatMap fun g => g.2.flatMap fun v => H (g.1, v)).Perm (l.flatMap H) := by
  have h := (groupList_ungroup_perm l).flatMap_right H
  rw [List.flatMap_assoc] at h
  have e : (fun g : κ × List ν => (ungroup g).flatMap H) = fun g => g.2.flatMap fun v => H (g.1, v) := by
    funext g
    simp [ungroup, List.flatMap_map]
  rw [e] at h
  exact h

/-! ## small list facts -/

theorem flatMap_congr_mem {α : Type} (l : List α) (f g : α → List δ) (h : ∀ x ∈ l, f x = g x) :
    l.flatMap f = l.flatMap g := by
  induction l with
  | nil => rfl
  | cons x l ih =>
    rw [List.flatMap_cons, List.flatMap_cons, h x List.mem_cons_self,
      ih (fun y hy => h y (List.mem_cons_of_mem _ hy))]

theorem filter_flatMap_ite {α : Type} (l : List α) (p : α → Bool) (f : α → List δ) :
    (l.filter p).flatMap f = l.flatMap fun x => if p x then f x else [] := by
  induction l with
  | nil => rfl
  | cons x l ih =>
    rw [List.filter_cons, List.flatMap_cons]
    by_cases h : p x = true
    · rw [if_pos h, if_pos h, List.flatMap_cons, ih]
    · rw [if_neg h, if_neg h, ih, List.nil_append]

theorem filter_eq_flatMap_ite {α : Type} (l : List α) (p : α → Bool) :
    l.filter p = l.flatMap fun x => if p x then [x] else [] := by
  have := filter_flatMap_ite l p (fun x => [x])
  rw [List.flatMap_singleton'] at this
  exact this

/-! ## keys present / absent -/

theorem kvals_isEmpty (l : List (κ × ν)) (k : κ) : (kvals l k).isEmpty = !(l.any (·.1 == k)) := by
  by_cases h : k ∈ l.map (·.1)
  · have h1 : kvals l k ≠ [] := fun e => (kvals_eq_nil_iff l k).mp e h
    rw [(any_key_iff l k).mpr h, List.isEmpty_eq_false_iff.mpr h1]; rfl
  · rw [(any_key_eq_false_iff l k).mpr h, (kvals_eq_nil_iff l k).mpr h]; rfl

theorem kvals_filter_key (l : List (κ × ν)) (q : κ → Bool) (k : κ) :
    kvals (l.filter fun kv => q kv.1) k = if q k then kvals l k else [] := by
  induction l with
  | nil => simp [kvals_nil]
  | cons kv l ih =>
    rw [List.filter_cons]
    by_cases h1 : q kv.1 = true
    · rw [if_pos h1, kvals_cons, kvals_cons, ih]
      by_cases h2 : kv.1 = k
      · subst h2; simp [h1]
      · simp [h2]
    · rw [if_neg h1, ih, kvals_cons]
      by_cases h2 : kv.1 = k
      · subst h2; simp [h1]
      · simp [h2]

omit [DecidableEq κ] in
theorem mem_keys_filter_key (l : List (κ × ν)) (q : κ → Bool) (k : κ) :
    k ∈ (l.filter fun kv => q kv.1).map (·.1) ↔ (k ∈ l.map (·.1) ∧ q k = true) := by
  simp only [List.mem_map, List.mem_filter]
  constructor
  · rintro ⟨e, ⟨he, hq⟩, rfl⟩; exact ⟨⟨e, he, rfl⟩, hq⟩
  · rintro ⟨⟨e, he, rfl⟩, hq⟩; exact ⟨e, ⟨he, hq⟩, rfl⟩

/-! ## first-occurrence `dedup` -/

section Dedup
variable {α : Type} [DecidableEq α]

/-- one `set.add` step -/
def dstep (acc : List α) (x : α) : List α := if x ∈ acc then acc else acc ++ [x]

theorem dedup_eq_foldl (xs : List α) : dedup xs = xs.foldl dstep [] := rfl

theorem dstep_nodup (acc : List α) (x : α) (h : acc.Nodup) : (dstep acc x).Nodup := by
  unfold dstep
  split
  · exact h
  · rename_i hx
    rw [List.nodup_append]
    refine ⟨h, by simp, ?_⟩
    intro a ha b hb
    simp only [List.mem_singleton] at hb
    subst hb
    intro e; exact hx (e ▸ ha)

theorem mem_dstep (acc : List α) (x y : α) : y ∈ dstep acc x ↔ (y ∈ acc ∨ y = x) := by
  unfold dstep
  split
  · rename_i hx
    exact ⟨Or.inl, fun h => h.elim id (fun e => e ▸ hx)⟩
  · simp

theorem foldl_dstep_nodup (acc xs : List α) (h : acc.Nodup) : (xs.foldl dstep acc).Nodup := by
  induction xs generalizing acc with
  | nil => exact h
  | cons x xs ih => exact ih _ (dstep_nodup acc x h)

theorem mem_foldl_dstep (acc xs : List α) (y : α) : y ∈ xs.foldl dstep acc ↔ (y ∈ acc ∨ y ∈ xs) := by
  induction xs generalizing acc with
  | nil => simp
  | cons x xs ih => rw [List.foldl_cons, ih, mem_dstep, List.mem_cons, or_assoc]

theorem dedup_nodup (xs : List α) : (dedup xs).Nodup :=
  foldl_dstep_nodup [] xs List.nodup_nil

theorem mem_dedup (xs : List α) (y : α) : y ∈ dedup xs ↔ y ∈ xs := by
  rw [dedup_eq_foldl, mem_foldl_dstep]; simp

end Dedup

/-! ## `cogroup` -/

/-- the pairs of the right input whose key does not occur on the left -/
def rightOnly (A : List (κ × ν)) (B : List (κ × ω)) : List (κ × ω) :=
  B.filter fun kw => !(A.any (·.1 == kw.1))

theorem mem_keys_rightOnly (A : List (κ × ν)) (B : List (κ × ω)) (k : κ) :
    k ∈ (rightOnly A B).map (·.1) ↔ (k ∈ B.map (·.1) ∧ k ∉ A.map (·.1)) := by
  unfold rightOnly
  rw [mem_keys_filter_key B (fun k => !(A.any (·.1 == k))) k, ← any_key_eq_false_iff]
  simp

theorem kvals_rightOnly (A : List (κ × ν)) (B : List (κ × ω)) (k : κ) (hk : k ∉ A.map (·.1)) :
    kvals (rightOnly A B) k = kvals B k := by
  unfold rightOnly
  rw [kvals_filter_key B (fun k => !(A.any (·.1 == k))) k, (any_key_eq_false_iff A k).mpr hk]
  rfl

theorem cogroup_keys_perm (A : List (κ × ν)) (B : List (κ × ω)) :
    (dedup ((groupList A).map (·.1) ++ (groupList B).map (·.1))).Perm
      ((groupList A).map (·.1) ++ (groupList (rightOnly A B)).map (·.1)) := by
  rw [List.perm_ext_iff_of_nodup (dedup_nodup _)]
  · intro k
    rw [mem_dedup, List.mem_append, List.mem_append, groupList_mem_keys, groupList_mem_keys,
      groupList_mem_keys, mem_keys_rightOnly]
    by_cases h : k ∈ A.map (·.1) <;> simp [h]
  · rw [List.nodup_append]
    refine ⟨groupList_nodup A, groupList_nodup _, ?_⟩
    intro x hx y hy e
    subst e
    rw [groupList_mem_keys] at hx hy
    exact ((mem_keys_rightOnly A B x).mp hy).2 hx

theorem cogroup_flat (a : Parts (κ × ν)) (b : Parts (κ × ω)) :
    flat (cogroup a b) =
      (dedup ((groupList (flat a)).map (·.1) ++ (groupList (flat b)).map (·.1))).map
        fun k => (k, (kvals (flat a) k, kvals (flat b) k)) := by
  unfold cogroup
  simp only [flat_singleton, valuesOf, groupList_lookup]

/-- expanding per distinct key = expanding per pair, up to order -/
theorem keys_flatMap_perm (l : List (κ × ν)) (Φ : κ → List δ) (H : κ × ν → List δ)
    (h : ∀ k ∈ l.map (·.1), Φ k = (kvals l k).flatMap fun v => H (k, v)) :
    (((groupList l).map (·.1)).flatMap Φ).Perm (l.flatMap H) := by
  rw [List.flatMap_map]
  refine List.Perm.trans (List.Perm.of_eq ?_) (groupList_flatMap_perm H l)
  apply flatMap_congr_mem
  intro g hg
  have hk : g.1 ∈ l.map (·.1) := (groupList_mem_keys l g.1).mp (List.mem_map_of_mem hg)
  rw [h g.1 hk, ← (groupList_entry l g hg).1]

/-- expansion over the cogroup keys splits into the left keys and the right-only keys -/
theorem cogroup_flatMap_perm (A : List (κ × ν)) (B : List (κ × ω)) (Φ : κ → List δ)
    (HA : κ × ν → List δ) (HB : κ × ω → List δ)
    (hA : ∀ k ∈ A.map (·.1), Φ k = (kvals A k).flatMap fun v => HA (k, v))
    (hB : ∀ k ∈ B.map (·.1), k ∉ A.map (·.1) → Φ k = (kvals B k).flatMap fun w => HB (k, w)) :
    ((dedup ((groupList A).map (·.1) ++ (groupList B).map (·.1))).flatMap Φ).Perm
      (A.flatMap HA ++ (rightOnly A B).flatMap HB) := by
  refine ((cogroup_keys_perm A B).flatMap_right Φ).trans ?_
  rw [List.flatMap_append]
  refine List.Perm.append (keys_flatMap_perm A Φ HA hA) (keys_flatMap_perm _ Φ HB ?_)
  intro k hk
  obtain ⟨h1, h2⟩ := (mem_keys_rightOnly A B k).mp hk
  rw [kvals_rightOnly A B k h2]
  exact hB k h1 h2

/-! ## `aggregateByKey` -/

theorem kvals_of_nodup (d : List (κ × β)) (hnd : (d.map (·.1)).Nodup) (k : κ) :
    kvals d k = (d.lookup k).toList := by
  induction d with
  | nil => rfl
  | cons e d ih =>
    obtain ⟨a, b⟩ := e
    simp only [List.map_cons, List.nodup_cons] at hnd
    rw [kvals_cons, List.lookup_cons]
    by_cases h : a = k
    · subst h
      simp [(kvals_eq_nil_iff d a).mpr hnd.1]
    · have : (k == a) = false := by simpa using fun e : k = a => h e.symm
      simp only [h, if_false, this]
      exact ih hnd.2

theorem aggregateByKey_eq (z : β) (seq : β → ν → β) (comb : β → β → β) (ps : Parts (κ × ν)) :
    aggregateByKey z seq comb ps =
      [(ps.map fun p => updAll z seq [] p).foldl (fun acc d => updAll z comb acc d) []] := rfl

theorem nodup_combine (z : β) (comb : β → β → β) (ds : List (List (κ × β))) (acc : List (κ × β))
    (hnd : (acc.map (·.1)).Nodup) :
    ((ds.foldl (fun acc d => updAll z comb acc d) acc).map (·.1)).Nodup := by
  induction ds generalizing acc with
  | nil => exact hnd
  | cons d ds ih => exact ih _ (nodup_updAll z comb acc d hnd)

theorem lookup_combine_one (z : β) (seq : β → ν → β) (comb : β → β → β)
    (hc : ∀ (b : β) (xs : List ν), comb b (xs.foldl seq z) = xs.foldl seq b)
    (acc : List (κ × β)) (p : List (κ × ν)) (k : κ) :
    List.lookup k (updAll z comb acc (updAll z seq [] p)) = aggOpt z seq (acc.lookup k) (kvals p k) := by
  rw [lookup_updAll, kvals_of_nodup _ (nodup_updAll z seq [] p List.nodup_nil), lookup_updAll,
    List.lookup_nil]
  cases h : kvals p k with
  | nil => rfl
  | cons v vs =>
    rw [aggOpt_of_ne_nil _ _ _ _ (List.cons_ne_nil v vs), aggOpt_of_ne_nil _ _ _ _ (List.cons_ne_nil v vs)]
    show some (comb ((acc.lookup k).getD z) ((v :: vs).foldl seq z)) = _
    rw [hc]

theorem lookup_combine (z : β) (seq : β → ν → β) (comb : β → β → β)
    (hc : ∀ (b : β) (xs : List ν), comb b (xs.foldl seq z) = xs.foldl seq b)
    (ps : Parts (κ × ν)) (acc : List (κ × β)) (k : κ) :
    List.lookup k ((ps.map fun p => updAll z seq [] p).foldl (fun acc d => updAll z comb acc d) acc) =
      aggOpt z seq (acc.lookup k) (kvals (flat ps) k) := by
  induction ps generalizing acc with
  | nil => rfl
  | cons p ps ih =>
    rw [List.map_cons, List.foldl_cons, ih, flat_cons, kvals_append, aggOpt_append,
      lookup_combine_one z seq comb hc]

theorem aggregateByKey_lookup (z : β) (seq : β → ν → β) (comb : β → β → β)
    (hc : ∀ (b : β) (xs : List ν), comb b (xs.foldl seq z) = xs.foldl seq b)
    (ps : Parts (κ × ν)) (k : κ) :
    ((flat (aggregateByKey z seq comb ps)).map (·.1)).Nodup ∧
    (flat (aggregateByKey z seq comb ps)).lookup k =
      (if k ∈ (flat ps).map (·.1) then some ((kvals (flat ps) k).foldl seq z) else none) := by
  rw [aggregateByKey_eq, flat_singleton]
  refine ⟨nodup_combine z comb _ [] List.nodup_nil, ?_⟩
  rw [lookup_combine z seq comb hc, List.lookup_nil]
  by_cases h : k ∈ (flat ps).map (·.1)
  · rw [if_pos h, aggOpt_of_ne_nil _ _ _ _ (fun e => (kvals_eq_nil_iff _ k).mp e h)]
    rfl
  · rw [if_neg h, (kvals_eq_nil_iff _ k).mpr h]
    rfl

/-! ## counting in `specJoin` -/

theorem count_specJoin_row [DecidableEq ν] [DecidableEq ω] (a : κ) (x : ν) (B : List (κ × ω))
    (k : κ) (v : ν) (w : ω) :
    ((B.filter (·.1 == a)).map fun kw => (a, (x, kw.2))).count (k, (v, w)) =
      if (a, x) = (k, v) then B.count (k, w) else 0 := by
  induction B with
  | nil => simp
  | cons e B ih =>
    obtain ⟨b, y⟩ := e
    rw [List.filter_cons]
    by_cases h : b = a
    · subst h
      simp only [beq_self_eq_true, if_true, List.map_cons, List.count_cons, ih]
      by_cases h1 : b = k <;> by_cases h2 : x = v <;> by_cases h3 : y = w <;> simp [h1, h2, h3]
    · have hb : (b == a) = false := by simpa using h
      simp only [hb, Bool.false_eq_true, if_false, ih, List.count_cons]
      by_cases h1 : a = k
      · subst h1
        simp [h]
      · simp [h1]

theorem count_specJoin [DecidableEq ν] [DecidableEq ω] (A : List (κ × ν)) (B : List (κ × ω))
    (k : κ) (v : ν) (w : ω) :
    (specJoin A B).count (k, (v, w)) = A.count (k, v) * B.count (k, w) := by
  induction A with
  | nil => simp [specJoin]
  | cons e A ih =>
    obtain ⟨a, x⟩ := e
    unfold specJoin at ih ⊢
    rw [List.flatMap_cons, List.count_append, ih, count_specJoin_row, List.count_cons]
    by_cases h : (a, x) = (k, v)
    · simp only [h, if_true, beq_self_eq_true]
      rw [Nat.add_mul, Nat.one_mul, Nat.add_comm]
    · have : ((a, x) == (k, v)) = false := by simpa using h
      simp [h, this]

/-! ## the join family -/

/-- `[none]` for an absent key, else the values wrapped in `some` -/
def optVals (l : List (κ × ν)) (k : κ) : List (Option ν) :=
  if (kvals l k).isEmpty then [none] else (kvals l k).map some

/-- the `d[k] if k in d else [None]` branch of the outer joins -/
def outerOpt (o : Option (List ω)) : List (Option ω) :=
  match o with
  | some ws => ws.map some
  | none => [none]

theorem outerOpt_valuesOf (B : List (κ × ω)) (k : κ) :
    outerOpt (valuesOf (groupList B) k) = optVals B k := by
  unfold valuesOf optVals
  rw [groupList_lookup_eq]
  by_cases h : k ∈ B.map (·.1)
  · have h1 : kvals B k ≠ [] := fun e => (kvals_eq_nil_iff B k).mp e h
    rw [if_pos h, List.isEmpty_eq_false_iff.mpr h1]
    rfl
  · rw [if_neg h, (kvals_eq_nil_iff B k).mpr h]
    rfl

theorem specLeftOuter_eq (A : List (κ × ν)) (B : List (κ × ω)) :
    specLeftOuter A B = A.flatMap fun kv => (optVals B kv.1).map fun w => (kv.1, (kv.2, w)) := by
  unfold specLeftOuter optVals
  apply flatMap_congr_mem
  intro kv _
  dsimp only
  rw [filter_key_eq_kvals_map, List.isEmpty_map]
  cases kvals B kv.1 with
  | nil => rfl
  | cons w ws => simp [List.map_map]

theorem specRightOuter_eq (A : List (κ × ν)) (B : List (κ × ω)) :
    specRightOuter A B = B.flatMap fun kw => (optVals A kw.1).map fun v => (kw.1, (v, kw.2)) := by
  unfold specRightOuter optVals
  apply flatMap_congr_mem
  intro kw _
  dsimp only
  rw [filter_key_eq_kvals_map, List.isEmpty_map]
  cases kvals A kw.1 with
  | nil => rfl
  | cons w ws => simp [List.map_map]

theorem valuesOf_isSome (B : List (κ × ω)) (k : κ) :
    (valuesOf (groupList B) k).isSome = B.any (·.1 == k) := by
  unfold valuesOf
  rw [Bool.eq_iff_iff, lookup_isSome_iff_mem, groupList_mem_keys, any_key_iff]

theorem ite_map_eq_flatMap {α : Type} (c : Bool) (l : List α) (f : α → δ) :
    (if c = true then l.map f else []) = l.flatMap fun v => if c = true then [f v] else [] := by
  cases c
  · simp
  · simp [List.map_eq_flatMap]

theorem ite_nil_map_eq_flatMap {α : Type} (c : Bool) (l : List α) (f : α → δ) :
    (if c = true then [] else l.map f) = l.flatMap fun v => if (!c) = true then [f v] else [] := by
  cases c
  · simp [List.map_eq_flatMap]
  · simp

end PysparklingVerif.Keyed
