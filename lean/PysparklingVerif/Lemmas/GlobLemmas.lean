/-
  Helper lemmas for C20 (path-expression resolution model `PysparklingVerif.Model.Glob`).
-/
import PysparklingVerif.Model.Glob
namespace PysparklingVerif.Glob

/-! ### the matcher -/

theorem globMatch_nil (s : Str) : globMatch [] s = s.isEmpty := rfl

theorem globMatch_star (p s : Str) : globMatch ('*' :: p) s = anySuffix (globMatch p) s := by
  simp [globMatch]

theorem globMatch_cons_nil (c : Char) (p : Str) (hc : c ≠ '*') : globMatch (c :: p) [] = false := by
  simp [globMatch, hc]

theorem globMatch_cons_cons (c d : Char) (p t : Str) (hc : c ≠ '*') :
    globMatch (c :: p) (d :: t) = ((c == '?' || c == d) && globMatch p t) := by
  simp [globMatch, hc]

theorem isWild_false_iff (c : Char) : isWild c = false ↔ c ≠ '*' ∧ c ≠ '?' := by
  simp [isWild]

theorem anySuffix_self (f : Str → Bool) (s : Str) (h : f s = true) : anySuffix f s = true := by
  cases s with
  | nil => simpa [anySuffix] using h
  | cons c s => simp [anySuffix, h]

theorem anySuffix_cons (f : Str → Bool) (c : Char) (s : Str) (h : anySuffix f s = true) :
    anySuffix f (c :: s) = true := by
  simp [anySuffix, h]

theorem anySuffix_nil_accept (f : Str → Bool) (h : f [] = true) (s : Str) : anySuffix f s = true := by
  induction s with
  | nil => simpa [anySuffix] using h
  | cons c s ih => simp [anySuffix, ih]

/-- a wildcard-free literal prefix common to pattern and string cancels -/
theorem globMatch_append_literal (d q t : Str) (hd : ∀ c ∈ d, isWild c = false) :
    globMatch (d ++ q) (d ++ t) = globMatch q t := by
  induction d with
  | nil => rfl
  | cons c d ih =>
    have hc := (isWild_false_iff c).1 (hd c (by simp))
    have ih' := ih (fun x hx => hd x (by simp [hx]))
    simp [List.cons_append, globMatch_cons_cons _ _ _ _ hc.1, ih']

/-! ### literal prefix -/

theorem literalPrefix_cons (c : Char) (p : Str) :
    literalPrefix (c :: p) = if isWild c then [] else c :: literalPrefix p := by
  simp [literalPrefix, List.takeWhile_cons]
  cases isWild c <;> simp

theorem literalPrefix_prefix_of_match (p s : Str) (h : globMatch p s = true) : literalPrefix p <+: s := by
  induction p generalizing s with
  | nil => simp [literalPrefix]
  | cons c p ih =>
    rw [literalPrefix_cons]
    cases hw : isWild c with
    | true => simp
    | false =>
      have hc := (isWild_false_iff c).1 hw
      cases s with
      | nil => simp [globMatch_cons_nil _ _ hc.1] at h
      | cons d t =>
        rw [globMatch_cons_cons _ _ _ _ hc.1] at h
        simp [hc.2] at h
        obtain ⟨rfl, ht⟩ := h
        simpa [List.cons_prefix_cons] using ih t ht

theorem literalPrefix_append_prefix (e x : Str) : literalPrefix e <+: literalPrefix (e ++ x) := by
  induction e with
  | nil => simp [literalPrefix]
  | cons c e ih =>
    rw [List.cons_append, literalPrefix_cons, literalPrefix_cons]
    cases isWild c with
    | true => simp
    | false => simpa [List.cons_prefix_cons] using ih

/-! ### slashes -/

theorem mem_takeWhile_sat (p : Char → Bool) (l : Str) (c : Char) (h : c ∈ l.takeWhile p) : p c = true := by
  induction l with
  | nil => simp at h
  | cons x l ih =>
    rw [List.takeWhile_cons] at h
    cases hx : p x with
    | true =>
      rw [hx] at h
      rcases List.mem_cons.1 h with h | h
      · rw [h]; exact hx
      · exact ih h
    | false => rw [hx] at h; simp at h

theorem dropWhile_all (p : Char → Bool) (l : Str) (h : ∀ c ∈ l, p c = true) : l.dropWhile p = [] := by
  induction l with
  | nil => rfl
  | cons x l ih =>
    rw [List.dropWhile_cons, h x (by simp)]
    exact ih (fun c hc => h c (by simp [hc]))

theorem rstripSlash_decomp (s : Str) : ∃ t : Str, s = rstripSlash s ++ t ∧ ∀ c ∈ t, c = '/' := by
  refine ⟨(s.reverse.takeWhile (· == '/')).reverse, ?_, ?_⟩
  · have := congrArg List.reverse (List.takeWhile_append_dropWhile (p := (· == '/')) (l := s.reverse))
    rw [List.reverse_append, List.reverse_reverse] at this
    exact this.symm
  · intro c hc
    rw [List.mem_reverse] at hc
    simpa using mem_takeWhile_sat _ _ _ hc

theorem rstripSlash_snoc_slash (s : Str) : rstripSlash (s ++ ['/']) = rstripSlash s := by
  simp [rstripSlash]

theorem rstripSlash_slash_prefix (s x : Str) (h : s ++ ['/'] <+: x) : rstripSlash s ++ ['/'] <+: x := by
  obtain ⟨t, hs, ht⟩ := rstripSlash_decomp s
  refine List.IsPrefix.trans ?_ h
  generalize rstripSlash s = r at hs
  subst hs
  cases t with
  | nil => simp
  | cons c t =>
    have : c = '/' := ht c (by simp)
    subst this
    exact ⟨t ++ ['/'], by simp⟩

theorem rstripSlash_eq_nil_all (s : Str) (h : rstripSlash s = []) : s.all (· == '/') = true := by
  obtain ⟨t, hs, ht⟩ := rstripSlash_decomp s
  rw [h, List.nil_append] at hs
  rw [hs, List.all_eq_true]
  intro c hc
  simp [ht c hc]

theorem rstripSlash_of_all (s : Str) (h : s.all (· == '/') = true) : rstripSlash s = [] := by
  rw [rstripSlash, List.reverse_eq_nil_iff]
  apply dropWhile_all
  intro c hc
  rw [List.all_eq_true] at h
  exact h c (List.mem_reverse.1 hc)

theorem rstripSlash_idem (s : Str) : rstripSlash (rstripSlash s) = rstripSlash s := by
  have key : ∀ l : Str, (l.dropWhile (· == '/')).dropWhile (· == '/') = l.dropWhile (· == '/') := by
    intro l
    induction l with
    | nil => rfl
    | cons c l ih =>
      by_cases hc : c = '/'
      · simp [hc, ih]
      · simp [hc]
  simp [rstripSlash, key]

theorem dropWhile_ne_of_mem (a : Char) (l : Str) (h : a ∈ l) :
    ∃ rest, l.dropWhile (· != a) = a :: rest := by
  induction l with
  | nil => simp at h
  | cons c l ih =>
    by_cases hc : c = a
    · exact ⟨l, by simp [hc]⟩
    · have : a ∈ l := by
        rcases List.mem_cons.1 h with h | h
        · exact absurd h.symm hc
        · exact h
      obtain ⟨rest, hr⟩ := ih this
      exact ⟨rest, by simp [hc, hr]⟩

/-- the part of `pre` up to and including its last slash -/
theorem head_spec (pre : Str) (h : '/' ∈ pre) :
    ∃ h', (pre.reverse.dropWhile (· != '/')).reverse = h' ++ ['/'] ∧ h' ++ ['/'] <+: pre := by
  obtain ⟨rest, hr⟩ := dropWhile_ne_of_mem '/' pre.reverse (List.mem_reverse.2 h)
  refine ⟨rest.reverse, by simp [hr], ?_⟩
  have hs : pre.reverse.dropWhile (· != '/') <:+ pre.reverse := List.dropWhile_suffix _
  rw [hr] at hs
  have := List.reverse_prefix.2 hs
  simpa using this

theorem walkRoot_spec (pre : Str) (h : '/' ∈ pre) :
    walkRoot pre ≠ [] ∧ rstripSlash (walkRoot pre) ++ ['/'] <+: pre := by
  unfold walkRoot
  cases he : endsWithSlash pre with
  | true =>
    simp only [Bool.not_true, Bool.false_and, Bool.false_eq_true, if_false]
    obtain ⟨ys, hys⟩ := List.getLast?_eq_some_iff.1 (by simpa [endsWithSlash] using he)
    subst hys
    refine ⟨by simp, ?_⟩
    rw [rstripSlash_snoc_slash]
    exact rstripSlash_slash_prefix _ _ (List.prefix_refl _)
  | false =>
    have hc : pre.contains '/' = true := by simpa using h
    simp only [Bool.not_false, Bool.true_and, hc, if_true]
    obtain ⟨h', hh, hp⟩ := head_spec pre h
    unfold dirname
    simp only [hh]
    split
    · rename_i hall
      refine ⟨by simp, ?_⟩
      rw [rstripSlash_of_all _ hall]
      refine List.IsPrefix.trans ?_ hp
      cases h' with
      | nil => simp
      | cons c t =>
        have : c = '/' := by
          rw [List.all_eq_true] at hall
          simpa using hall c (by simp)
        subst this
        exact ⟨t ++ ['/'], by simp⟩
    · rename_i hall
      refine ⟨fun hnil => hall (rstripSlash_eq_nil_all _ hnil), ?_⟩
      rw [rstripSlash_idem, rstripSlash_snoc_slash]
      exact List.IsPrefix.trans (rstripSlash_slash_prefix _ _ (List.prefix_refl _)) hp

/-! ### anchoring -/

theorem anchored_spec (x : Str) :
    (anchored x).2 = literalPrefix (anchored x).1 ∧ '/' ∈ (anchored x).2 := by
  unfold anchored
  simp only
  split
  · rename_i hc
    exact ⟨rfl, by simpa using hc⟩
  · refine ⟨?_, ?_⟩
    · show "./".toList ++ literalPrefix x = literalPrefix ("./".toList ++ x)
      have : "./".toList = ['.', '/'] := by decide +kernel
      rw [this]
      simp [literalPrefix_cons, isWild]
    · have : "./".toList = ['.', '/'] := by decide +kernel
      rw [this]
      simp

/-- every file matching the (anchored) pattern or its `part*` extension is reached by the walk -/
theorem walk_cond_of_match (x f : Str)
    (hm : (globMatch (anchored x).1 f || globMatch (partsPattern (anchored x).1) f) = true) :
    (rstripSlash (walkRoot (anchored x).2) ++ ['/']).isPrefixOf f = true := by
  obtain ⟨hpre, hsl⟩ := anchored_spec x
  obtain ⟨_, hroot⟩ := walkRoot_spec _ hsl
  rw [List.isPrefixOf_iff_prefix]
  refine List.IsPrefix.trans hroot ?_
  rw [hpre]
  have hm' : globMatch (anchored x).1 f = true ∨ globMatch (partsPattern (anchored x).1) f = true := by
    simpa using hm
  rcases hm' with hm | hm
  · exact literalPrefix_prefix_of_match _ _ hm
  · exact List.IsPrefix.trans (literalPrefix_append_prefix _ _) (literalPrefix_prefix_of_match _ _ hm)

/-- a path matching a pattern or its `part*` extension starts with the pattern's literal prefix -/
theorem literalPrefix_prefix_of_match_or (e f : Str)
    (hm : (globMatch e f || globMatch (partsPattern e) f) = true) : literalPrefix e <+: f := by
  have hm' : globMatch e f = true ∨ globMatch (partsPattern e) f = true := by simpa using hm
  rcases hm' with hm | hm
  · exact literalPrefix_prefix_of_match _ _ hm
  · exact List.IsPrefix.trans (literalPrefix_append_prefix _ _) (literalPrefix_prefix_of_match _ _ hm)

/-- when the expression had to be anchored, every walked path that matches starts with the `./` of the anchoring -/
theorem anchored_match_dotslash (x g : Str) (hs : (literalPrefix x).contains '/' = false)
    (hm : (globMatch (anchored x).1 g || globMatch (partsPattern (anchored x).1) g) = true) :
    g = "./".toList ++ g.drop 2 := by
  have hp := literalPrefix_prefix_of_match_or _ _ hm
  rw [← (anchored_spec x).1] at hp
  have h2 : (anchored x).2 = "./".toList ++ literalPrefix x := by
    unfold anchored
    simp only [hs, Bool.false_eq_true, if_false]
  rw [h2] at hp
  obtain ⟨t, ht⟩ := hp
  have hd : "./".toList = ['.', '/'] := by decide +kernel
  rw [hd] at ht ⊢
  rw [← ht]
  simp

/-- `unanchor` undoes the `./` of the anchoring on every matching walked path -/
theorem unanchor_spec (x g : Str)
    (hm : (globMatch (anchored x).1 g || globMatch (partsPattern (anchored x).1) g) = true) :
    if (literalPrefix x).contains '/' then unanchor x g = g else "./".toList ++ unanchor x g = g := by
  unfold unanchor
  cases hs : (literalPrefix x).contains '/' with
  | true => simp
  | false =>
    simp only [Bool.false_eq_true, if_false]
    exact (anchored_match_dotslash x g hs hm).symm

theorem localResolve_not_file (W : List Str) (isFile : Str → Bool) (expr : Str)
    (h : isFile (stripScheme expr) = false) :
    localResolve W isFile expr =
      (W.filter fun f => globMatch (anchored (stripScheme expr)).1 f
        || globMatch (partsPattern (anchored (stripScheme expr)).1) f).map (unanchor (stripScheme expr)) := by
  unfold localResolve
  simp only [h, Bool.false_eq_true, if_false]
  obtain ⟨hpre, hsl⟩ := anchored_spec (stripScheme expr)
  obtain ⟨hne, _⟩ := walkRoot_spec _ hsl
  unfold walk
  have : (walkRoot (anchored (stripScheme expr)).2).isEmpty = false := by
    cases hw : walkRoot (anchored (stripScheme expr)).2 with
    | nil => exact absurd hw hne
    | cons _ _ => rfl
  simp only [this, Bool.false_eq_true, if_false, List.filter_filter]
  congr 1
  apply List.filter_congr
  intro f _
  cases hm : (globMatch (anchored (stripScheme expr)).1 f
      || globMatch (partsPattern (anchored (stripScheme expr)).1) f) with
  | false => simp
  | true => simp [walk_cond_of_match _ _ hm]

/-! ### comma split -/

theorem splitComma_ne_nil (s : Str) : splitComma s ≠ [] := by
  induction s with
  | nil => simp [splitComma]
  | cons c s ih =>
    unfold splitComma
    split
    · simp
    · split <;> simp

theorem splitComma_append_comma (a b : Str) (ha : ',' ∉ a) :
    splitComma (a ++ ',' :: b) = a :: splitComma b := by
  induction a with
  | nil => simp [splitComma]
  | cons c a ih =>
    have hc : c ≠ ',' := fun h => ha (by simp [h])
    have ih' := ih (fun h => ha (by simp [h]))
    rw [List.cons_append, splitComma]
    simp [hc, ih']

/-! ### string order -/

theorem strLe_total (a b : Str) : (strLe a b || strLe b a) = true := by
  induction a generalizing b with
  | nil => simp [strLe]
  | cons x a ih =>
    cases b with
    | nil => simp [strLe]
    | cons y b =>
      by_cases hxy : x = y
      · subst hxy
        simpa [strLe] using ih b
      · have hyx : ¬ y = x := fun h => hxy h.symm
        have : x.toNat ≠ y.toNat := fun h => hxy (Char.toNat_inj.1 h)
        simp [strLe, hxy, hyx]
        omega

theorem strLe_trans (a b c : Str) (hab : strLe a b = true) (hbc : strLe b c = true) :
    strLe a c = true := by
  induction a generalizing b c with
  | nil => simp [strLe]
  | cons x a ih =>
    cases b with
    | nil => simp [strLe] at hab
    | cons y b =>
      cases c with
      | nil => simp [strLe] at hbc
      | cons z c =>
        simp only [strLe] at hab hbc ⊢
        by_cases hxy : x = y
        · subst hxy
          simp only [if_true] at hab
          by_cases hxz : x = z
          · subst hxz
            simp only [if_true] at hbc ⊢
            exact ih b c hab hbc
          · simp only [hxz, if_false] at hbc ⊢
            exact hbc
        · simp only [hxy, if_false] at hab
          by_cases hyz : y = z
          · subst hyz
            simp only [hxy, if_false]
            exact hab
          · simp only [hyz, if_false] at hbc
            have hab' : x.toNat < y.toNat := by simpa using hab
            have hbc' : y.toNat < z.toNat := by simpa using hbc
            have hxz : x ≠ z := by
              intro h; subst h; omega
            simp only [hxz, if_false]
            simp; omega

end PysparklingVerif.Glob
