import PysparklingVerif.Model.Cast
namespace PysparklingVerif.Cast

theorem pymod_pos (v s : Int) (hs : 0 < s) : pymod v s = v % s := by
  unfold pymod; rw [Int.fmod_eq_emod_of_nonneg _ (by omega)]

theorem pymod_neg (v s : Int) (hs : 0 < s) :
    pymod v (-s) = v % s + (if s ∣ v then 0 else -s) := by
  unfold pymod; rw [Int.fmod_eq_emod]
  have h1 : ¬ (s ≤ 0) := by omega
  simp [h1, Int.emod_neg]

theorem digitVal_digitChar (d : Nat) (h : d < 10) : digitVal (digitChar d) = some d := by
  have : ∀ d : Fin 10, digitVal (digitChar d) = some d.val := by decide
  exact this ⟨d, h⟩

theorem isWs_digitChar (d : Nat) (h : d < 10) : isWs (digitChar d) = false := by
  have : ∀ d : Fin 10, isWs (digitChar d) = false := by decide
  exact this ⟨d, h⟩

theorem digitChar_ne_sign (d : Nat) (h : d < 10) : digitChar d ≠ '-' ∧ digitChar d ≠ '+' := by
  have : ∀ d : Fin 10, digitChar d ≠ '-' ∧ digitChar d ≠ '+' := by decide
  exact this ⟨d, h⟩

/-- every character of `renderNat n` is `digitChar d` for some `d < 10` -/
theorem renderNat_digits (n : Nat) : ∀ c ∈ renderNat n, ∃ d, d < 10 ∧ c = digitChar d := by
  induction n using Nat.strongRecOn with
  | _ n ih =>
    unfold renderNat
    split
    · intro c hc; simp at hc; exact ⟨n, by omega, hc⟩
    · intro c hc
      simp at hc
      rcases hc with hc | hc
      · exact ih (n / 10) (by omega) c hc
      · exact ⟨n % 10, by omega, hc⟩

theorem renderNat_ne_nil (n : Nat) : renderNat n ≠ [] := by
  unfold renderNat; split <;> simp

theorem parseDigits_append (xs : List Char) (c : Char) (acc : Nat) :
    parseDigits (xs ++ [c]) acc =
      (parseDigits xs acc).bind (fun a => (digitVal c).map (fun d => a * 10 + d)) := by
  induction xs generalizing acc with
  | nil => simp [parseDigits]; cases digitVal c <;> simp
  | cons x xs ih =>
    simp only [List.cons_append, parseDigits]
    cases digitVal x with
    | none => simp
    | some d => simp [ih]

theorem parseDigits_renderNat (n : Nat) : parseDigits (renderNat n) 0 = some n := by
  induction n using Nat.strongRecOn with
  | _ n ih =>
    unfold renderNat
    split
    · rename_i h; simp [parseDigits, digitVal_digitChar n h]
    · rename_i h
      rw [parseDigits_append, ih (n / 10) (by omega), digitVal_digitChar _ (by omega)]
      simp; omega

theorem parseNat_renderNat (n : Nat) : parseNat (renderNat n) = some n := by
  unfold parseNat
  have := renderNat_ne_nil n
  split
  · contradiction
  · exact parseDigits_renderNat n

theorem dropWhile_eq_self_of_head {p : Char → Bool} (c : Char) (cs : List Char) (h : p c = false) :
    (c :: cs).dropWhile p = c :: cs := by simp [List.dropWhile, h]

/-- a string whose first and last characters are not whitespace is unchanged by `strip` -/
theorem strip_eq_self (s : List Char) (h : ∀ c ∈ s, isWs c = false) : strip s = s := by
  unfold strip lstrip rstrip
  have h1 : s.dropWhile isWs = s := by
    cases s with
    | nil => rfl
    | cons c cs => exact dropWhile_eq_self_of_head c cs (h c (by simp))
  rw [h1]
  have h2 : s.reverse.dropWhile isWs = s.reverse := by
    cases hr : s.reverse with
    | nil => rfl
    | cons c cs =>
      apply dropWhile_eq_self_of_head
      apply h
      have : c ∈ s.reverse := by rw [hr]; simp
      simpa using this
  rw [h2, List.reverse_reverse]

theorem strip_renderNat (n : Nat) : strip (renderNat n) = renderNat n := by
  apply strip_eq_self
  intro c hc
  obtain ⟨d, hd, rfl⟩ := renderNat_digits n c hc
  exact isWs_digitChar d hd

theorem strip_neg_renderNat (n : Nat) : strip ('-' :: renderNat n) = '-' :: renderNat n := by
  apply strip_eq_self
  intro c hc
  simp at hc
  rcases hc with rfl | hc
  · decide
  · obtain ⟨d, hd, rfl⟩ := renderNat_digits n c hc
    exact isWs_digitChar d hd

theorem parseInt_renderInt (z : Int) : parseInt (renderInt z) = some z := by
  cases z with
  | ofNat n =>
    unfold parseInt renderInt
    rw [strip_renderNat]
    have hne := renderNat_ne_nil n
    cases hr : renderNat n with
    | nil => contradiction
    | cons c cs =>
      obtain ⟨d, hd, hc⟩ := renderNat_digits n c (by rw [hr]; simp)
      have hs := digitChar_ne_sign d hd
      have : parseNat (c :: cs) = some n := by rw [← hr]; exact parseNat_renderNat n
      split
      · rename_i heq; simp at heq; rw [hc] at heq; exact absurd heq.1 hs.1
      · rename_i heq; simp at heq; rw [hc] at heq; exact absurd heq.1 hs.2
      · simp [this]
  | negSucc n =>
    unfold parseInt renderInt
    rw [strip_neg_renderNat]
    simp [parseNat_renderNat]
    omega

end PysparklingVerif.Cast
