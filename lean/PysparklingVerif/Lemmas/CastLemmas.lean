import PysparklingVerif.Model.Cast
namespace PysparklingVerif.Cast

theorem pymod_pos (v s : Int) (hs : 0 < s) : pymod v s = v % s := by
  unfold pymod; rw [Int.fmod_eq_emod_of_nonneg _ (by omega)]

theorem pymod_neg (v s : Int) (hs : 0 < s) :
    pymod v (-s) = v % s + (if s ∣ v then 0 else -s) := by
  unfold pymod; rw [Int.fmod_eq_emod]
  have h1 : ¬ (s ≤ 0) := by omega
  simp [h1, Int.emod_neg]

theorem digitVal_digitChar (d : Nat) (h : d < 10) : digitVal (digitChar d) = some d := by
  have : ∀ d : Fin 10, digitVal (digitChar d) = some d.val := by decide
  exact this ⟨d, h⟩

theorem isWs_digitChar (d : Nat) (h : d < 10) : isWs (digitChar d) = false := by
  have : ∀ d : Fin 10, isWs (digitChar d) = false := by decide
  exact this ⟨d, h⟩

theorem digitChar_ne_sign (d : Nat) (h : d < 10) : digitChar d ≠ '-' ∧ digitChar d ≠ '+' := by
  have : ∀ d : Fin 10, digitChar d ≠ '-' ∧ digitChar d ≠ '+' := by decide
  exact this ⟨d, h⟩

/-- every character of `renderNat n` is `digitChar d` for some `d < 10` -/
theorem renderNat_digits (n : Nat) : ∀ c ∈ renderNat n, ∃ d, d < 10 ∧ c = digitChar d := by
  induction n using Nat.strongRecOn with
  | _ n ih =>
    unfold renderNat
    split
    · intro c hc; simp at hc; exact ⟨n, by omega, hc⟩
    · intro c hc
      simp at hc
      rcases hc with hc | hc
      · exact ih (n / 10) (by omega) c hc
      · exact ⟨n % 10, by omega, hc⟩

theorem renderNat_ne_nil (n : Nat) : renderNat n ≠ [] := by
  unfold renderNat; split <;> simp

theorem parseDigits_append (xs : List Char) (c : Char) (acc : Nat) :
    parseDigits (xs ++ [c]) acc =
      (parseDigits xs acc).bind (fun a => (digitVal c).map (fun d => a * 10 + d)) := by
  induction xs generalizing acc with
  | nil => simp [parseDigits]; cases digitVal c <;> simp
  | cons x xs ih =>
    simp only [List.cons_append, parseDigits]
    cases digitVal x with
    | none => simp
    | some d => simp [ih]

theorem parseDigits_renderNat (n : Nat) : parseDigits (renderNat n) 0 = some n := by
  induction n using Nat.strongRecOn with
  | _ n ih =>
    unfold renderNat
    split
    · rename_i h; simp [parseDigits, digitVal_digitChar n h]
    · rename_i h
      rw [parseDigits_append, ih (n / 10) (by omega), digitVal_digitChar _ (by omega)]
      simp; omega

theorem parseNat_renderNat (n : Nat) : parseNat (renderNat n) = some n := by
  unfold parseNat
  have := renderNat_ne_nil n
  split
  · contradiction
  · exact parseDigits_renderNat n

theorem dropWhile_eq_self_of_head {p : Char → Bool} (c : Char) (cs : List Char) (h : p c = false) :
    (c :: cs).dropWhile p = c :: cs := by simp [List.dropWhile, h]

/-- a string whose first and last characters are not whitespace is unchanged by `strip` -/
theorem strip_eq_self (s : List Char) (h : ∀ c ∈ s, isWs c = false) : strip s = s := by
  unfold strip lstrip rstrip
  have h1 : s.dropWhile isWs = s := by
    cases s with
    | nil => rfl
    | cons c cs => exact dropWhile_eq_self_of_head c cs (h c (by simp))
  rw [h1]
  have h2 : s.reverse.dropWhile isWs = s.reverse := by
    cases hr : s.reverse with
    | nil => rfl
    | cons c cs =>
      apply dropWhile_eq_self_of_head
      apply h
      have : c ∈ s.reverse := by rw [hr]; simp
      simpa using this
  rw [h2, List.reverse_reverse]

theorem strip_renderNat (n : Nat) : strip (renderNat n) = renderNat n := by
  apply strip_eq_self
  intro c hc
  obtain ⟨d, hd, rfl⟩ := renderNat_digits n c hc
  exact isWs_digitChar d hd

theorem strip_neg_renderNat (n : Nat) : strip ('-' :: renderNat n) = '-' :: renderNat n := by
  apply strip_eq_self
  intro c hc
  simp at hc
  rcases hc with rfl | hc
  · decide
  · obtain ⟨d, hd, rfl⟩ := renderNat_digits n c hc
    exact isWs_digitChar d hd

theorem parseInt_renderInt (z : Int) : parseInt (renderInt z) = some z := by
  cases z with
  | ofNat n =>
    unfold parseInt renderInt
    rw [strip_renderNat]
    have hne := renderNat_ne_nil n
    cases hr : renderNat n with
    | nil => contradiction
    | cons c cs =>
      obtain ⟨d, hd, hc⟩ := renderNat_digits n c (by rw [hr]; simp)
      have hs := digitChar_ne_sign d hd
      have : parseNat (c :: cs) = some n := by rw [← hr]; exact parseNat_renderNat n
      split
      · rename_i heq; simp at heq; rw [hc] at heq; exact absurd heq.1 hs.1
      · rename_i heq; simp at heq; rw [hc] at heq; exact absurd heq.1 hs.2
      · simp [this]
  | negSucc n =>
    unfold parseInt renderInt
    rw [strip_neg_renderNat]
    simp [parseNat_renderNat]
    omega

/-! ### date strings (C18 `date_string_forms`, `valid_date_is_calendar`) -/

/-- an ASCII digit is none of the characters the date parser cuts or splits at, and is not whitespace -/
theorem digit_char_facts (c : Char) (h : (digitVal c).isSome = true) :
    c ≠ ' ' ∧ c ≠ 'T' ∧ c ≠ '-' ∧ c ≠ '+' ∧ isWs c = false := by
  have e1 : c ≠ ' ' := by rintro rfl; exact absurd h (by decide)
  have e2 : c ≠ 'T' := by rintro rfl; exact absurd h (by decide)
  have e3 : c ≠ '-' := by rintro rfl; exact absurd h (by decide)
  have e4 : c ≠ '+' := by rintro rfl; exact absurd h (by decide)
  have e5 : c ≠ '\t' := by rintro rfl; exact absurd h (by decide)
  have e6 : c ≠ '\n' := by rintro rfl; exact absurd h (by decide)
  have e7 : c ≠ '\r' := by rintro rfl; exact absurd h (by decide)
  have e8 : c ≠ '\x0b' := by rintro rfl; exact absurd h (by decide)
  have e9 : c ≠ '\x0c' := by rintro rfl; exact absurd h (by decide)
  refine ⟨e1, e2, e3, e4, ?_⟩
  simp [isWs, e1, e5, e6, e7, e8, e9]

theorem rstrip_nil : rstrip [] = [] := rfl

theorem rstrip_cons (c : Char) (l : List Char) :
    rstrip (c :: l) = if rstrip l = [] ∧ isWs c = true then [] else c :: rstrip l := by
  unfold rstrip
  rw [List.reverse_cons, List.dropWhile_append]
  by_cases h : (l.reverse.dropWhile isWs).isEmpty = true
  · have h' : l.reverse.dropWhile isWs = [] := by simpa using h
    rw [if_pos h, h']
    by_cases hc : isWs c = true <;> simp [List.dropWhile, hc]
  · have h' : l.reverse.dropWhile isWs ≠ [] := by simpa using h
    rw [if_neg h]
    simp [h']

theorem rstrip_cons_of_not_ws (c : Char) (l : List Char) (hc : isWs c = false) : rstrip (c :: l) = c :: rstrip l := by
  rw [rstrip_cons]; simp [hc]

theorem rstrip_append_of_not_ws (a t : List Char) (ha : ∀ c ∈ a, isWs c = false) : rstrip (a ++ t) = a ++ rstrip t := by
  induction a with
  | nil => rfl
  | cons c a ih =>
    rw [List.cons_append, rstrip_cons_of_not_ws _ _ (ha c (by simp)), ih (fun x hx => ha x (by simp [hx]))]
    rfl

theorem strip_append_of_not_ws (a t : List Char) (hne : a ≠ []) (ha : ∀ c ∈ a, isWs c = false) :
    strip (a ++ t) = a ++ rstrip t := by
  unfold strip lstrip
  cases a with
  | nil => contradiction
  | cons c a =>
    rw [List.cons_append, dropWhile_eq_self_of_head c _ (ha c (by simp)), ← List.cons_append,
      rstrip_append_of_not_ws _ _ ha]

/-- the two cuts of `cast_to_date`: at the first space (after `strip`), then at the first `T` -/
def dateCut (s : List Char) : List Char :=
  let s1 := if ' ' ∈ s then (strip s).takeWhile (· ≠ ' ') else s
  if 'T' ∈ s1 then s1.takeWhile (· ≠ 'T') else s1

/-- the component dispatch of `cast_to_date` -/
def dateOfComps (comps : List (List Char)) : Option (Int × Int × Int) :=
  match comps with
  | [y] =>
    if y.length ≠ 4 then none else
    match parseInt y with
    | some yv => if validDate yv 1 1 then some (yv, 1, 1) else none
    | none => none
  | [y, m] =>
    if y.length ≠ 4 then none else
    match parseInt y, parseInt m with
    | some yv, some mv => if validDate yv mv 1 then some (yv, mv, 1) else none
    | _, _ => none
  | [y, m, d] =>
    if y.length ≠ 4 then none else
    match parseInt y, parseInt m, parseInt d with
    | some yv, some mv, some dv => if validDate yv mv dv then some (yv, mv, dv) else none
    | _, _, _ => none
  | _ => none

theorem castStrDate_eq (s : List Char) : castStrDate s = dateOfComps (splitOn '-' (dateCut s)) := rfl

/-- a date part without space, `T` or whitespace, followed by nothing or by a space / `T` and anything, is cut
back to exactly the date part -/
theorem dateCut_append (a t : List Char) (hne : a ≠ [])
    (ha : ∀ c ∈ a, c ≠ ' ' ∧ c ≠ 'T' ∧ isWs c = false)
    (ht : t = [] ∨ ∃ rest, t = ' ' :: rest ∨ t = 'T' :: rest) : dateCut (a ++ t) = a := by
  have hsp : ∀ c ∈ a, (decide (c ≠ ' ')) = true := fun c hc => by simpa using (ha c hc).1
  have hT : ∀ c ∈ a, (decide (c ≠ 'T')) = true := fun c hc => by simpa using (ha c hc).2.1
  have hspa : ' ' ∉ a := fun h => (ha _ h).1 rfl
  have hTa : 'T' ∉ a := fun h => (ha _ h).2.1 rfl
  -- step A
  have hA : ∃ t1, (if ' ' ∈ a ++ t then (strip (a ++ t)).takeWhile (· ≠ ' ') else a ++ t) = a ++ t1 ∧
      (t1 = [] ∨ ∃ r, t1 = 'T' :: r) := by
    by_cases hs : ' ' ∈ a ++ t
    · rw [if_pos hs, strip_append_of_not_ws a t hne (fun c hc => (ha c hc).2.2),
        List.takeWhile_append_of_pos hsp]
      refine ⟨_, rfl, ?_⟩
      rcases ht with rfl | ⟨rest, rfl | rfl⟩
      · left; rfl
      · left
        rw [rstrip_cons]
        split <;> simp
      · right
        rw [rstrip_cons_of_not_ws _ _ (by decide), List.takeWhile_cons_of_pos (by decide)]
        exact ⟨_, rfl⟩
    · rw [if_neg hs]
      refine ⟨t, rfl, ?_⟩
      rcases ht with rfl | ⟨rest, rfl | rfl⟩
      · left; rfl
      · exact absurd (by simp) hs
      · right; exact ⟨_, rfl⟩
  obtain ⟨t1, h1, h2⟩ := hA
  unfold dateCut
  simp only [h1]
  rcases h2 with rfl | ⟨r, rfl⟩
  · simp [hTa]
  · rw [if_pos (by simp), List.takeWhile_append_of_pos hT]
    simp

theorem splitOn_of_not_mem (c : Char) (a : List Char) (h : c ∉ a) : splitOn c a = [a] := by
  induction a with
  | nil => rfl
  | cons x a ih =>
    have hx : x ≠ c := fun e => h (by simp [e])
    have := ih (fun e => h (by simp [e]))
    simp [splitOn, hx, this]

theorem splitOn_append_sep (c : Char) (a b : List Char) (h : c ∉ a) :
    splitOn c (a ++ c :: b) = a :: splitOn c b := by
  induction a with
  | nil => simp [splitOn]
  | cons x a ih =>
    have hx : x ≠ c := fun e => h (by simp [e])
    have := ih (fun e => h (by simp [e]))
    simp [splitOn, hx, this]

/-- `int(s)` on a non-empty digit run is its value -/
theorem parseInt_digits (xs : List Char) (n : Nat) (hd : ∀ c ∈ xs, (digitVal c).isSome = true)
    (hp : parseNat xs = some n) : parseInt xs = some (n : Int) := by
  unfold parseInt
  rw [strip_eq_self xs (fun c hc => (digit_char_facts c (hd c hc)).2.2.2.2)]
  cases xs with
  | nil => simp [parseNat] at hp
  | cons c cs =>
    have hc := digit_char_facts c (hd c (by simp))
    split
    · rename_i heq; simp at heq; exact absurd heq.1 hc.2.2.1
    · rename_i heq; simp at heq; exact absurd heq.1 hc.2.2.2.1
    · simp [hp]

theorem validDate_iff (y m d : Nat) :
    validDate y m d = true ↔
      (1 ≤ y ∧ y ≤ 9999 ∧ 1 ≤ m ∧ m ≤ 12 ∧ 1 ≤ d ∧
        d ≤ (if m = 2 then (if (y % 4 = 0 ∧ y % 100 ≠ 0) ∨ y % 400 = 0 then 29 else 28)
             else if m = 4 ∨ m = 6 ∨ m = 9 ∨ m = 11 then 30 else 31)) := by
  unfold validDate
  simp only [Int.toNat_natCast, Bool.and_eq_true, decide_eq_true_eq]
  by_cases hm : 1 ≤ m ∧ m ≤ 12
  · have : m = 1 ∨ m = 2 ∨ m = 3 ∨ m = 4 ∨ m = 5 ∨ m = 6 ∨ m = 7 ∨ m = 8 ∨ m = 9 ∨ m = 10 ∨ m = 11 ∨ m = 12 := by
      omega
    rcases this with rfl | rfl | rfl | rfl | rfl | rfl | rfl | rfl | rfl | rfl | rfl | rfl <;>
      simp [daysInMonth, isLeap] <;> (try split) <;> omega
  · constructor
    · intro h; omega
    · intro h; omega

end PysparklingVerif.Cast
