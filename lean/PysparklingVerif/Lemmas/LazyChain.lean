/-
  `islice` over `chain.from_iterable` is the model's `takeChain` (helper lemmas + main statement for Extracted/EquivC06.lean).
-/
import PysparklingVerif.Model.Lazy
namespace PysparklingVerif.Lazy

/-- pulling nothing does nothing -/
theorem pullN_zero {α : Type} (s : LStream α) : pullN 0 s = ([], []) := by
  simp [pullN]

/-- pulling from the empty stream does nothing -/
theorem pullN_empty {α : Type} (n : Nat) : pullN n (⟨[], []⟩ : LStream α) = ([], []) := by
  simp [pullN, pullAll]

/-- the number of values obtained -/
theorem pullN_length {α : Type} (n : Nat) (s : LStream α) :
    (pullN n s).2.length = min n s.cells.length := by
  unfold pullN pullAll
  split <;> simp <;> omega

/-- `prefixEvents` keeps the number of outputs -/
theorem prefixEvents_length {α : Type} (p : List (Ev α)) (s : LStream α) :
    (prefixEvents p s).cells.length = s.cells.length := by
  obtain ⟨cells, trailing⟩ := s
  cases cells <;> simp [prefixEvents]

/-- pulling everything from a prefixed stream: the pending events first -/
theorem pullAll_prefixEvents {α : Type} (p : List (Ev α)) (s : LStream α) :
    pullAll (prefixEvents p s) = (p ++ (pullAll s).1, (pullAll s).2) := by
  obtain ⟨cells, trailing⟩ := s
  cases cells <;> simp [prefixEvents, pullAll]

/-- pulling at least one output from a prefixed stream: the pending events first -/
theorem pullN_succ_prefixEvents {α : Type} (n : Nat) (p : List (Ev α)) (s : LStream α) :
    pullN (n + 1) (prefixEvents p s) = (p ++ (pullN (n + 1) s).1, (pullN (n + 1) s).2) := by
  obtain ⟨cells, trailing⟩ := s
  cases cells with
  | nil => simp [prefixEvents, pullN, pullAll]
  | cons c cs =>
    by_cases h : n ≤ cs.length
    · simp [prefixEvents, pullN, h]
    · simp [prefixEvents, pullN, pullAll, h]

/-- pulling from an appended stream, the first part suffices -/
theorem pullN_append_le {α : Type} (n : Nat) (a : List (Cell α)) (r : LStream α) (h : n ≤ a.length) :
    pullN n ⟨a ++ r.cells, r.trailing⟩ = ((a.take n).flatMap (·.events), (a.take n).map (·.value)) := by
  have h' : n ≤ a.length + r.cells.length := by omega
  simp [pullN, h', List.take_append_of_le_length h]

/-- pulling from an appended stream, the first part runs dry -/
theorem pullN_append_gt {α : Type} (n : Nat) (a : List (Cell α)) (r : LStream α) (h : a.length < n) :
    pullN n ⟨a ++ r.cells, r.trailing⟩
      = (a.flatMap (·.events) ++ (pullN (n - a.length) r).1, a.map (·.value) ++ (pullN (n - a.length) r).2) := by
  unfold pullN pullAll
  by_cases h1 : n ≤ a.length + r.cells.length
  · have h2 : n - a.length ≤ r.cells.length := by omega
    simp [h1, h2, List.take_append, List.take_of_length_le (Nat.le_of_lt h)]
  · have h2 : ¬ (n - a.length ≤ r.cells.length) := by omega
    simp [h1, h2]

/-- MAIN: pulling `n` outputs from the chained stream performs exactly the calls, and yields exactly the values, of the
recursive `takeChain` (partition by partition, the next one touched only when the previous ones ran dry with fewer than `n`
outputs) - for every `n` and every list of streams -/
theorem isliceList_chain_eq_takeChain {α : Type} (n : Nat) (l : List (LStream α)) :
    isliceList n (chainStreams l) = takeChain n l := by
  unfold isliceList
  induction l generalizing n with
  | nil =>
    cases n <;> simp [chainStreams, takeChain, pullN_empty]
  | cons s rest ih =>
    cases n with
    | zero => simp [takeChain, pullN_zero]
    | succ m =>
      simp only [chainStreams, takeChain]
      by_cases h : m + 1 ≤ s.cells.length
      · rw [pullN_append_le _ _ _ h]
        have hv : ¬ ((pullN (m + 1) s).2.length < m + 1) := by
          rw [pullN_length]; omega
        simp only [hv, if_false]
        simp [pullN, h]
      · have h' : s.cells.length < m + 1 := by omega
        rw [pullN_append_gt _ _ _ h']
        have hl : (pullN (m + 1) s).2.length = s.cells.length := by
          rw [pullN_length]; omega
        simp only [hl, h', if_true]
        obtain ⟨k, hk⟩ : ∃ k, m + 1 - s.cells.length = k + 1 := ⟨m - s.cells.length, by omega⟩
        rw [← ih, hk, pullN_succ_prefixEvents]
        simp [pullN, pullAll, h]

/-- pulling everything from the chained stream: the events of all streams in order (each with its trailing events), all values -/
theorem pullAll_chain {α : Type} (l : List (LStream α)) :
    pullAll (chainStreams l) = ((l.map fun s => (pullAll s).1).flatten, (l.map fun s => (pullAll s).2).flatten) := by
  induction l with
  | nil => simp [chainStreams, pullAll]
  | cons s rest ih =>
    have h := pullAll_prefixEvents s.trailing (chainStreams rest)
    rw [ih] at h
    simp only [pullAll, Prod.mk.injEq] at h
    simp only [chainStreams, List.map_cons, List.flatten_cons]
    simp [pullAll, h.1, h.2]

end PysparklingVerif.Lazy
