/-
  Helper lemmas for C09 about the saveAsTextFile state machine (Model/Save.lean):
  file-system read/write algebra, injectivity of part-file names, invariants of
  `savePart` / `saveParts`, and unfolding equations for `saveText`.
-/
import PysparklingVerif.Model.Save
namespace PysparklingVerif.Save
open PysparklingVerif.TextIO

/-! ### the tiny file system -/

theorem lookup_cons_ite (l : List (Str × FileC)) (a k : Str) (b : FileC) :
    List.lookup a ((k, b) :: l) = if a = k then some b else List.lookup a l := by
  rw [List.lookup_cons]
  by_cases h : a = k
  · simp [h]
  · have h' : (a == k) = false := by simp [h]
    simp [h', h]

theorem lookup_write (l : List (Str × FileC)) (n n' : Str) (c : FileC) :
    (l.filter (·.1 != n) ++ [(n, c)]).lookup n' = if n' = n then some c else l.lookup n' := by
  induction l with
  | nil => simp [lookup_cons_ite]
  | cons e l ih =>
    obtain ⟨a, b⟩ := e
    by_cases ha : a = n
    · have ha' : (a != n) = false := by simp [ha]
      simp only [List.filter_cons, ha', Bool.false_eq_true, if_false]
      rw [ih, lookup_cons_ite]
      subst ha
      by_cases h : n' = a <;> simp [h]
    · have ha' : (a != n) = true := by simp [ha]
      simp only [List.filter_cons, ha', if_true, List.cons_append]
      rw [lookup_cons_ite, ih, lookup_cons_ite]
      by_cases h : n' = a
      · subst h; simp [ha]
      · simp [h]

theorem read_write (fs : FS) (n n' : Str) (c : FileC) :
    (fs.write n c).read n' = if n' = n then some c else fs.read n' :=
  lookup_write fs.files n n' c

theorem read_write_self (fs : FS) (n : Str) (c : FileC) : (fs.write n c).read n = some c := by
  simp [read_write]

theorem read_write_ne (fs : FS) (n n' : Str) (c : FileC) (h : n' ≠ n) :
    (fs.write n c).read n' = fs.read n' := by
  simp [read_write, h]

theorem lookup_none_of_any (l : List (Str × FileC)) (n : Str) (P : Str → Bool) (hP : P n = true)
    (h : l.any (fun e => P e.1) = false) : l.lookup n = none := by
  rw [List.lookup_eq_none_iff]
  intro p hp
  rw [List.any_eq_false] at h
  have := h p hp
  simp only [bne_iff_ne, ne_eq]
  intro hn
  subst hn
  exact this hP

theorem isUnder_joinPath (path x : Str) : isUnder path (joinPath path x) = true := by
  simp [isUnder, joinPath]

/-- nothing is stored at `path` or below it when `path` does not exist -/
theorem read_none_of_free (fs : FS) (path n : Str) (hfree : fs.pathExists path = false)
    (hn : n = path ∨ isUnder path n = true) : fs.read n = none := by
  unfold FS.pathExists at hfree
  rw [Bool.or_eq_false_iff] at hfree
  refine lookup_none_of_any fs.files n (fun s => s == path || isUnder path s) ?_ hfree.1
  rcases hn with h | h <;> simp [h]

theorem read_joinPath_of_free (fs : FS) (path x : Str) (hfree : fs.pathExists path = false) :
    fs.read (joinPath path x) = none :=
  read_none_of_free fs path _ hfree (Or.inr (isUnder_joinPath path x))

theorem read_path_of_free (fs : FS) (path : Str) (hfree : fs.pathExists path = false) :
    fs.read path = none :=
  read_none_of_free fs path _ hfree (Or.inl rfl)

/-! ### names -/

theorem joinPath_inj (path a b : Str) (h : joinPath path a = joinPath path b) : a = b :=
  List.append_cancel_left h

theorem joinPath_ne_self (path x : Str) : joinPath path x ≠ path := by
  intro h
  have := congrArg List.length h
  simp [joinPath] at this

/-- parse a decimal digit string back (left inverse of `pad5`) -/
def parseNat (s : Str) : Nat := s.foldl (fun acc c => acc * 10 + (c.toNat - 48)) 0

theorem digitChar_val (d : Nat) : (digitChar d).toNat - 48 = d % 10 := by
  have h : ∀ k, k < 10 → (Char.ofNat (48 + k)).toNat - 48 = k := by decide
  exact h (d % 10) (Nat.mod_lt _ (by decide))

theorem parseNat_append_single (s : Str) (c : Char) :
    parseNat (s ++ [c]) = parseNat s * 10 + (c.toNat - 48) := by
  simp [parseNat, List.foldl_append]

theorem parseNat_natDigitsAux : ∀ (fuel n : Nat), n ≤ fuel + 9 → parseNat (natDigitsAux fuel n) = n := by
  intro fuel
  induction fuel with
  | zero =>
    intro n hn
    simp only [natDigitsAux, parseNat, List.foldl_cons, List.foldl_nil, digitChar_val]
    omega
  | succ fuel ih =>
    intro n hn
    unfold natDigitsAux
    split
    · simp only [parseNat, List.foldl_cons, List.foldl_nil, digitChar_val]
      omega
    · rw [parseNat_append_single, ih (n / 10) (by omega), digitChar_val]
      omega

theorem parseNat_replicate_zero (k : Nat) (s : Str) :
    parseNat (List.replicate k '0' ++ s) = parseNat s := by
  induction k with
  | zero => simp
  | succ k ih =>
    have : parseNat ('0' :: (List.replicate k '0' ++ s)) = parseNat (List.replicate k '0' ++ s) := by
      simp [parseNat]
    simpa [List.replicate_succ] using this.trans ih

theorem parseNat_pad5 (i : Nat) : parseNat (pad5 i) = i := by
  unfold pad5
  simp only [parseNat_replicate_zero]
  exact parseNat_natDigitsAux i i (by omega)

theorem pad5_inj (i j : Nat) (h : pad5 i = pad5 j) : i = j := by
  have := congrArg parseNat h
  simpa [parseNat_pad5] using this

theorem partName_inj (i j : Nat) (s : Str) (h : partName i s = partName j s) : i = j := by
  unfold partName at h
  exact pad5_inj i j (List.append_cancel_left (List.append_cancel_right h))

theorem partPath_inj (path s : Str) (i j : Nat)
    (h : joinPath path (partName i s) = joinPath path (partName j s)) : i = j :=
  partName_inj i j s (joinPath_inj path _ _ h)

theorem marker_ne_partName (i : Nat) (s : Str) : marker ≠ partName i s := by
  intro h
  have h1 : marker = '_' :: "SUCCESS".toList := by decide
  have h2 : partName i s = 'p' :: ("art-".toList ++ pad5 i ++ s) := by
    have : "part-".toList = 'p' :: "art-".toList := by decide
    simp [partName, this]
  rw [h1, h2] at h
  exact absurd (List.cons.inj h).1 (by decide)

theorem markerPath_ne_partPath (path s : Str) (i : Nat) :
    joinPath path marker ≠ joinPath path (partName i s) :=
  fun h => marker_ne_partName i s (joinPath_inj path _ _ h)

/-! ### one write -/

theorem tryWrite_read_ne (wfail : Nat → Bool) (st : St) (name text n' : Str) (h : n' ≠ name) :
    (tryWrite wfail st name text).1.fs.read n' = st.fs.read n' := by
  unfold tryWrite
  split
  · rfl
  · exact read_write_ne _ _ _ _ h

theorem tryWrite_ok_read (wfail : Nat → Bool) (st : St) (name text : Str)
    (h : (tryWrite wfail st name text).2 = true) :
    (tryWrite wfail st name text).1.fs.read name = some ⟨getCodec name, text⟩ := by
  unfold tryWrite at h ⊢
  split
  · rename_i hw; simp [hw] at h
  · exact read_write_self _ _ _

theorem tryWrite_fail_fs (wfail : Nat → Bool) (st : St) (name text : Str)
    (h : (tryWrite wfail st name text).2 = false) :
    (tryWrite wfail st name text).1.fs = st.fs := by
  unfold tryWrite at h ⊢
  split
  · rfl
  · rename_i hw; simp [hw] at h

theorem tryWrite_nofault (st : St) (name text : Str) :
    (tryWrite (fun _ => false) st name text).2 = true := by
  simp [tryWrite]

/-! ### one partition task -/

theorem savePart_succ (maxR : Nat) (wfail : Nat → Bool) (cfail : Nat → Bool) (name text : Str)
    (fuel attempt : Nat) (st : St) :
    savePart maxR wfail cfail name text (fuel + 1) attempt st =
      if cfail attempt then
        (if attempt + 1 = maxR then (st, false)
         else savePart maxR wfail cfail name text fuel (attempt + 1) st)
      else if (tryWrite wfail st name text).2 then ((tryWrite wfail st name text).1, true)
      else if attempt + 1 = maxR then ((tryWrite wfail st name text).1, false)
      else savePart maxR wfail cfail name text fuel (attempt + 1) (tryWrite wfail st name text).1 := by
  simp only [savePart, Nat.add_sub_cancel]

theorem savePart_read_ne (maxR : Nat) (wfail : Nat → Bool) (cfail : Nat → Bool) (name text n' : Str)
    (h : n' ≠ name) : ∀ (fuel attempt : Nat) (st : St),
    (savePart maxR wfail cfail name text fuel attempt st).1.fs.read n' = st.fs.read n' := by
  intro fuel
  induction fuel with
  | zero => intro attempt st; rfl
  | succ fuel ih =>
    intro attempt st
    rw [savePart_succ]
    split
    · split
      · rfl
      · exact ih _ _
    · split
      · exact tryWrite_read_ne _ _ _ _ _ h
      · split
        · exact tryWrite_read_ne _ _ _ _ _ h
        · rw [ih]; exact tryWrite_read_ne _ _ _ _ _ h

theorem savePart_ok_read (maxR : Nat) (wfail : Nat → Bool) (cfail : Nat → Bool) (name text : Str) :
    ∀ (fuel attempt : Nat) (st : St),
    (savePart maxR wfail cfail name text fuel attempt st).2 = true →
    (savePart maxR wfail cfail name text fuel attempt st).1.fs.read name =
      some ⟨getCodec name, text⟩ := by
  intro fuel
  induction fuel with
  | zero => intro attempt st h; simp [savePart] at h
  | succ fuel ih =>
    intro attempt st
    rw [savePart_succ]
    split
    · split
      · intro h; simp at h
      · exact ih _ _
    · split
      · rename_i hw; intro _; exact tryWrite_ok_read _ _ _ _ hw
      · split
        · intro h; simp at h
        · exact ih _ _

theorem savePart_all_fail (maxR : Nat) (wfail : Nat → Bool) (cfail : Nat → Bool) (name text : Str)
    (hc : ∀ a, cfail a = true) : ∀ (fuel attempt : Nat) (st : St),
    (savePart maxR wfail cfail name text fuel attempt st).2 = false := by
  intro fuel
  induction fuel with
  | zero => intro attempt st; rfl
  | succ fuel ih =>
    intro attempt st
    rw [savePart_succ, hc attempt]
    simp only [if_true]
    split
    · rfl
    · exact ih _ _

theorem savePart_nofault (maxR : Nat) (hm : 1 ≤ maxR) (name text : Str) (st : St) :
    (savePart maxR (fun _ => false) (fun _ => false) name text maxR 0 st).2 = true := by
  obtain ⟨m, rfl⟩ : ∃ m, maxR = m + 1 := ⟨maxR - 1, by omega⟩
  rw [savePart_succ]
  simp [tryWrite_nofault]

/-! ### all partitions -/

theorem saveParts_cons (maxR : Nat) (wfail : Nat → Bool) (cfail : Nat → Nat → Bool) (path suffix : Str)
    (p : List Str) (ps : List (List Str)) (i : Nat) (st : St) :
    saveParts maxR wfail cfail path suffix (p :: ps) i st =
      if (savePart maxR wfail (cfail i) (joinPath path (partName i suffix)) (encodePart p) maxR 0 st).2
      then saveParts maxR wfail cfail path suffix ps (i + 1)
        (savePart maxR wfail (cfail i) (joinPath path (partName i suffix)) (encodePart p) maxR 0 st).1
      else ((savePart maxR wfail (cfail i) (joinPath path (partName i suffix)) (encodePart p) maxR 0 st).1,
        false) := by
  simp only [saveParts]

/-- (a) `saveParts` only touches the part files of the indices it processes -/
theorem saveParts_read_ne (maxR : Nat) (wfail : Nat → Bool) (cfail : Nat → Nat → Bool)
    (path suffix n' : Str) : ∀ (ps : List (List Str)) (i : Nat) (st : St),
    (∀ j, i ≤ j → n' ≠ joinPath path (partName j suffix)) →
    (saveParts maxR wfail cfail path suffix ps i st).1.fs.read n' = st.fs.read n' := by
  intro ps
  induction ps with
  | nil => intro i st _; rfl
  | cons p ps ih =>
    intro i st h
    rw [saveParts_cons]
    split
    · rw [ih _ _ (fun j hj => h j (by omega))]
      exact savePart_read_ne _ _ _ _ _ _ (h i (Nat.le_refl _)) _ _ _
    · exact savePart_read_ne _ _ _ _ _ _ (h i (Nat.le_refl _)) _ _ _

/-- (b) after a successful `saveParts` every processed part file holds its partition's text -/
theorem saveParts_ok_read (maxR : Nat) (wfail : Nat → Bool) (cfail : Nat → Nat → Bool)
    (path suffix : Str) : ∀ (ps : List (List Str)) (i : Nat) (st : St),
    (saveParts maxR wfail cfail path suffix ps i st).2 = true →
    ∀ (j : Nat) (hj : j < ps.length),
      (saveParts maxR wfail cfail path suffix ps i st).1.fs.read
          (joinPath path (partName (i + j) suffix)) =
        some ⟨getCodec (joinPath path (partName (i + j) suffix)), encodePart ps[j]⟩ := by
  intro ps
  induction ps with
  | nil => intro i st _ j hj; simp at hj
  | cons p ps ih =>
    intro i st
    rw [saveParts_cons]
    split
    · rename_i hok
      intro h j hj
      cases j with
      | zero =>
        rw [saveParts_read_ne]
        · exact savePart_ok_read _ _ _ _ _ _ _ _ hok
        · intro j' hj' he
          have := partPath_inj path suffix _ _ he
          omega
      | succ j =>
        have := ih (i + 1) _ h j (by simpa using hj)
        simpa [Nat.add_assoc, Nat.add_comm 1 j] using this
    · intro h; simp at h

theorem saveParts_fail (maxR : Nat) (wfail : Nat → Bool) (cfail : Nat → Nat → Bool)
    (path suffix : Str) (k : Nat) (hc : ∀ a, cfail k a = true) :
    ∀ (ps : List (List Str)) (i : Nat) (st : St), i ≤ k → k < i + ps.length →
    (saveParts maxR wfail cfail path suffix ps i st).2 = false := by
  intro ps
  induction ps with
  | nil => intro i st h1 h2; simp at h2; omega
  | cons p ps ih =>
    intro i st h1 h2
    rw [saveParts_cons]
    by_cases hik : i = k
    · subst hik
      rw [savePart_all_fail _ _ _ _ _ hc]
      rfl
    · split
      · exact ih _ _ (by omega) (by simp at h2; omega)
      · rfl

theorem saveParts_nofault (maxR : Nat) (hm : 1 ≤ maxR) (path suffix : Str) :
    ∀ (ps : List (List Str)) (i : Nat) (st : St),
    (saveParts maxR (fun _ => false) (fun _ _ => false) path suffix ps i st).2 = true := by
  intro ps
  induction ps with
  | nil => intro i st; rfl
  | cons p ps ih =>
    intro i st
    rw [saveParts_cons, savePart_nofault maxR hm]
    simpa using ih _ _

/-! ### `saveText` unfolded -/

theorem saveText_exists (fs : FS) (path : Str) (parts : List (List Str)) (maxR : Nat)
    (wfail : Nat → Bool) (cfail : Nat → Nat → Bool) (h : fs.pathExists path = true) :
    saveText fs path parts maxR wfail cfail = (fs, .alreadyExists) := by
  simp [saveText, h]

theorem saveText_single (fs : FS) (path : Str) (p : List Str) (maxR : Nat)
    (wfail : Nat → Bool) (cfail : Nat → Nat → Bool) (hfree : fs.pathExists path = false) :
    saveText fs path [p] maxR wfail cfail =
      if computeOk maxR (cfail 0) then
        ((tryWrite wfail ⟨fs, 0⟩ path (encodePart p)).1.fs,
          if (tryWrite wfail ⟨fs, 0⟩ path (encodePart p)).2 then .ok else .failed)
      else (fs, .failed) := by
  simp only [saveText, hfree]
  rfl

theorem saveText_multi (fs : FS) (path : Str) (parts : List (List Str)) (maxR : Nat)
    (wfail : Nat → Bool) (cfail : Nat → Nat → Bool) (hfree : fs.pathExists path = false)
    (hn : parts.length ≠ 1) :
    saveText fs path parts maxR wfail cfail =
      if (saveParts maxR wfail cfail path (codecSuffix path) parts 0 ⟨fs, 0⟩).2 then
        ((tryWrite wfail (saveParts maxR wfail cfail path (codecSuffix path) parts 0 ⟨fs, 0⟩).1
            (joinPath path marker) []).1.fs,
          if (tryWrite wfail (saveParts maxR wfail cfail path (codecSuffix path) parts 0 ⟨fs, 0⟩).1
            (joinPath path marker) []).2 then .ok else .failed)
      else ((saveParts maxR wfail cfail path (codecSuffix path) parts 0 ⟨fs, 0⟩).1.fs, .failed) := by
  match parts, hn with
  | [], _ => simp only [saveText, hfree]; rfl
  | [p], hn => simp at hn
  | p :: q :: ps, _ => simp only [saveText, hfree]; rfl

/-- the file system after the part-writing phase still has no marker -/
theorem saveParts_marker_none (fs : FS) (path suffix : Str) (parts : List (List Str)) (maxR : Nat)
    (wfail : Nat → Bool) (cfail : Nat → Nat → Bool) (hfree : fs.pathExists path = false) :
    (saveParts maxR wfail cfail path suffix parts 0 ⟨fs, 0⟩).1.fs.read (joinPath path marker) = none := by
  rw [saveParts_read_ne _ _ _ _ _ _ _ _ _ (fun j _ => markerPath_ne_partPath path suffix j)]
  exact read_joinPath_of_free fs path marker hfree

theorem computeOk_nofault (maxR : Nat) (hm : 1 ≤ maxR) : computeOk maxR (fun _ => false) = true := by
  obtain ⟨m, rfl⟩ : ∃ m, maxR = m + 1 := ⟨maxR - 1, by omega⟩
  simp [computeOk, List.range_succ]

/-! ### torn writes (`tryWriteT`, `savePartT`, `savePartsT`, `saveTextT`) -/

theorem tryWriteT_notorn (wfail : Nat → Bool) :
    tryWriteT wfail (fun _ => false) = tryWrite wfail := by
  funext st name text
  simp [tryWriteT, tryWrite]

theorem savePartT_notorn (maxR : Nat) (wfail : Nat → Bool) (cfail : Nat → Bool) (name text : Str) :
    ∀ (fuel attempt : Nat) (st : St),
    savePartT maxR wfail (fun _ => false) cfail name text fuel attempt st =
      savePart maxR wfail cfail name text fuel attempt st := by
  intro fuel
  induction fuel with
  | zero => intro attempt st; rfl
  | succ fuel ih =>
    intro attempt st
    simp only [savePartT, savePart, tryWriteT_notorn, ih]

theorem savePartsT_notorn (maxR : Nat) (wfail : Nat → Bool) (cfail : Nat → Nat → Bool)
    (path suffix : Str) : ∀ (ps : List (List Str)) (i : Nat) (st : St),
    savePartsT maxR wfail (fun _ => false) cfail path suffix ps i st =
      saveParts maxR wfail cfail path suffix ps i st := by
  intro ps
  induction ps with
  | nil => intro i st; rfl
  | cons p ps ih =>
    intro i st
    simp only [savePartsT, saveParts, savePartT_notorn, ih]

theorem saveTextT_notorn (fs : FS) (path : Str) (parts : List (List Str)) (maxR : Nat)
    (wfail : Nat → Bool) (cfail : Nat → Nat → Bool) :
    saveTextT fs path parts maxR wfail (fun _ => false) cfail =
      saveText fs path parts maxR wfail cfail := by
  simp only [saveTextT, saveText, tryWriteT_notorn, savePartsT_notorn]

theorem tryWriteT_read_ne (wfail torn : Nat → Bool) (st : St) (name text n' : Str) (h : n' ≠ name) :
    (tryWriteT wfail torn st name text).1.fs.read n' = st.fs.read n' := by
  unfold tryWriteT
  split
  · show (if torn st.w = true then _ else st.fs).read n' = _
    split
    · exact read_write_ne _ _ _ _ h
    · rfl
  · exact read_write_ne _ _ _ _ h

theorem tryWriteT_ok_read (wfail torn : Nat → Bool) (st : St) (name text : Str)
    (h : (tryWriteT wfail torn st name text).2 = true) :
    (tryWriteT wfail torn st name text).1.fs.read name = some ⟨getCodec name, text⟩ := by
  unfold tryWriteT at h ⊢
  split
  · rename_i hw; simp [hw] at h
  · exact read_write_self _ _ _

theorem savePartT_succ (maxR : Nat) (wfail torn : Nat → Bool) (cfail : Nat → Bool) (name text : Str)
    (fuel attempt : Nat) (st : St) :
    savePartT maxR wfail torn cfail name text (fuel + 1) attempt st =
      if cfail attempt then
        (if attempt + 1 = maxR then (st, false)
         else savePartT maxR wfail torn cfail name text fuel (attempt + 1) st)
      else if (tryWriteT wfail torn st name text).2 then ((tryWriteT wfail torn st name text).1, true)
      else if attempt + 1 = maxR then ((tryWriteT wfail torn st name text).1, false)
      else savePartT maxR wfail torn cfail name text fuel (attempt + 1)
        (tryWriteT wfail torn st name text).1 := by
  simp only [savePartT, Nat.add_sub_cancel]

theorem savePartT_read_ne (maxR : Nat) (wfail torn : Nat → Bool) (cfail : Nat → Bool)
    (name text n' : Str) (h : n' ≠ name) : ∀ (fuel attempt : Nat) (st : St),
    (savePartT maxR wfail torn cfail name text fuel attempt st).1.fs.read n' = st.fs.read n' := by
  intro fuel
  induction fuel with
  | zero => intro attempt st; rfl
  | succ fuel ih =>
    intro attempt st
    rw [savePartT_succ]
    split
    · split
      · rfl
      · exact ih _ _
    · split
      · exact tryWriteT_read_ne _ _ _ _ _ _ h
      · split
        · exact tryWriteT_read_ne _ _ _ _ _ _ h
        · rw [ih]; exact tryWriteT_read_ne _ _ _ _ _ _ h

/-- a partition task that succeeds ends with a complete write of its file: whatever torn earlier
attempts left under that name has been overwritten -/
theorem savePartT_ok_read (maxR : Nat) (wfail torn : Nat → Bool) (cfail : Nat → Bool)
    (name text : Str) : ∀ (fuel attempt : Nat) (st : St),
    (savePartT maxR wfail torn cfail name text fuel attempt st).2 = true →
    (savePartT maxR wfail torn cfail name text fuel attempt st).1.fs.read name =
      some ⟨getCodec name, text⟩ := by
  intro fuel
  induction fuel with
  | zero => intro attempt st h; simp [savePartT] at h
  | succ fuel ih =>
    intro attempt st
    rw [savePartT_succ]
    split
    · split
      · intro h; simp at h
      · exact ih _ _
    · split
      · rename_i hw; intro _; exact tryWriteT_ok_read _ _ _ _ _ hw
      · split
        · intro h; simp at h
        · exact ih _ _

theorem savePartsT_cons (maxR : Nat) (wfail torn : Nat → Bool) (cfail : Nat → Nat → Bool)
    (path suffix : Str) (p : List Str) (ps : List (List Str)) (i : Nat) (st : St) :
    savePartsT maxR wfail torn cfail path suffix (p :: ps) i st =
      if (savePartT maxR wfail torn (cfail i) (joinPath path (partName i suffix)) (encodePart p) maxR 0 st).2
      then savePartsT maxR wfail torn cfail path suffix ps (i + 1)
        (savePartT maxR wfail torn (cfail i) (joinPath path (partName i suffix)) (encodePart p) maxR 0 st).1
      else ((savePartT maxR wfail torn (cfail i) (joinPath path (partName i suffix)) (encodePart p) maxR 0 st).1,
        false) := by
  simp only [savePartsT]

/-- (a) `savePartsT` (complete, failed and torn writes alike) only touches the part files of the
indices it processes -/
theorem savePartsT_read_ne (maxR : Nat) (wfail torn : Nat → Bool) (cfail : Nat → Nat → Bool)
    (path suffix n' : Str) : ∀ (ps : List (List Str)) (i : Nat) (st : St),
    (∀ j, i ≤ j → n' ≠ joinPath path (partName j suffix)) →
    (savePartsT maxR wfail torn cfail path suffix ps i st).1.fs.read n' = st.fs.read n' := by
  intro ps
  induction ps with
  | nil => intro i st _; rfl
  | cons p ps ih =>
    intro i st h
    rw [savePartsT_cons]
    split
    · rw [ih _ _ (fun j hj => h j (by omega))]
      exact savePartT_read_ne _ _ _ _ _ _ _ (h i (Nat.le_refl _)) _ _ _
    · exact savePartT_read_ne _ _ _ _ _ _ _ (h i (Nat.le_refl _)) _ _ _

/-- (b) after a successful `savePartsT` every processed part file holds its partition's full text -/
theorem savePartsT_ok_read (maxR : Nat) (wfail torn : Nat → Bool) (cfail : Nat → Nat → Bool)
    (path suffix : Str) : ∀ (ps : List (List Str)) (i : Nat) (st : St),
    (savePartsT maxR wfail torn cfail path suffix ps i st).2 = true →
    ∀ (j : Nat) (hj : j < ps.length),
      (savePartsT maxR wfail torn cfail path suffix ps i st).1.fs.read
          (joinPath path (partName (i + j) suffix)) =
        some ⟨getCodec (joinPath path (partName (i + j) suffix)), encodePart ps[j]⟩ := by
  intro ps
  induction ps with
  | nil => intro i st _ j hj; simp at hj
  | cons p ps ih =>
    intro i st
    rw [savePartsT_cons]
    split
    · rename_i hok
      intro h j hj
      cases j with
      | zero =>
        rw [savePartsT_read_ne]
        · exact savePartT_ok_read _ _ _ _ _ _ _ _ _ hok
        · intro j' hj' he
          have := partPath_inj path suffix _ _ he
          omega
      | succ j =>
        have := ih (i + 1) _ h j (by simpa using hj)
        simpa [Nat.add_assoc, Nat.add_comm 1 j] using this
    · intro h; simp at h

theorem saveTextT_exists (fs : FS) (path : Str) (parts : List (List Str)) (maxR : Nat)
    (wfail torn : Nat → Bool) (cfail : Nat → Nat → Bool) (h : fs.pathExists path = true) :
    saveTextT fs path parts maxR wfail torn cfail = (fs, .alreadyExists) := by
  simp [saveTextT, h]

theorem saveTextT_multi (fs : FS) (path : Str) (parts : List (List Str)) (maxR : Nat)
    (wfail torn : Nat → Bool) (cfail : Nat → Nat → Bool) (hfree : fs.pathExists path = false)
    (hn : parts.length ≠ 1) :
    saveTextT fs path parts maxR wfail torn cfail =
      if (savePartsT maxR wfail torn cfail path (codecSuffix path) parts 0 ⟨fs, 0⟩).2 then
        ((tryWriteT wfail torn (savePartsT maxR wfail torn cfail path (codecSuffix path) parts 0 ⟨fs, 0⟩).1
            (joinPath path marker) []).1.fs,
          if (tryWriteT wfail torn (savePartsT maxR wfail torn cfail path (codecSuffix path) parts 0 ⟨fs, 0⟩).1
            (joinPath path marker) []).2 then .ok else .failed)
      else ((savePartsT maxR wfail torn cfail path (codecSuffix path) parts 0 ⟨fs, 0⟩).1.fs, .failed) := by
  match parts, hn with
  | [], _ => simp only [saveTextT, hfree]; rfl
  | [p], hn => simp at hn
  | p :: q :: ps, _ => simp only [saveTextT, hfree]; rfl

/-- the file system after the part-writing phase still has no marker, torn writes or not -/
theorem savePartsT_marker_none (fs : FS) (path suffix : Str) (parts : List (List Str)) (maxR : Nat)
    (wfail torn : Nat → Bool) (cfail : Nat → Nat → Bool) (hfree : fs.pathExists path = false) :
    (savePartsT maxR wfail torn cfail path suffix parts 0 ⟨fs, 0⟩).1.fs.read (joinPath path marker) = none := by
  rw [savePartsT_read_ne _ _ _ _ _ _ _ _ _ _ (fun j _ => markerPath_ne_partPath path suffix j)]
  exact read_joinPath_of_free fs path marker hfree

end PysparklingVerif.Save
