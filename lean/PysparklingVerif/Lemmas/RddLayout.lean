/-
  Helper lemmas for C07 (partition layout): `consume`, `bound`, `coalesceMapping`, unique ids.
-/
import PysparklingVerif.Model.Rdd
namespace PysparklingVerif.Rdd

variable {α β : Type}

/-! ### consume -/

theorem consume_length (sizes : List Nat) (xs : List α) : (consume sizes xs).length = sizes.length := by
  induction sizes generalizing xs with
  | nil => rfl
  | cons k ks ih => simp [consume, ih]

theorem consume_flat (sizes : List Nat) (xs : List α) : flat (consume sizes xs) = xs.take sizes.sum := by
  induction sizes generalizing xs with
  | nil => simp [consume, flat]
  | cons k ks ih =>
    have := ih (xs.drop k)
    simp only [flat] at this ⊢
    simp only [consume, List.flatten_cons, this, List.sum_cons, List.take_add]

theorem consume_getElem? (sizes : List Nat) (xs : List α) (i : Nat) (h : i < sizes.length) :
    (consume sizes xs)[i]? = some ((xs.drop (sizes.take i).sum).take sizes[i]) := by
  induction sizes generalizing xs i with
  | nil => simp at h
  | cons k ks ih =>
    cases i with
    | zero => simp [consume]
    | succ i =>
      have h' : i < ks.length := by simpa using h
      simp [consume, ih _ _ h', List.drop_drop]

/-! ### bound -/

theorem bound_zero (len n : Nat) : bound 0 len n = 0 := by simp [bound]

theorem bound_self (len n : Nat) (h : 0 < n) : bound n len n = len := by
  simp [bound, Nat.mul_div_cancel_left _ h]

theorem bound_mono (len n : Nat) {i j : Nat} (h : i ≤ j) : bound i len n ≤ bound j len n :=
  Nat.div_le_div_right (Nat.mul_le_mul_right _ h)

theorem bound_le_len (len n i : Nat) (h : i ≤ n) : bound i len n ≤ len := by
  rcases Nat.eq_zero_or_pos n with rfl | hn
  · simp [bound]
  · simpa [bound_self len n hn] using bound_mono len n h

theorem bound_step (len n i : Nat) (hn : 0 < n) :
    len / n ≤ bound (i + 1) len n - bound i len n ∧ bound (i + 1) len n - bound i len n ≤ len / n + 1 := by
  unfold bound
  rw [Nat.add_mul, Nat.one_mul, Nat.add_div hn]
  generalize i * len / n = a
  generalize len / n = d
  split <;> omega

theorem sum_sliceSize_prefix (len n k : Nat) (hk : k < n) :
    ((List.range k).map (sliceSize len n)).sum = bound k len n := by
  induction k with
  | zero => simp [bound_zero]
  | succ k ih =>
    have := ih (by omega)
    have hm := bound_mono len n (Nat.le_add_right k 1)
    have hne : ¬ (k + 1 = n) := by omega
    simp only [List.range_succ, List.map_append, List.sum_append, this, List.map_cons, List.map_nil,
      List.sum_cons, List.sum_nil, sliceSize, hne, if_false]
    omega

theorem sum_sliceSize_ge (len n k : Nat) :
    bound k len n ≤ ((List.range k).map (sliceSize len n)).sum := by
  induction k with
  | zero => simp [bound_zero]
  | succ k ih =>
    have hm := bound_mono len n (Nat.le_add_right k 1)
    simp only [List.range_succ, List.map_append, List.sum_append, List.map_cons, List.map_nil,
      List.sum_cons, List.sum_nil, sliceSize]
    omega

/-! ### parallelize -/

theorem parallelize_of_lt (xs : List α) (n : Nat) (h : 1 < n) :
    parallelize xs n = consume ((List.range n).map (sliceSize xs.length n)) xs := by
  have : ¬ n ≤ 1 := by omega
  simp [parallelize, this]

theorem parallelize_getElem? (xs : List α) (n : Nat) (h : 1 < n) (i : Nat) (hi : i < n) :
    (parallelize xs n)[i]? =
      some ((xs.drop (bound i xs.length n)).take (bound (i + 1) xs.length n - bound i xs.length n)) := by
  rw [parallelize_of_lt xs n h, consume_getElem? _ _ i (by simpa using hi)]
  have htake : ((List.range n).map (sliceSize xs.length n)).take i
      = (List.range i).map (sliceSize xs.length n) := by
    rw [← List.map_take, List.take_range, Nat.min_eq_left (Nat.le_of_lt hi)]
  rw [htake, sum_sliceSize_prefix _ _ _ hi]
  simp only [List.getElem_map, List.getElem_range, sliceSize]
  by_cases hl : i + 1 = n
  · subst hl
    have hb : bound (i + 1) xs.length (i + 1) = xs.length := bound_self _ _ (by omega)
    have hle := bound_le_len xs.length (i + 1) i (by omega)
    simp only [if_true]
    rw [List.take_of_length_le (by simp; omega), List.take_of_length_le (by simp; omega)]
  · simp [hl]

theorem parallelize_mem_length (xs : List α) (n : Nat) (h : 1 < n) (p : List α)
    (hp : p ∈ parallelize xs n) : xs.length / n ≤ p.length ∧ p.length ≤ xs.length / n + 1 := by
  obtain ⟨i, hi⟩ := List.mem_iff_getElem?.mp hp
  have hlen : (parallelize xs n).length = n := by
    rw [parallelize_of_lt xs n h, consume_length]; simp
  have hin : i < n := by
    have := (List.getElem?_eq_some_iff.mp hi).1
    omega
  rw [parallelize_getElem? xs n h i hin] at hi
  have hp' := Option.some.inj hi
  have hs := bound_step xs.length n i (by omega)
  have hle := bound_le_len xs.length n (i + 1) (by omega)
  subst hp'
  simp only [List.length_take, List.length_drop]
  omega

/-! ### coalesce -/

/-- the mapping produced by block sizes `sizes`, first block numbered `o` -/
def blocks : Nat → List Nat → List Nat
  | _, [] => []
  | o, s :: ss => List.replicate s o ++ blocks (o + 1) ss

theorem blocks_ge {o : Nat} {sizes : List Nat} {a : Nat} (h : a ∈ blocks o sizes) : o ≤ a := by
  induction sizes generalizing o with
  | nil => simp [blocks] at h
  | cons s ss ih =>
    simp only [blocks, List.mem_append, List.mem_replicate] at h
    rcases h with h | h
    · omega
    · have := ih h; omega

theorem blocks_append (o : Nat) (a b : List Nat) :
    blocks o (a ++ b) = blocks o a ++ blocks (o + a.length) b := by
  induction a generalizing o with
  | nil => simp [blocks]
  | cons s ss ih =>
    simp only [List.cons_append, blocks, ih, List.append_assoc, List.length_cons]
    congr 3; omega

theorem blocks_replicate (o k s : Nat) :
    blocks o (List.replicate k s) = (List.range' o k).flatMap fun p => List.replicate s p := by
  induction k generalizing o with
  | zero => simp [blocks]
  | succ k ih => simp [List.replicate_succ, blocks, ih, List.range'_succ]

/-- the `j`-th output partition of `coalesce` for mapping `mp` -/
def group (mp : List Nat) (ps : Parts α) (j : Nat) : List α :=
  ((mp.zip ps).filter (fun e => e.1 == j)).flatMap (·.2)

theorem group_blocks (sizes : List Nat) (o : Nat) (ps : Parts α) (h : sizes.sum ≤ ps.length) :
    (List.range' o sizes.length).map (group (blocks o sizes) ps) = (consume sizes ps).map flat := by
  induction sizes generalizing o ps with
  | nil => simp [consume]
  | cons s ss ih =>
    simp only [List.sum_cons] at h
    have hlen : (List.replicate s o).length = (ps.take s).length := by
      simp only [List.length_replicate, List.length_take]; omega
    have hzip : (blocks o (s :: ss)).zip ps
        = (List.replicate s o).zip (ps.take s) ++ (blocks (o + 1) ss).zip (ps.drop s) := by
      conv => lhs; rw [← List.take_append_drop s ps]
      exact List.zip_append hlen
    simp only [List.length_cons, List.range'_succ, List.map_cons, consume]
    congr 1
    · -- block `o`
      simp only [group, hzip, List.filter_append]
      have h1 : ((List.replicate s o).zip (ps.take s)).filter (fun e => e.1 == o)
          = (List.replicate s o).zip (ps.take s) := by
        rw [List.filter_eq_self]
        rintro ⟨a, b⟩ hab
        have := (List.of_mem_zip hab).1
        simp only [List.mem_replicate] at this
        simp [this.2]
      have h2 : ((blocks (o + 1) ss).zip (ps.drop s)).filter (fun e => e.1 == o) = [] := by
        rw [List.filter_eq_nil_iff]
        rintro ⟨a, b⟩ hab
        have := blocks_ge (List.of_mem_zip hab).1
        simp only [beq_iff_eq]; omega
      rw [h1, h2, List.append_nil, List.flatMap_def, flat]
      congr 1
      exact List.map_snd_zip (by simp only [List.length_replicate, List.length_take]; omega)
    · -- later blocks
      rw [← ih (o + 1) (ps.drop s) (by simp only [List.length_drop]; omega)]
      apply List.map_congr_left
      intro j hj
      have hj' : o + 1 ≤ j := (List.mem_range'_1.mp hj).1
      simp only [group, hzip, List.filter_append]
      have h1 : ((List.replicate s o).zip (ps.take s)).filter (fun e => e.1 == j) = [] := by
        rw [List.filter_eq_nil_iff]
        rintro ⟨a, b⟩ hab
        have := (List.of_mem_zip hab).1
        simp only [List.mem_replicate] at this
        simp only [beq_iff_eq]; omega
      rw [h1, List.nil_append]

/-- block sizes of `coalesce`: `cur % new` big blocks then the small ones -/
def coalesceSizes (cur m : Nat) : List Nat :=
  List.replicate (cur % min m cur) (cur / min m cur + 1) ++
  List.replicate (min m cur - cur % min m cur) (cur / min m cur)

theorem coalesceMapping_eq_blocks (cur m : Nat) :
    coalesceMapping cur m = blocks 0 (coalesceSizes cur m) := by
  simp only [coalesceMapping, coalesceSizes, blocks_append, blocks_replicate, List.range_eq_range',
    List.length_replicate, Nat.zero_add]

theorem coalesce_mod_le (cur m : Nat) (hm : 1 ≤ m) : cur % min m cur ≤ min m cur := by
  rcases Nat.eq_zero_or_pos cur with rfl | hc
  · simp
  · exact Nat.le_of_lt (Nat.mod_lt _ (by omega))

theorem coalesceSizes_length (cur m : Nat) (hm : 1 ≤ m) :
    (coalesceSizes cur m).length = min m cur := by
  have := coalesce_mod_le cur m hm
  simp only [coalesceSizes, List.length_append, List.length_replicate]
  omega

theorem coalesceSizes_sum (cur m : Nat) (hm : 1 ≤ m) : (coalesceSizes cur m).sum = cur := by
  have hle := coalesce_mod_le cur m hm
  have hdm := Nat.div_add_mod cur (min m cur)
  simp only [coalesceSizes, List.sum_append, List.sum_replicate_nat, Nat.sub_mul, Nat.mul_add,
    Nat.mul_one]
  have := Nat.mul_le_mul_right (cur / min m cur) hle
  generalize cur % min m cur * (cur / min m cur) = a at *
  generalize min m cur * (cur / min m cur) = b at *
  omega

theorem coalesceSizes_balanced (cur m : Nat) :
    ∀ a ∈ coalesceSizes cur m, ∀ b ∈ coalesceSizes cur m, a ≤ b + 1 := by
  intro a ha b hb
  simp only [coalesceSizes, List.mem_append, List.mem_replicate] at ha hb
  omega

theorem coalesce_eq_consume (ps : Parts α) (m : Nat) (hm : 1 ≤ m) :
    coalesce m ps = (consume (coalesceSizes ps.length m) ps).map flat := by
  have h := group_blocks (coalesceSizes ps.length m) 0 ps (by rw [coalesceSizes_sum _ _ hm]; exact Nat.le_refl _)
  rw [← h, coalesceSizes_length _ _ hm, ← List.range_eq_range', ← coalesceMapping_eq_blocks]
  rfl

/-! ### partitionBy -/

theorem filter_lt_succ_perm (g : α → Nat) (n : Nat) (xs : List α) :
    (xs.filter (fun x => decide (g x < n)) ++ xs.filter (fun x => g x == n)).Perm
      (xs.filter (fun x => decide (g x < n + 1))) := by
  induction xs with
  | nil => simp
  | cons x xs ih =>
    rcases Nat.lt_trichotomy (g x) n with h | h | h
    · have h1 : g x < n + 1 := by omega
      have h2 : ¬ g x = n := by omega
      simpa [List.filter_cons, h, h1, h2] using ih
    · have h1 : g x < n + 1 := by omega
      have h2 : ¬ g x < n := by omega
      rw [List.filter_cons_of_neg (by simpa using h2), List.filter_cons_of_pos (by simpa using h),
        List.filter_cons_of_pos (by simpa using h1)]
      exact List.perm_middle.trans (List.Perm.cons _ ih)
    · have h1 : ¬ g x < n + 1 := by omega
      have h2 : ¬ g x < n := by omega
      have h3 : ¬ g x = n := by omega
      simpa [List.filter_cons, h1, h2, h3] using ih

theorem buckets_perm (g : α → Nat) (n : Nat) (xs : List α) :
    (((List.range n).map fun j => xs.filter (fun x => g x == j)).flatten).Perm
      (xs.filter (fun x => decide (g x < n))) := by
  induction n with
  | zero => simp
  | succ n ih =>
    simp only [List.range_succ, List.map_append, List.map_cons, List.map_nil, List.flatten_append,
      List.flatten_cons, List.flatten_nil, List.append_nil]
    exact (List.Perm.append_right _ ih).trans (filter_lt_succ_perm g n xs)

/-! ### zipWithUniqueId -/

theorem uid_inj (n k k' i i' : Nat) (hi : i < n) (hi' : i' < n)
    (h : k * n + i = k' * n + i') : k = k' ∧ i = i' := by
  have h1 : (k * n + i) % n = i := by rw [Nat.mul_comm, Nat.mul_add_mod]; exact Nat.mod_eq_of_lt hi
  have h2 : (k' * n + i') % n = i' := by rw [Nat.mul_comm, Nat.mul_add_mod]; exact Nat.mod_eq_of_lt hi'
  have hii : i = i' := by rw [← h1, ← h2, h]
  subst hii
  have h3 : k * n = k' * n := by omega
  exact ⟨Nat.eq_of_mul_eq_mul_right (by omega) h3, rfl⟩

/-- ids handed out by `zipWithUniqueId` with `n` partitions, to partitions numbered from `o` -/
def uidList (n o : Nat) (ps : Parts α) : List Nat :=
  (((ps.zipIdx o).map fun (p, i) => p.zipIdx.map fun (x, k) => (x, k * n + i)).flatten).map (·.2)

theorem uidList_cons (n o : Nat) (p : List α) (ps : Parts α) :
    uidList n o (p :: ps) = (List.range' 0 p.length).map (fun k => k * n + o) ++ uidList n (o + 1) ps := by
  simp only [uidList, List.zipIdx_cons, List.map_cons, List.flatten_cons, List.map_append, List.map_map]
  congr 1
  rw [← List.zipIdx_map_snd 0 p, List.map_map]
  rfl

theorem mem_uidList {n o : Nat} {ps : Parts α} {a : Nat} (h : a ∈ uidList n o ps) :
    ∃ k i, o ≤ i ∧ i < o + ps.length ∧ a = k * n + i := by
  induction ps generalizing o with
  | nil => simp [uidList] at h
  | cons p ps ih =>
    rw [uidList_cons, List.mem_append] at h
    rcases h with h | h
    · obtain ⟨k, _, rfl⟩ := List.mem_map.mp h
      exact ⟨k, o, Nat.le_refl _, by simp, rfl⟩
    · obtain ⟨k, i, h1, h2, h3⟩ := ih h
      exact ⟨k, i, by omega, by simp only [List.length_cons]; omega, h3⟩

theorem uidList_nodup (n o : Nat) (ps : Parts α) (h : o + ps.length ≤ n) : (uidList n o ps).Nodup := by
  induction ps generalizing o with
  | nil => simp [uidList]
  | cons p ps ih =>
    simp only [List.length_cons] at h
    rw [uidList_cons, List.nodup_append]
    refine ⟨?_, ih (o + 1) (by omega), ?_⟩
    · refine List.Pairwise.map _ ?_ (List.pairwise_lt_range' (s := 0) (n := p.length))
      intro a b hab heq
      have := Nat.mul_lt_mul_of_pos_right hab (show 0 < n by omega)
      omega
    · intro a ha b hb heq
      obtain ⟨k, _, rfl⟩ := List.mem_map.mp ha
      obtain ⟨k', i, h1, h2, rfl⟩ := mem_uidList hb
      have := (uid_inj n k k' o i (by omega) (by omega) heq).2
      omega

theorem zipWithUniqueId_fst (n o : Nat) (ps : Parts α) :
    (((ps.zipIdx o).map fun (p, i) => p.zipIdx.map fun (x, k) => (x, k * n + i)).flatten).map (·.1)
      = ps.flatten := by
  induction ps generalizing o with
  | nil => simp
  | cons p ps ih =>
    simp only [List.zipIdx_cons, List.map_cons, List.flatten_cons, List.map_append, ih, List.map_map]
    congr 1
    exact List.zipIdx_map_fst 0 p

/-! ### mapPartitionsWithIndex -/

theorem zipIdx_map_pair (o : Nat) (ps : Parts α) :
    (ps.zipIdx o).map (fun (p, i) => [(i, p)]) = ((List.range' o ps.length).zip ps).map (fun e => [e]) := by
  induction ps generalizing o with
  | nil => simp
  | cons p ps ih => simp [List.range'_succ, ih]

end PysparklingVerif.Rdd
