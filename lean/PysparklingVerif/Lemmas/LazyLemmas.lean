/-
  Helper lemmas for C06 (lazy pull-based evaluation model, Model/Lazy.lean).
-/
import PysparklingVerif.Model.Lazy
namespace PysparklingVerif.Lazy

variable {α : Type}

/-- every event of a full pass, in order -/
def allEvents (s : LStream α) : List (Ev α) := s.cells.flatMap (·.events) ++ s.trailing

/-- the outputs of a stream -/
def values (s : LStream α) : List α := s.cells.map (·.value)

/-- projection of an event log onto one stage -/
def proj (j : Nat) (evs : List (Ev α)) : List α := (evs.filter (·.stage == j)).map (·.arg)

/-- upstream events interleaved with one stage-`k` call per upstream cell -/
def stepEvents (k : Nat) (cells : List (Cell α)) : List (Ev α) :=
  cells.flatMap fun c => c.events ++ [⟨k, c.value⟩]

theorem pullAll_eq (s : LStream α) : pullAll s = (allEvents s, values s) := rfl

theorem proj_nil (j : Nat) : proj j ([] : List (Ev α)) = [] := rfl

theorem proj_append (j : Nat) (a b : List (Ev α)) : proj j (a ++ b) = proj j a ++ proj j b := by
  simp [proj, List.filter_append]

theorem proj_flatMap {β : Type} (j : Nat) (l : List β) (f : β → List (Ev α)) :
    proj j (l.flatMap f) = l.flatMap fun x => proj j (f x) := by
  induction l with
  | nil => rfl
  | cons x xs ih => simp [List.flatMap_cons, proj_append, ih]

theorem proj_prefix (j : Nat) {a b : List (Ev α)} (h : a <+: b) : proj j a <+: proj j b := by
  obtain ⟨t, rfl⟩ := h
  rw [proj_append]
  exact List.prefix_append _ _

theorem stepEvents_nil (k : Nat) : stepEvents k ([] : List (Cell α)) = [] := rfl

theorem stepEvents_cons (k : Nat) (c : Cell α) (cs : List (Cell α)) :
    stepEvents k (c :: cs) = c.events ++ [⟨k, c.value⟩] ++ stepEvents k cs := by
  simp [stepEvents]

/-! ### per-operator normal forms -/

theorem allEvents_lmap (k : Nat) (f : α → α) (s : LStream α) :
    allEvents (lmap k f s) = stepEvents k s.cells ++ s.trailing := by
  simp [allEvents, lmap, stepEvents, List.flatMap_map]

theorem values_lmap (k : Nat) (f : α → α) (s : LStream α) :
    values (lmap k f s) = (values s).map f := by
  simp [values, lmap]

theorem allEvents_lfilterAux (k : Nat) (p : α → Bool) :
    ∀ (cells : List (Cell α)) (pending trailing : List (Ev α)),
      allEvents (lfilterAux k p cells pending trailing) = pending ++ stepEvents k cells ++ trailing
  | [], pending, trailing => by simp [lfilterAux, allEvents, stepEvents]
  | c :: cs, pending, trailing => by
    have ih1 := allEvents_lfilterAux k p cs [] trailing
    have ih2 := allEvents_lfilterAux k p cs (pending ++ c.events ++ [⟨k, c.value⟩]) trailing
    simp only [lfilterAux]
    split
    · simp only [allEvents, List.flatMap_cons, List.nil_append] at ih1 ⊢
      rw [List.append_assoc, ih1, stepEvents_cons]
      simp [List.append_assoc]
    · rw [ih2, stepEvents_cons]
      simp [List.append_assoc]

theorem values_lfilterAux (k : Nat) (p : α → Bool) :
    ∀ (cells : List (Cell α)) (pending trailing : List (Ev α)),
      values (lfilterAux k p cells pending trailing) = (cells.map (·.value)).filter p
  | [], pending, trailing => by simp [lfilterAux, values]
  | c :: cs, pending, trailing => by
    have ih1 := values_lfilterAux k p cs [] trailing
    have ih2 := values_lfilterAux k p cs (pending ++ c.events ++ [⟨k, c.value⟩]) trailing
    simp only [lfilterAux]
    split
    · rename_i h
      simp only [values] at ih1 ⊢
      simp [h, ih1]
    · rename_i h
      rw [ih2]
      simp [h]

theorem allEvents_lflatMapAux (k : Nat) (f : α → List α) :
    ∀ (cells : List (Cell α)) (pending trailing : List (Ev α)),
      allEvents (lflatMapAux k f cells pending trailing) = pending ++ stepEvents k cells ++ trailing
  | [], pending, trailing => by simp [lflatMapAux, allEvents, stepEvents]
  | c :: cs, pending, trailing => by
    have ih1 := allEvents_lflatMapAux k f cs [] trailing
    have ih2 := allEvents_lflatMapAux k f cs (pending ++ c.events ++ [⟨k, c.value⟩]) trailing
    simp only [lflatMapAux]
    split
    · rw [ih2, stepEvents_cons]
      simp [List.append_assoc]
    · simp only [allEvents, List.flatMap_cons, List.nil_append, List.flatMap_append,
        List.cons_append] at ih1 ⊢
      have hz : ∀ (ys : List α), (List.map (fun y => (⟨[], y⟩ : Cell α)) ys).flatMap (·.events) = [] := by
        intro ys; induction ys with
        | nil => rfl
        | cons y ys ih => simp [List.flatMap_cons]
      rw [hz, List.nil_append, List.append_assoc, ih1, stepEvents_cons]
      simp [List.append_assoc]

theorem values_lflatMapAux (k : Nat) (f : α → List α) :
    ∀ (cells : List (Cell α)) (pending trailing : List (Ev α)),
      values (lflatMapAux k f cells pending trailing) = (cells.map (·.value)).flatMap f
  | [], pending, trailing => by simp [lflatMapAux, values]
  | c :: cs, pending, trailing => by
    have ih1 := values_lflatMapAux k f cs [] trailing
    have ih2 := values_lflatMapAux k f cs (pending ++ c.events ++ [⟨k, c.value⟩]) trailing
    simp only [lflatMapAux]
    split
    · rename_i h
      rw [ih2]
      simp [List.flatMap_cons, h]
    · rename_i y ys h
      simp only [values] at ih1 ⊢
      simp [List.flatMap_cons, h, ih1, List.map_map, Function.comp_def]

theorem allEvents_applyOp (k : Nat) (op : LOp α) (s : LStream α) :
    allEvents (applyOp k op s) = stepEvents k s.cells ++ s.trailing := by
  cases op with
  | map f => exact allEvents_lmap k f s
  | filter p => simp [applyOp, lfilter, allEvents_lfilterAux]
  | flatMap f => simp [applyOp, lflatMap, allEvents_lflatMapAux]

theorem values_applyOp (k : Nat) (op : LOp α) (s : LStream α) :
    values (applyOp k op s) = op.runList (values s) := by
  cases op with
  | map f => exact values_lmap k f s
  | filter p => exact values_lfilterAux k p s.cells [] s.trailing
  | flatMap f => exact values_lflatMapAux k f s.cells [] s.trailing

/-! ### projections of `stepEvents` -/

theorem mem_stepEvents {k : Nat} {cells : List (Cell α)} {e : Ev α} (h : e ∈ stepEvents k cells) :
    e ∈ cells.flatMap (·.events) ∨ e.stage = k := by
  simp only [stepEvents, List.mem_flatMap, List.mem_append, List.mem_singleton] at h ⊢
  obtain ⟨c, hc, h | h⟩ := h
  · exact Or.inl ⟨c, hc, h⟩
  · exact Or.inr (by rw [h])

theorem proj_stepEvents_ne {j k : Nat} (hjk : j ≠ k) (cells : List (Cell α)) :
    proj j (stepEvents k cells) = proj j (cells.flatMap (·.events)) := by
  induction cells with
  | nil => rfl
  | cons c cs ih =>
    rw [stepEvents_cons, List.flatMap_cons, proj_append, proj_append, proj_append, ih]
    have : proj j [(⟨k, c.value⟩ : Ev α)] = [] := by
      simp [proj, Ne.symm hjk]
    rw [this, List.append_nil]

theorem proj_eq_nil_of_ne {k : Nat} {evs : List (Ev α)} (h : ∀ e ∈ evs, e.stage ≠ k) :
    proj k evs = [] := by
  simp only [proj, List.map_eq_nil_iff, List.filter_eq_nil_iff]
  intro e he
  simpa using h e he

theorem proj_stepEvents_eq {k : Nat} (cells : List (Cell α))
    (h : ∀ e ∈ cells.flatMap (·.events), e.stage ≠ k) :
    proj k (stepEvents k cells) = cells.map (·.value) := by
  induction cells with
  | nil => rfl
  | cons c cs ih =>
    rw [List.flatMap_cons] at h
    rw [stepEvents_cons, proj_append, proj_append, ih (fun e he => h e (List.mem_append_right _ he)),
      proj_eq_nil_of_ne (fun e he => h e (List.mem_append_left _ he))]
    simp [proj]

theorem mem_allEvents_applyOp {k : Nat} {op : LOp α} {s : LStream α} {e : Ev α}
    (h : e ∈ allEvents (applyOp k op s)) : e ∈ allEvents s ∨ e.stage = k := by
  rw [allEvents_applyOp, List.mem_append] at h
  rcases h with h | h
  · rcases mem_stepEvents h with h | h
    · exact Or.inl (List.mem_append_left _ h)
    · exact Or.inr h
  · exact Or.inl (List.mem_append_right _ h)

theorem proj_applyOp_ne {j k : Nat} (hjk : j ≠ k) (op : LOp α) (s : LStream α) :
    proj j (allEvents (applyOp k op s)) = proj j (allEvents s) := by
  rw [allEvents_applyOp, proj_append, proj_stepEvents_ne hjk, allEvents, proj_append]

theorem proj_applyOp_eq {k : Nat} (op : LOp α) (s : LStream α)
    (h : ∀ e ∈ allEvents s, e.stage ≠ k) :
    proj k (allEvents (applyOp k op s)) = values s := by
  rw [allEvents_applyOp, proj_append,
    proj_stepEvents_eq _ (fun e he => h e (List.mem_append_left _ he)),
    proj_eq_nil_of_ne (fun e he => h e (List.mem_append_right _ he)), List.append_nil, values]

/-! ### `build` -/

theorem runListAll_nil (xs : List α) : runListAll [] xs = xs := rfl

theorem runListAll_cons (op : LOp α) (ops : List (LOp α)) (xs : List α) :
    runListAll (op :: ops) xs = runListAll ops (op.runList xs) := rfl

theorem values_build (ops : List (LOp α)) : ∀ (k0 : Nat) (s : LStream α),
    values (build ops k0 s) = runListAll ops (values s) := by
  induction ops with
  | nil => intro k0 s; rfl
  | cons op rest ih =>
    intro k0 s
    rw [build, ih, values_applyOp, runListAll_cons]

theorem stage_build (ops : List (LOp α)) : ∀ (k0 : Nat) (s : LStream α),
    (∀ e ∈ allEvents s, e.stage < k0) →
    ∀ e ∈ allEvents (build ops k0 s), e.stage < k0 + ops.length := by
  induction ops with
  | nil => intro k0 s h e he; exact h e he
  | cons op rest ih =>
    intro k0 s h e he
    rw [build] at he
    have := ih (k0 + 1) (applyOp k0 op s) (by
      intro e' he'
      rcases mem_allEvents_applyOp he' with h' | h'
      · exact Nat.lt_succ_of_lt (h e' h')
      · omega) e he
    simp only [List.length_cons]
    omega

theorem proj_build_lt (ops : List (LOp α)) : ∀ (k0 : Nat) (s : LStream α) (j : Nat), j < k0 →
    proj j (allEvents (build ops k0 s)) = proj j (allEvents s) := by
  induction ops with
  | nil => intro k0 s j _; rfl
  | cons op rest ih =>
    intro k0 s j hj
    rw [build, ih (k0 + 1) _ j (by omega), proj_applyOp_ne (by omega)]

theorem proj_build_ge (ops : List (LOp α)) : ∀ (k0 : Nat) (s : LStream α) (j : Nat),
    (∀ e ∈ allEvents s, e.stage < k0) → k0 ≤ j → j < k0 + ops.length →
    proj j (allEvents (build ops k0 s)) = runListAll (ops.take (j - k0)) (values s) := by
  induction ops with
  | nil => intro k0 s j _ h1 h2; simp at h2; omega
  | cons op rest ih =>
    intro k0 s j h h1 h2
    rw [build]
    by_cases hj : j = k0
    · subst hj
      rw [proj_build_lt _ _ _ _ (by omega), proj_applyOp_eq _ _ (fun e he => by have := h e he; omega)]
      simp [runListAll_nil]
    · have hs : ∀ e ∈ allEvents (applyOp k0 op s), e.stage < k0 + 1 := by
        intro e' he'
        rcases mem_allEvents_applyOp he' with h' | h'
        · exact Nat.lt_succ_of_lt (h e' h')
        · omega
      rw [ih (k0 + 1) _ j hs (by omega) (by simp only [List.length_cons] at h2; omega),
        values_applyOp]
      have : j - k0 = (j - (k0 + 1)) + 1 := by omega
      rw [this, List.take_succ_cons, runListAll_cons]

theorem allEvents_source (p : List α) : allEvents (source p) = [] := by
  simp only [allEvents, source, List.append_nil]
  induction p with
  | nil => rfl
  | cons x xs ih => simp [List.flatMap_cons]

theorem values_source (p : List α) : values (source p) = p := by
  simp [values, source, Function.comp_def]

/-! ### `pullN` / `takeChain` -/

theorem pullN_of_le {n : Nat} {s : LStream α} (h : n ≤ s.cells.length) :
    pullN n s = ((s.cells.take n).flatMap (·.events), (s.cells.take n).map (·.value)) := by
  simp [pullN, h]

theorem pullN_of_gt {n : Nat} {s : LStream α} (h : s.cells.length < n) :
    pullN n s = pullAll s := by
  simp [pullN, Nat.not_le.mpr h]

theorem take_flatMap_prefix (n : Nat) (s : LStream α) :
    (s.cells.take n).flatMap (·.events) <+: allEvents s := by
  unfold allEvents
  conv => rhs; rw [← List.take_append_drop n s.cells, List.flatMap_append, List.append_assoc]
  exact List.prefix_append _ _

theorem pullN_fst_prefix (n : Nat) (s : LStream α) : (pullN n s).1 <+: allEvents s := by
  by_cases h : n ≤ s.cells.length
  · rw [pullN_of_le h]; exact take_flatMap_prefix n s
  · rw [pullN_of_gt (Nat.not_le.mp h)]; exact List.prefix_refl _

theorem pullN_snd (n : Nat) (s : LStream α) : (pullN n s).2 = (values s).take n := by
  by_cases h : n ≤ s.cells.length
  · rw [pullN_of_le h]; simp [values, List.map_take]
  · rw [pullN_of_gt (Nat.not_le.mp h)]
    simp only [pullAll_eq]
    rw [List.take_of_length_le]
    simp [values]; omega

theorem takeChain_zero (ss : List (LStream α)) : takeChain 0 ss = ([], []) := by
  cases ss <;> rfl

theorem takeChain_nil (n : Nat) : takeChain n ([] : List (LStream α)) = ([], []) := by
  cases n <;> rfl

theorem takeChain_of_le {n : Nat} {s : LStream α} (rest : List (LStream α))
    (h : n + 1 ≤ s.cells.length) :
    takeChain (n + 1) (s :: rest) =
      ((s.cells.take (n + 1)).flatMap (·.events), (s.cells.take (n + 1)).map (·.value)) := by
  simp only [takeChain, pullN_of_le h]
  have : ¬ (List.map (fun x => x.value) (List.take (n + 1) s.cells)).length < n + 1 := by
    simp [List.length_take]; omega
  simp only [this, if_false]

theorem takeChain_of_gt {n : Nat} {s : LStream α} (rest : List (LStream α))
    (h : s.cells.length < n + 1) :
    takeChain (n + 1) (s :: rest) =
      (allEvents s ++ (takeChain (n + 1 - s.cells.length) rest).1,
        values s ++ (takeChain (n + 1 - s.cells.length) rest).2) := by
  simp only [takeChain, pullN_of_gt h, pullAll_eq]
  have : (values s).length < n + 1 := by simpa [values] using h
  simp only [this, if_true]
  simp [values]

end PysparklingVerif.Lazy
