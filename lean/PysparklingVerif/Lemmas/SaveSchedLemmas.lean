/-
  Helper lemmas for C03 (jobs with side effects) about the model in Model/SaveSched.lean: an invariant of the thread
  pool that holds under every schedule, indexed by the part of the schedule already processed.
-/
import PysparklingVerif.Model.SaveSched
namespace PysparklingVerif.SaveSched

/-! ### the file system -/

theorem lookup_filter_append (l : List (Nat × List Nat)) (i j : Nat) (d : List Nat) :
    (l.filter (·.1 != j) ++ [(j, d)]).lookup i = if i = j then some d else l.lookup i := by
  induction l with
  | nil =>
      by_cases h : i = j
      · subst h; simp
      · have h' : (i == j) = false := by simpa using h
        simp [List.lookup, h, h']
  | cons a l ih =>
      obtain ⟨k, v⟩ := a
      by_cases hk : k = j
      · subst hk
        by_cases h : i = k
        · subst h; simpa [List.filter_cons] using ih
        · have h' : (i == k) = false := by simpa using h
          simpa [List.filter_cons, List.lookup_cons, h, h'] using ih
      · have hk' : (k != j) = true := by simpa using hk
        by_cases h : i = j
        · subst h
          have h' : (i == k) = false := by simpa using (Ne.symm hk)
          simpa [List.filter_cons, hk', List.lookup_cons, h'] using ih
        · by_cases h2 : i = k
          · subst h2; simp [hk', h]
          · have h' : (i == k) = false := by simpa using h2
            simpa [List.filter_cons, hk', List.lookup_cons, h', h] using ih

theorem lookup_writeFile (fs : FS) (i j : Nat) (d : List Nat) :
    (writeFile fs j d).files.lookup i = if i = j then some d else fs.files.lookup i := by
  simp only [writeFile]; exact lookup_filter_append _ _ _ _

/-! ### progress of a task -/

/-- how far a task's program has got -/
def rank : Pc → Nat
  | .start => 0
  | .tested _ => 1
  | .ready => 2
  | .done => 3
  | .failed => 4

/-- the invariant: `pre` is the part of the schedule processed so far -/
structure Inv (parts : List (List Nat)) (pre : List Nat) (s : Sys) : Prop where
  len : s.tasks.length = parts.length
  task : ∀ i t, s.tasks[i]? = some t →
    t.idx = i ∧ parts[i]? = some t.data ∧ rank t.pc = min 3 (pre.count i) ∧
      s.fs.files.lookup i = if t.pc = .done then some t.data else none
  out : ∀ i, parts.length ≤ i → s.fs.files.lookup i = none

theorem inv_init (parts : List (List Nat)) : Inv parts [] (initSys parts) := by
  refine ⟨by simp [initSys], ?_, by simp [initSys]⟩
  intro i t h
  simp only [initSys, List.getElem?_map, List.getElem?_zipIdx, Option.map_map] at h
  cases hp : parts[i]? with
  | none => simp [hp] at h
  | some d =>
      simp [hp] at h
      subst h
      simp [rank, initSys]

theorem inv_step (parts : List (List Nat)) (pre : List Nat) (s : Sys) (j : Nat) (h : Inv parts pre s) :
    Inv parts (pre ++ [j]) (Sys.step stepNew s j) := by
  unfold Sys.step
  cases hj : s.tasks[j]? with
  | none =>
      refine ⟨h.len, ?_, h.out⟩
      intro i t hi
      have hne : i ≠ j := by intro e; subst e; rw [hj] at hi; cases hi
      have hne' : (j == i) = false := by simpa using (Ne.symm hne)
      have := h.task i t hi
      simpa [List.count_append, List.count_cons, hne'] using this
  | some tj =>
      obtain ⟨hidx, hdata, hrank, hfile⟩ := h.task j tj hj
      have hjlt : j < s.tasks.length := by
        have := (List.getElem?_eq_some_iff.mp hj).1; exact this
      have hjlt' : j < parts.length := h.len ▸ hjlt
      -- facts about the new file system, whatever the pc
      have hfs : ∀ i, i ≠ j → (stepNew s.fs tj).1.files.lookup i = s.fs.files.lookup i := by
        intro i hne
        unfold stepNew
        split <;> simp [lookup_writeFile, hidx, hne]
      refine ⟨by simp [h.len], ?_, ?_⟩
      · intro i t hi
        by_cases hne : i = j
        · subst hne
          simp only [List.getElem?_set_self hjlt, Option.some.injEq] at hi
          subst hi
          have hc : (pre ++ [i]).count i = pre.count i + 1 := by simp [List.count_append]
          rw [hc]
          cases hpc : tj.pc with
          | start =>
              rw [hpc] at hrank hfile
              simp [rank] at hrank
              simp [stepNew, hpc, rank]
              refine ⟨hidx, hdata, by omega, ?_⟩
              simpa using hfile
          | tested b =>
              rw [hpc] at hrank hfile
              simp [rank] at hrank
              cases b <;> simp [stepNew, hpc, rank] <;>
                exact ⟨hidx, hdata, by omega, by simpa using hfile⟩
          | ready =>
              rw [hpc] at hrank hfile
              simp [rank] at hrank
              simp [stepNew, hpc, rank, lookup_writeFile]
              exact ⟨hidx, hdata, by omega⟩
          | done =>
              rw [hpc] at hrank hfile
              simp [rank] at hrank
              simp [stepNew, hpc, rank]
              exact ⟨hidx, hdata, by omega, by simpa using hfile⟩
          | failed =>
              rw [hpc] at hrank
              simp [rank] at hrank
              omega
        · have hi' : s.tasks[i]? = some t := by
            simpa [List.getElem?_set_ne (Ne.symm hne)] using hi
          have hne' : (j == i) = false := by simpa using (Ne.symm hne)
          have := h.task i t hi'
          simp only [hfs i hne]
          simpa [List.count_append, List.count_cons, hne'] using this
      · intro i hi
        have hne : i ≠ j := by omega
        simp only [hfs i hne]
        exact h.out i hi

theorem inv_run (parts : List (List Nat)) (sched pre : List Nat) (s : Sys) (h : Inv parts pre s) :
    Inv parts (pre ++ sched) (run stepNew sched s) := by
  induction sched generalizing pre s with
  | nil => simpa [run] using h
  | cons j sched ih =>
      have := ih (pre ++ [j]) (Sys.step stepNew s j) (inv_step parts pre s j h)
      simpa [run, List.append_assoc] using this

theorem rank_eq_three {pc : Pc} (h : rank pc = 3) : pc = .done := by
  cases pc <;> simp [rank] at h ⊢

/-- what the invariant gives at the end of a complete schedule -/
theorem inv_complete (parts : List (List Nat)) (sched : List Nat) (s : Sys)
    (h : Inv parts sched s) (hc : Complete parts.length sched) :
    s.tasks.all (fun t => t.pc == Pc.done) = true ∧ ∀ i, s.fs.files.lookup i = parts[i]? := by
  have hdone : ∀ (i : Nat) (t : Task), s.tasks[i]? = some t → t.pc = Pc.done := by
    intro i t hi
    have hlt : i < parts.length := by
      have := (List.getElem?_eq_some_iff.mp hi).1; exact h.len ▸ this
    have := (h.task i t hi).2.2.1
    have h3 := hc i hlt
    apply rank_eq_three
    omega
  constructor
  · rw [List.all_eq_true]
    intro t ht
    obtain ⟨i, hi⟩ := List.getElem?_of_mem ht
    simp [hdone i t hi]
  · intro i
    by_cases hlt : i < parts.length
    · have hlt' : i < s.tasks.length := h.len ▸ hlt
      have hi : s.tasks[i]? = some s.tasks[i] := List.getElem?_eq_getElem hlt'
      obtain ⟨_, hdata, _, hfile⟩ := h.task i _ hi
      rw [hfile, hdone i _ hi, hdata]; simp
    · have : parts.length ≤ i := by omega
      rw [h.out i this]
      simp [List.getElem?_eq_none this]

/-! ### the in-process executor's schedule is complete -/

theorem complete_sequential (n : Nat) : Complete n ((List.range n).flatMap fun i => [i, i, i]) := by
  induction n with
  | zero => intro i hi; omega
  | succ n ih =>
      intro i hi
      rw [List.range_succ, List.flatMap_append, List.count_append]
      by_cases h : i < n
      · have := ih i h; omega
      · have : i = n := by omega
        subst this
        simp

end PysparklingVerif.SaveSched
